"""C15 - configuration loading: precedence of sources, then validation (specs/config/ConfigPrecedence.tla, ConfigTrace.tla)."""
import os
import random

import vlib
from props import common
from props.c04 import judge

SPEC = os.path.join(vlib.SPECS, "config")
LEVEL = "model_checking"


def describe(e):
    if e.get("op") == "EnvNames":
        return "prefix %r: reported %s, rule %s, not honoured %s, wrong field %s" % (e["prefix"], e["reported"], e["model"], e["notHonoured"], e["wrongField"])
    return "prefix %r, file %s, flag %s: %s; invalidated %s%s -> err %r (names the field: %s) %s" % (
        e.get("prefix"), e.get("format") or "none", e.get("flagForm"),
        [(".".join(s["path"]), "sources " + "+".join(s["sources"]), "expected " + s["winner"], "loaded from " + s["loadedFrom"], s["loaded"]) for s in e.get("subjects", [])],
        ".".join(e.get("invalid", [])) or "nothing", " (its whole section left unset)" if e.get("unsetSection") else "", e.get("err"), e.get("namesField"), (e.get("msg") or "")[:200])


def run(chk, scratch):
    thorough = chk.tier == "thorough"
    vh = vlib.build_harness()
    r = vlib.run_tlc(scratch, [SPEC], "ConfigPrecedence", "ConfigPrecedence.cfg", workers=1, timeout=900, fast=True)
    vlib.tlc_must_pass(r, "ConfigPrecedence")
    if r.violated:
        raise vlib.Inconclusive("ConfigPrecedence.tla violates %s: the specification is wrong" % r.violated)
    rs = vlib.run_tlc(scratch, [SPEC], "ConfigPrecedence", "ConfigPrecedence_skipunset.cfg", workers=2, timeout=300, fast=True, parse_behaviours=False)
    vlib.tlc_must_pass(rs, "ConfigPrecedence_skipunset")
    chk.add_tlc("ConfigPrecedence with validation skipping sections left entirely unset (must violate EveryLevelValidated)", rs)
    if rs.violated != "EveryLevelValidated":
        raise vlib.Inconclusive("sensitivity self-test failed: ConfigPrecedence_skipunset.cfg reported %s" % rs.violated)
    chk.add_tlc("ConfigPrecedence: subject fields x present sources x invalidated field x prefix, with winners and environment names", r)
    scen = r.behaviours
    chk.cov["model_scenarios"] = len(scen)
    rnd = random.Random(chk.seed)
    if not thorough:
        single = [s for s in scen if len(s["subjects"]) == 1]
        pairs = [s for s in scen if len(s["subjects"]) == 2]
        scen = rnd.sample(single, 900) + rnd.sample(pairs, 600) + rnd.sample([s for s in single if s["unsetSection"]], 60) + rnd.sample([s for s in single if s["flagForm"] != "single"], 240) + rnd.sample([s for s in single if s["foreign"]], 200) + rnd.sample([s for s in single if s["zeroDefaults"]], 200)
    chk.sample({"scenario": {k: scen[0][k] for k in ("prefix", "subjects", "invalid")}})
    inp = os.path.join(scratch, "c15-scen.ndjson")
    vlib.write_ndjson(inp, scen)
    tr = os.path.join(scratch, "c15-trace.ndjson")
    p = vlib.run_vh(vh, ["c15", "replay", "--in", inp, "--out", tr, "--dir", scratch, "--seed", chk.seed], timeout=3000)
    if p.returncode != 0:
        raise vlib.Inconclusive("c15 replay driver failed: " + p.stderr[-2000:])
    ev = judge(chk, scratch, tr, "configuration loads", spec="ConfigTrace", describe=describe, spec_dir=SPEC)
    loads = [e for e in ev if e["op"] == "Load"]
    chk.nontrivial += sum(1 for e in loads if any(len(s["sources"]) > 1 for s in e["subjects"]) or e["invalid"])
    chk.cov["loads"] = len(loads)
    chk.cov["loads_with_invalidated_field"] = sum(1 for e in loads if e["invalid"])
    chk.cov["loads_with_a_whole_section_left_unset"] = sum(1 for e in loads if e.get("unsetSection"))
    chk.cov["prefixes_for_environment_names"] = sorted({e["prefix"] for e in ev if e["op"] == "EnvNames"})
    chk.sample({"load": {k: loads[0][k] for k in ("prefix", "subjects", "invalid", "err")}})
    chk.cov["rule"] = ("scenario = one or two leaf fields of a three-level structure (string, int, duration, float; keys with '_', '-' and digits) x the subset of {explicit flag, environment variable, "
                       "file, default structure, flag default} holding a (distinct, non-empty) value x a required field emptied at depth 1..3 x prefix spelling; real viper session, pflag set bound with "
                       "BindFlagToEnv (name with or without the prefix), process environment, YAML or JSON file; per prefix the names of DetermineConfigurationEnvironmentVariables are set one by one; "
                       "non-trivial = more than one source present or a field invalidated")
    chk.assumptions += ["all source values are non-empty (the documentation treats empty defaults specially)",
                        "the process environment is cleared by the harness and only it sets variables"]
