"""C18 - subprocess results are faithful (specs/proc/OutputStream.tla, OutputStreamTrace.tla)."""
import os
import random

import vlib
from props import common
from props.c04 import judge

SPEC = os.path.join(vlib.SPECS, "proc")
LEVEL = "model_checking"


def describe(e):
    lines = [m for m in e.get("log", []) if m and m[0] == "line"]
    return "child wrote o=%s e=%s (%d bytes), ended %s%s -> result %s %s; messages %s; Output o=%s e=%s (%s) %s" % (
        str(e.get("o"))[:120], str(e.get("e"))[:120], e.get("bytes", 0), e.get("exit"), " (cancelled)" if e.get("cancelled") else "", e.get("result"), e.get("kind"),
        str([m if m[0] != "line" else [m[1], m[2]] for m in e.get("log", [])])[:400], str(e.get("outputO"))[:120], str(e.get("outputE"))[:120], e.get("outputResult"), e.get("note", ""))


def run(chk, scratch):
    thorough = chk.tier == "thorough"
    vh = vlib.build_harness()
    # 1. the design with a line-assembling adapter satisfies every property; the per-chunk adapter splits lines
    common.model_check(chk, scratch, SPEC, "OutputStream", "OutputStream_buffered.cfg", "OutputStream with the buffered adapter: every script of <= 4 tokens, every chunking, every exit", workers=8, fast=True)
    r = vlib.run_tlc(scratch, [SPEC], "OutputStream", "OutputStream_perchunk.cfg", workers=2, timeout=300, fast=True)
    vlib.tlc_must_pass(r, "OutputStream_perchunk")
    chk.add_tlc("OutputStream with the per-chunk adapter (must violate LinesComplete)", r)
    if r.violated != "LinesComplete":
        raise vlib.Inconclusive("sensitivity self-test failed: OutputStream_perchunk.cfg reported %s" % r.violated)
    # 2. scenarios (script x chunking x exit) replayed with real children
    r2 = vlib.run_tlc(scratch, [SPEC], "OutputStream", "OutputStream_emit.cfg", workers=1, timeout=900, fast=True)
    vlib.tlc_must_pass(r2, "OutputStream_emit")
    if r2.violated:
        raise vlib.Inconclusive("OutputStream_emit reported %s" % r2.violated)
    chk.add_tlc("OutputStream scenario emission (<= 5 tokens)", r2)
    scen = r2.behaviours
    chk.cov["model_scenarios"] = len(scen)
    rnd = random.Random(chk.seed)
    straddle = [s for s in scen if len(s["chunksO"]) > 1 or len(s["chunksE"]) > 1]
    canc = [s for s in scen if s["cancelled"]]
    pick = rnd.sample(straddle, 1500 if thorough else 110) + rnd.sample(canc, 300 if thorough else 25) + rnd.sample(scen, 700 if thorough else 40)
    chk.sample({"scenario": pick[0]})
    inp = os.path.join(scratch, "c18-scen.ndjson")
    vlib.write_ndjson(inp, pick)
    tr = os.path.join(scratch, "c18-trace.ndjson")
    p = vlib.run_vh(vh, ["c18", "replay", "--in", inp, "--out", tr, "--dir", scratch, "--seed", chk.seed], timeout=3000)
    if p.returncode != 0:
        raise vlib.Inconclusive("c18 replay driver failed: " + p.stderr[-2000:])
    ev = judge(chk, scratch, tr, "children following the model's scripts", spec="OutputStreamTrace", describe=describe, spec_dir=SPEC)
    chk.nontrivial += sum(1 for e in ev if e["o"] or e["e"])
    # 3. volume, long lines, arbitrary write sizes, every exit status
    tr2, _ = common.record(vh, scratch, "c18", "c18-fuzz.ndjson", chk.seed, chk.tier, mode="fuzz", n=(200 if thorough else 24), timeout=3000)
    ev2 = judge(chk, scratch, tr2, "children with seeded scripts", spec="OutputStreamTrace", describe=describe, spec_dir=SPEC)
    chk.nontrivial += len(ev2)
    chk.cov["largest_output_bytes"] = max(e["bytes"] for e in ev2)
    chk.cov["cancelled_runs"] = sum(1 for e in ev if e["cancelled"])
    chk.sample({"exec": {k: ev[0][k] for k in ("o", "e", "exit", "cancelled", "result", "log")}})
    chk.cov["rule"] = ("scenario = tokens (text pieces, newlines) written on the two streams x the chunks in which they reach the parent (one write(2) per chunk, 30 ms apart) x end (exit 0, "
                       "non-zero code, signal, cancelled while hanging), all enumerated by TLC up to 5 tokens; the child is the harness binary re-executed; seeded scripts up to 1 MB with lines up to "
                       "100 000 bytes and writes cut anywhere; Execute with start/success/failure messages and Output(); non-trivial = the child wrote something")
    chk.assumptions += ["two writes 30 ms apart reach the parent in two reads (if they do not the run only tests less)",
                        "a cancelled child may be killed before the parent has read everything: for cancelled runs the messages must be a prefix of the lines"]
