"""C17 - stale-lock detection is sound (specs/lock/LockFileTimed.tla, LockTimedTrace.tla)."""
import os

import vlib
from props import common

SPEC = os.path.join(vlib.SPECS, "lock")
LEVEL = "model_checking"


def run(chk, scratch):
    thorough = chk.tier == "thorough"
    vh = vlib.build_harness()
    # 1. timed model: live => never stale (writer less than a period late), dead => stale within 2P+J
    common.model_check(chk, scratch, SPEC, "LockFileTimed", "LockFileTimed.cfg", "LockFileTimed P=4 J=2 horizon 40, every death instant", workers=8, fast=True)
    r = vlib.run_tlc(scratch, [SPEC], "LockFileTimed", "LockFileTimed_late.cfg", workers=4, timeout=300, fast=True)
    vlib.tlc_must_pass(r, "LockFileTimed_late")
    chk.add_tlc("LockFileTimed with a writer later than a period (must violate LiveNeverStale)", r)
    if r.violated != "LiveNeverStale":
        raise vlib.Inconclusive("sensitivity self-test failed: LockFileTimed_late.cfg reported %s" % r.violated)
    r = vlib.run_tlc(scratch, [SPEC], "LockFileTimed", "LockFileTimed_stopwriter.cfg", workers=4, timeout=300, fast=True)
    vlib.tlc_must_pass(r, "LockFileTimed_stopwriter")
    chk.add_tlc("LockFileTimed with a heartbeat writer that gives up at its first failed write (must violate LiveNeverStale)", r)
    if r.violated != "LiveNeverStale":
        raise vlib.Inconclusive("sensitivity self-test failed: LockFileTimed_stopwriter.cfg reported %s" % r.violated)
    r = vlib.run_tlc(scratch, [SPEC], "LockFileTimed", "LockFileTimed_sweep.cfg", workers=4, timeout=300, fast=True)
    vlib.tlc_must_pass(r, "LockFileTimed_sweep")
    chk.add_tlc("LockFileTimed with a ReleaseIfStale by the holder itself that stops its heartbeat (must violate LiveNeverStale)", r)
    if r.violated != "LiveNeverStale":
        raise vlib.Inconclusive("sensitivity self-test failed: LockFileTimed_sweep.cfg reported %s" % r.violated)
    r = vlib.run_tlc(scratch, [SPEC], "LockFileTimed", "LockFileTimed_listfail.cfg", workers=4, timeout=300, fast=True)
    vlib.tlc_must_pass(r, "LockFileTimed_listfail")
    chk.add_tlc("LockFileTimed with an observer that falls back on the directory's age when its listing fails (must violate LiveNeverReportedStale)", r)
    if r.violated != "LiveNeverReportedStale":
        raise vlib.Inconclusive("sensitivity self-test failed: LockFileTimed_listfail.cfg reported %s" % r.violated)
    # 2. every death point of the holder (after each backend call of the acquisition and of the first heartbeat cycles),
    #    forced through the gate on both backends in model time
    dp, _ = common.record(vh, scratch, "c17", "deathpoints.ndjson", chk.seed, chk.tier, mode="deathpoints", timeout=900)
    # 3. real time on the OS backend: long holds under load, concurrent observers, deaths and recovery
    rounds = 40 if thorough else 6
    rt, _ = common.record(vh, scratch, "c17", "realtime.ndjson", chk.seed, chk.tier, mode="realtime", n=rounds, timeout=3000)
    # 4. take-over, then hold: the lock an overriding contender won from a dead holder is held; four periods later another overriding contender must be refused
    th = os.path.join(scratch, "c17-takeover.ndjson")
    p = vlib.run_vh(vh, ["c17", "takeoverhold", "--out", th, "--dir", scratch, "--seed", chk.seed, "--n", 12 if thorough else 4], timeout=600)
    if p.returncode != 0:
        raise vlib.Inconclusive("c17 takeoverhold driver failed: " + (p.stderr or "")[-1500:])
    trace = os.path.join(scratch, "c17-trace.ndjson")
    with open(trace, "w") as out:
        out.write(open(dp).read())
        out.write("".join(line for line in open(rt) if '"op":"End"' not in line))
        out.write(open(th).read())
        out.write('{"op":"End"}\n')
    total = sum(1 for line in open(trace) if line.strip())
    r = vlib.run_tlc(scratch, [SPEC], "LockTimedTrace", "LockTimedTrace.cfg", workers=1, timeout=1800, deadlock=False,
                     extra_files=[(trace, "trace.ndjson")], fast=True)
    if r.error:
        raise vlib.Inconclusive("TLC error judging the C17 traces: " + r.error)
    chk.add_tlc("death points + real-time rounds judged by LockTimedTrace", r)
    matched = [v for t, v in r.printed if t == "TRACE_MATCHED"]
    if not matched or int(matched[-1]) != total:
        raise vlib.Inconclusive("trace projection and LockTimedTrace.tla disagree at event %s of %d" % (matched, total))
    events = vlib.read_ndjson(trace)
    valid = discarded = 0
    suspects, rounds = [], 0
    for tag, v in r.printed:
        if tag != "VERDICT":
            continue
        chk.evaluations += 1
        chk.traces += 1
        valid += v["valid"]
        discarded += v["discarded"]
        if v["valid"] > 1 or v["id"] >= 1000:
            chk.nontrivial += 1
        if v["id"] < 1000:
            rounds += 1
        if v["id"] >= 5000:
            chk.cov["take_over_then_hold_rounds"] = chk.cov.get("take_over_then_hold_rounds", 0) + 1
        for s in v["viol"]:
            if s == "suspect-live-lock-heartbeat-late":
                suspects.append(v["id"])
                continue
            if v["id"] >= 5000:
                chk.violation(s, "take-over then hold: %s" % events[v["id"] - 5001], {"events": [events[v["id"] - 5001]]})
                continue
            ctx = [e for e in events if e.get("id") == v["id"] and e.get("op") != "Ctl"] if v["id"] < 1000 else [events[v["id"] - 1001]]
            if v["id"] < 1000:
                died = [e["t"] for e in ctx if e.get("op") == "Died"]
                if died:   # keep what matters: everything from shortly before the death on
                    ctx = [e for e in ctx if e.get("op") in ("Start", "Died", "Recover") or max(e.get("t", 0), e.get("start", 0)) > died[0] - 300000]
            chk.violation(s, "round/death point %d: %s" % (v["id"], s), {"events": ctx})
    # one late beat while the control heartbeat was on time is what a sporadic stall of a single goroutine looks like;
    # a library that does not keep its period shows it round after round
    chk.cov["suspect_rounds_live_lock_judged_stale"] = len(suspects)
    if len(suspects) >= max(2, (rounds + 3) // 4):
        ctx = [e for e in events if e.get("id") == suspects[0] and e.get("op") in ("Start", "Acquired", "Sign", "Died", "Stats")][:60]
        chk.violation("live-lock-heartbeat-late", "a live lock was judged stale although the control heartbeat kept its period, in %d of %d real-time rounds (rounds %s)"
                      % (len(suspects), rounds, suspects[:10]), {"events": ctx})
    chk.cov["polls_valid"] = valid
    chk.cov["discarded_overloaded"] = discarded
    chk.cov["trace_events_validated"] = total
    if valid + discarded > 0 and discarded > valid:
        raise vlib.Inconclusive("more than half of the real-time windows were overloaded (control heartbeat late)")
    chk.sample({"death_point": events[3]})
    chk.sample({"poll": next(e for e in events if e.get("op") == "Poll")})
    chk.cov["rule"] = ("death point = holder stopped after its k-th backend call (k = 0..25, acquisition + heartbeat cycles) on each backend; real-time round = one holder "
                       "keeping the lock for 6..300 periods on the OS filesystem under 0..16 load goroutines with 1..8 observers polling IsStale / ReleaseIfStale / TryLock, "
                       "then dying or releasing; non-trivial = every death point and every round with polls")
    chk.assumptions += ["a stale report on a live lock counts as the library's fault only while the harness's control heartbeat (same backend calls, same period) kept its period; other windows are discarded and counted",
                        "60 ms slack on 'dead => reported stale' (millisecond truncation, time stamp granularity, scheduling)"]
