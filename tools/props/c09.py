"""C09 - cancellation is honoured everywhere; context-aware I/O yields exact prefixes (specs/io/SafeIO.tla, FsCancel.tla)."""
import json
import os

import vlib
from props import common
from props.c04 import judge

SPEC = os.path.join(vlib.SPECS, "io")
LEVEL = "model_checking"


def describe(e):
    return json.dumps(e)[:500]


def run(chk, scratch):
    thorough = chk.tier == "thorough"
    vh = vlib.build_harness()
    # loop model: a context test per item bounds the work after cancellation independently of the amount of work
    common.model_check(chk, scratch, SPEC, "FsCancel", "FsCancel.cfg", "FsCancel: context tested once per item", workers=2, fast="tiny")
    r = vlib.run_tlc(scratch, [SPEC], "FsCancel", "FsCancel_nocheck.cfg", workers=2, timeout=120, fast="tiny")
    vlib.tlc_must_pass(r, "FsCancel_nocheck")
    chk.add_tlc("FsCancel without context test (must violate BoundIndependentOfN)", r)
    if r.violated != "BoundIndependentOfN":
        raise vlib.Inconclusive("sensitivity self-test failed: FsCancel_nocheck.cfg reported %s" % r.violated)
    # scenario classes of the I/O helpers
    classes = common.emit_behaviours(chk, scratch, SPEC, "SafeIOClasses", "SafeIOClasses.cfg", "I/O helper scenario classes", fast=True)
    chk.sample({"io_class": classes[len(classes) // 2]})
    inp = os.path.join(scratch, "c09-classes.ndjson")
    vlib.write_ndjson(inp, classes)
    io = os.path.join(scratch, "c09-io.ndjson")
    p = vlib.run_vh(vh, ["c09", "io", "--in", inp, "--out", io, "--seed", chk.seed, "--tier", chk.tier], timeout=1800)
    if p.returncode != 0:
        raise vlib.Inconclusive("c09 io driver failed: " + p.stderr[-2000:])
    ev = judge(chk, scratch, io, "context-aware I/O helpers", spec="SafeIOTrace", describe=describe)
    chk.nontrivial += len(ev)
    # cancellation sweep over the context-accepting filesystem entry points
    ca, _ = common.record(vh, scratch, "c09", "c09-cancel.ndjson", chk.seed, chk.tier, mode="cancel", timeout=3000)
    ev2 = judge(chk, scratch, ca, "cancellation of filesystem entry points", spec="SafeIOTrace", describe=describe)
    chk.nontrivial += len(ev2)
    worst = {}
    for e in ev2:
        if not e["pre"]:
            worst[e["entry"]] = max(worst.get(e["entry"], 0), e["callsAfter"])
    chk.cov["max_backend_calls_after_cancellation_by_entry_point"] = worst
    chk.sample({"cancel_event": ev2[1]})
    chk.cov["rule"] = ("I/O class = operation x source length 0..4 units x maximum / n (-1..6) x reader chunking (one read, unit-wise, zero-length reads, half units, WriterTo) x reader failure position x "
                       "done-before / cancelled-inside-read-k; each class runs with unit = 1 byte and a sample with unit = 9001 bytes (32 KiB buffer crossed) and 256 KiB (thorough); cancellation run = "
                       "16 entry points x trees of 100 and 400 entries x backend x cancellation before the call and after the k-th backend call (k = 1, middle, seeded random)")
    chk.assumptions += ["B = 32 backend calls after the context ended (measured on the unchanged tree: <= 8 except the fan-out of the garbage collection)",
                        "handles are counted once fan-out workers had 200 ms to end"]
