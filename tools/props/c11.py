"""C11 - error kinds survive wrapping and serialisation (specs/data/ErrorKinds.tla)."""
import os

import vlib
from props import common

SPEC = os.path.join(vlib.SPECS, "data")
LEVEL = "model_checking"


def sig_of(ev, events, idx):
    op = ev.get("op")
    if op == "Convert":
        return "converter-%s-%s-unstable" % (ev.get("conv"), ev.get("cond"))
    if op == "Join":
        return "join-kinds-changed"
    if op == "RoundTrip":
        if set(ev.get("kindsMid", [])) != {ev.get("kindIn")}:
            return "kind-not-recognised"
        if set(ev.get("kindsOut", [])) != {ev.get("kindIn")} or ev.get("nil"):
            return "kind-lost-in-serialisation"
        return "reason-changed"
    return "trace-rejected-" + str(op)


def run(chk, scratch):
    thorough = chk.tier == "thorough"
    vh = vlib.build_harness()
    common.model_check(chk, scratch, SPEC, "ErrorKinds", "ErrorKinds.cfg", "constructors + recogniser + round trip, depth <= 1, 30 kinds x 6 messages", workers=8)
    if thorough:
        common.model_check(chk, scratch, SPEC, "ErrorKinds", "ErrorKinds_depth2.cfg", "depth <= 2", workers=16, timeout=1500)
    behs = common.emit_behaviours(chk, scratch, SPEC, "ErrorKinds", "ErrorKinds_emit.cfg", "emit chains depth <= 1", workers=4,
                                  limit=(None if thorough else 4000), seed=chk.seed)
    behs += common.emit_behaviours(chk, scratch, SPEC, "ErrorKinds", "ErrorKinds_sim.cfg", "emit simulated chains depth <= 4",
                                   simulate=(6000 if thorough else 400), depth=8, seed=chk.seed, limit=(20000 if thorough else 1500))
    chk.sample({"chain": behs[0]})
    chk.sample({"chain": behs[-1]})
    common.replay(chk, vh, scratch, "c11", behs)
    tr, _ = common.record(vh, scratch, "c11", "trace.ndjson", chk.seed, chk.tier, n=(20000 if thorough else 1500))
    common.validate(chk, scratch, SPEC, "ErrorKindsTrace", "ErrorKindsTrace.cfg", tr, "random chains, joins, converter table", sig_of=sig_of, count_traces=len)
    chk.sample({"event": vlib.read_ndjson(tr)[0]})
    chk.cov["rule"] = ("chain = base error (30 kinds x messages, plain error, context.Canceled/DeadlineExceeded) wrapped by up to 4 layers of "
                       "WrapError(f)/WrapIfNotCommonError(f)/New(f)-on-error, enumerated (depth<=1) or simulated (depth<=4) by TLC with the expected kind, text, "
                       "serialised form and round-trip result; each is built twice (plain and formatting constructors), serialised, deserialised in-process "
                       "and in a child process; non-trivial = at least one wrapping layer")
    chk.assumptions += ["kind recognition through commonerrors.Any against the 30 exported sentinels", "messages are single-line (the statement's scope for reasons)"]
