"""C10 - numeric conversions saturate (specs/data/SafeCast*.tla)."""
import os

import vlib
from props import common

SPEC = os.path.join(vlib.SPECS, "data")
LEVEL = "model_checking"


def sig_of(ev, events, idx):
    if ev.get("op") == "panic":
        return "conversion-panics"
    named = "named-" if ev.get("s", "").startswith("My") else ""
    fl = "float" if "loat" in ev.get("s", "") else "int"
    return "not-saturated-%s%s-to-%s" % (named, fl, ev.get("t"))


def run(chk, scratch):
    thorough = chk.tier == "thorough"
    vh = vlib.build_harness()
    # 1. the statement (Clamp over limb-encoded integers) is in range, the identity in range, idempotent, nearest, monotone
    common.model_check(chk, scratch, SPEC, "SafeCastLemmas", "SafeCastLemmas.cfg", "Clamp lemmas over the boundary grid", workers=8)
    # 2. input classes enumerated by TLC, materialised and converted by the real functions, validated by TLC
    cfg = "SafeCastClasses_thorough.cfg" if thorough else "SafeCastClasses.cfg"
    classes = common.emit_behaviours(chk, scratch, SPEC, "SafeCastClasses", cfg, "input classes", workers=1)
    chk.sample({"class": classes[0]})
    chk.sample({"class": classes[len(classes) // 2]})
    inp = os.path.join(scratch, "classes.ndjson")
    vlib.write_ndjson(inp, classes)
    out = os.path.join(scratch, "classes-trace.ndjson")
    p = vlib.run_vh(vh, ["c10", "classes", "--in", inp, "--out", out, "--seed", chk.seed, "--tier", chk.tier])
    if p.returncode != 0:
        raise vlib.Inconclusive("c10 classes driver failed: " + p.stderr[-2000:])
    common.validate(chk, scratch, SPEC, "SafeCastTrace", "SafeCastTrace.cfg", out, "class conversions", sig_of=sig_of,
                    count_traces=lambda evs: len({(e["s"], e["t"]) for e in evs}), timeout=1800)
    # 3. sweeps: exhaustive narrow sources, boundary neighbourhoods, neighbour chains, random values
    for part in ("small", "wide"):
        tr, _ = common.record(vh, scratch, "c10", "sweep-%s.ndjson" % part, chk.seed, chk.tier, mode="sweep", extra={"part": part})
        common.validate(chk, scratch, SPEC, "SafeCastTrace", "SafeCastTrace.cfg", tr, "sweep " + part, sig_of=sig_of,
                        count_traces=lambda evs: len({(e["s"], e["t"]) for e in evs}), timeout=3000)
        evs = vlib.read_ndjson(tr)
        chk.sample({"event": evs[len(evs) // 3]})
    chk.nontrivial = chk.cov.get("trace_events_validated", 0)
    chk.cov["rule"] = ("event = one real conversion (source kind, target, exact truncated input and output as 24-bit limbs); classes come from TLC "
                       "(18 source kinds x boundary/power-of-two anchors x offsets x float fraction/neighbour), sweeps from the harness; every event "
                       "is distinct (deduplicated per source) and checked by TLC against Clamp and monotonicity")
    chk.assumptions += ["math/big limb projection of inputs and outputs", "int/uint are 64-bit", "NaN excluded (outside the statement)"]
