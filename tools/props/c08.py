"""C08 - exclusion patterns protect exactly what they name, in every operation (specs/fs/FsExclude.tla)."""
import os
import random

import vlib
from props import common
from props.c04 import judge

SPEC = os.path.join(vlib.SPECS, "fs")
LEVEL = "model_checking"


def describe(e):
    return "%s on %s backend, tree %s, patterns %s -> err %r, processed %s, must skip %s, must process %s, touched %s" % (
        e.get("call"), e.get("backend"), e.get("tree"), e.get("patterns"), e.get("err"), e.get("processed"), e.get("mustSkip"), e.get("mustProcess"), e.get("touched"))


def run(chk, scratch):
    thorough = chk.tier == "thorough"
    vh = vlib.build_harness()
    r = vlib.run_tlc(scratch, [SPEC], "FsExclude", "FsExclude.cfg", workers=1, timeout=600, fast=True)
    vlib.tlc_must_pass(r, "FsExclude")
    if r.violated:
        raise vlib.Inconclusive("FsExclude.tla: MustSkip and MustProcess overlap (%s) - the specification is wrong" % r.violated)
    chk.add_tlc("FsExclude: MustSkip / MustProcess for every (tree, pattern set, operation)", r)
    scen = r.behaviours
    chk.cov["model_scenarios"] = len(scen)
    if not thorough:
        scen = random.Random(chk.seed).sample(scen, 500)
    chk.sample({"scenario": {k: scen[0][k] for k in ("tree", "patterns", "op", "mustSkip", "mustProcess")}})
    inp = os.path.join(scratch, "c08-scen.ndjson")
    vlib.write_ndjson(inp, scen)
    tr = os.path.join(scratch, "c08-trace.ndjson")
    p = vlib.run_vh(vh, ["c08", "replay", "--in", inp, "--out", tr, "--dir", scratch, "--seed", chk.seed], timeout=1800)
    if p.returncode != 0:
        raise vlib.Inconclusive("c08 replay driver failed: " + p.stderr[-2000:])
    ev = judge(chk, scratch, tr, "exclusion-aware operations", spec="FsExcludeTrace", describe=describe)
    skipped = sum(1 for e in ev if e.get("skipped"))
    chk.cov["skipped_precondition_sandbox_path_matches"] = skipped
    chk.nontrivial += sum(1 for e in ev if not e.get("skipped") and (e.get("patterns")))
    chk.cov["rule"] = ("scenario = one of three fixed trees over names in {x,y,X,Y}* (patterns hit at every depth) x a set of 0..2 patterns out of 12 regular-expression ASTs (one of them case-folding) x one of 9 operations; "
                       "TLC computes MustSkip / MustProcess from the AST semantics; each scenario runs on MemMapFs and on the OS filesystem, plus the model's 6 invalid pattern sets (single invalid members, and pairs that only balance when glued together) per tree/operation/backend; "
                       "scenarios whose sandbox path itself contains a match are skipped (precondition of the statement); non-trivial = at least one pattern")
    chk.assumptions += ["Go regexp source generated from the AST (literal, ., concatenation, (a|b), (a)*, (?i)a)"]
