"""C06 - the filesystem API follows its documented semantics on every backend (specs/fs/FsModel.tla, FsModelTrace.tla)."""
import os

import vlib
from props import common
from props.c04 import judge

SPEC = os.path.join(vlib.SPECS, "fs")
LEVEL = "model_checking"


def describe(e):
    def delta(a, b):
        a, b = set(a), set(b)
        return "+%s -%s" % (sorted(b - a)[:8], sorted(a - b)[:8]) if a != b else "unchanged"
    return "%s on %s (program %s step %s, class %s): expected %s %s tree %s; got %s %s tree %s; handles %s%s%s%s %s" % (
        e.get("call"), e.get("backend"), e.get("id"), e.get("step"), e.get("class"), e.get("expect"), e.get("value"), delta(e.get("before", []), e.get("tree", [])),
        e.get("got"), e.get("gotValue"), delta(e.get("before", []), e.get("after", [])), e.get("handles"),
        ", outside frame %s" % e["outsideFrame"][:6] if e.get("outsideFrame") else "", ", outside sandbox %s" % e["outside"] if e.get("outside") else "",
        ", source %s -> %s" % (e.get("srcBefore"), e.get("srcAfter")) if e.get("isCopy") and e.get("srcBefore") != e.get("srcAfter") else "", (e.get("panic") or "")[:300])


def run(chk, scratch):
    thorough = chk.tier == "thorough"
    vh = vlib.build_harness()
    # 1. the model itself: well-formed trees, read-only calls, refused calls, copies keep their source, changes within the frame
    cfg = "FsModel_exhaustive.cfg" if thorough else "FsModel_quick.cfg"
    common.model_check(chk, scratch, SPEC, "FsModel", cfg, "FsModel: every call (%d deep) from every initial tree" % (2 if thorough else 1), workers=8, timeout=3000, fast=not thorough)
    # 2. random programs with the expected outcome of every call
    n = 6000 if thorough else 700
    r = vlib.run_tlc(scratch, [SPEC], "FsModel", "FsModel_simulate.cfg", workers=1, timeout=1800, simulate=n, depth=10, seed=chk.seed, fast=True)
    if r.error and not r.behaviours:
        raise vlib.Inconclusive("TLC error while simulating FsModel: " + r.error)
    if r.violated:
        raise vlib.Inconclusive("FsModel simulation reported %s" % r.violated)
    chk.add_tlc("FsModel simulation: programs of 8 calls", r)
    progs = r.behaviours
    if len(progs) < n // 2:
        raise vlib.Inconclusive("only %d programs were emitted" % len(progs))
    chk.cov["programs"] = len(progs)
    classes = {}
    for p in progs:
        for c in p["calls"]:
            classes[c["class"]] = classes.get(c["class"], 0) + 1
    chk.cov["calls_by_class"] = classes
    chk.sample({"program": {"init": progs[0]["init"], "calls": [{k: c[k] for k in ("op", "a", "b", "c", "trailing", "class", "expect", "value")} for c in progs[0]["calls"][:4]]}})
    inp = os.path.join(scratch, "c06-progs.ndjson")
    vlib.write_ndjson(inp, progs)
    tr = os.path.join(scratch, "c06-trace.ndjson")
    p = vlib.run_vh(vh, ["c06", "replay", "--in", inp, "--out", tr, "--dir", scratch, "--seed", chk.seed], timeout=6000)
    if p.returncode != 0:
        raise vlib.Inconclusive("c06 replay driver failed: " + p.stderr[-2000:])
    ev = judge(chk, scratch, tr, "programs on both backends", spec="FsModelTrace", describe=describe, spec_dir=SPEC)
    chk.nontrivial += sum(1 for e in ev if e["class"] == "defined" and (e["before"] != e["tree"] or e["value"]))
    chk.cov["calls_replayed"] = len(ev)
    chk.cov["defined_calls_replayed"] = sum(1 for e in ev if e["class"] == "defined")
    chk.cov["rule"] = ("program = 8 calls drawn by TLC (RandomElement) among MkDir, WriteFile, Touch, Rm, CleanDir, ReadFile, Ls, LsRecursive (with / without directories), ListDirTree, SubDirectories, "
                       "Glob, Exists, IsFile, IsDir, IsEmpty, GetFileSize, FileHash, CopyToFile, CopyToDirectory, Copy, Move (destination with / without trailing separator) over paths of names "
                       "{a,b,c} from 5 initial trees; each call carries its class, expected outcome, value, tree and frame; run on the OS filesystem and MemMapFs from the model's tree (the backend is "
                       "re-aligned with the model after an unconstrained call), each batch of programs in a child process so that a crash or a call that never returns costs one program")
    chk.assumptions += ["classes other than 'defined' / 'missingparent' only carry the frame conditions (returns, no handle left, nothing outside the frame, copy source unchanged)",
                        "FileHash is compared through 'is the digest that of the content the model holds' (the digest function itself is C20)"]
