"""C19 - paginators yield every item exactly once, in order (specs/data/Paginator.tla)."""
import os

import vlib
from props import common

SPEC = os.path.join(vlib.SPECS, "data")
LEVEL = "model_checking"


def sig_of(ev, events, idx):
    if ev.get("op") == "New":
        return "ctor-failure-nil-nil" if ev.get("kind") == "nilnil" else "trace-ctor-" + (ev.get("kind") or "ok")
    if ev.get("op", "").startswith("Blocked"):
        return "call-blocked"
    return "trace-rejected-" + ev.get("op", "?") + ("-yield" if ev.get("b") else "-none")


def count_traces(events):
    return sum(1 for e in events if e.get("op") == "Config")


def run(chk, scratch):
    thorough = chk.tier == "thorough"
    vh = vlib.build_harness()
    # 1. the algorithm as coded agrees with the statement, for every small collection and call mix
    common.model_check(chk, scratch, SPEC, "Paginator", "Paginator_static.cfg", "Paginator static/dynamic exhaustive")
    common.model_check(chk, scratch, SPEC, "Paginator", "Paginator_stream.cfg", "Paginator stream exhaustive")
    # 2. behaviours of the specification replayed into the real paginators
    n = 4000 if thorough else 250
    behs = []
    for cfg in ("Paginator_emit_static.cfg", "Paginator_emit_stream.cfg"):
        b = common.emit_behaviours(chk, scratch, SPEC, "Paginator", cfg, "emit " + cfg, simulate=n, depth=20,
                                   seed=chk.seed, limit=(12000 if thorough else 700))
        behs += b
    if thorough:
        behs += common.emit_behaviours(chk, scratch, SPEC, "Paginator", "Paginator_emit_small.cfg",
                                       "emit exhaustive small static", workers=4, fast=False)
    for b in behs[:2]:
        chk.sample({"behaviour": b})
    common.replay(chk, vh, scratch, "c19", behs)
    # 3. traces recorded from the real paginators on larger random collections, validated by TLC
    for stream in ("false", "true"):
        tr, _ = common.record(vh, scratch, "c19", "trace-%s.ndjson" % stream, chk.seed, chk.tier,
                              n=(1500 if thorough else 60) if stream == "false" else (400 if thorough else 25),
                              extra={"stream": stream})
        cfg = "PaginatorTrace_stream.cfg" if stream == "true" else "PaginatorTrace_static.cfg"
        common.validate(chk, scratch, SPEC, "PaginatorTrace", cfg, tr, "recorded trace stream=" + stream,
                        sig_of=sig_of, count_traces=count_traces)
        ev = vlib.read_ndjson(tr)
        chk.sample({"trace_head": ev[:4]})
    # 4. growth (outside the listed property): the rest of the `collection` package - the Conditions object as a little state
    #    machine (Collection.tla) and the slice helpers over a six-item alphabet (CollectionSlices.tla); every answer of the real
    #    package is recomputed by CollectionTrace.tla from CollectionOps.tla.  Discrepancies are observations, never alarms.
    import json
    import random
    from props.c04 import judge
    for cfg, must in (("Collection_membership.cfg", "ContainsIsMembership"), ("CollectionSlices_lowest.cfg", "CodedIsLowest"),
                      ("CollectionSlices_inplace.cfg", "CallerSliceKept")):
        rs = vlib.run_tlc(scratch, [SPEC], cfg.split("_")[0], cfg, workers=2, timeout=300, deadlock=False, fast="tiny", parse_behaviours=False)
        vlib.tlc_must_pass(rs, cfg)
        chk.add_tlc("%s (must violate %s: a named deviation of the code from the plain reading)" % (cfg, must), rs)
        if rs.violated != must:
            raise vlib.Inconclusive("sensitivity self-test failed: %s reported %s" % (cfg, rs.violated))
    cb = common.emit_behaviours(chk, scratch, SPEC, "Collection", "Collection.cfg", "Conditions object: histories of Add/Concat/Negate with every reduction",
                                workers=1, fast="tiny", limit=(None if thorough else 1500), seed=chk.seed)
    cb += common.emit_behaviours(chk, scratch, SPEC, "CollectionSlices", "CollectionSlices.cfg", "slice helpers: strict x slice x wanted values",
                                 workers=1, fast="tiny", limit=(None if thorough else 1500), seed=chk.seed)
    for b in cb:
        for st in b.get("hist", []):        # the answers the model computed stay with the model: the judge recomputes them
            st.pop("ret", None)
            st.pop("after", None)
    inp = os.path.join(scratch, "c19-collection.ndjson")
    vlib.write_ndjson(inp, cb)
    ctr = os.path.join(scratch, "c19-collection-trace.ndjson")
    p = vlib.run_vh(vh, ["c19", "collection", "--in", inp, "--out", ctr], timeout=600)
    if p.returncode != 0:
        raise vlib.Inconclusive("c19 collection driver failed: " + (p.stderr or "")[-1500:])
    obs = common.Observing(chk)
    evc = judge(obs, scratch, ctr, "collection package answers", spec="CollectionTrace", spec_dir=SPEC)
    chk.cov["collection_scenarios_judged"] = len(evc)
    chk.cov["observations_outside_the_listed_property"] = dict(obs.seen)
    # binding self-test: one corrupted answer in a copy of the trace must be noticed by the judge
    sl = [e for e in evc if e["op"] == "Slices" and e["vals"] and e["slice"]][:40]
    if sl:
        bad = json.loads(json.dumps(sl))
        k = random.Random(chk.seed).randrange(len(bad))
        bad[k]["found"] = not bad[k]["found"]
        btr = os.path.join(scratch, "c19-collection-corrupt.ndjson")
        vlib.write_ndjson(btr, bad)
        probe = common.Observing(chk)
        ev0, tr0 = chk.evaluations, chk.traces
        judge(probe, scratch, btr, "collection judge self-test (one corrupted answer)", spec="CollectionTrace", spec_dir=SPEC)
        chk.evaluations, chk.traces = ev0, tr0
        if not any(k2.startswith("observation:find-in-slice") for k2 in probe.seen):
            raise vlib.Inconclusive("binding self-test failed: CollectionTrace.tla accepted a corrupted FindInSlice answer")
    chk.cov["rule"] = ("behaviour = collection (page sizes, next/future links, failure position) + call sequence drawn by TLC; "
                       "non-trivial = more than two calls; replayed on static+dynamic or the two stream paginators")
    chk.assumptions += ["harness pages implement IStaticPage/IPage/IStream faithfully", "grace period 120 ms; stalled steps are skipped"]
