"""C19 - paginators yield every item exactly once, in order (specs/data/Paginator.tla)."""
import os

import vlib
from props import common

SPEC = os.path.join(vlib.SPECS, "data")
LEVEL = "model_checking"


def sig_of(ev, events, idx):
    if ev.get("op") == "New":
        return "ctor-failure-nil-nil" if ev.get("kind") == "nilnil" else "trace-ctor-" + (ev.get("kind") or "ok")
    if ev.get("op", "").startswith("Blocked"):
        return "call-blocked"
    return "trace-rejected-" + ev.get("op", "?") + ("-yield" if ev.get("b") else "-none")


def count_traces(events):
    return sum(1 for e in events if e.get("op") == "Config")


def run(chk, scratch):
    thorough = chk.tier == "thorough"
    vh = vlib.build_harness()
    # 1. the algorithm as coded agrees with the statement, for every small collection and call mix
    common.model_check(chk, scratch, SPEC, "Paginator", "Paginator_static.cfg", "Paginator static/dynamic exhaustive")
    common.model_check(chk, scratch, SPEC, "Paginator", "Paginator_stream.cfg", "Paginator stream exhaustive")
    # 2. behaviours of the specification replayed into the real paginators
    n = 4000 if thorough else 250
    behs = []
    for cfg in ("Paginator_emit_static.cfg", "Paginator_emit_stream.cfg"):
        b = common.emit_behaviours(chk, scratch, SPEC, "Paginator", cfg, "emit " + cfg, simulate=n, depth=20,
                                   seed=chk.seed, limit=(12000 if thorough else 700))
        behs += b
    if thorough:
        behs += common.emit_behaviours(chk, scratch, SPEC, "Paginator", "Paginator_emit_small.cfg",
                                       "emit exhaustive small static", workers=4, fast=False)
    for b in behs[:2]:
        chk.sample({"behaviour": b})
    common.replay(chk, vh, scratch, "c19", behs)
    # 3. traces recorded from the real paginators on larger random collections, validated by TLC
    for stream in ("false", "true"):
        tr, _ = common.record(vh, scratch, "c19", "trace-%s.ndjson" % stream, chk.seed, chk.tier,
                              n=(1500 if thorough else 60) if stream == "false" else (400 if thorough else 25),
                              extra={"stream": stream})
        cfg = "PaginatorTrace_stream.cfg" if stream == "true" else "PaginatorTrace_static.cfg"
        common.validate(chk, scratch, SPEC, "PaginatorTrace", cfg, tr, "recorded trace stream=" + stream,
                        sig_of=sig_of, count_traces=count_traces)
        ev = vlib.read_ndjson(tr)
        chk.sample({"trace_head": ev[:4]})
    chk.cov["rule"] = ("behaviour = collection (page sizes, next/future links, failure position) + call sequence drawn by TLC; "
                       "non-trivial = more than two calls; replayed on static+dynamic or the two stream paginators")
    chk.assumptions += ["harness pages implement IStaticPage/IPage/IStream faithfully", "grace period 120 ms; stalled steps are skipped"]
