"""C05 - cancelling a subprocess terminates its whole process tree, promptly (specs/proc/ProcTree.tla, ProcTreeTrace.tla)."""
import os
import random

import vlib
from props import common
from props.c04 import judge

SPEC = os.path.join(vlib.SPECS, "proc")
LEVEL = "model_checking"


def describe(e):
    return "%s then %s%s: scenario %s; spawned %s in group %s -> returned=%s after %d ms (bound %d), survivors %s (in group %s), IsOn=%s, result %s %s" % (
        e.get("startMode"), e.get("stopMode"), " (direct child exits first)" if e.get("rootExits") else "", e.get("scenario"), e.get("spawned"), e.get("inGroup"),
        e.get("returned"), e.get("latencyMs"), e.get("boundMs"), e.get("survivors"), e.get("survivorsIn"), e.get("isOn"), e.get("result"), e.get("note", ""))


def run(chk, scratch):
    thorough = chk.tier == "thorough"
    vh = vlib.build_harness()
    # 1. the design: killing the tree (TERM, KILL to the group) with a bounded wait for the pipes satisfies safety and liveness;
    #    killing the direct child only leaves survivors / never returns; without the bounded wait a descendant that left the group blocks the return
    common.model_check(chk, scratch, SPEC, "ProcTree", "ProcTree_killtree.cfg", "ProcTree kill-tree + bounded wait: 3 descendants, every shape, start and stop mode (safety + liveness)", workers=8, fast=True)
    for cfg, want, what in (("ProcTree_killchild.cfg", "AfterReturnNoSurvivor", "kill-child (must violate AfterReturnNoSurvivor)"),
                            ("ProcTree_killchild_live.cfg", "StopReturns", "kill-child (must violate StopReturns)"),
                            ("ProcTree_nodelay_live.cfg", "StopReturns", "kill-tree without bounded wait (must violate StopReturns)"),
                            ("ProcTree_ascoded.cfg", "AfterReturnNoSurvivor", "as coded: nobody to signal once Execute has reaped a child that exited by itself (must violate AfterReturnNoSurvivor)")):
        r = vlib.run_tlc(scratch, [SPEC], "ProcTree", cfg, workers=4, timeout=600, fast=True)
        vlib.tlc_must_pass(r, cfg)
        chk.add_tlc("ProcTree " + what, r)
        if r.violated != want:
            raise vlib.Inconclusive("sensitivity self-test failed: %s reported %s" % (cfg, r.violated))
    # 2. scenarios as real process trees
    r2 = vlib.run_tlc(scratch, [SPEC], "ProcTree", "ProcTree_emit.cfg", workers=1, timeout=900, fast=True)
    vlib.tlc_must_pass(r2, "ProcTree_emit")
    if r2.violated:
        raise vlib.Inconclusive("ProcTree_emit reported %s" % r2.violated)
    chk.add_tlc("ProcTree scenario emission", r2)
    scen = r2.behaviours
    chk.cov["model_scenarios"] = len(scen)
    rnd = random.Random(chk.seed)
    hard = [s for s in scen if any(s["holds"]) or s["rootExits"] or not all(s["inGroup"])]
    n_hard, n_any = (900, 300) if thorough else (110, 20)
    pick = rnd.sample(hard, n_hard) + rnd.sample(scen, n_any)
    chk.sample({"scenario": pick[0]})
    inp = os.path.join(scratch, "c05-scen.ndjson")
    vlib.write_ndjson(inp, pick)
    tr = os.path.join(scratch, "c05-trace.ndjson")
    p = vlib.run_vh(vh, ["c05", "replay", "--in", inp, "--out", tr, "--dir", scratch, "--seed", chk.seed], timeout=6000)
    if p.returncode != 0:
        raise vlib.Inconclusive("c05 replay driver failed: " + p.stderr[-2000:])
    events = vlib.read_ndjson(tr)
    bad = [e for e in events if not e["setupOk"]]
    if len(bad) > len(events) // 10:
        raise vlib.Inconclusive("%d of %d process trees did not come up: %s" % (len(bad), len(events), bad[0].get("note")))
    good = os.path.join(scratch, "c05-trace-ok.ndjson")
    vlib.write_ndjson(good, [e for e in events if e["setupOk"]])
    ev = judge(chk, scratch, good, "real process trees", spec="ProcTreeTrace", describe=describe, spec_dir=SPEC)
    chk.nontrivial += sum(1 for e in ev if e["spawned"])
    chk.cov["trees_not_set_up"] = len(bad)
    chk.cov["max_return_latency_ms"] = max(e["latencyMs"] for e in ev)
    chk.cov["out_of_group_survivors_allowed"] = sum(1 for e in ev if set(e["survivors"]) - set(e["survivorsIn"]))
    chk.sample({"tree": {k: ev[0][k] for k in ("startMode", "stopMode", "spawned", "inGroup", "returned", "latencyMs", "survivors", "isOn")}})
    chk.cov["rule"] = ("scenario = parent of each of 3 descendants x stays in the group / setsid x ignores SIGTERM x keeps the output pipes x direct child exits first x Execute / Start x context "
                       "cancelled / Cancel() / Stop(), all enumerated by TLC; each becomes a real tree of re-executed harness processes sleeping 120 s; bound 12 s for the return, survivors sampled "
                       "300 ms after it from /proc/<pid>/stat; non-trivial = at least one descendant")
    chk.assumptions += ["a process that left the group (setsid) is out of the statement's scope and may survive",
                        "the bound for 'promptly' is 12 s (the library's bounded wait for the output pipes is 5 s)"]
