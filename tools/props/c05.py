"""C05 - cancelling a subprocess terminates its whole process tree, promptly (specs/proc/ProcTree.tla, ProcTreeTrace.tla)."""
import os
import random

import vlib
from props import common
from props.c04 import judge

SPEC = os.path.join(vlib.SPECS, "proc")
LEVEL = "model_checking"


def describe(e):
    return "%s (%s) then %s%s: scenario %s; spawned %s in group %s -> returned=%s after %d ms (bound %d), survivors %s (in group %s), IsOn=%s, result %s %s" % (
        e.get("startMode"), e.get("launcher"), e.get("stopMode"), " (direct child exits first)" if e.get("rootExits") else "", e.get("scenario"), e.get("spawned"), e.get("inGroup"),
        e.get("returned"), e.get("latencyMs"), e.get("boundMs"), e.get("survivors"), e.get("survivorsIn"), e.get("isOn"), e.get("result"), e.get("note", ""))


def run(chk, scratch):
    thorough = chk.tier == "thorough"
    vh = vlib.build_harness()
    # 1. the design: killing the tree (TERM, KILL to the group) with a bounded wait for the pipes satisfies safety and liveness;
    #    killing the direct child only leaves survivors / never returns; without the bounded wait a descendant that left the group blocks the return
    common.model_check(chk, scratch, SPEC, "ProcTree", "ProcTree_killtree.cfg", "ProcTree kill-tree + bounded wait: 3 descendants, every shape, start and stop mode (safety + liveness)", workers=8, fast=True)
    for cfg, want, what in (("ProcTree_killchild.cfg", "AfterReturnNoSurvivor", "kill-child (must violate AfterReturnNoSurvivor)"),
                            ("ProcTree_killchild_live.cfg", "StopReturns", "kill-child (must violate StopReturns)"),
                            ("ProcTree_nodelay_live.cfg", "StopReturns", "kill-tree without bounded wait (must violate StopReturns)"),
                            ("ProcTree_nogroup.cfg", "AfterReturnNoSurvivor", "no process group for a command run through a translator (must violate AfterReturnNoSurvivor)"),
                            ("ProcTree_stalewaited.cfg", "AfterReturnNoSurvivor", "a re-used object whose cancellation signals nobody (must violate AfterReturnNoSurvivor)"),
                            ("ProcTree_termwait.cfg", "StopReturns", "the kill waits for the direct child to die of SIGTERM (must violate StopReturns)"),
                            ("ProcTree_ascoded.cfg", "AfterReturnNoSurvivor", "as coded: nobody to signal once Execute has reaped a child that exited by itself (must violate AfterReturnNoSurvivor)")):
        r = vlib.run_tlc(scratch, [SPEC], "ProcTree", cfg, workers=4, timeout=600, fast=True)
        vlib.tlc_must_pass(r, cfg)
        chk.add_tlc("ProcTree " + what, r)
        if r.violated != want:
            raise vlib.Inconclusive("sensitivity self-test failed: %s reported %s" % (cfg, r.violated))
    # 2. scenarios as real process trees
    r2 = vlib.run_tlc(scratch, [SPEC], "ProcTree", "ProcTree_emit.cfg", workers=1, timeout=900, fast=True)
    vlib.tlc_must_pass(r2, "ProcTree_emit")
    if r2.violated:
        raise vlib.Inconclusive("ProcTree_emit reported %s" % r2.violated)
    chk.add_tlc("ProcTree scenario emission", r2)
    scen = r2.behaviours
    chk.cov["model_scenarios"] = len(scen)
    rnd = random.Random(chk.seed)
    hard = [s for s in scen if any(s["holds"]) or s["rootExits"] or not all(s["inGroup"]) or s["rootIgnTerm"]]
    n_hard, n_any = (900, 300) if thorough else (110, 20)
    pick = rnd.sample(hard, n_hard) + rnd.sample(scen, n_any)
    if not any(s["rootIgnTerm"] for s in pick):
        pick += rnd.sample([s for s in scen if s["rootIgnTerm"]], 12)
    if sum(1 for s in pick if s["reused"] and s["startMode"] == "execute") < 8:
        pick += rnd.sample([s for s in scen if s["reused"] and s["startMode"] == "execute"], 8)
    chk.cov["trees_run_on_a_reused_object"] = sum(1 for s in pick if s["reused"])
    chk.cov["trees_whose_direct_child_ignores_sigterm"] = sum(1 for s in pick if s["rootIgnTerm"])
    chk.cov["trees_run_through_a_command_translator"] = sum(1 for s in pick if s["launcher"] == "translated")
    chk.sample({"scenario": pick[0]})
    inp = os.path.join(scratch, "c05-scen.ndjson")
    vlib.write_ndjson(inp, pick)
    tr = os.path.join(scratch, "c05-trace.ndjson")
    p = vlib.run_vh(vh, ["c05", "replay", "--in", inp, "--out", tr, "--dir", scratch, "--seed", chk.seed], timeout=6000)
    if p.returncode != 0:
        raise vlib.Inconclusive("c05 replay driver failed: " + p.stderr[-2000:])
    events = vlib.read_ndjson(tr)
    bad = [e for e in events if not e["setupOk"]]
    if len(bad) > len(events) // 10:
        raise vlib.Inconclusive("%d of %d process trees did not come up: %s" % (len(bad), len(events), bad[0].get("note")))
    good = os.path.join(scratch, "c05-trace-ok.ndjson")
    vlib.write_ndjson(good, [e for e in events if e["setupOk"]])
    ev = judge(chk, scratch, good, "real process trees", spec="ProcTreeTrace", describe=describe, spec_dir=SPEC)
    chk.nontrivial += sum(1 for e in ev if e["spawned"])
    chk.cov["trees_not_set_up"] = len(bad)
    chk.cov["max_return_latency_ms"] = max(e["latencyMs"] for e in ev)
    chk.cov["out_of_group_survivors_allowed"] = sum(1 for e in ev if set(e["survivors"]) - set(e["survivorsIn"]))
    chk.sample({"tree": {k: ev[0][k] for k in ("startMode", "stopMode", "spawned", "inGroup", "returned", "latencyMs", "survivors", "isOn")}})
    # 3. the supervisor loop (growth beyond the listed property): Supervisor.tla, as coded, replayed on the real supervisor
    common.model_check(chk, scratch, SPEC, "Supervisor", "Supervisor_intended.cfg", "Supervisor loop, intended (no command left behind), 3 iterations, every cancellation instant", workers=4, fast=True)
    common.model_check(chk, scratch, SPEC, "Supervisor", "Supervisor_ascoded.cfg", "Supervisor loop as coded: hook order, one command at a time, halting errors, no start after cancellation", workers=4, fast=True)
    r3 = vlib.run_tlc(scratch, [SPEC], "Supervisor", "Supervisor_leak.cfg", workers=2, timeout=300, fast=True)
    vlib.tlc_must_pass(r3, "Supervisor_leak")
    chk.add_tlc("Supervisor as coded (must violate NoCommandLeftRunning: a failing postStart hook leaves the command behind)", r3)
    if r3.violated != "NoCommandLeftRunning":
        raise vlib.Inconclusive("sensitivity self-test failed: Supervisor_leak.cfg reported %s" % r3.violated)
    r4 = vlib.run_tlc(scratch, [SPEC], "Supervisor", "Supervisor_emit.cfg", workers=1, timeout=600, fast=True)
    vlib.tlc_must_pass(r4, "Supervisor_emit")
    if r4.violated:
        raise vlib.Inconclusive("Supervisor_emit reported %s" % r4.violated)
    chk.add_tlc("Supervisor scenario emission (script x failing hook x cancellation iteration)", r4)
    sup = rnd.sample(r4.behaviours, min(len(r4.behaviours), 1200 if thorough else 100))
    inp2 = os.path.join(scratch, "c05-sup.ndjson")
    vlib.write_ndjson(inp2, sup)
    tr2 = os.path.join(scratch, "c05-sup-trace.ndjson")
    p = vlib.run_vh(vh, ["c05", "supervisor", "--in", inp2, "--out", tr2, "--dir", scratch, "--seed", chk.seed], timeout=6000)
    if p.returncode != 0:
        raise vlib.Inconclusive("c05 supervisor driver failed: " + p.stderr[-2000:])

    class Observing:
        """Signatures prefixed 'observation:' concern behaviour outside the listed property (Supervisor.tla's named deviation): counted, not alarmed."""
        def __init__(self, chk):
            self.__dict__["chk"] = chk
            self.__dict__["seen"] = {}
        def __getattr__(self, k):
            return getattr(self.chk, k)
        def __setattr__(self, k, v):
            setattr(self.chk, k, v)
        def violation(self, sig, detail, payload=None):
            if sig.startswith("observation:"):
                self.seen[sig] = self.seen.get(sig, 0) + 1
                return
            self.chk.violation(sig, detail, payload)
    obs = Observing(chk)
    ev2 = judge(obs, scratch, tr2, "supervisor runs", spec="SupervisorTrace", spec_dir=SPEC,
                describe=lambda e: "script %s, failing hook %s@%s, cancelled during %s: observed %s, model %s; returned %s (model %s); alive %s (model %s); postStop %s; latency %s ms" % (
                    e.get("script"), e.get("failHook"), e.get("failIter"), e.get("cancelAt"), e.get("names"), e.get("expectedLog"), e.get("ret"), e.get("expectedRet"),
                    e.get("alive"), e.get("expectedLeaked"), e.get("stopKinds"), e.get("latencyMs")))
    chk.cov["supervisor_runs"] = len(ev2)
    chk.cov["observations_outside_the_listed_property"] = obs.seen
    chk.cov["rule"] = ("scenario = parent of each of 3 descendants x stays in the group / setsid x ignores SIGTERM x keeps the output pipes x direct child exits first x Execute / Start x context "
                       "cancelled / Cancel() / Stop(), all enumerated by TLC; each becomes a real tree of re-executed harness processes sleeping 120 s; bound 12 s for the return, survivors sampled "
                       "300 ms after it from /proc/<pid>/stat; non-trivial = at least one descendant")
    chk.assumptions += ["a process that left the group (setsid) is out of the statement's scope and may survive",
                        "the bound for 'promptly' is 12 s (the library's bounded wait for the output pipes is 5 s)"]
