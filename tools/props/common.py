"""Helpers shared by the per-property pipelines."""
import json
import os
import re
import random

import vlib


def model_check(chk, scratch, spec_dir, module, cfg, what, workers=None, timeout=900, expect_violation=False, **kw):
    """Exhaustive TLC run of a property configuration. A model-level counterexample is not a
    VIOLATION by itself (DESIGN.md section 3): for `Intended`/as-documented configurations it means the
    specification itself is wrong -> inconclusive; for AsCoded configurations the caller replays it."""
    r = vlib.run_tlc(scratch, [spec_dir], module, cfg, workers=workers or vlib.NCPU, timeout=timeout, **kw)
    vlib.tlc_must_pass(r, what)
    chk.add_tlc(what, r)
    if r.violated and not expect_violation:
        raise vlib.Inconclusive("specification %s (%s) violates %s - the model, not the code, is wrong:\n%s"
                                % (module, cfg, r.violated, r.out[-3000:]))
    return r


def emit_behaviours(chk, scratch, spec_dir, module, cfg, what, simulate=None, depth=None, seed=None,
                    timeout=600, workers=1, limit=None, **kw):
    # (three times the wanted number are kept so that duplicates can still be removed below)
    r = vlib.run_tlc(scratch, [spec_dir], module, cfg, workers=workers, timeout=timeout, simulate=simulate,
                     depth=depth, seed=seed, deadlock=False, keep=(3 * limit if limit else None), **kw)
    if r.error and not r.behaviours:
        raise vlib.Inconclusive("TLC error while emitting behaviours from %s: %s" % (what, r.error))
    if r.violated:
        raise vlib.Inconclusive("emission run %s reported %s" % (what, r.violated))
    chk.add_tlc(what, r)
    seen, out = set(), []
    for b in r.behaviours:
        k = json.dumps(b, sort_keys=True)
        if k not in seen:
            seen.add(k)
            out.append(b)
    if limit and len(out) > limit:
        rnd = random.Random(seed or 1)
        out = rnd.sample(out, limit)
    return out


def library_crash(stderr, pkgs):
    """A Go runtime crash report whose panicking goroutine runs, or was created by, one of the library packages `pkgs`
    (and not the harness): returns its head, else None."""
    if not pkgs:
        return None
    m = re.search(r"^(panic: |fatal error: )", stderr, re.M)
    if not m:
        return None
    report = stderr[m.start():]
    first = report.split("\n\ngoroutine ", 2)
    head = "\n\ngoroutine ".join(first[:2])      # the message and the crashing goroutine
    if any(("golang-utils/utils/" + k) in head for k in pkgs):
        return head
    return None


def replay(chk, vh, scratch, prop, behaviours, name="behaviours", extra=None, timeout=1800, mode="replay", crash_pkgs=()):
    """Run `vh <prop> replay` over behaviours and fold the results into the check."""
    inp = os.path.join(scratch, name + ".ndjson")
    outp = os.path.join(scratch, name + ".results.ndjson")
    vlib.write_ndjson(inp, behaviours)
    args = [prop, mode, "--in", inp, "--out", outp, "--seed", chk.seed, "--tier", chk.tier, "--dir", scratch]
    for k, v in (extra or {}).items():
        args += ["-x", "%s=%s" % (k, v)]
    p = vlib.run_vh(vh, args, timeout=timeout)
    if p.returncode != 0:
        crash = library_crash(p.stderr or "", crash_pkgs)
        if crash:
            # the process died of a Go panic / fatal error raised in (or in a goroutine started by) the library under test:
            # that is an observation of the real code, not a dead driver
            chk.violation("library-crashes-the-process", "the replay process died: " + crash[:1500], {"stderr": (p.stderr or "")[:6000]})
            return []
        raise vlib.Inconclusive("replay driver failed (%s): %s" % (prop, (p.stderr or p.stdout)[-3000:]))
    results = vlib.read_ndjson(outp)
    if behaviours and not results:
        raise vlib.Inconclusive("replay driver produced no result")
    counts = {}
    for r in results:
        counts[r["status"]] = counts.get(r["status"], 0) + 1
        chk.evaluations += 1
        if r.get("nontrivial"):
            chk.nontrivial += 1
        if r["status"] == "violation":
            chk.violation(r.get("sig", "unspecified"), r.get("detail", ""), r.get("scenario"))
        elif r["status"] == "drift":
            chk.drift.append({"variant": r.get("variant"), "detail": r.get("detail")})
    chk.traces += counts.get("ok", 0) + counts.get("drift", 0)
    chk.cov.setdefault("replay_status_counts", {})
    for k, v in counts.items():
        chk.cov["replay_status_counts"][k] = chk.cov["replay_status_counts"].get(k, 0) + v
    if results and counts.get("skip", 0) == len(results):
        raise vlib.Inconclusive("every replay was skipped (overloaded host?)")
    return results


def record(vh, scratch, prop, out_name, seed, tier, n=None, extra=None, timeout=1800, mode="record", race=False):
    outp = os.path.join(scratch, out_name)
    args = [prop, mode, "--out", outp, "--seed", seed, "--tier", tier, "--dir", scratch]
    if n:
        args += ["--n", n]
    for k, v in (extra or {}).items():
        args += ["-x", "%s=%s" % (k, v)]
    p = vlib.run_vh(vh, args, timeout=timeout)
    if p.returncode != 0:
        raise vlib.Inconclusive("record driver failed (%s): %s" % (prop, (p.stderr or p.stdout)[-3000:]))
    return outp, p


def validate(chk, scratch, spec_dir, module, cfg, trace_path, what, sig_of=None, count_traces=None, timeout=900):
    """Trace validation of a recorded trace; a rejected event is a real observation the
    specification does not allow -> violation with a signature derived from the event."""
    ok, matched, total, r = vlib.validate_trace(scratch, [spec_dir], module, cfg, trace_path, timeout=timeout)
    chk.add_tlc(what, r)
    events = vlib.read_ndjson(trace_path)
    ntr = count_traces(events) if count_traces else 1
    chk.evaluations += total
    chk.cov["trace_events_validated"] = chk.cov.get("trace_events_validated", 0) + matched
    if ok:
        chk.traces += ntr
        return True
    bad = events[matched] if matched < len(events) else {"op": "?"}
    if r.violated:
        sig = "trace-invariant-" + r.violated
    else:
        sig = sig_of(bad, events, matched) if sig_of else "trace-rejected"
    chk.violation(sig, "%s: event %d of %d is not allowed by %s: %s" % (what, matched + 1, total, module, json.dumps(bad)[:400]),
                  {"trace_prefix": events[max(0, matched - 30):matched + 1], "spec": module, "cfg": cfg})
    return False


class Observing:
    """Proxy of a Check for growth stages (behaviour outside the listed property): signatures prefixed 'observation:' are counted
    in the evidence, not alarmed; anything else is passed on."""
    def __init__(self, chk):
        self.__dict__["chk"] = chk
        self.__dict__["seen"] = {}

    def __getattr__(self, k):
        return getattr(self.chk, k)

    def __setattr__(self, k, v):
        setattr(self.chk, k, v)

    def violation(self, sig, detail, payload=None):
        if sig.startswith("observation:"):
            self.seen[sig] = self.seen.get(sig, 0) + 1
            return
        self.chk.violation(sig, detail, payload)
