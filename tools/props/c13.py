"""C13 - loggers are goroutine-safe and lose nothing (specs/logs/LogSink.tla, LogSinkTrace.tla, LogComposite.tla, LogCompositeTrace.tla)."""
import os
import re

import vlib
from props import common
from props.c04 import judge

SPEC = os.path.join(vlib.SPECS, "logs")
LEVEL = "model_checking"


def describe(e):
    if e.get("op") == "Race":
        return "logger %s: %d race-detector reports, %d with utils/logs frames; first: %s" % (e["logger"], e["reports"], e["inLogs"], e.get("first", "")[:600])
    return "logger %s (%s), %d producers, %d messages, concurrent administration=%s: sinks %s, drops reported %d in %d reports" % (
        e.get("logger"), e.get("class"), e.get("producers"), e.get("sent"), e.get("admin"),
        [(s["name"], "expected %d once %d missing %d dup %d corrupt %d unwanted %d" % (s["expected"], s["once"], s["missing"], s["dup"], s["corrupt"], s["unwanted"])) for s in e.get("sinks", [])],
        e.get("dropsReported"), e.get("dropReports"))


def run(chk, scratch):
    thorough = chk.tier == "thorough"
    # 1. the design: exclusive appends deliver exactly once to every member; the ring accounts for every drop;
    #    sensitivity: appends under a shared lock lose messages
    common.model_check(chk, scratch, SPEC, "LogSink", "LogSink_exclusive.cfg", "LogSink exclusive lock, 3 producers x 2 messages, 2 members", workers=4, fast=True)
    common.model_check(chk, scratch, SPEC, "LogSink", "LogSink_ring.cfg", "LogSink ring of 2, 3 producers x 2 messages, 2 members", workers=4, fast=True)
    r = vlib.run_tlc(scratch, [SPEC], "LogSink", "LogSink_shared.cfg", workers=2, timeout=300, fast=True)
    vlib.tlc_must_pass(r, "LogSink_shared")
    chk.add_tlc("LogSink with appends under a shared lock (must violate ExactlyOnceIntact)", r)
    if r.violated != "ExactlyOnceIntact":
        raise vlib.Inconclusive("sensitivity self-test failed: LogSink_shared.cfg reported %s" % r.violated)
    # 1b. membership of composite loggers built from one caller-owned member list: every behaviour of LogComposite.tla is
    #     replayed on NewCombinedLoggers / NewMultipleLoggers; sensitivity: composites that keep the caller's slice
    rc = vlib.run_tlc(scratch, [SPEC], "LogComposite", "LogComposite.cfg", workers=1, timeout=600, deadlock=False, fast=True, keep=(20000 if thorough else 1500))
    vlib.tlc_must_pass(rc, "LogComposite")
    if rc.violated:
        raise vlib.Inconclusive("LogComposite.tla violates %s: the specification is wrong" % rc.violated)
    chk.add_tlc("LogComposite: two composites over one caller-owned list, <= 7 operations (Log / Append), every sink's content", rc)
    rs = vlib.run_tlc(scratch, [SPEC], "LogComposite", "LogComposite_shared.cfg", workers=2, timeout=300, deadlock=False, fast=True)
    vlib.tlc_must_pass(rs, "LogComposite_shared")
    chk.add_tlc("LogComposite with composites sharing the caller's backing array (must violate Delivery)", rs)
    if rs.violated != "Delivery":
        raise vlib.Inconclusive("sensitivity self-test failed: LogComposite_shared.cfg reported %s" % rs.violated)
    vh_plain = vlib.build_harness()
    import random
    beh = rc.behaviours
    random.Random(chk.seed).shuffle(beh)
    beh = beh[:(12000 if thorough else 800)]
    inp = os.path.join(scratch, "c13-comp.ndjson")
    vlib.write_ndjson(inp, beh)
    ctr = os.path.join(scratch, "c13-comp-trace.ndjson")
    p = vlib.run_vh(vh_plain, ["c13", "composites", "--in", inp, "--out", ctr, "--dir", scratch, "--seed", chk.seed], timeout=1200)
    if p.returncode != 0:
        raise vlib.Inconclusive("c13 composites driver failed: " + (p.stderr or "")[-1500:])
    evc = judge(chk, scratch, ctr, "composite loggers over one caller-owned member list", spec="LogCompositeTrace",
                describe=lambda e: "%s constructor, spare capacity %d, operations %s: expected per sink %s, found %s %s" % (
                    e["ctor"], e["spare"], [(o["op"], o["c"], o["s"]) for o in e["ops"]], e["expected"], e["got"], e["problem"]), spec_dir=SPEC)
    chk.nontrivial += len(evc)
    chk.cov["composite_membership_behaviours_replayed"] = len(evc)
    # 2. every logger kind in its own process of the race-enabled harness
    vh = vlib.build_harness(race=True)
    kinds_file = os.path.join(scratch, "c13-kinds.ndjson")
    p = vlib.run_vh(vh, ["c13", "kinds", "--out", kinds_file, "--dir", scratch], timeout=120)
    if p.returncode != 0:
        raise vlib.Inconclusive("c13 kinds failed: " + p.stderr[-1000:])
    kinds = vlib.read_ndjson(kinds_file)
    trace = os.path.join(scratch, "c13-trace.ndjson")
    rounds = 12 if thorough else 3
    events = []
    for i, k in enumerate(kinds):
        out = os.path.join(scratch, "c13-%s.ndjson" % k["kind"])
        p = vlib.run_vh(vh, ["c13", "run", "--out", out, "--dir", scratch, "--seed", chk.seed * 100 + i, "--tier", chk.tier, "--n", rounds, "-x", "logger=" + k["kind"]],
                        timeout=1800, env_extra={"GORACE": "halt_on_error=0 exitcode=0"})
        reports = re.split(r"(?m)^WARNING: DATA RACE", p.stderr or "")[1:]
        in_logs = [x for x in reports if "golang-utils/utils/logs" in x or "/repo/utils/logs/" in x]
        if p.returncode != 0:
            raise vlib.Inconclusive("c13 run of logger %s failed (exit %d): %s" % (k["kind"], p.returncode, (p.stderr or "")[-1500:]))
        evs = vlib.read_ndjson(out)
        if len(evs) != rounds:
            raise vlib.Inconclusive("c13 run of logger %s produced %d of %d rounds" % (k["kind"], len(evs), rounds))
        events += evs
        events.append({"op": "Race", "logger": k["kind"], "reports": len(reports), "inLogs": len(in_logs), "first": (in_logs[0][:1500] if in_logs else "")})
    vlib.write_ndjson(trace, events)
    ev = judge(chk, scratch, trace, "logger runs under the race detector", spec="LogSinkTrace", describe=describe, spec_dir=SPEC)
    runs = [e for e in ev if e.get("op") == "Run"]
    chk.nontrivial += sum(1 for e in runs if e["producers"] >= 2 and e["sent"] > 0)
    chk.cov["logger_kinds"] = [k["kind"] for k in kinds]
    chk.cov["messages_sent"] = sum(e["sent"] for e in runs)
    chk.cov["ring_messages_dropped_and_reported"] = sum(e["dropsReported"] for e in runs)
    chk.cov["race_reports_outside_utils_logs"] = sum(e["reports"] - e["inLogs"] for e in ev if e.get("op") == "Race")
    chk.sample({"run": {k: runs[0][k] for k in ("logger", "producers", "sent", "sinks")}})
    chk.cov["rule"] = ("logger kind = every constructor of utils/logs (string, plain string, std and pipe through redirected stdout/stderr, file, JSON, logr/funcr, zap, logrus, hclog, slog, noop, quiet, "
                       "multiple / combined with 1..4 members and a member appended while logging, multiple writers, the adapters back from Loggers to logr / log / io.Writer, asynchronous and JSON "
                       "loggers over rings of 1..4096 with waiter and poller); 2..32 producers x 40..500 messages of 1..1000 characters with a checksum on both streams; every second round "
                       "with concurrent SetLogSource / Append; each kind in its own process of the -race harness; non-trivial = a run with at least two producers")
    chk.assumptions += ["ring-buffered loggers are given 150 ms to drain before Close (messages still in the ring at Close are not part of the statement)",
                        "the sinks handed to the adapters are goroutine-safe and keep each Write as one line"]
