"""C04 - recursive removal never touches anything outside the tree (specs/fs/FsRemove.tla)."""
import os
import random

import vlib
from props import common

SPEC = os.path.join(vlib.SPECS, "fs")
LEVEL = "model_checking"


def judge(chk, scratch, trace, what, spec="FsRemoveTrace", describe=None, spec_dir=None):
    total = sum(1 for line in open(trace) if line.strip())
    r = vlib.run_tlc(scratch, [spec_dir or SPEC], spec, spec + ".cfg", workers=1, timeout=1800, deadlock=False,
                     extra_files=[(trace, "trace.ndjson")], fast=True)
    if r.error:
        raise vlib.Inconclusive("TLC error judging %s: %s" % (what, r.error))
    chk.add_tlc(what, r)
    matched = [v for t, v in r.printed if t == "TRACE_MATCHED"]
    if not matched or int(matched[-1]) != total:
        raise vlib.Inconclusive("%s: projection and %s.tla disagree at event %s of %d" % (what, spec, matched, total))
    events = vlib.read_ndjson(trace)
    for tag, v in r.printed:
        if tag != "VERDICT":
            continue
        chk.evaluations += 1
        chk.traces += 1
        e = events[v["id"] - 1]
        for s in v["viol"]:
            d = describe(e) if describe else str(e)[:300]
            chk.violation(s, "%s: %s" % (what, d), e)
    chk.cov["trace_events_validated"] = chk.cov.get("trace_events_validated", 0) + total
    return events


def describe(e):
    return "%s on %s backend, link target %s, pattern %r, refused removal of %r -> err %r, remaining %s, expected %s, outside changed %s" % (
        e.get("call"), e.get("backend"), e.get("target"), e.get("pattern"), e.get("fault"), e.get("err"), e.get("remaining"), e.get("after"), e.get("outsideChanged"))


def run(chk, scratch):
    thorough = chk.tier == "thorough"
    vh = vlib.build_harness()
    # 1. the reference semantics (links are leaves) satisfies the property on every scenario; all scenarios are emitted
    r = vlib.run_tlc(scratch, [SPEC], "FsRemove", "FsRemove.cfg", workers=1, timeout=600, fast=True)
    vlib.tlc_must_pass(r, "FsRemove")
    if r.violated:
        raise vlib.Inconclusive("the reference semantics of FsRemove.tla violates %s" % r.violated)
    chk.add_tlc("FsRemove reference semantics over every scenario", r)
    # sensitivity: a removal that resolves kind/existence through the link breaks OutsideUnchanged
    r2 = vlib.run_tlc(scratch, [SPEC], "FsRemove", "FsRemove_follow.cfg", workers=2, timeout=300, fast=True)
    vlib.tlc_must_pass(r2, "FsRemove_follow")
    chk.add_tlc("FsRemove with link-following removal (must violate)", r2)
    if r2.violated not in ("OutsideUnchanged", "SuccessMeansGone"):
        raise vlib.Inconclusive("sensitivity self-test failed: FsRemove_follow.cfg reported %s" % r2.violated)
    scen = r.behaviours
    chk.cov["model_scenarios"] = len(scen)
    if not thorough:
        rnd = random.Random(chk.seed)
        faulty = [s for s in scen if s["fault"]]
        scen = [s for s in scen if not s["fault"]]
        linked = [s for s in scen if s["target"] != "none"]
        plain = [s for s in scen if s["target"] == "none"]
        blanks = [s for s in scen if s["spelling"] != "plain" and len(s["present"]) >= 3]
        scen = rnd.sample(linked, min(650, len(linked))) + rnd.sample(plain, min(150, len(plain))) + rnd.sample(faulty, min(120, len(faulty))) + rnd.sample(blanks, min(260, len(blanks)))
    chk.cov["scenarios_with_blank_bearing_names"] = sum(1 for s in scen if s["spelling"] != "plain")
    chk.nontrivial += sum(1 for s in scen if s["target"] != "none" or s["pattern"])
    chk.sample({"scenario": scen[0]})
    inp = os.path.join(scratch, "c04-scen.ndjson")
    vlib.write_ndjson(inp, scen)
    tr = os.path.join(scratch, "c04-trace.ndjson")
    p = vlib.run_vh(vh, ["c04", "replay", "--in", inp, "--out", tr, "--dir", scratch, "--seed", chk.seed], timeout=1800)
    if p.returncode != 0:
        raise vlib.Inconclusive("c04 replay driver failed: " + p.stderr[-2000:])
    judge(chk, scratch, tr, "materialised scenarios", describe=describe)
    # 2. random larger trees with many links (depth <= 6, read-only entries)
    tr2, _ = common.record(vh, scratch, "c04", "c04-random.ndjson", chk.seed, chk.tier, mode="random", n=(1500 if thorough else 120))
    ev = judge(chk, scratch, tr2, "random trees", describe=describe)
    chk.nontrivial += len(ev)
    chk.sample({"random_tree_result": {k: ev[0][k] for k in ("call", "err", "remaining", "outsideChanged")}})
    chk.cov["rule"] = ("scenario = optional nodes of a small tree x place and target class of a symbolic link (file/dir inside, file/dir outside, ancestor, dangling, none) x entry point "
                       "(Rm, Rm on the link, CleanDir, GarbageCollect with everything expired, GarbageCollect with every file and directory expired but a fresh link, Rm/CleanDir with an exclusion pattern) x pattern, enumerated exhaustively by TLC with the expected tree afterwards; "
                       "materialised on the OS filesystem (link-free subset also on MemMapFs) and compared through a no-follow snapshot of the whole sandbox; non-trivial = has a link or a pattern")
    chk.assumptions += ["MemMapFs has no symbolic links: link scenarios run on the OS backend only",
                        "names are chosen so that patterns match whole names and nothing in the sandbox path"]
