"""C14 - retries are bounded and back-off waits stay in range (specs/data/Retry.tla, BackoffPolicy.tla)."""
import os

import vlib
from props import common

SPEC = os.path.join(vlib.SPECS, "data")
LEVEL = "model_checking"


def sig_backoff(ev, events, idx):
    if ev.get("op") == "Client":
        return "client-attempts-out-of-bounds"
    if ev.get("sign", 0) < 0:
        kind = "retry-after" if ev.get("status") in (429, 503) and ev.get("ra") and ev.get("header") in ("negative", "zero", "small", "huge", "datepast", "datefuture", "datefar") else \
            ("linear" if ev.get("linear") and ev.get("backoff") and ev.get("enabled") else "computed")
        return "negative-wait-" + kind
    if ev.get("stream") and ev.get("cPrev", 0) < 0:
        return "exponential-wait-decreases"
    return "wait-out-of-range"


def run(chk, scratch):
    thorough = chk.tier == "thorough"
    vh = vlib.build_harness()
    common.model_check(chk, scratch, SPEC, "Retry", "Retry.cfg", "Retry loop with guarded attempts", workers=8, fast=True)
    r = vlib.run_tlc(scratch, [SPEC], "Retry", "Retry_bare.cfg", workers=4, timeout=300, fast=True)
    vlib.tlc_must_pass(r, "Retry_bare")
    chk.add_tlc("Retry loop, bare select (must violate NoAttemptOnceDone)", r)
    if r.violated != "NoAttemptOnceDone":
        raise vlib.Inconclusive("sensitivity self-test failed: Retry_bare.cfg reported %s" % r.violated)
    behs = common.emit_behaviours(chk, scratch, SPEC, "Retry", "Retry_emit.cfg", "emit retry scenarios", fast=True,
                                  limit=(None if thorough else 1800), seed=chk.seed)
    chk.sample({"retry_scenario": behs[0]})
    common.replay(chk, vh, scratch, "c14", behs, name="retry", mode="replay-retry")
    classes = common.emit_behaviours(chk, scratch, SPEC, "BackoffClasses", "BackoffClasses.cfg", "back-off classes", fast=True)
    chk.sample({"backoff_class": classes[0]})
    inp = os.path.join(scratch, "bclasses.ndjson")
    vlib.write_ndjson(inp, classes)
    out = os.path.join(scratch, "bclasses-trace.ndjson")
    p = vlib.run_vh(vh, ["c14", "classes", "--in", inp, "--out", out, "--seed", chk.seed, "--tier", chk.tier])
    if p.returncode != 0:
        raise vlib.Inconclusive("c14 classes driver failed: " + p.stderr[-2000:])
    common.validate(chk, scratch, SPEC, "BackoffTrace", "BackoffTrace.cfg", out, "Apply over the class space", sig_of=sig_backoff, count_traces=len)
    tr, _ = common.record(vh, scratch, "c14", "backoff.ndjson", chk.seed, chk.tier, n=(3000 if thorough else 300))
    common.validate(chk, scratch, SPEC, "BackoffTrace", "BackoffTrace.cfg", tr, "randomised Apply streams + real client", sig_of=sig_backoff, count_traces=len)
    chk.sample({"apply_event": vlib.read_ndjson(tr)[0]})
    chk.nontrivial += chk.cov.get("trace_events_validated", 0)
    chk.cov["rule"] = ("retry scenario = (attempts 1..4, enabled, outcome script over ok/retriable/fatal, cancellation inside attempt k or before the call) "
                       "enumerated exhaustively by TLC and run through RetryIf/RetryOnError with 4 delay policies (racing cases repeated 6x); back-off class = "
                       "policy flags x Retry-After on/off x status x header class x attempt class x wait class (14400, exhaustive) + random streams")
    chk.assumptions += ["order relations of waits computed with math/big", "HTTP-date Retry-After compared with a 2 s tolerance",
                        "retry attempts 1..8 (0 means 'until success' in retry-go and is outside the statement)"]
