"""C03 - Unzip resource limits hold (specs/archive/ZipLimits.tla)."""
import json
import os

import vlib
from props import common
from props.c04 import judge

SPEC = os.path.join(vlib.SPECS, "archive")
LEVEL = "model_checking"


def describe(e):
    return json.dumps(e)[:600]


def run(chk, scratch):
    thorough = chk.tier == "thorough"
    vh = vlib.build_harness()
    cfg = "ZipLimits_thorough.cfg" if thorough else "ZipLimits.cfg"
    r = vlib.run_tlc(scratch, [SPEC], "ZipLimits", cfg, workers=1, timeout=3000)
    vlib.tlc_must_pass(r, "ZipLimits")
    if r.violated:
        raise vlib.Inconclusive("ZipLimits.tla violates %s" % r.violated)
    chk.add_tlc("ZipLimits: archives x limit configurations with WouldExceed / ShortData (%s)" % cfg, r)
    scen = r.behaviours
    chk.cov["model_scenarios"] = len(scen)
    chk.sample({"scenario": {k: scen[len(scen) // 2][k] for k in ("archive", "maxFile", "maxTotal", "maxCount", "maxDepth", "recursive", "wouldExceed", "shortData")}})
    inp = os.path.join(scratch, "c03-scen.ndjson")
    vlib.write_ndjson(inp, scen)
    tr = os.path.join(scratch, "c03-trace.ndjson")
    p = vlib.run_vh(vh, ["c03", "replay", "--in", inp, "--out", tr, "--dir", scratch, "--seed", chk.seed, "--tier", chk.tier], timeout=6000)
    if p.returncode != 0:
        raise vlib.Inconclusive("c03 replay driver failed: " + p.stderr[-2000:])
    ev = judge(chk, scratch, tr, "archives of the model under limits", spec="ZipLimitsTrace", describe=describe)
    chk.nontrivial += sum(1 for e in ev if e.get("wouldExceed") or e.get("shortData") or e.get("recursive"))
    tr2, _ = common.record(vh, scratch, "c03", "c03-bombs.ndjson", chk.seed, chk.tier, mode="bombs", n=(1500 if thorough else 80), timeout=6000)
    ev2 = judge(chk, scratch, tr2, "seeded bombs (nesting 0..6, fan-out, random limits)", spec="ZipLimitsTrace", describe=describe)
    chk.nontrivial += len(ev2)
    chk.sample({"bomb": {k: ev2[0][k] for k in ("nesting", "fan", "result", "disk", "maxFile", "maxTotal", "maxCount", "maxDepth", "wouldExceed")}})
    chk.cov["rule"] = ("scenario = archive of 1..2 entries (plain files under 0..2 directories with sizes 0/1/3 units, headers declaring more / less than the data, a zip-named non-zip, nested archives "
                       "of four shapes with an optional third level) x limits (each of per-file, total, count, depth independently tiny / exact / off by one / huge, at most one (quick) or two (thorough) "
                       "tight at a time, recursive or not); unit = 1000 bytes (1 MiB for a sample); bombs = random nesting 0..6, fan-out 1..4, sizes to 200 kB with limits at / around the exact totals; "
                       "non-trivial = would exceed, lying header or recursive")
    chk.assumptions += ["depth = number of separators of the path relative to the top destination; files = regular files left on disk",
                        "the outer and nested archives' own sizes may make the code refuse more than the statement demands - not a violation"]
