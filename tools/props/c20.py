"""C20 - a digest depends only on the algorithm and the bytes (specs/io/Hasher.tla, FileDigest.tla)."""
import os

import vlib
from props import common

SPEC = os.path.join(vlib.SPECS, "io")
LEVEL = "model_checking"


def sig_of(ev, events, idx):
    if ev.get("outcome") == "ok" and not ev.get("same"):
        return "digest-depends-on-history" if ev.get("dirty") else "digest-differs-from-reference"
    return "trace-rejected-" + str(ev.get("outcome"))


def run(chk, scratch):
    thorough = chk.tier == "thorough"
    vh = vlib.build_harness()
    common.model_check(chk, scratch, SPEC, "Hasher", "Hasher.cfg", "Hasher (reset on every exit) exhaustive", fast=True)
    # model sensitivity: without the reset on the failure path TLC must find the dirty-digest history
    r = vlib.run_tlc(scratch, [SPEC], "Hasher", "Hasher_noreset.cfg", workers=4, timeout=300, fast=True)
    vlib.tlc_must_pass(r, "Hasher_noreset")
    chk.add_tlc("Hasher without reset-on-failure (must violate DigestIsContent)", r)
    if r.violated != "DigestIsContent":
        raise vlib.Inconclusive("sensitivity self-test failed: Hasher_noreset.cfg did not violate DigestIsContent")
    r = vlib.run_tlc(scratch, [SPEC], "Hasher", "Hasher_async.cfg", workers=4, timeout=300, fast=True)
    vlib.tlc_must_pass(r, "Hasher_async")
    chk.add_tlc("Hasher with a copy that outlives a cancelled call (must violate DigestIsContent)", r)
    if r.violated != "DigestIsContent":
        raise vlib.Inconclusive("sensitivity self-test failed: Hasher_async.cfg did not violate DigestIsContent")
    # the file side: histories of one path (same-length contents, modification time put back, removal) hashed with FS.FileHash
    rf = vlib.run_tlc(scratch, [SPEC], "FileDigest", "FileDigest_6.cfg" if thorough else "FileDigest.cfg", workers=1, timeout=900, deadlock=False, fast=True,
                      keep=(20000 if thorough else 3000))
    vlib.tlc_must_pass(rf, "FileDigest")
    if rf.violated:
        raise vlib.Inconclusive("FileDigest.tla violates %s: the specification is wrong" % rf.violated)
    chk.add_tlc("FileDigest: histories of one path (write same/other length, time kept or not, remove, hash)", rf)
    rm = vlib.run_tlc(scratch, [SPEC], "FileDigest", "FileDigest_memo.cfg", workers=2, timeout=300, deadlock=False, fast=True, parse_behaviours=False)
    vlib.tlc_must_pass(rm, "FileDigest_memo")
    chk.add_tlc("FileDigest with digests remembered per (size, modification time) (must violate DigestIsOfBytes)", rm)
    if rm.violated != "DigestIsOfBytes":
        raise vlib.Inconclusive("sensitivity self-test failed: FileDigest_memo.cfg reported %s" % rm.violated)
    import random
    from props.c04 import judge
    fd = rf.behaviours
    random.Random(chk.seed).shuffle(fd)
    fd = fd[:(6000 if thorough else 400)]
    inp = os.path.join(scratch, "c20-fd.ndjson")
    vlib.write_ndjson(inp, fd)
    ftr = os.path.join(scratch, "c20-fd-trace.ndjson")
    p = vlib.run_vh(vh, ["c20", "filedigest", "--in", inp, "--out", ftr, "--dir", scratch, "--seed", chk.seed], timeout=1800)
    if p.returncode != 0:
        raise vlib.Inconclusive("c20 filedigest driver failed: " + (p.stderr or "")[-1500:])
    evf = judge(chk, scratch, ftr, "file histories hashed with FS.FileHash", spec="FileDigestTrace", spec_dir=SPEC,
                describe=lambda e: "%s backend, %s: %s -> %s %s" % (e["backend"], e["algo"], [(o["op"], o["x"], "time kept" if o["keep"] else "") for o in e["ops"]],
                                                                    [(h["step"], h["content"], "ok" if h["same"] else ("STALE" if h["stale"] else "WRONG"), h["err"]) for h in e["hashes"]], e["problem"]))
    bad = [e for e in evf if e["problem"]]
    if len(bad) > len(evf) // 10:
        raise vlib.Inconclusive("%d of %d file histories could not be set up: %s" % (len(bad), len(evf), bad[0]["problem"]))
    chk.nontrivial += len(evf) - len(bad)
    chk.cov["file_histories_replayed"] = len(evf)
    chk.cov["file_histories_not_set_up"] = len(bad)
    behs = common.emit_behaviours(chk, scratch, SPEC, "Hasher", "Hasher_emit.cfg", "emit exhaustive (<=2 chunks, 3 calcs)",
                                  workers=4, limit=(12000 if thorough else 1500), seed=chk.seed)
    behs += common.emit_behaviours(chk, scratch, SPEC, "Hasher", "Hasher_emit_sim.cfg", "emit simulated (<=4 chunks, 6 calcs)",
                                   simulate=(1500 if thorough else 150), depth=8, seed=chk.seed,
                                   limit=(6000 if thorough else 800))
    chk.sample({"behaviour": behs[0]})
    chk.sample({"behaviour": behs[-1]})
    common.replay(chk, vh, scratch, "c20", behs, crash_pkgs=("hashing", "safeio"))
    tr, _ = common.record(vh, scratch, "c20", "trace.ndjson", chk.seed, chk.tier, n=(400 if thorough else 30))
    common.validate(chk, scratch, SPEC, "HasherTrace", "HasherTrace.cfg", tr, "recorded hasher histories", sig_of=sig_of,
                    count_traces=lambda evs: sum(1 for e in evs if e.get("op") == "New"))
    chk.sample({"trace_head": vlib.read_ndjson(tr)[:4]})
    chk.cov["rule"] = ("history of calculations (content chunk tokens, ok / fail@k / cancel@k) enumerated by TLC, replayed on one real hasher "
                       "object per algorithm (6) with 4 byte scales and via reader / in-memory file / OS file; non-trivial = history of >= 2 calculations")
    chk.assumptions += ["reference digests come from fresh instances of crypto/md5, sha1, sha256, x/crypto/blake2b, OneOfOne/xxhash, spaolacci/murmur3"]
