"""C16 - shared cache: a successful Fetch installs one complete stored version (specs/cache/*.tla)."""
import os

import vlib
from props import common

SPEC = os.path.join(vlib.SPECS, "cache")
LEVEL = "model_checking"


def run(chk, scratch):
    thorough = chk.tier == "thorough"
    vh = vlib.build_harness()
    # 1. protocol model: with a working lock and no ignored failure the monitor never fires ...
    common.model_check(chk, scratch, SPEC, "SharedCache", "SharedCache_intended.cfg", "SharedCache Intended (2 clients, 2 versions, 1 fault)", workers=8, fast=True)
    # ... and the deviations the code used to have are found by TLC (sensitivity: stale side hash after an ignored write failure)
    r = vlib.run_tlc(scratch, [SPEC], "SharedCache", "SharedCache_ascoded.cfg", workers=8, timeout=600, fast=True)
    vlib.tlc_must_pass(r, "SharedCache_ascoded")
    chk.add_tlc("SharedCache with broken lock + ignored side-hash failure (must reach store-success-not-visible)", r)
    sigs = {s for b in r.behaviours for s in b["viol"]}
    if "store-success-not-visible" not in sigs:
        raise vlib.Inconclusive("sensitivity self-test failed: the deviating model reaches %s" % sorted(sigs))
    if "fetch-installed-unstored-version" in sigs:
        raise vlib.Inconclusive("the protocol model admits a Fetch installing something never stored - the model is wrong")
    re_ = vlib.run_tlc(scratch, [SPEC], "SharedCache", "SharedCache_earlyunlock.cfg", workers=4, timeout=600, fast=True, parse_behaviours=False)
    vlib.tlc_must_pass(re_, "SharedCache_earlyunlock")
    chk.add_tlc("SharedCache with the lock given back before a failed Store cleans up (must violate NoViolation)", re_)
    if re_.violated != "NoViolation":
        raise vlib.Inconclusive("sensitivity self-test failed: SharedCache_earlyunlock.cfg reported %s" % re_.violated)
    chk.sample({"model_counterexample": " ".join(e["c"] + "." + e["a"] for e in min(r.behaviours, key=lambda b: len(b["sched"]))["sched"])})
    # 2. crash-point / fault sweep over every backend call of a real Store, both cache kinds, both backends
    sw, _ = common.record(vh, scratch, "c16", "sweep.ndjson", chk.seed, chk.tier, mode="sweep", timeout=3000)
    # 3. concurrent clients under gated random schedules
    il, _ = common.record(vh, scratch, "c16", "interleave.ndjson", chk.seed, chk.tier, mode="interleave", n=(400 if thorough else 40), timeout=3000)
    # 4. hand-over sweep (lock-based cache): Store(v2) fails at backend call k; what it still does after giving the lock back is held until
    #    another client's complete Store(v3) is over: the later critical section's version must be what a Fetch returns
    ho, _ = common.record(vh, scratch, "c16", "handoff.ndjson", chk.seed, chk.tier, mode="handoff", timeout=3000)
    # 5. clean sweep (immutable cache): CleanEntry stopped before each of its backend calls, a complete Store(v3) by another client, CleanEntry resumed
    cs, _ = common.record(vh, scratch, "c16", "cleansweep.ndjson", chk.seed, chk.tier, mode="cleansweep", timeout=3000)
    chk.cov["clean_sweep_scenarios"] = sum(1 for line in open(cs) if '"op":"Begin"' in line)
    # 6. lock time-out (lock-based cache, three clients): A's Store stopped inside its critical section, B's Fetch gives up waiting for the lock,
    #    C's Store, A resumed: whoever gave up must have left the holder's lock alone
    lt, _ = common.record(vh, scratch, "c16", "locktimeout.ndjson", chk.seed, chk.tier, mode="locktimeout", timeout=3000)
    chk.cov["lock_time_out_scenarios"] = sum(1 for line in open(lt) if '"op":"Begin"' in line)
    # 7. late heart beat (lock-based cache): the heart beat of the storing client's lock is held at its first backend call until the Store
    #    (and with it the release of the lock) is over, then let go; then another client fetches
    lh, _ = common.record(vh, scratch, "c16", "lateheartbeat.ndjson", chk.seed, chk.tier, mode="lateheartbeat", timeout=600)
    trace = os.path.join(scratch, "c16-trace.ndjson")
    with open(trace, "w") as out:
        out.write(open(sw).read())
        out.write("".join(line for line in open(il) if '"op":"End"' not in line))     # one End closes the whole trace
        out.write("".join(line for line in open(ho) if '"op":"End"' not in line))
        out.write("".join(line for line in open(cs) if '"op":"End"' not in line))
        out.write("".join(line for line in open(lt) if '"op":"End"' not in line))
        out.write(open(lh).read())
    chk.cov["hand_over_scenarios"] = sum(1 for line in open(ho) if '"op":"Begin"' in line)
    total = sum(1 for line in open(trace) if line.strip())
    r = vlib.run_tlc(scratch, [SPEC], "SharedCacheTrace", "SharedCacheTrace.cfg", workers=1, timeout=1800, deadlock=False,
                     extra_files=[(trace, "trace.ndjson")], fast=True)
    if r.error:
        raise vlib.Inconclusive("TLC error judging the C16 traces: " + r.error)
    chk.add_tlc("sweep + interleavings judged by SharedCacheTrace", r)
    matched = [v for t, v in r.printed if t == "TRACE_MATCHED"]
    if not matched or int(matched[-1]) != total:
        raise vlib.Inconclusive("trace projection and SharedCacheTrace.tla disagree at event %s of %d" % (matched, total))
    events = vlib.read_ndjson(trace)
    void = 0
    for tag, v in r.printed:
        if tag != "VERDICT":
            continue
        chk.evaluations += 1
        if v["judged"] == 0:
            void += 1
            continue
        chk.traces += 1
        chk.nontrivial += 1
        for s in v["viol"]:
            if 100000 <= v["id"] < 200000:
                ctx = [events[v["id"] - 100001]]
            else:
                ctx = [e for e in events if e.get("id") == v["id"] and e.get("op") != "Sweep"]
            what = ""
            if 100000 <= v["id"] < 200000:
                e = ctx[0]
                what = " (%s cache, %s backend, %s at call %d/%d: %s)" % (e["cache"], e["backend"], e["mode"], e["k"], e["of"], e["faultOp"])
            if v["id"] >= 500000:
                what = " (late heart beat: the heart beat of A's lock held until A's Store(v1) and its release are over, then let go, on the %s backend; then B fetches: %s)" % (
                    ctx[0].get("backend"), [(e["op"], e.get("c"), e.get("v"), e.get("result"), e.get("match"), "zombie lock" if e.get("zombie") else "") for e in ctx[1:]])
            elif v["id"] >= 400000:
                what = " (lock time-out: Store(v2) of A stopped %s backend calls into its critical section on the %s backend, B's Fetch gives up waiting, C's Store(v3), A resumed: %s)" % (
                    ctx[0].get("seq"), ctx[0].get("backend"), [(e["op"], e.get("c"), e.get("v"), e.get("result"), e.get("match")) for e in ctx[1:]])
            elif v["id"] >= 300000:
                what = " (clean sweep: CleanEntry of the immutable cache stopped before its backend call %s on the %s backend, a complete Store(v3) meanwhile: %s)" % (
                    ctx[0].get("seq"), ctx[0].get("backend"), [(e["op"], e.get("c"), e.get("v"), e.get("result"), e.get("match")) for e in ctx[1:]])
            elif v["id"] >= 200000:
                what = " (hand-over: Store(v2) failing at backend call %s on the %s backend, then a complete Store(v3) by another client: %s)" % (
                    ctx[0].get("seq"), ctx[0].get("backend"), [(e["op"], e.get("c"), e.get("v"), e.get("result"), e.get("match")) for e in ctx[1:]])
            chk.violation(s, "trace %d%s" % (v["id"], what), {"events": ctx})
    chk.cov["void_scenarios_backend_breakdown"] = void
    chk.cov["trace_events_validated"] = total
    chk.sample({"sweep": next(e for e in events if e.get("op") == "Sweep")})
    chk.sample({"interleaving_head": [e for e in events if e.get("id") == 1 and e.get("op") != "Sweep"][:8]})
    chk.cov["rule"] = ("sweep scenario = (cache kind, backend, backend call k of Store(v2) over v1, fault = injected error | death of the client incl. its heartbeat), "
                       "k strided in the quick tier but always including every mutation of the remote entry and every side-file call; interleaving = 3..6 Store/Fetch/CleanEntry "
                       "calls of 2..3 clients under a seeded random schedule at single-backend-call granularity; versions are distinct trees so that partial / mixed installs are recognisable")
    chk.assumptions += ["afero MemMapFs breaks down (panic with a directory lock held) under some injected faults: such scenarios are void and counted",
                        "real modification times (the immutable cache orders packages by them); only the dead client's lock is aged artificially"]
