"""C01 - file lock: at most one holder at any instant (specs/lock/*.tla)."""
import json
import os
import random
import re

import vlib
from props import common

SPEC = os.path.join(vlib.SPECS, "lock")
LEVEL = "model_checking"
IGNORED = {"backend-panic"}      # afero MemMapFs broke down: the trace is void (recorded, never a verdict)


def judge(chk, scratch, trace_path, what):
    """TLC replays the recorded events on the monitor and prints one verdict per trace."""
    total = sum(1 for line in open(trace_path) if line.strip())
    r = vlib.run_tlc(scratch, [SPEC], "LockTrace", "LockTrace.cfg", workers=1, timeout=1800, deadlock=False,
                     extra_files=[(trace_path, "trace.ndjson")], fast=True)
    if r.error:
        raise vlib.Inconclusive("TLC error judging %s: %s" % (what, r.error))
    chk.add_tlc(what, r)
    matched = [v for t, v in r.printed if t == "TRACE_MATCHED"]
    if not matched or int(matched[-1]) != total:
        raise vlib.Inconclusive("%s: the trace projection and LockTrace.tla disagree at event %s of %d" % (what, matched, total))
    chk.cov["trace_events_validated"] = chk.cov.get("trace_events_validated", 0) + total
    return {v["id"]: set(v["viol"]) for t, v in r.printed if t == "VERDICT"}


def excerpt(trace_path, tid, limit=120):
    out, on = [], False
    for line in open(trace_path):
        e = json.loads(line)
        if e.get("op") == "Reset":
            on = e.get("id") == tid
        if on:
            out.append(e)
    return out[:limit]


def fold(chk, verdicts, infos, trace_path, kind):
    reproduced, expected = 0, 0
    for tid, sigs in verdicts.items():
        info = infos.get(tid, {})
        chk.evaluations += 1
        if sigs & IGNORED:
            chk.cov["void_traces_backend_panic"] = chk.cov.get("void_traces_backend_panic", 0) + 1
            continue
        chk.traces += 1
        if info.get("drift"):
            chk.drift.append({"trace": tid, "kind": kind, "notes": info["drift"][:3]})
        exp = set(info.get("expect") or [])
        if exp:
            expected += 1
            if exp <= sigs:
                reproduced += 1
        if sigs or kind == "random":
            chk.nontrivial += 1
        for s in sorted(sigs):
            chk.violation(s, "%s trace %d (%s backend): %s" % (kind, tid, info.get("backend"), s),
                          {"trace": excerpt(trace_path, tid), "info": info})
    return reproduced, expected


def run(chk, scratch):
    thorough = chk.tier == "thorough"
    vh = vlib.build_harness()
    rnd = random.Random(chk.seed)
    # 1. the protocol without the deviations satisfies the property (it is implementable; baseline for repaired code)
    common.model_check(chk, scratch, SPEC, "LockFile", "LockFile_intended.cfg", "LockFile Intended, 2 contenders x 2 cycles", workers=16)
    if thorough:
        common.model_check(chk, scratch, SPEC, "LockFile", "LockFile_intended3.cfg", "LockFile Intended, 3 contenders", workers=16, timeout=1500)
    # 2. the protocol as coded: every distinct violating state with the schedule that reaches it
    cfg = "LockFile_ascoded.cfg" if thorough else "LockFile_quick.cfg"
    r = vlib.run_tlc(scratch, [SPEC], "LockFile", cfg, workers=16, timeout=1500)
    if r.error:
        raise vlib.Inconclusive("TLC error on %s: %s" % (cfg, r.error))
    chk.add_tlc("LockFile AsCoded (%s): violating schedules" % cfg, r)
    by = {}
    for b in r.behaviours:
        by.setdefault(tuple(sorted(b["viol"])), []).append(b)
    chk.cov["model_violating_states_by_signature"] = {",".join(k): len(v) for k, v in by.items()}
    if thorough:
        rs = vlib.run_tlc(scratch, [SPEC], "LockFile", "LockFile_ascoded3.cfg", workers=8, timeout=900, simulate=4000, depth=70, seed=chk.seed)
        chk.add_tlc("LockFile AsCoded, 3 contenders, simulation", rs)
        for b in rs.behaviours:
            by.setdefault(tuple(sorted(b["viol"])), []).append(b)
    # sensitivity: a contender that "cleans up" when it gives up waiting removes the holder's lock (must violate MutualExclusion);
    # its counterexample schedules (a holder, a polling contender that gives up, a later acquire) are replayed too: on the
    # code as it is nothing is removed when a contender gives up
    rg = vlib.run_tlc(scratch, [SPEC], "LockFile", "LockFile_giveup.cfg", workers=1, timeout=600)
    if rg.error:
        raise vlib.Inconclusive("TLC error on LockFile_giveup.cfg: %s" % rg.error)
    chk.add_tlc("LockFile with a contender that removes the lock when it gives up waiting (must violate MutualExclusion)", rg)
    if rg.violated != "MutualExclusion":
        raise vlib.Inconclusive("sensitivity self-test failed: LockFile_giveup.cfg reported %s" % rg.violated)
    giveups = []
    for b in rg.behaviours:
        b = dict(b, viol=[])      # nothing of it is expected from the code as it is
        giveups.append(b)
    chk.cov["give_up_schedules_replayed"] = len(giveups)
    per = 40 if thorough else 8
    scen = list(giveups)
    for k, v in sorted(by.items()):
        v.sort(key=lambda s: len(s["sched"]))
        scen += v[:3] + rnd.sample(v, min(per, len(v)))
    chk.sample({"model_schedule": " ".join(e["p"] + "." + e["a"] for e in scen[0]["sched"]), "viol": scen[0]["viol"]})
    # 3. the schedules forced on real lock objects through the filesystem gate (both backends); TLC judges the recorded traces
    inp = os.path.join(scratch, "scen.ndjson")
    vlib.write_ndjson(inp, scen)
    tr = os.path.join(scratch, "replay-trace.ndjson")
    p = vlib.run_vh(vh, ["c01", "replay", "--in", inp, "--out", tr, "--dir", scratch, "--seed", chk.seed], timeout=1800)
    if p.returncode != 0:
        raise vlib.Inconclusive("c01 replay driver failed: " + p.stderr[-2000:])
    infos = {i["id"]: i for i in vlib.read_ndjson(tr + ".info")}
    verdicts = judge(chk, scratch, tr, "replayed model schedules")
    rep, exp = fold(chk, verdicts, infos, tr, "replay")
    chk.cov["model_counterexamples_replayed"] = exp
    chk.cov["model_counterexamples_reproduced_on_real_code"] = rep
    # 4. random schedules at single-backend-call granularity (2..4 contenders, deaths, staleness)
    tr2 = os.path.join(scratch, "random-trace.ndjson")
    p = vlib.run_vh(vh, ["c01", "random", "--out", tr2, "--dir", scratch, "--seed", chk.seed, "--n", 600 if thorough else 60], timeout=2400)
    if p.returncode != 0:
        raise vlib.Inconclusive("c01 random driver failed: " + p.stderr[-2000:])
    infos2 = {i["id"]: i for i in vlib.read_ndjson(tr2 + ".info")}
    verdicts2 = judge(chk, scratch, tr2, "random gated schedules")
    fold(chk, verdicts2, infos2, tr2, "random")
    chk.sample({"trace_head": excerpt(tr2, 1, 12)})
    # 5. real time: a lock won by taking a dead holder's lock over is HELD; four heartbeat periods later an overriding contender must be refused
    tr3 = os.path.join(scratch, "takeover-trace.ndjson")
    p = vlib.run_vh(vh, ["c17", "takeoverhold", "--out", tr3, "--dir", scratch, "--seed", chk.seed, "--n", 12 if thorough else 4], timeout=600)
    if p.returncode != 0:
        raise vlib.Inconclusive("c17 takeoverhold driver failed: " + (p.stderr or "")[-1500:])
    with open(tr3, "a") as f:
        f.write(json.dumps({"op": "End"}) + "\n")
    total3 = sum(1 for line in open(tr3) if line.strip())
    r3 = vlib.run_tlc(scratch, [SPEC], "LockTimedTrace", "LockTimedTrace.cfg", workers=1, timeout=600, deadlock=False, extra_files=[(tr3, "trace.ndjson")], fast=True)
    if r3.error:
        raise vlib.Inconclusive("TLC error judging the take-over rounds: " + r3.error)
    chk.add_tlc("take-over-then-hold rounds judged by LockTimedTrace", r3)
    m3 = [v for t, v in r3.printed if t == "TRACE_MATCHED"]
    if not m3 or int(m3[-1]) != total3:
        raise vlib.Inconclusive("take-over rounds: the trace projection and LockTimedTrace.tla disagree at event %s of %d" % (m3, total3))
    evs3 = vlib.read_ndjson(tr3)
    for tag, v in r3.printed:
        if tag != "VERDICT":
            continue
        chk.evaluations += 1
        chk.traces += 1
        chk.nontrivial += 1
        for s_ in v["viol"]:
            e = evs3[v["id"] - 5001]
            chk.violation(s_, "take-over then hold, round %s (%s by the overriding contender): %s" % (e.get("id"), e.get("how"), json.dumps(e)), {"event": e})
    chk.cov["take_over_then_hold_rounds"] = len(evs3) - 1
    chk.cov["rule"] = ("schedule = interleaving of the contenders' mutating backend calls and deciding read blocks, heartbeat writer steps, staleness ticks and a death; "
                       "model schedules come from TLC (one per distinct violating state, shortest + sampled), random ones from a seeded PCT-style scheduler; "
                       "every schedule is executed on real RemoteLockFile objects over MemMapFs / the OS filesystem through the gate; non-trivial = contains a contended acquire")
    chk.assumptions += ["staleness is model time: Stat results are re-stamped by the gate (fresh unless a Tick marked the path)",
                        "the heartbeat goroutine is recognised by the function name filesystem.heartBeat on its stack",
                        "afero MemMapFs panics on orphaned children: such traces are void"]
