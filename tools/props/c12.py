"""C12 - timeout / cancellation runners, Parallelise, cancel store (specs/conc/*.tla)."""
import os

import vlib
from props import common

SPEC = os.path.join(vlib.SPECS, "conc")
LEVEL = "model_checking"


def sig_sweep(ev, events, idx):
    if ev.get("ret") == "blocked":
        return "runner-never-returns"
    if not ev.get("ended"):
        return "runner-returned-before-action-ended"
    return "runner-wrong-result"


def sig_store(ev, events, idx):
    if ev.get("op") == "CancelEnd":
        return "registered-function-not-invoked"
    if ev.get("op") == "LenEnd":
        return "len-out-of-bounds"
    return "trace-rejected-" + str(ev.get("op"))


def sig_par(ev, events, idx):
    if ev.get("leaked"):
        return "parallelise-goroutine-blocked"
    if any(c != 1 for c in ev.get("invoked", [])):
        return "parallelise-not-once-per-argument"
    if ev.get("fails") and ev.get("ret") != "error":
        return "parallelise-error-swallowed"
    if not ev.get("fails") and ev.get("ret") == "ok":
        return "parallelise-results-lost"
    return "parallelise-wrong-outcome"


def run(chk, scratch):
    thorough = chk.tier == "thorough"
    vh = vlib.build_harness()
    # 1. designs as coded: deadlock freedom, liveness under fairness, result/ signalling invariants
    for module, cfg in (("TimeoutRunner", "TimeoutRunner.cfg"), ("CtxRunner", "CtxRunner_TRUE.cfg"), ("CtxRunner", "CtxRunner_FALSE.cfg"),
                        ("Parallelise", "Parallelise.cfg"), ("CancelStore", "CancelStore.cfg")):
        common.model_check(chk, scratch, SPEC, module, cfg, "%s (%s)" % (module, cfg), workers=4, fast="tiny")
    # model sensitivity: the pre-repair designs must fail (unbuffered stop channel; result channel smaller than the fan-out)
    for module, cfg, want in (("TimeoutRunner", "TimeoutRunner_unbuffered.cfg", "Deadlock"), ("Parallelise", "Parallelise_smallchan.cfg", "Deadlock")):
        r = vlib.run_tlc(scratch, [SPEC], module, cfg, workers=2, timeout=300, fast="tiny")
        vlib.tlc_must_pass(r, cfg)
        chk.add_tlc("%s sensitivity (%s must deadlock)" % (module, cfg), r)
        if r.violated != want:
            raise vlib.Inconclusive("sensitivity self-test failed: %s reported %s" % (cfg, r.violated))
    # 2. every terminated behaviour of the runner models replayed with scripted instants
    b = common.emit_behaviours(chk, scratch, SPEC, "TimeoutRunner", "TimeoutRunner_emit.cfg", "emit TimeoutRunner", fast="tiny")
    chk.sample({"timeout_runner_behaviour": b[0]})
    common.replay(chk, vh, scratch, "c12", b, name="timeout", mode="replay-timeout")
    cb = []
    for d in ("TRUE", "FALSE"):
        cb += common.emit_behaviours(chk, scratch, SPEC, "CtxRunner", "CtxRunner_emit_%s.cfg" % d, "emit CtxRunner deferred=" + d, fast="tiny")
    chk.sample({"ctx_runner_behaviour": cb[0]})
    common.replay(chk, vh, scratch, "c12", cb, name="ctx", mode="replay-ctx")
    pb = common.emit_behaviours(chk, scratch, SPEC, "Parallelise", "Parallelise_emit.cfg", "emit Parallelise scenarios", fast="tiny")
    pb += [{"n": 0, "fails": []}, {"n": 1, "fails": []}, {"n": 1, "fails": [1]}]
    common.replay(chk, vh, scratch, "c12", pb, name="par", mode="replay-parallelise")
    # 3. recorded real executions validated by TLC
    tr, _ = common.record(vh, scratch, "c12", "sweep.ndjson", chk.seed, chk.tier, mode="sweep-timeout")
    common.validate(chk, scratch, SPEC, "TimeoutRunnerTrace", "TimeoutRunnerTrace.cfg", tr, "deadline sweep", sig_of=sig_sweep,
                    count_traces=len)
    chk.sample({"sweep_event": vlib.read_ndjson(tr)[0]})
    tr, _ = common.record(vh, scratch, "c12", "store.ndjson", chk.seed, chk.tier, mode="record-store", n=(400 if thorough else 40))
    common.validate(chk, scratch, SPEC, "CancelStoreTrace", "CancelStoreTrace.cfg", tr, "cancel store histories", sig_of=sig_store,
                    count_traces=lambda evs: sum(1 for e in evs if e.get("op") == "New"))
    tr, _ = common.record(vh, scratch, "c12", "par.ndjson", chk.seed, chk.tier, mode="record-parallelise", n=(2000 if thorough else 150))
    common.validate(chk, scratch, SPEC, "ParalleliseTrace", "ParalleliseTrace.cfg", tr, "Parallelise calls", sig_of=sig_par, count_traces=len)
    chk.cov["rule"] = ("behaviour = terminated run of the TLA+ runner models (order of deadline, completion, cancellation; action listening/"
                       "outcome), replayed with 25 ms spacing; sweep = completion instant across deadline +-2 ms under 0..16 busy goroutines; "
                       "store = concurrent Register/Cancel/Len histories; all non-trivial (every one exercises a distinct ordering or instant)")
    chk.assumptions += ["scheduling latency below the 4 ms margin classifies an instant as clearly before/after the deadline; inside the margin either order is accepted",
                        "actions that never end are outside the statement"]
