"""C12 - timeout / cancellation runners, Parallelise, cancel store (specs/conc/*.tla)."""
import os

import vlib
from props import common

SPEC = os.path.join(vlib.SPECS, "conc")
LEVEL = "model_checking"


def sig_sweep(ev, events, idx):
    if ev.get("ret") == "blocked":
        return "runner-never-returns"
    if not ev.get("ended"):
        return "runner-returned-before-action-ended"
    return "runner-wrong-result"


def sig_store(ev, events, idx):
    if ev.get("op") == "CancelEnd":
        return "registered-function-not-invoked"
    if ev.get("op") == "LenEnd":
        return "len-out-of-bounds"
    return "trace-rejected-" + str(ev.get("op"))


def sig_par(ev, events, idx):
    if ev.get("leaked"):
        return "parallelise-goroutine-blocked"
    if any(c != 1 for c in ev.get("invoked", [])):
        return "parallelise-not-once-per-argument"
    if ev.get("fails") and ev.get("ret") != "error":
        return "parallelise-error-swallowed"
    if not ev.get("fails") and ev.get("ret") == "ok":
        return "parallelise-results-lost"
    return "parallelise-wrong-outcome"


def run(chk, scratch):
    thorough = chk.tier == "thorough"
    vh = vlib.build_harness()
    # 1. designs as coded: deadlock freedom, liveness under fairness, result/ signalling invariants
    for module, cfg in (("TimeoutRunner", "TimeoutRunner.cfg"), ("CtxRunner", "CtxRunner_TRUE.cfg"), ("CtxRunner", "CtxRunner_FALSE.cfg"),
                        ("Parallelise", "Parallelise.cfg"), ("CancelStore", "CancelStore.cfg")):
        common.model_check(chk, scratch, SPEC, module, cfg, "%s (%s)" % (module, cfg), workers=4, fast="tiny")
    # model sensitivity: the pre-repair designs must fail (unbuffered stop channel; result channel smaller than the fan-out)
    for module, cfg, want in (("TimeoutRunner", "TimeoutRunner_unbuffered.cfg", "Deadlock"), ("Parallelise", "Parallelise_smallchan.cfg", "Deadlock"),
                              ("CtxRunner", "CtxRunner_storeonly.cfg", "StoreCancelReported")):
        r = vlib.run_tlc(scratch, [SPEC], module, cfg, workers=2, timeout=300, fast="tiny")
        vlib.tlc_must_pass(r, cfg)
        chk.add_tlc("%s sensitivity (%s must violate %s)" % (module, cfg, want), r)
        if r.violated != want:
            raise vlib.Inconclusive("sensitivity self-test failed: %s reported %s" % (cfg, r.violated))
    # 1b. the cancel store's safety for executions of ANY length: an inductive invariant discharged by Apalache (initiation, consecution,
    #     invariant => properties), 4 registrants x 3 cancellers; sensitivity: the invariant without "each registration once" is not inductive
    cinit = ["--cinit=ConstInit"]
    for what, args, want in (("initiation", ["--init=Init", "--inv=IndInv", "--length=0"], "NoError"),
                             ("consecution", ["--init=IndInit", "--inv=IndInv", "--length=1"], "NoError"),
                             ("invariant implies the properties", ["--init=IndInit", "--inv=Safety", "--length=0"], "NoError"),
                             ("weakened invariant is not inductive", ["--init=IndInitWeak", "--inv=IndInvWeak", "--length=1"], "Error")):
        got = vlib.run_apalache(scratch, [SPEC], "CancelStoreInd", cinit + args, timeout=600)
        if got != want:
            if want == "NoError":
                raise vlib.Inconclusive("the inductive invariant of CancelStoreInd.tla fails at %s: the specification or the invariant is wrong" % what)
            raise vlib.Inconclusive("sensitivity self-test failed: CancelStoreInd %s gave %s" % (what, got))
    chk.cov["apalache_inductive_invariant"] = "CancelStoreInd.tla: initiation, consecution, IndInv => MutexOK /\\ RegisteredBeforeCancelIsInvoked /\\ NoLostRegistration (4 registrants, 3 cancellers, any length)"
    # 2. every terminated behaviour of the runner models replayed with scripted instants
    b = common.emit_behaviours(chk, scratch, SPEC, "TimeoutRunner", "TimeoutRunner_emit.cfg", "emit TimeoutRunner", fast="tiny")
    chk.sample({"timeout_runner_behaviour": b[0]})
    common.replay(chk, vh, scratch, "c12", b, name="timeout", mode="replay-timeout")
    cb = []
    for d in ("TRUE", "FALSE"):
        cb += common.emit_behaviours(chk, scratch, SPEC, "CtxRunner", "CtxRunner_emit_%s.cfg" % d, "emit CtxRunner deferred=" + d, fast="tiny")
    chk.sample({"ctx_runner_behaviour": cb[0]})
    common.replay(chk, vh, scratch, "c12", cb, name="ctx", mode="replay-ctx")
    pb = common.emit_behaviours(chk, scratch, SPEC, "Parallelise", "Parallelise_emit.cfg", "emit Parallelise scenarios", fast="tiny")
    pb += [{"n": 0, "fails": []}, {"n": 1, "fails": []}, {"n": 1, "fails": [1]}]
    # fan-outs far larger than the model's: the result hand-over must not depend on the length of the list
    pb += [{"n": 700, "fails": [1]}, {"n": 700, "fails": []}, {"n": 1500, "fails": [3, 1200]}]
    common.replay(chk, vh, scratch, "c12", pb, name="par", mode="replay-parallelise")
    # 3. recorded real executions validated by TLC
    tr, _ = common.record(vh, scratch, "c12", "sweep.ndjson", chk.seed, chk.tier, mode="sweep-timeout")
    common.validate(chk, scratch, SPEC, "TimeoutRunnerTrace", "TimeoutRunnerTrace.cfg", tr, "deadline sweep", sig_of=sig_sweep,
                    count_traces=len)
    chk.sample({"sweep_event": vlib.read_ndjson(tr)[0]})
    # the same sweep for the context runners (1 ms deadline, completion spun to +-120 us around it): every run must be a behaviour of CtxRunner.tla
    trc, _ = common.record(vh, scratch, "c12", "sweepctx.ndjson", chk.seed, chk.tier, mode="sweep-ctx", timeout=1800)
    common.validate(chk, scratch, SPEC, "CtxRunnerTrace", "CtxRunnerTrace.cfg", trc, "deadline sweep of the context runners", sig_of=sig_sweep, count_traces=len)
    chk.sample({"ctx_sweep_event": vlib.read_ndjson(trc)[0]})
    tr, _ = common.record(vh, scratch, "c12", "store.ndjson", chk.seed, chk.tier, mode="record-store", n=(400 if thorough else 40))
    common.validate(chk, scratch, SPEC, "CancelStoreTrace", "CancelStoreTrace.cfg", tr, "cancel store histories", sig_of=sig_store,
                    count_traces=lambda evs: sum(1 for e in evs if e.get("op") == "New"))
    tr, _ = common.record(vh, scratch, "c12", "par.ndjson", chk.seed, chk.tier, mode="record-parallelise", n=(2000 if thorough else 150))
    common.validate(chk, scratch, SPEC, "ParalleliseTrace", "ParalleliseTrace.cfg", tr, "Parallelise calls", sig_of=sig_par, count_traces=len)
    # 4. growth beyond the listed property: RunActionWithParallelCheck (ParallelCheck.tla) replayed on the real function
    common.model_check(chk, scratch, SPEC, "ParallelCheck", "ParallelCheck.cfg", "ParallelCheck as coded: failing check x parent cancellation x action length/behaviour (safety + liveness)", workers=2, fast="tiny")
    rn = vlib.run_tlc(scratch, [SPEC], "ParallelCheck", "ParallelCheck_nostop.cfg", workers=2, timeout=300, fast="tiny", parse_behaviours=False)
    vlib.tlc_must_pass(rn, "ParallelCheck_nostop")
    chk.add_tlc("ParallelCheck with a checker that ignores its context (must violate NoCheckAfterStop)", rn)
    if rn.violated != "NoCheckAfterStop":
        raise vlib.Inconclusive("sensitivity self-test failed: ParallelCheck_nostop.cfg reported %s" % rn.violated)
    pcb = common.emit_behaviours(chk, scratch, SPEC, "ParallelCheck", "ParallelCheck.cfg", "emit ParallelCheck scenarios", fast="tiny")
    inp = os.path.join(scratch, "c12-parcheck.ndjson")
    vlib.write_ndjson(inp, pcb)
    ptr = os.path.join(scratch, "c12-parcheck-trace.ndjson")
    p = vlib.run_vh(vh, ["c12", "replay-parcheck", "--in", inp, "--out", ptr, "--dir", scratch, "--seed", chk.seed], timeout=1200)
    if p.returncode != 0:
        raise vlib.Inconclusive("c12 replay-parcheck driver failed: " + (p.stderr or "")[-1500:])
    from props.c04 import judge
    obs = common.Observing(chk)
    evp = judge(obs, scratch, ptr, "RunActionWithParallelCheck runs", spec="ParallelCheckTrace", spec_dir=SPEC)
    chk.cov["parallel_check_runs"] = len(evp)
    chk.cov["parallel_check_runs_with_scripted_instants_realised"] = sum(1 for e in evp if e["timingOk"])
    # 5. growth: SafeScheduleAfter / SafeSchedule (Scheduler.tla): strict reading, the code as it is, and the named deviation between them
    common.model_check(chk, scratch, SPEC, "Scheduler", "Scheduler_ascoded.cfg", "Scheduler as coded: one-shot and periodic calls x duration of f x cancellation instant", workers=2, fast="tiny")
    rl = vlib.run_tlc(scratch, [SPEC], "Scheduler", "Scheduler_latecall.cfg", workers=2, timeout=300, fast="tiny", parse_behaviours=False)
    vlib.tlc_must_pass(rl, "Scheduler_latecall")
    chk.add_tlc("Scheduler as coded (must violate NoCallAfterCancel: a waiting tick may win over the done context)", rl)
    if rl.violated != "NoCallAfterCancel":
        raise vlib.Inconclusive("sensitivity self-test failed: Scheduler_latecall.cfg reported %s" % rl.violated)
    sb = common.emit_behaviours(chk, scratch, SPEC, "Scheduler", "Scheduler_strict.cfg", "emit Scheduler scenarios (strict reading)", fast="tiny")
    inp = os.path.join(scratch, "c12-sched.ndjson")
    vlib.write_ndjson(inp, sb)
    strc = os.path.join(scratch, "c12-sched-trace.ndjson")
    p = vlib.run_vh(vh, ["c12", "replay-sched", "--in", inp, "--out", strc, "--dir", scratch, "--seed", chk.seed], timeout=1200)
    if p.returncode != 0:
        raise vlib.Inconclusive("c12 replay-sched driver failed: " + (p.stderr or "")[-1500:])
    evs = judge(obs, scratch, strc, "SafeSchedule / SafeScheduleAfter runs", spec="SchedulerTrace", spec_dir=SPEC)
    chk.cov["scheduler_runs"] = len(evs)
    chk.cov["scheduler_runs_with_scripted_instants_realised"] = sum(1 for e in evs if e["timingOk"])
    chk.cov["observations_outside_the_listed_property"] = obs.seen
    chk.cov["rule"] = ("behaviour = terminated run of the TLA+ runner models (order of deadline, completion, cancellation; action listening/"
                       "outcome), replayed with 25 ms spacing; sweep = completion instant across deadline +-2 ms under 0..16 busy goroutines; "
                       "store = concurrent Register/Cancel/Len histories; all non-trivial (every one exercises a distinct ordering or instant)")
    chk.assumptions += ["scheduling latency below the 4 ms margin classifies an instant as clearly before/after the deadline; inside the margin either order is accepted",
                        "actions that never end are outside the statement"]
