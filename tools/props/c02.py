"""C02 - Unzip never writes outside the destination (specs/archive/ZipSlip.tla, specs/common/Paths.tla)."""
import json
import os
import random

import vlib
from props import common

SPEC = os.path.join(vlib.SPECS, "archive")
LEVEL = "model_checking"


def judge(chk, scratch, trace, what):
    total = sum(1 for line in open(trace) if line.strip())
    r = vlib.run_tlc(scratch, [SPEC], "ZipSlipTrace", "ZipSlipTrace.cfg", workers=1, timeout=1800, deadlock=False,
                     extra_files=[(trace, "trace.ndjson")], fast=True)
    if r.error:
        raise vlib.Inconclusive("TLC error judging %s: %s" % (what, r.error))
    chk.add_tlc(what, r)
    matched = [v for t, v in r.printed if t == "TRACE_MATCHED"]
    if not matched or int(matched[-1]) != total:
        raise vlib.Inconclusive("%s: projection and ZipSlipTrace.tla disagree at event %s of %d" % (what, matched, total))
    events = vlib.read_ndjson(trace)
    by = {}
    for e in events:
        by.setdefault(e["id"], []).append(e)
    esc = 0
    for tag, v in r.printed:
        if tag != "VERDICT":
            continue
        chk.evaluations += 1
        chk.traces += 1
        esc += 1 if v["escapes"] else 0
        for s in v["viol"]:
            es = by[v["id"]]
            chk.violation(s, "%s: entry %s into %s -> %s, mutations %s, outside changed %s" % (
                what, es[0].get("raw"), es[0].get("dest"), es[-1].get("result"), [m.get("raw") for m in es[1:-1]][:6], es[-1].get("outside")), es)
    chk.cov["trace_events_validated"] = chk.cov.get("trace_events_validated", 0) + total
    chk.cov["escaping_entries_exercised"] = chk.cov.get("escaping_entries_exercised", 0) + esc
    chk.nontrivial += esc
    return events


def run(chk, scratch):
    thorough = chk.tier == "thorough"
    vh = vlib.build_harness()
    r = vlib.run_tlc(scratch, [SPEC], "ZipSlip", "ZipSlip.cfg", workers=1, timeout=900, fast=True)
    vlib.tlc_must_pass(r, "ZipSlip")
    if r.violated:
        raise vlib.Inconclusive("the path algebra of ZipSlip.tla violates %s" % r.violated)
    chk.add_tlc("ZipSlip: every entry name over the colliding alphabet x destination shape x kind, with the lexical oracle", r)
    rt = vlib.run_tlc(scratch, [SPEC], "ZipSlip", "ZipSlip_stemtwice.cfg", workers=2, timeout=300, fast=True, parse_behaviours=False)
    vlib.tlc_must_pass(rt, "ZipSlip_stemtwice")
    chk.add_tlc("ZipSlip with the unpacking directory stripped of a second extension (must violate NestedRootBesideArchive)", rt)
    if rt.violated != "NestedRootBesideArchive":
        raise vlib.Inconclusive("sensitivity self-test failed: ZipSlip_stemtwice.cfg reported %s" % rt.violated)
    scen = r.behaviours
    chk.cov["model_scenarios"] = len(scen)
    rnd = random.Random(chk.seed)
    if not thorough:
        esc = [s for s in scen if s["escapes"]]
        ok = [s for s in scen if not s["escapes"]]
        compound = [s for s in scen if s["kind"] == "nested" and s["ext"] != "zip" and s["stem"] == ".."]
        # boundary class, always run: the entry resolves to the destination itself or exactly to its parent, under a relative destination
        def cleaned(comps):
            out = []
            for c in comps:
                if c in ("", "."):
                    continue
                if c == ".." and out and out[-1] != "..":
                    out.pop()
                else:
                    out.append(c)
            return out
        boundary = [s for s in scen if s["destShape"] in ("dot", "rel", "dotdot", "dotdot2") and cleaned(s["comps"]) in ([], [".."])]
        rnd.shuffle(boundary)
        scen = rnd.sample(esc, 700) + rnd.sample(ok, 500) + rnd.sample(compound, 120) + boundary[:250]
        chk.cov["boundary_scenarios_entry_is_destination_or_its_parent"] = len(boundary[:250])
    chk.cov["nested_archives_with_compound_extension"] = sum(1 for s in scen if s["kind"] == "nested" and s["ext"] != "zip")
    # archives with chained symbolic-link entries (ZipLinks.tla): names lexically inside, real locations possibly not
    rl = vlib.run_tlc(scratch, [SPEC], "ZipLinks", "ZipLinks.cfg", workers=1, timeout=300, fast=True)
    vlib.tlc_must_pass(rl, "ZipLinks")
    chk.add_tlc("ZipLinks: chains of 1..3 link entries x 6 targets, where the file would land if links were restored", rl)
    rl2 = vlib.run_tlc(scratch, [SPEC], "ZipLinks", "ZipLinks_lexical.cfg", workers=1, timeout=300, fast=True)
    vlib.tlc_must_pass(rl2, "ZipLinks_lexical")
    chk.add_tlc("ZipLinks: lexical checks of each link alone are not enough (must violate)", rl2)
    if rl2.violated != "LexicalChecksAreNotEnough":
        raise vlib.Inconclusive("sensitivity self-test failed: ZipLinks_lexical.cfg reported %s" % rl2.violated)
    links = rl.behaviours
    chk.cov["link_chain_scenarios"] = len(links)
    if not thorough:
        links = [s for s in links if s["escapesIfRestored"]][:60] + rnd.sample(links, 30)
    scen = scen + links
    chk.sample({"scenario": scen[0]})
    inp = os.path.join(scratch, "c02-scen.ndjson")
    vlib.write_ndjson(inp, scen)
    tr = os.path.join(scratch, "c02-trace.ndjson")
    p = vlib.run_vh(vh, ["c02", "replay", "--in", inp, "--out", tr, "--dir", scratch, "--seed", chk.seed], timeout=3000)
    if p.returncode != 0:
        raise vlib.Inconclusive("c02 replay driver failed: " + p.stderr[-2000:])
    judge(chk, scratch, tr, "archives built from the model's entry names")
    tr2, _ = common.record(vh, scratch, "c02", "c02-fuzz.ndjson", chk.seed, chk.tier, mode="fuzz", n=(20000 if thorough else 1000), timeout=3000)
    ev = judge(chk, scratch, tr2, "archives with names over raw bytes")
    chk.sample({"fuzz_begin": next(e for e in ev if e["ev"] == "Begin")})
    chk.cov["rule"] = ("scenario = entry name of 1..3 components over {.., ., empty, A, B, ..., A..B, destZ} x leading separator x kind (file, directory, nested archive with stem S / .. / . / empty / A..B and extension zip / tar.gz / TAR.zip) x "
                       "destination shape (absolute, trailing separator, relative to the working directory); materialised with archive/zip ('/' and doubled separators), extracted with Unzip / recursive "
                       "UnzipWithContextAndLimits on the OS filesystem and MemMapFs; fuzz = names over raw bytes (backslashes, control characters, UTF-16 / Shift-JIS looking sequences); non-trivial = the entry escapes")
    chk.assumptions += ["the harness only splits paths on '/'; cleaning, joining and containment are evaluated by TLC (Paths.tla)",
                        "the process working directory is a sandbox directory whose content is snapshotted too"]
