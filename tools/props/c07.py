"""C07 - archives are faithful (specs/archive/ArchiveRoundTrip.tla, ArchiveTrace.tla, ClosableFs.tla, ClosableTrace.tla)."""
import os
import random

import vlib
from props import common
from props.c04 import judge

SPEC = os.path.join(vlib.SPECS, "archive")
LEVEL = "model_checking"


def describe_rt(e):
    keys = ("backend", "shape", "mt", "prior", "zipErr", "unzipErr", "unzipLimitsErr", "zipViewErr", "tarViewErr", "zipViewProblems", "tarViewProblems", "listOut", "handles")
    d = {k: e.get(k) for k in keys if e.get(k) not in ("", [], 0, None)}
    src, ext = set(e.get("srcC", [])), set(e.get("extC", []))
    d["source"] = sorted(src)[:8]
    for name, other in (("extraction", ext), ("zipView", set(e.get("zipViewC", []))), ("tarView", set(e.get("tarViewC", [])))):
        if other != src:
            d[name + "_missing"] = sorted(src - other)[:6]
            d[name + "_extra"] = sorted(other - src)[:6]
    if set(e.get("extT", [])) != set(e.get("srcT", [])):
        d["mtime_expected"] = sorted(set(e.get("srcT", [])) - set(e.get("extT", [])))[:4]
        d["mtime_found"] = sorted(set(e.get("extT", [])) - set(e.get("srcT", [])))[:4]
    if sorted(e.get("list", [])) != sorted(e.get("extP", [])):
        d["list"] = e.get("list")[:8]
    return str(d)


def describe_step(e):
    bad = [r for r in e.get("results", []) if (r["ok"] != (e["class"] == "read")) or r["kind"] in ("panic", "blocked")]
    return "program %s on the %s view, step %d (%s): changed=%s outside=%s, e.g. %s" % (
        e.get("id"), e.get("view"), e.get("step"), e.get("class"), e.get("changed"), e.get("outside"), bad[:4])


def run(chk, scratch):
    thorough = chk.tier == "thorough"
    vh = vlib.build_harness()
    # 1. the round-trip algebra on every scenario; sensitivity: without directory entries empty directories are lost
    r = vlib.run_tlc(scratch, [SPEC], "ArchiveRoundTrip", "ArchiveRoundTrip.cfg", workers=1, timeout=900, fast=True)
    vlib.tlc_must_pass(r, "ArchiveRoundTrip")
    if r.violated:
        raise vlib.Inconclusive("ArchiveRoundTrip.tla violates %s: the specification is wrong" % r.violated)
    chk.add_tlc("ArchiveRoundTrip: shape x name classes x size x time class, Unzip(Zip(t)) = t", r)
    r2 = vlib.run_tlc(scratch, [SPEC], "ArchiveRoundTrip", "ArchiveRoundTrip_nodirs.cfg", workers=2, timeout=300, fast=True)
    vlib.tlc_must_pass(r2, "ArchiveRoundTrip_nodirs")
    chk.add_tlc("ArchiveRoundTrip without directory entries (must violate RoundTrip)", r2)
    if r2.violated != "RoundTrip":
        raise vlib.Inconclusive("sensitivity self-test failed: ArchiveRoundTrip_nodirs.cfg reported %s" % r2.violated)
    r2b = vlib.run_tlc(scratch, [SPEC], "ArchiveRoundTrip", "ArchiveRoundTrip_inplace.cfg", workers=2, timeout=300, fast=True)
    vlib.tlc_must_pass(r2b, "ArchiveRoundTrip_inplace")
    chk.add_tlc("ArchiveRoundTrip with the destination overwritten in place (must violate RoundTrip)", r2b)
    if r2b.violated != "RoundTrip":
        raise vlib.Inconclusive("sensitivity self-test failed: ArchiveRoundTrip_inplace.cfg reported %s" % r2b.violated)
    scen = r.behaviours
    chk.cov["model_scenarios"] = len(scen)
    rnd = random.Random(chk.seed)
    if not thorough:
        big = [s for s in scen if any(n["size"] > 100000 for n in s["nodes"])]
        small = [s for s in scen if not any(n["size"] > 100000 for n in s["nodes"])]
        scen = rnd.sample(big, 40) + rnd.sample(small, 360)
        scen += rnd.sample([s for s in small if s["prior"] == "longer"], 12) + rnd.sample([s for s in small if s["prior"] == "empty"], 6)
    else:
        scen = rnd.sample(scen, min(len(scen), 4000))
    chk.sample({"scenario": scen[0]})
    inp = os.path.join(scratch, "c07-scen.ndjson")
    vlib.write_ndjson(inp, scen)
    tr = os.path.join(scratch, "c07-trace.ndjson")
    p = vlib.run_vh(vh, ["c07", "replay", "--in", inp, "--out", tr, "--dir", scratch, "--seed", chk.seed], timeout=3000)
    if p.returncode != 0:
        raise vlib.Inconclusive("c07 replay driver failed: " + p.stderr[-2000:])
    ev = judge(chk, scratch, tr, "round trips of the model's trees", spec="ArchiveTrace", describe=describe_rt, spec_dir=SPEC)
    for e in ev:
        if str(e.get("tarViewErr", "")).startswith("harness:"):
            raise vlib.Inconclusive("the harness could not write the tar archive: " + e["tarViewErr"])
    chk.nontrivial += sum(1 for e in ev if e.get("srcC"))
    chk.cov["round_trips_onto_an_existing_destination"] = sum(1 for e in ev if e.get("prior") in ("empty", "longer"))
    # 2. larger seeded trees
    tr2, _ = common.record(vh, scratch, "c07", "c07-fuzz.ndjson", chk.seed, chk.tier, mode="fuzz", n=(300 if thorough else 25), timeout=3000)
    ev2 = judge(chk, scratch, tr2, "round trips of seeded trees", spec="ArchiveTrace", describe=describe_rt, spec_dir=SPEC)
    chk.nontrivial += len(ev2)
    chk.cov["largest_seeded_tree_entries"] = max(len(e.get("srcC", [])) for e in ev2)
    # 3. programs of calls around Close()
    r3 = vlib.run_tlc(scratch, [SPEC], "ClosableFs", "ClosableFs.cfg", workers=1, timeout=300, fast=True)
    vlib.tlc_must_pass(r3, "ClosableFs")
    if r3.violated:
        raise vlib.Inconclusive("ClosableFs.tla violates %s" % r3.violated)
    chk.add_tlc("ClosableFs: every program of <= 4 steps over {read, mutate, close}", r3)
    progs = r3.behaviours
    chk.cov["close_programs"] = len(progs)
    inp3 = os.path.join(scratch, "c07-progs.ndjson")
    vlib.write_ndjson(inp3, progs)
    tr3 = os.path.join(scratch, "c07-close.ndjson")
    p = vlib.run_vh(vh, ["c07", "closeseq", "--in", inp3, "--out", tr3, "--dir", scratch, "--seed", chk.seed], timeout=3000)
    if p.returncode != 0:
        raise vlib.Inconclusive("c07 closeseq driver failed: " + p.stderr[-2000:])
    ev3 = judge(chk, scratch, tr3, "programs around Close()", spec="ClosableTrace", describe=describe_step, spec_dir=SPEC)
    chk.cov["concrete_calls_judged"] = sum(len(e.get("results", [])) for e in ev3)
    chk.nontrivial += len(ev3)
    chk.sample({"close_step": {k: ev3[2][k] for k in ("view", "step", "class", "changed")}})
    # growth (outside the listed property): resource.CloseableResource, the close-once wrapper (Resource.tla): sequential histories
    # emitted by TLC and rounds of N goroutines closing at once, run on the real wrapper over a scripted io.Closer and re-judged by
    # ResourceTrace.tla.  Discrepancies are observations, never alarms.
    import json
    vh = vlib.build_harness()
    rn = vlib.run_tlc(scratch, [SPEC], "Resource", "Resource_nolock.cfg", workers=2, timeout=300, deadlock=False, fast="tiny", parse_behaviours=False)
    vlib.tlc_must_pass(rn, "Resource_nolock")
    chk.add_tlc("Resource without the mutex across the underlying Close (must violate UnderlyingClosedAtMostOnce)", rn)
    if rn.violated != "UnderlyingClosedAtMostOnce":
        raise vlib.Inconclusive("sensitivity self-test failed: Resource_nolock.cfg reported %s" % rn.violated)
    rb = common.emit_behaviours(chk, scratch, SPEC, "Resource", "Resource.cfg", "CloseableResource: histories of Close / IsClosed by two callers, 0..2 failing closes",
                                workers=1, fast="tiny", limit=(None if thorough else 800), seed=chk.seed)
    rb += [{"fails": f, "steps": [], "n": n} for n in range(2, 9) for f in range(0, 5) for _ in range(6 if thorough else 1)]
    rin = os.path.join(scratch, "c07-resource.ndjson")
    vlib.write_ndjson(rin, rb)
    rtr = os.path.join(scratch, "c07-resource-trace.ndjson")
    p = vlib.run_vh(vh, ["c07", "resource", "--in", rin, "--out", rtr], timeout=600)
    if p.returncode != 0:
        raise vlib.Inconclusive("c07 resource driver failed: " + (p.stderr or "")[-1500:])
    obs = common.Observing(chk)
    evr = judge(obs, scratch, rtr, "CloseableResource runs", spec="ResourceTrace", spec_dir=SPEC)
    chk.cov["closeable_resource_runs_judged"] = len(evr)
    chk.cov["observations_outside_the_listed_property"] = dict(obs.seen)
    seq = [e for e in evr if e["op"] == "ResourceSeq" and any(st["op"] == "Close" for st in e["steps"])][:30]
    if seq:       # binding self-test: one corrupted answer must be noticed
        bad = json.loads(json.dumps(seq))
        k = random.Random(chk.seed).randrange(len(bad))
        i = [j for j, st in enumerate(bad[k]["steps"]) if st["op"] == "Close"][0]
        bad[k]["got"][i]["err"] = not bad[k]["got"][i]["err"]
        btr = os.path.join(scratch, "c07-resource-corrupt.ndjson")
        vlib.write_ndjson(btr, bad)
        probe = common.Observing(chk)
        ev0, tr0 = chk.evaluations, chk.traces
        judge(probe, scratch, btr, "resource judge self-test (one corrupted answer)", spec="ResourceTrace", spec_dir=SPEC)
        chk.evaluations, chk.traces = ev0, tr0
        if "observation:resource-close-result-wrong" not in probe.seen:
            raise vlib.Inconclusive("binding self-test failed: ResourceTrace.tla accepted a corrupted Close result")
    chk.cov["rule"] = ("tree = shape (empty, one file, one empty directory, nested, deep with empty leaves, flat) x three name classes out of 11 (plain, dot file, 'a..b', space, unicode, shell meta, "
                       "200 characters, trailing dot, newline, leading dash, archive extension) x size of the main file {0,1,4096,32767,32768,32769,3000001} x time class (even/odd second, "
                       "sub-second, 1990) x state of the destination path (absent, empty file, an older and longer archive); each on the OS filesystem and MemMapFs: Zip, Unzip, Unzip with limits, zip view, tar view (tar written by the harness with archive/tar); seeded trees up to "
                       "200 entries, depth <= 6, random names; every program of <= 4 steps over {read, mutate, close} on both views, each step expanded to every concrete method of its class "
                       "(methods.go: 35 reading and 47 mutating calls)")
    chk.assumptions += ["archive precision = 1 s (extended time stamp field written by archive/zip)",
                        "GarbageCollect is classed as a reading call on the views: archive entries carry no access time, nothing ever expires, nothing is removed",
                        "FetchOwners is left out: archives carry no owners and the call is 'unsupported' on an open view"]
