#!/usr/bin/env python3
"""setup_cmd: offline; checks tool presence and pre-builds the conformance harness."""
import os
import shutil
import subprocess
import sys

sys.path.insert(0, os.path.dirname(os.path.abspath(__file__)))
import vlib  # noqa: E402


def main():
    for tool in ("go", "java", "timeout"):
        if not shutil.which(tool):
            print("missing tool:", tool)
            return 1
    if not os.path.exists(vlib.TLA_JAR):
        print("missing", vlib.TLA_JAR)
        return 1
    os.makedirs(vlib.SCRATCH_ROOT, exist_ok=True)
    os.makedirs(vlib.EVIDENCE, exist_ok=True)
    try:
        vlib.build_harness()
        vlib.build_harness(race=True)
    except vlib.Inconclusive as e:
        print(e)
        return 1
    p = subprocess.run(["java", "-cp", vlib.TLA_CP, "tlc2.TLC", "-h"], stdout=subprocess.PIPE, stderr=subprocess.STDOUT)
    print("setup ok")
    return 0


if __name__ == "__main__":
    sys.exit(main())
