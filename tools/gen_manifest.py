#!/usr/bin/env python3
"""Regenerates /verif/MANIFEST.json from the table below (kept in one place so that it is always valid)."""
import json
import os

VERIF = os.path.dirname(os.path.dirname(os.path.abspath(__file__)))

CHECKS = {
    "C01": dict(
        category="model_checking", design_ref="DESIGN.md 5/C01",
        text="LockFile.tla models RemoteLockFile at the grain of mutating backend calls and deciding read blocks (acquire, stale takeover, release retry loop, heartbeat "
             "writer, staleness ticks, death); TLC checks exhaustively that the protocol without the named deviations satisfies mutual exclusion / release safety / single "
             "takeover, and enumerates every distinct violating state of the protocol as coded with its schedule. Those schedules and seeded random ones (2..4 contenders, "
             "single-backend-call granularity) are forced on real lock objects through a gate at the afero.Fs boundary on MemMapFs and the OS filesystem; the recorded "
             "executions are judged by TLC (LockTrace.tla on the shared monitor LockMonitor.tla), which assigns causal signatures. A GiveUp action (a contender that stops waiting; sensitivity GiveUpCleans) is replayed with a short LockWithTimeout, the random scheduler holds a contender between the two reads of one staleness decision while the holder releases, and a real-time stage (take-over of a dead holder's lock, then hold; one heartbeat write failing) is judged by LockTimedTrace.tla.",
        note="Trusted: TLC, the gate's attribution of backend calls to contenders (API function names on the call stack), model time for staleness (Stat re-stamped by the gate). "
             "Known findings (protocol-level, see known_findings.json) are reported as KNOWN-FINDING; any other signature is a violation.",
        technique="TLA+ spec + TLC exhaustive; TLC-generated schedules forced on real code through an afero.Fs gate; TLC judges recorded traces"),
    "C02": dict(
        category="model_checking", design_ref="DESIGN.md 5/C02",
        text="Paths.tla is a lexical path algebra written from the POSIX rules; ZipSlip.tla enumerates every entry name of <=3 components over a colliding alphabet x destination shape x entry kind "
             "(nested archives with hostile stems included) and decides with it whether the entry escapes (24k scenarios). Real archives are built for them and extracted on both backends; every "
             "mutating backend call with its path, and a snapshot of the sandbox and of the working directory outside the destination, are judged by ZipSlipTrace.tla, where TLC cleans / joins / tests "
             "containment itself and requires the 'malicious' kind for escaping entries; names over raw bytes (non-UTF-8 included) go through the same judgement. Destination shapes include the working directory itself; entries resolving to the destination or exactly to its parent form a boundary class that is always run.",
        note="Trusted: TLC, archive/zip to build archives, the gate's record of mutating calls, the no-follow snapshot.",
        technique="TLA+ path algebra + TLC exhaustive scenario enumeration; replay on real archives; TLC trace validation of backend mutations"),
    "C03": dict(
        category="model_checking", design_ref="DESIGN.md 5/C03",
        text="ZipLimits.tla models archives (entries under directories, declared vs actual sizes, nested archives, zip-named non-zips) and limit configurations, computes the tree a full extraction would "
             "leave and from it WouldExceed / ShortData, for 3128 (quick) or 183k (thorough) scenarios. Real archives are built with forged headers and nesting, extracted with UnzipWithContextAndLimits on "
             "both backends under the gate; the tree measured on disk, the write high-water mark of every file and the result kind are judged by TLC (success => within every limit; would exceed => 'too large'; "
             "no file ever longer than its limit or its declared size); seeded bombs with nesting to 6 and random limits around the exact totals go through the same judgement.",
        note="Trusted: TLC, archive/zip CreateRaw to forge headers, the independent walk of the destination, per-file write accounting at the afero.Fs boundary.",
        technique="TLA+ spec + TLC scenario enumeration with oracle; replay on real archives; TLC trace validation"),
    "C04": dict(
        category="model_checking", design_ref="DESIGN.md 5/C04",
        text="FsRemove.tla states the reference semantics of removal (rm -rf: links are leaves, exclusion protects an entry, what is beneath it and its ancestors) over a sandbox "
             "with an inside tree and an outside region; TLC enumerates every scenario (3700: tree shape x link place x link target class x entry point x pattern), checks the semantics "
             "against OutsideUnchanged / SuccessMeansGone / ExcludedSurvive, and emits the expected tree. Every scenario is materialised on the real filesystem(s), the real entry point "
             "is called, and a no-follow snapshot of the whole sandbox before/after is judged by TLC (FsRemoveTrace.tla); seeded random larger trees go through the same judgement. Every other excluding removal passes its pattern set after sets that read alike when strung together were used in the same process.",
        note="Trusted: TLC, the Lstat-based snapshot, os.Symlink; link scenarios on the OS backend only.",
        technique="TLA+ reference semantics + TLC exhaustive scenario enumeration; replay on real filesystems; TLC trace validation"),
    "C05": dict(
        category="model_checking", design_ref="DESIGN.md 5/C05",
        text="ProcTree.tla models the direct child (leader of its process group) and up to three descendants (parent, stays in the group or setsid, ignores SIGTERM, keeps the output pipes), "
             "kernel signalling, os/exec's Wait (child dead and pipes closed, or a bounded wait) and the library's reaction to a stop request (kill the child only, or TERM + KILL to the group); "
             "TLC checks AfterReturnNoSurvivor, IsOnFalseAfterwards and the liveness property StopReturns under fairness over every scenario, with three sensitivity configurations that must fail. "
             "Every scenario is emitted and a sample is run as a real process tree of re-executed harness processes through Execute / Start and context / Cancel() / Stop(); return latency, "
             "survivors in the group (from /proc) and IsOn() are judged by TLC (ProcTreeTrace.tla). Stop modes: context cancelled, context ended by its time limit, Cancel(), Stop().",
        note="Trusted: TLC, /proc/<pid>/stat, the kernel's process-group semantics; 'promptly' is a 12 s bound.",
        technique="TLA+ process-tree specification + TLC safety and liveness check; replay as real process trees; TLC trace judgement"),
    "C06": dict(
        category="model_checking", design_ref="DESIGN.md 5/C06",
        text="FsModel.tla is the reference model of the filesystem API: the tree (directories, files with content) and one action per call (mkdir -p, write, touch, rm -rf, clean, read, ls, "
             "recursive listings, sub-directories, glob, predicates, size, hash, copy to file / directory, cp -r with the destination rule, mv) giving class, expected outcome, value, tree and "
             "frame. TLC checks the model's own invariants and action properties exhaustively (well-formed tree, read-only and refused calls change nothing, a copy keeps its source, changes "
             "stay within the frame) and simulates random programs with the expectation of every call. Each program runs on the OS filesystem and on MemMapFs behind the recording gate; outcome, "
             "value, full tree dump, handle balance, frame and copy-source preservation of every call are judged by TLC (FsModelTrace.tla). Every other CopyToDirectory destination is spelt with a trailing separator.",
        note="Trusted: TLC, the harness's own tree dump, MemMapFs/OsFs as backends; calls with kind conflicts or overlapping paths are only held to the frame conditions.",
        technique="TLA+ reference model + TLC exhaustive check and random program simulation; replay on both backends; TLC trace judgement"),
    "C07": dict(
        category="model_checking", design_ref="DESIGN.md 5/C07",
        text="ArchiveRoundTrip.tla models a tree, the entries Zip writes for it (one per directory and per file, relative names) and what Unzip / the read-only views make of them; TLC checks "
             "Unzip(Zip(t)) = t, list = created, view = tree on every scenario (shape x name classes x size x time class; without directory entries the round trip must fail) and emits the "
             "scenarios. Each is materialised on both backends; the real Zip, Unzip (with and without limits), NewZipFileSystem and NewTarFileSystem run on it and the dumps (path, kind, size, "
             "hash, mtime), the returned lists and the handle balance are judged by TLC (ArchiveTrace.tla), as are seeded larger trees. ClosableFs.tla is the open/closed state machine of the "
             "views; TLC emits every program of <= 4 steps over {read, mutate, close}; each step is expanded to every concrete FS method of its class on both views and ClosableTrace.tla "
             "re-runs the state machine over the recorded results. Growth: Resource.tla (close-once wrapper) replayed and re-judged by ResourceTrace.tla (observations only).",
        note="Trusted: TLC, archive/tar (the tar archives are written by the harness), the harness's own directory dump.",
        technique="TLA+ round-trip and closable-view specifications + TLC scenario / program enumeration; replay on real archives and views; TLC trace judgement"),
    "C08": dict(
        category="model_checking", design_ref="DESIGN.md 5/C08",
        text="FsExclude.tla defines matching of a small regular-expression AST on names (recursively, TLC evaluating string operators) and from it MustSkip (a component fully matched) and "
             "MustProcess (no component contains a match); TLC enumerates every (tree, pattern set, operation) scenario with the two sets and checks they are disjoint. Each scenario is "
             "materialised on both backends, the real walk / ls / ls -R / tree listing / sub-directories / copy / zip / remove / clean is run, and TLC judges the processed set against "
             "MustSkip / MustProcess; invalid patterns must be rejected as 'invalid' before anything is touched (sandbox snapshot).",
        note="Trusted: TLC, Go regexp source generated from the AST, snapshot of the sandbox. Known finding: Copy matches across the path separator.",
        technique="TLA+ regex semantics + TLC exhaustive scenario enumeration; replay on real filesystems; TLC trace validation"),
    "C09": dict(
        category="model_checking", design_ref="DESIGN.md 5/C09",
        text="SafeIO.tla states, per observation of one real call, which clause of the statement it breaks (prefix, at most the maximum, exactly n or an error, too-large refusal, no read started "
             "after the context is done, context kinds, EOF kind); FsCancel.tla models a loop that tests its context once per item and TLC checks that the work after a cancellation is bounded "
             "independently of the remaining work (and is not when the test is removed). TLC enumerates the 3065 scenario classes of the I/O helpers, which run against scripted readers / writers; "
             "16 context-accepting filesystem entry points are cancelled before the call and after the k-th backend call on trees of 100 and 400 entries on both backends; TLC judges every observation. Contexts end in five ways (cancelled, cancelled with a cause, child of such, ended by the time limit, child of such); RemoveWithPrivileges is an entry point and the force remover of the OS backend is visible to the library.",
        note="Trusted: TLC, the scripted reader (records the context state at every Read), the gate's call counting, B = 32. Known finding: the fan-out of the garbage collection.",
        technique="TLA+ rule specification + TLC-enumerated scenario classes; replay with scripted streams; cancellation sweep at the afero.Fs boundary; TLC trace validation"),
    "C10": dict(
        category="model_checking", design_ref="DESIGN.md 5/C10",
        text="The statement (Clamp over limb-encoded integers, ranges derived from bit widths) is checked by TLC for range, identity, idempotence, "
             "nearest bound and monotonicity over a boundary grid; TLC enumerates the input classes (18 source kinds incl. named types x every range "
             "boundary and power of two x offsets x float fraction / next-up / next-down), the harness converts each with the real functions and TLC "
             "validates every recorded conversion (plus exhaustive 8/16-bit sources, +-4096 neighbourhoods, random values) against Clamp and monotonicity.",
        note="Trusted: TLC, math/big projection of inputs/outputs to 24-bit limbs, int/uint being 64-bit. 32-bit sources are not swept exhaustively; NaN excluded.",
        technique="TLA+ spec (limb arithmetic) + TLC lemma check; TLC-enumerated input classes; TLC trace validation of recorded conversions"),
    "C11": dict(
        category="model_checking", design_ref="DESIGN.md 5/C11",
        text="ErrorKinds.tla transcribes at text level (TLC string operators) the constructors, the line parser, the 30-way first-match kind recogniser, "
             "Serialise and Deserialise; TLC checks IsKind, context-cause-never-reclassified, round-trip kind and reason, and that every kind text is recognised "
             "as itself, for every chain of depth <=1 (<=2 thorough) over 30 kinds x 6 messages; the emitted chains (and simulated ones to depth 4) are built with the "
             "real constructors and round-tripped in-process and through a child process; random chains / joins of 1..4 / the converters' backend-condition table are "
             "validated by a trace specification.",
        note="Trusted: TLC, recognition through commonerrors.Any on the 30 sentinels, single-line messages; the converter table is the reading of the three converters' documented cases.",
        technique="TLA+ text-level transcription + TLC exhaustive; behaviour replay incl. process boundary; TLC trace validation"),
    "C12": dict(
        category="model_checking", design_ref="DESIGN.md 5/C12",
        text="Four TLA+ models of the runners as coded (channels, select, contexts, RW mutex) are checked exhaustively by TLC for deadlock freedom, "
             "termination under fairness, own-result-before-deadline, timeout only after the action ended, context triggered on exit, once-per-argument, "
             "registered-before-Cancel-is-invoked; every terminated behaviour is replayed with scripted instants against the real functions; a sweep of "
             "completion instants across the deadline (+-2 ms, 0..16 busy goroutines) is validated by TLC by inferring the unlogged steps, and concurrent "
             "cancel-store / Parallelise histories are validated by trace specifications. CtxRunner.tla also has the cancellation of the caller's store and actions that stop quietly; recorded microsecond sweeps of both runner families are validated with inferred (silent) steps by TimeoutRunnerTrace.tla / CtxRunnerTrace.tla; an inductive invariant of the cancel store (CancelStoreInd.tla) is discharged by Apalache for executions of any length. Growth stages (ParallelCheck.tla, Scheduler.tla) are replayed and reported as observations only.",
        note="Trusted: TLC, wall-clock scripting with 25 ms spacing, a 4 ms (+ measured scheduling latency) margin inside which either order of deadline and completion is accepted.",
        technique="TLA+ specs + TLC exhaustive (safety, deadlock, liveness); behaviour replay; TLC trace validation with inferred silent steps"),
    "C13": dict(
        category="model_checking", design_ref="DESIGN.md 5/C13",
        text="LogSink.tla models producers logging on both streams of a logger whose sinks are guarded by an exclusive or a shared lock (a shared-mode append is two steps and loses concurrent "
             "appends) and an optional ring buffer with drop accounting; TLC checks ExactlyOnceIntact / EveryMember / DropsAccounted / NoSilentLoss exhaustively for 3 producers x 2 messages "
             "(the shared-lock configuration must violate). Every constructor of utils/logs is then driven in its own process of the -race harness by 2..32 producers sending checksummed "
             "messages on both streams (with concurrent SetLogSource / Append in every second round); the sinks are parsed back and the counts, the reported drops and the race-detector "
             "reports with utils/logs frames are judged by TLC (LogSinkTrace.tla). LogComposite.tla (composites over one caller-owned member list, Log / Append histories, sensitivity SharedBacking) is replayed through Append and AppendLogger and judged by LogCompositeTrace.tla. Every composite of the race-detector runs has a logr-family member.",
        note="Trusted: TLC, the Go race detector as an observation (the Go memory model is not modelled), the harness's goroutine-safe sinks.",
        technique="TLA+ sink/lock/ring specification + TLC exhaustive check; real loggers under the race detector; TLC trace judgement"),
    "C14": dict(
        category="model_checking", design_ref="DESIGN.md 5/C14",
        text="Retry.tla models the retry loop as coded (attempt / decide / select between delay and context); TLC checks bounded attempts, no attempt after "
             "success, non-retriable error or done context, nil iff some success and the final error kind for every outcome script of <=4 attempts and every "
             "cancellation instant; all 6480 scenarios are run through the real RetryIf/RetryOnError. BackoffPolicy.tla states which order relation the wait must "
             "satisfy for which policy / Retry-After situation; TLC enumerates the 14400 configuration classes, the harness calls the real Apply and TLC validates "
             "every observation (plus random attempt streams up to 2^31-1 and the real retrying client against a loopback server).",
        note="Trusted: TLC, math/big projection of waits to order relations, 2 s tolerance on HTTP dates; attempts=0 (retry until success) is outside the statement.",
        technique="TLA+ specs + TLC exhaustive; exhaustive scenario replay; TLC trace validation of recorded Apply results"),
    "C15": dict(
        category="model_checking", design_ref="DESIGN.md 5/C15",
        text="ConfigPrecedence.tla states the precedence rule (explicit flag > environment > file > default structure > flag default), the environment-name rule (PREFIX_PATH_TO_FIELD in upper "
             "case) and the validation gate over the leaf fields of a three-level structure; TLC checks the rule's own invariants and enumerates 15k scenarios (subject fields x present sources x "
             "invalidated required field x prefix spelling) with the expected winner and names. Each scenario is materialised with a real viper session, pflag set, process environment, YAML/JSON "
             "file and default structure; LoadFromEnvironment runs; the loaded values are projected to the source they came from and judged by TLC (ConfigTrace.tla) together with the names reported "
             "by DetermineConfigurationEnvironmentVariables, each set alone and observed.",
        note="Trusted: TLC, viper/pflag as used by the library, the harness's statically compiled structure.",
        technique="TLA+ precedence / naming / validation rule + TLC scenario enumeration; replay on real viper sessions; TLC trace judgement"),
    "C16": dict(
        category="model_checking", design_ref="DESIGN.md 5/C16",
        text="SharedCache.tla models the remote entry (package chunks tagged with versions, hash side file, lock) and Store / Fetch at the grain of the calls that mutate or read it, "
             "with a crash at any step and an ignorable side-file failure; TLC checks that a successful Fetch installs one complete stored version and that a successful Store is what "
             "the next Fetch returns, and (sensitivity) finds the stale-hash counterexample when the failure is ignored. On the real caches (mutable and immutable, MemMapFs and OS) "
             "Store is interrupted at every backend call by an injected error or by the death of the client, the entry is stale-cleaned and fetched; concurrent clients run under gated "
             "random schedules; TLC judges all recorded observations with the same monitor. Overlapping Stores of the lock-based cache are ordered by their critical sections (LockAcquired events); directed sweeps add a failing Store handing the lock over, CleanEntry of the immutable cache stopped at every backend call around a complete Store, a waiter timing out on the entry lock while a third client stores, and a re-Store of the earlier content after an interrupted Store. A directed late-heart-beat stage (heart beat held until the Store and its release are over) reproduces the known finding released-lock-recreated-by-late-heartbeat on the in-memory backend.",
        note="Trusted: TLC, the gate's fault injection at the afero.Fs boundary, tree comparison of the destination with the stored versions; MemMapFs breakdowns void a scenario.",
        technique="TLA+ spec + TLC exhaustive; fault/crash sweep over every backend call of the real Store; TLC trace validation"),
    "C17": dict(
        category="model_checking", design_ref="DESIGN.md 5/C17",
        text="LockFileTimed.tla (discrete time, period P, writer lateness J, death at every instant) is checked by TLC for live-never-stale and dead-becomes-stale, "
             "with a sensitivity run (J >= P must fail). Every death point of the real holder (after each backend call of the acquisition and of the first heartbeat "
             "cycles, both backends) is forced through the gate in model time, and real-time rounds on the OS filesystem (holds of 6..300 periods under load, 1..8 "
             "polling observers, death and recovery) are recorded with every sign of life time-stamped at the backend boundary; TLC judges both against the timed rules. The timed model also has a failing heartbeat write, a holder sweeping over its own lock and an observer whose listing fails (each with a sensitivity configuration); the real-time rounds inject them, death points of the heartbeat writer are taken at every backend call, and a lock won by take-over is held and watched.",
        note="Trusted: TLC, monotonic time stamps taken at the afero.Fs boundary, a harness-run control heartbeat as the reference that separates library lateness from host overload "
             "(overloaded windows are discarded and counted, never reported), 60 ms slack on detection of a dead holder.",
        technique="TLA+ timed spec + TLC exhaustive; gate-forced death points; TLC trace validation of real-time recordings"),
    "C18": dict(
        category="model_checking", design_ref="DESIGN.md 5/C18",
        text="OutputStream.tla models a child writing tokens (text pieces, newlines) on two streams, the operating system delivering them in arbitrary chunks, the adapter turning chunks into "
             "log messages, and Execute's start / end messages and result; TLC checks LinesComplete, StartFirst, OneEndLast, NilIffZero, CtxKindIfCancelled exhaustively (the per-chunk adapter "
             "must violate LinesComplete) and emits every scenario up to 5 tokens. The harness binary re-executed as the child performs exactly the scripted write(2) calls and ends as "
             "scripted; a recording logger collects the messages; OutputStreamTrace.tla judges messages, result and Output() against the line algebra shared with the model; seeded scripts "
             "add volume (1 MB), long lines and arbitrary write boundaries.",
        note="Trusted: TLC, os/exec, the kernel's pipe semantics (writes 30 ms apart arrive in separate reads).",
        technique="TLA+ stream/chunk/adapter specification + TLC exhaustive check and scenario emission; replay with real child processes; TLC trace judgement"),
    "C19": dict(
        category="model_checking", design_ref="DESIGN.md 5/C19",
        text="TLC checks exhaustively (<=4 pages x <=2 items, <=12 calls, static and stream) that the cursor algorithm as coded "
             "agrees with the statement-level oracle and yields item k at the k-th yield; TLC-drawn behaviours are replayed into the real "
             "static/dynamic/stream paginators and traces recorded on collections up to 20x10 are validated by TLC against the same actions. "
             "Growth: Collection.tla / CollectionSlices.tla (the rest of the collection package) replayed and re-judged by CollectionTrace.tla (observations only).",
        note="Trusted: TLC, the harness pages (IStaticPage/IPage/IStream implementations), wall-clock grace period of 120 ms with stalled steps skipped.",
        technique="TLA+ spec + TLC exhaustive; behaviour replay into code; TLC trace validation"),
    "C20": dict(
        category="model_checking", design_ref="DESIGN.md 5/C20",
        text="TLC enumerates every history of <=4 calculations (contents of <=3 chunks, ok / fail@k / cancel@k) on one hasher object and checks that "
             "an emitted digest is the content of its own call; the histories are replayed on real hasher objects of the 6 algorithms (reader, in-memory "
             "file, OS file; chunk scales around the 32 KiB copy buffer) against reference digests; recorded histories with contents up to 2^20 bytes "
             "are validated by TLC. FileDigest.tla (histories of one path: same-length contents, modification time put back, removal; sensitivity Memoise) is replayed through FS.FileHash on both backends, directly and through a symbolic link.",
        note="Trusted: TLC, fresh instances of the standard/reference hash packages as reference, the scripted reader of the harness.",
        technique="TLA+ spec + TLC exhaustive; behaviour replay into code; TLC trace validation"),
}

NOT_APPLICABLE = {}

ALL = ["C%02d" % i for i in range(1, 21)]


def main():
    checks = []
    for pid in ALL:
        if pid not in CHECKS:
            continue
        c = CHECKS[pid]
        checks.append({
            "property_id": pid,
            "quick_cmd": "python3 tools/check.py %s --tier quick" % pid,
            "thorough_cmd": "python3 tools/check.py %s --tier thorough" % pid,
            "evidence_file": "evidence/%s.json" % pid,
            "replay_cmd_template": "python3 tools/check.py %s --replay {path}" % pid,
            "engine": "tla-mbt",
            "level_claimed": {"category": c["category"], "text": c["text"], "design_ref": c["design_ref"]},
            "level_note": c["note"],
            "technique": c["technique"],
        })
    na = []
    for pid in ALL:
        if pid in CHECKS:
            continue
        na.append({"property_id": pid, "reason": NOT_APPLICABLE.get(pid, "not claimed yet: specification and conformance harness for this property are still being built (see DESIGN.md section 5)")})
    m = {
        "version": 1,
        "setup_cmd": "python3 tools/setup.py",
        "hooks": {
            "guard": "verif",
            "enable": "go build -tags verif (the harness is always built with -tags verif)",
            "baseline_off_cmd": "cd /repo/utils && go test -mod=mod -vet=off -count=1 -timeout 25m ./...",
            "source_commits": [],
            "add_only": True,
        },
        "engines": [
            {"name": "tla-mbt", "path": "tools/check.py", "serves_properties": sorted(CHECKS),
             "kind_free_text": "TLA+ specifications (specs/) checked by TLC; TLC-generated behaviours replayed into the real code by the Go harness (harness/); "
                               "traces recorded from the real code validated by TLC trace specifications"},
        ],
        "checks": checks,
        "not_applicable": na,
        "notes": "All checks rebuild the Go harness from /repo's working tree (replace directive). Exit 0 = held, 1 = VIOLATION, 2 = inconclusive.",
    }
    with open(os.path.join(VERIF, "MANIFEST.json"), "w") as f:
        json.dump(m, f, indent=1)
        f.write("\n")


if __name__ == "__main__":
    main()
