#!/usr/bin/env python3
"""Orchestrator: python3 tools/check.py <ID> [--tier quick|thorough] [--replay FILE]

Runs the model checking / behaviour replay / trace validation pipeline of one property against
/repo's current working tree and writes /verif/evidence/<ID>.json.  See DESIGN.md."""
import argparse
import importlib
import os
import sys
import traceback

sys.path.insert(0, os.path.dirname(os.path.abspath(__file__)))
import vlib  # noqa: E402


def main():
    ap = argparse.ArgumentParser()
    ap.add_argument("prop")
    ap.add_argument("--tier", default=os.environ.get("VERIF_TIER", "quick"), choices=["quick", "thorough"])
    ap.add_argument("--replay", default=None, help="re-run one saved replay file")
    a = ap.parse_args()
    prop = a.prop.upper()
    try:
        mod = importlib.import_module("props." + prop.lower())
    except ImportError as e:
        print("no check for %s: %s" % (prop, e), file=sys.stderr)
        return 2
    os.makedirs(vlib.SCRATCH_ROOT, exist_ok=True)
    try:
        with vlib.Scratch(prop.lower()) as scratch:
            if a.replay:
                if hasattr(mod, "replay_one"):
                    return mod.replay_one(scratch, a.replay)
                import json
                d = json.load(open(a.replay))
                print("replay of %s: signature=%s" % (d.get("property"), d.get("signature")))
                print(d.get("detail"))
                print(json.dumps(d.get("scenario"), indent=1)[:4000])
                print("(self-contained scenario above; re-run `python3 tools/check.py %s` to re-execute the whole family against the current tree)" % prop)
                return 0
            chk = vlib.Check(prop, a.tier, level=getattr(mod, "LEVEL", "model_checking"))
            mod.run(chk, scratch)
            return chk.finish()
    except vlib.Inconclusive as e:
        print("INCONCLUSIVE property=%s: %s" % (prop, e), file=sys.stderr)
        return 2
    except Exception:
        traceback.print_exc()
        print("INCONCLUSIVE property=%s: internal error of the checker" % prop, file=sys.stderr)
        return 2


if __name__ == "__main__":
    sys.exit(main())
