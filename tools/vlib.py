#!/usr/bin/env python3
"""Shared machinery for the /verif checks (python3 stdlib only).

  * scratch directories under /verif/.scratch (never /tmp)
  * building the Go conformance harness against /repo's working tree
  * running TLC (exhaustive, simulation, behaviour emission, trace validation)
  * evidence files, known findings, verdict lines and exit codes

Exit codes of a check: 0 = held on everything explored (KNOWN-FINDING lines allowed),
1 = VIOLATION (real-code behaviour breaks the property, not a listed finding),
2 = inconclusive (build failure, TLC crash/timeout, dead driver) - never a violation.
"""
import hashlib
import json
import os
import random
import re
import shutil
import subprocess
import sys
import time

VERIF = os.path.dirname(os.path.dirname(os.path.abspath(__file__)))
REPO = os.environ.get("VERIF_REPO", "/repo")
SPECS = os.path.join(VERIF, "specs")
HARNESS = os.path.join(VERIF, "harness")
EVIDENCE = os.path.join(VERIF, "evidence")
REPLAYS = os.path.join(VERIF, "replays")
SCRATCH_ROOT = os.path.join(VERIF, ".scratch")
TLA_JAR = "/opt/veriftools/tla/tla2tools.jar"
TLA_CP = TLA_JAR + ":/opt/veriftools/tla/CommunityModules-deps.jar"
NCPU = os.cpu_count() or 4


class Inconclusive(Exception):
    pass


def log(*a):
    print("[verif]", *a, file=sys.stderr, flush=True)


def go_env():
    e = dict(os.environ)
    e.update({
        "GOFLAGS": "-mod=mod", "GOPROXY": "off", "GOSUMDB": "off", "GOTOOLCHAIN": "local",
        "GOCACHE": e.get("GOCACHE", os.path.join(VERIF, ".gocache")),
    })
    return e


class Scratch:
    def __init__(self, name):
        self.path = os.path.join(SCRATCH_ROOT, "%s-%d" % (name, os.getpid()))

    def __enter__(self):
        shutil.rmtree(self.path, ignore_errors=True)
        os.makedirs(self.path)
        return self.path

    def __exit__(self, *a):
        if not os.environ.get("VERIF_KEEP"):
            shutil.rmtree(self.path, ignore_errors=True)


# --------------------------------------------------------------------------------------------
# Go harness

def build_harness(race=False, tags="verif"):
    """(Re)build the harness binary from /repo's current working tree. Returns its path."""
    os.makedirs(os.path.join(VERIF, ".bin"), exist_ok=True)
    out = os.path.join(VERIF, ".bin", "vh-race" if race else "vh")
    gosum = os.path.join(REPO, "utils", "go.sum")
    if os.path.exists(gosum):
        shutil.copyfile(gosum, os.path.join(HARNESS, "go.sum"))
    cmd = ["go", "build", "-tags", tags, "-o", out]
    if race:
        cmd.append("-race")
    cmd.append("./cmd/vh")
    t0 = time.time()
    env = go_env()
    if REPO != "/repo":
        # alternative repo location (mutant worktrees): rewrite the replace directive in a private copy
        raise Inconclusive("VERIF_REPO other than /repo is not supported by build_harness")
    p = subprocess.run(cmd, cwd=HARNESS, env=env, stdout=subprocess.PIPE, stderr=subprocess.STDOUT, text=True)
    if p.returncode != 0:
        raise Inconclusive("harness build failed:\n" + p.stdout[-4000:])
    log("harness built in %.1fs (%s)" % (time.time() - t0, "race" if race else "plain"))
    return out


def run_vh(vh, args, timeout=600, stdin=None, env_extra=None, cwd=None):
    env = go_env()
    if env_extra:
        env.update(env_extra)
    try:
        p = subprocess.run([vh] + [str(a) for a in args], stdout=subprocess.PIPE, stderr=subprocess.PIPE,
                           text=True, timeout=timeout, input=stdin, env=env, cwd=cwd)
    except subprocess.TimeoutExpired:
        raise Inconclusive("harness timed out: vh " + " ".join(map(str, args)))
    return p


# --------------------------------------------------------------------------------------------
# TLC

STAT_RE = re.compile(r"(\d+) states generated, (\d+) distinct states found")
DEPTH_RE = re.compile(r"The depth of the complete state graph search is (\d+)")


class TlcResult:
    def __init__(self):
        self.rc = None
        self.out = ""
        self.generated = 0
        self.distinct = 0
        self.depth = 0
        self.violated = None      # name of violated invariant/property, or None
        self.error = None         # non-property error text
        self.behaviours = []      # parsed JSON payloads of <<"BEHAVIOUR", json>> lines
        self.printed = []         # other PrintT payloads of the form <<"TAG", ...>>
        self.wall = 0.0
        self.coverage_zero = []
        self.postcondition_failed = False


def _stage(scratch, spec_dirs, extra_files=None):
    for d in spec_dirs:
        if not os.path.isdir(d):
            continue
        for f in os.listdir(d):
            if f.endswith(".tla") or f.endswith(".cfg"):
                shutil.copyfile(os.path.join(d, f), os.path.join(scratch, f))
    for src, name in (extra_files or []):
        dst = os.path.join(scratch, name)
        if os.path.abspath(src) != os.path.abspath(dst):
            shutil.copyfile(src, dst)


def run_tlc(scratch, spec_dirs, module, cfg, workers=None, timeout=600, simulate=None, depth=None,
            seed=None, extra_files=None, deadlock=None, coverage=False, heap=None, dfs=False,
            extra_args=None, parse_behaviours=True, fast=False, keep=None):
    """Run TLC on <module>.tla with <cfg> inside `scratch` (staged copy of the spec directories)."""
    _stage(scratch, spec_dirs + [os.path.join(SPECS, "common")], extra_files)
    meta = os.path.join(scratch, "md-%s-%d" % (module, int(time.time() * 1000) % 1000000))
    java = ["java", "-XX:+UseParallelGC", "-Xss64m"]
    # measured in this sandbox: a large young generation costs seconds of system time per GC cycle
    # (page faults are expensive in the VM); a small fixed young generation is 3-8x faster
    if fast == "tiny":   # very short runs: JVM start-up dominates
        java += ["-XX:ParallelGCThreads=2", "-XX:TieredStopAtLevel=1", "-Xmn128m"]
        heap = heap or "3g"
    elif fast:
        java += ["-XX:ParallelGCThreads=2", "-Xmn128m"]
        heap = heap or "4g"
    else:
        java += ["-XX:ParallelGCThreads=4", "-Xmn512m"]
        heap = heap or "12g"
    if heap:
        java.append("-Xmx" + heap)
    if dfs:
        java.append("-Dtlc2.tool.queue.IStateQueue=StateDeque")
    cmd = ["timeout", str(int(timeout))] + java + ["-cp", TLA_CP, "tlc2.TLC", "-metadir", meta,
                                                 "-workers", str(workers or "auto"), "-config", cfg]
    if simulate:
        cmd += ["-simulate", "num=%d" % simulate]
    if depth:
        cmd += ["-depth", str(depth)]
    if seed is not None:
        cmd += ["-seed", str(seed)]
    if deadlock is False:
        cmd += ["-deadlock"]
    if coverage:
        cmd += ["-coverage", "1"]
    cmd += (extra_args or [])
    cmd.append(module + ".tla")
    t0 = time.time()
    # TLC's output is streamed: emission runs print hundreds of megabytes of BEHAVIOUR lines, which are parsed (and, with
    # `keep`, reservoir-sampled) on the fly instead of being held as one string
    proc = subprocess.Popen(cmd, cwd=scratch, stdout=subprocess.PIPE, stderr=subprocess.STDOUT, text=True, errors="replace")
    r = TlcResult()
    other, other_size = [], 0
    rnd = random.Random(seed or 1)
    seen_behaviours = 0
    for line in proc.stdout:
        if parse_behaviours and line.startswith('<<"'):
            mm = re.match(r'<<"([A-Z_]+)", (.*)>>\s*$', line)
            if mm:
                tag, payload = mm.group(1), mm.group(2)
                if tag == "BEHAVIOUR" and keep:
                    # reservoir sampling: decide before paying for the parse
                    seen_behaviours += 1
                    if len(r.behaviours) >= keep:
                        j = rnd.randrange(seen_behaviours)
                        if j >= keep:
                            continue
                        slot = j
                    else:
                        slot = None
                if payload.startswith('"'):
                    # TLA+ string literal containing JSON: unescape \" and \\
                    try:
                        sj = json.loads(payload)
                    except Exception:
                        sj = payload[1:-1].replace('\\"', '"').replace("\\\\", "\\")
                    try:
                        val = json.loads(sj)
                    except Exception:
                        val = sj
                else:
                    try:
                        val = json.loads(payload)
                    except Exception:
                        val = payload
                if tag == "BEHAVIOUR":
                    if keep and slot is not None:
                        r.behaviours[slot] = val
                    else:
                        r.behaviours.append(val)
                        if not keep:
                            seen_behaviours += 1
                else:
                    r.printed.append((tag, val))
                continue
        if other_size < 8000000:
            other.append(line)
            other_size += len(line)
    proc.wait()

    class _P:
        pass
    p = _P()
    p.returncode, p.stdout = proc.returncode, "".join(other)
    r.behaviours_total = seen_behaviours
    r.wall = time.time() - t0
    r.rc = p.returncode
    r.out = p.stdout
    shutil.rmtree(meta, ignore_errors=True)
    for m in STAT_RE.finditer(p.stdout):
        r.generated, r.distinct = int(m.group(1)), int(m.group(2))
    m = DEPTH_RE.search(p.stdout)
    if m:
        r.depth = int(m.group(1))
    if p.returncode == 124:
        r.error = "timeout after %ds" % timeout
        return r
    mv = re.search(r"Error: Invariant (\S+) is violated", p.stdout)
    if mv:
        r.violated = mv.group(1)
    mv = re.search(r"Error: Action property (\S+) is violated", p.stdout)
    if mv:
        r.violated = mv.group(1)
    mv = re.search(r"Error: Temporal property (\S+) was violated", p.stdout)
    if mv:
        r.violated = mv.group(1)
    if "Temporal properties were violated" in p.stdout:
        r.violated = r.violated or "temporal"
    if "Error: Deadlock reached" in p.stdout:
        r.violated = r.violated or "Deadlock"
    if re.search(r"[Pp]ost-?condition .* (violated|false)", p.stdout) or "POSTCONDITION" in p.stdout and "violated" in p.stdout:
        r.postcondition_failed = True
    if r.violated is None and not r.postcondition_failed and p.returncode != 0:
        # some other error (parse error, evaluation error, OOM...)
        idx = p.stdout.find("Error:")
        r.error = p.stdout[idx:idx + 3000] if idx >= 0 else ("tlc exit %d: " % p.returncode) + p.stdout[-2000:]
    if coverage:
        for line in p.stdout.splitlines():
            mm = re.match(r"<(\w+) line .*>: (\d+):(\d+)$", line.strip())
            if mm and mm.group(2) == "0" and mm.group(3) == "0":
                r.coverage_zero.append(mm.group(1))
    return r


def run_apalache(scratch, spec_dirs, module, args, timeout=600):
    """apalache-mc check <args> <module>.tla in a staged copy; returns "NoError" | "Error" (raises Inconclusive on anything else)."""
    _stage(scratch, spec_dirs)
    out = os.path.join(scratch, "apalache-%s-%d" % (module, int(time.time() * 1000) % 1000000))
    cmd = ["apalache-mc", "check"] + list(args) + ["--out-dir=" + out, module + ".tla"]
    t0 = time.time()
    try:
        p = subprocess.run(cmd, cwd=scratch, stdout=subprocess.PIPE, stderr=subprocess.STDOUT, text=True, timeout=timeout)
    except subprocess.TimeoutExpired:
        raise Inconclusive("apalache timed out after %d s on %s %s" % (timeout, module, " ".join(args)))
    except FileNotFoundError:
        raise Inconclusive("apalache-mc is not installed")
    finally:
        shutil.rmtree(out, ignore_errors=True)
    m = re.search(r"The outcome is: (\w+)", p.stdout)
    if not m or m.group(1) not in ("NoError", "Error"):
        raise Inconclusive("apalache gave no verdict on %s %s: %s" % (module, " ".join(args), p.stdout[-1500:]))
    log("apalache %s %s: %s in %.1fs" % (module, " ".join(args), m.group(1), time.time() - t0))
    return m.group(1)


def tlc_must_pass(r, what):
    """Model-level run that must complete without error (design-level statement)."""
    if r.error:
        raise Inconclusive("TLC error in %s: %s" % (what, r.error))
    return r


def validate_trace(scratch, spec_dirs, module, cfg, trace_path, timeout=900, trace_name="trace.ndjson", heap=None):
    """Trace validation: returns (accepted, matched_events, total_events, TlcResult).

    The trace specification must print <<"TRACE_MATCHED", n>> from its POSTCONDITION
    (n = number of trace lines consumed on the longest accepted prefix)."""
    total = 0
    with open(trace_path) as f:
        for line in f:
            if line.strip():
                total += 1
    r = run_tlc(scratch, spec_dirs, module, cfg, workers=1, timeout=timeout, deadlock=False,
                extra_files=[(trace_path, trace_name)], heap=heap, fast=("tiny" if total < 20000 else True))
    if r.error:
        raise Inconclusive("TLC error in trace validation %s: %s" % (module, r.error))
    matched = None
    for tag, val in r.printed:
        if tag == "TRACE_MATCHED":
            matched = int(val)
    if matched is None:
        raise Inconclusive("trace validation %s printed no TRACE_MATCHED:\n%s" % (module, r.out[-1500:]))
    return (matched == total and not r.violated), matched, total, r


# --------------------------------------------------------------------------------------------
# known findings, replays, evidence

def load_known_findings():
    p = os.path.join(VERIF, "known_findings.json")
    if not os.path.exists(p):
        return {"findings": [], "fixed": []}
    with open(p) as f:
        return json.load(f)


def save_replay(prop, payload):
    d = os.path.join(REPLAYS, prop)
    os.makedirs(d, exist_ok=True)
    s = json.dumps(payload, sort_keys=True, indent=1)
    name = hashlib.sha1(s.encode()).hexdigest()[:12] + ".json"
    p = os.path.join(d, name)
    with open(p, "w") as f:
        f.write(s)
    return p


class Check:
    """Accumulates coverage and findings of one run of one property and produces the verdict."""

    def __init__(self, prop, tier, level="model_checking"):
        self.prop = prop
        self.tier = tier
        self.level = level
        self.seed = int(os.environ.get("VERIF_SEED", "1") or 1)
        self.t0 = time.time()
        self.states = 0
        self.transitions = 0
        self.traces = 0
        self.evaluations = 0
        self.nontrivial = 0
        self.samples = []
        self.cov = {}
        self.assumptions = []
        self.violations = []     # (signature, detail, replay_payload)
        self.drift = []
        self.model_runs = []
        self.known = load_known_findings()

    def add_tlc(self, name, r, expect_violation=None):
        self.states += r.distinct
        self.transitions += r.generated
        self.model_runs.append({"model": name, "distinct": r.distinct, "generated": r.generated,
                                "depth": r.depth, "wall_s": round(r.wall, 2),
                                "violated": r.violated, "behaviours": len(r.behaviours)})

    def sample(self, s, limit=6):
        if len(self.samples) < limit:
            self.samples.append(s)

    def violation(self, signature, detail, payload=None):
        self.violations.append((signature, detail, payload))

    def finish(self):
        known_sigs = {}
        for f in self.known.get("findings", []):
            if f.get("property") == self.prop:
                known_sigs[f["signature"]] = f
        new, seen_known = [], {}
        for sig, detail, payload in self.violations:
            if sig in known_sigs:
                seen_known.setdefault(sig, detail)
            else:
                new.append((sig, detail, payload))
        os.makedirs(EVIDENCE, exist_ok=True)
        cov = {
            "states": self.states, "transitions": self.transitions,
            "traces_validated_against_impl": self.traces,
            "evaluations": max(self.evaluations, 1) if (self.evaluations or self.states) else 0,
            "distinct_nontrivial": self.nontrivial,
            "samples": self.samples if self.samples else ["(none)"],
            "model_runs": self.model_runs,
            "model_drift": self.drift[:20],
            "known_findings_reproduced": sorted(seen_known),
        }
        cov.update(self.cov)
        ev = {
            "property_id": self.prop, "tier": self.tier, "seed": self.seed, "level": self.level,
            "coverage": cov, "assumptions": self.assumptions,
            "wall_s": round(time.time() - self.t0, 2), "violations": len(new),
        }
        with open(os.path.join(EVIDENCE, self.prop + ".json"), "w") as f:
            json.dump(ev, f, indent=1, sort_keys=True, default=str)
        for sig in sorted(seen_known):
            print("KNOWN-FINDING: property=%s %s: %s" % (self.prop, sig, known_sigs[sig].get("what", seen_known[sig])))
        if new:
            shown = set()
            for sig, detail, payload in new:
                if sig in shown:
                    continue
                shown.add(sig)
                path = save_replay(self.prop, {"property": self.prop, "signature": sig, "detail": detail,
                                               "scenario": payload})
                print("VIOLATION property=%s replay=%s" % (self.prop, path))
                print("  signature=%s detail=%s" % (sig, str(detail)[:600]))
            return 1
        print("OK property=%s tier=%s states=%d traces=%d evaluations=%d wall=%.1fs" % (
            self.prop, self.tier, self.states, self.traces, self.evaluations, time.time() - self.t0))
        return 0


def read_ndjson(path):
    out = []
    with open(path) as f:
        for line in f:
            line = line.strip()
            if line:
                out.append(json.loads(line))
    return out


def write_ndjson(path, items):
    with open(path, "w") as f:
        for it in items:
            f.write(json.dumps(it, sort_keys=True) + "\n")
