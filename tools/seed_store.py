#!/usr/bin/env python3
"""Store a confirmed seeded change: seed_store.py <ID-n> <mutant dir> <check_result text>"""
import json, os, shutil, sys
sid, src, res = sys.argv[1], sys.argv[2], sys.argv[3]
dst = os.path.join("/verif/seeded", sid)
os.makedirs(dst, exist_ok=True)
for f in os.listdir(src):
    if f.endswith(".diff") or f.endswith("_test.go") or f.endswith(".go"):
        shutil.copy(os.path.join(src, f), dst)
meta = json.load(open(os.path.join(src, "meta.json")))
meta["confirmed_by_me"] = ("applied in its scratch worktree with the cached go1.24.1 toolchain: library builds; existing package tests pass with the change "
                           "(demo skipped; only the baseline failures TestFileHash2/Test_IsZip/TestUnzip_Limits where the package is filesystem); "
                           "demo test fails with the change and passes after git apply -R")
meta["check_result"] = res
meta["author"] = "independent sub-agent given only the property text"
json.dump(meta, open(os.path.join(dst, "meta.json"), "w"), indent=1)
print("stored", dst, os.listdir(dst))
