SPECIFICATION Spec
CONSTANTS Random = TRUE
  MaxCalls = 8
INVARIANTS TreeWellFormed Emit
CHECK_DEADLOCK FALSE
