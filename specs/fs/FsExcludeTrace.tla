---------------------------- MODULE FsExcludeTrace ----------------------------
(* C08 - judging recorded runs of the exclusion-aware operations against MustSkip / MustProcess of FsExclude.tla. *)
EXTENDS Naturals, Sequences, FiniteSets, TLC, Json
Trace == ndJsonDeserialize("trace.ndjson")
VARIABLES l
Ev == Trace[l]
ToSet(s) == {s[i] : i \in 1..Len(s)}
Verdict(v) == PrintT(<<"VERDICT", ToJson([id |-> l, viol |-> v])>>)
Exclude ==
    /\ l <= Len(Trace) /\ Ev.op = "Exclude"
    /\ Verdict(
         IF Ev.skipped THEN {}
         ELSE IF Ev.invalid
              THEN (IF Ev.err # "invalid" THEN {"invalid-pattern-accepted"} ELSE {})
                   \cup (IF Ev.touched # <<>> \/ Ev.processed # <<>> THEN {"touched-before-invalid-pattern-rejected"} ELSE {})
         ELSE (IF Ev.err = "blocked" THEN {"operation-does-not-terminate"} ELSE {})
              \cup (IF ToSet(Ev.processed) \cap ToSet(Ev.mustSkip) # {} THEN {"excluded-entry-processed"} ELSE {})
              \cup (IF Ev.err = "" /\ ~((ToSet(Ev.mustProcess) \ ToSet(Ev.across)) \subseteq ToSet(Ev.processed)) THEN {"unmatched-entry-skipped"} ELSE {})
              \* a pattern that matches across the path separator ("x." on "x/y") although no single name contains a match: Copy does
              \* that (it tests whole paths - a recorded finding); the operations that test names must not
              \cup (IF Ev.err = "" /\ ~((ToSet(Ev.mustProcess) \cap ToSet(Ev.across)) \subseteq ToSet(Ev.processed)) THEN {IF Ev.call = "Copy" THEN "pattern-matched-across-separator" ELSE "pattern-matched-across-separator-outside-copy"} ELSE {})
              \cup (IF Ev.err \notin {"", "blocked"} THEN {"operation-failed"} ELSE {}))
    /\ l' = l + 1
TraceSpec == l = 1 /\ [][Exclude]_l
TraceAccepted == LET n == TLCGet("stats").diameter - 1 IN PrintT(<<"TRACE_MATCHED", n>>) /\ n = Len(Trace)
=============================================================================
