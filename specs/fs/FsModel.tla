------------------------------- MODULE FsModel -------------------------------
(***************************************************************************)
(* C06 - the filesystem API follows its documented semantics on every      *)
(* backend.                                                                *)
(*                                                                         *)
(* State: the tree under the sandbox root - dirs (set of paths, the root   *)
(* <<>> is implicit) and files (function path -> content token).  A path   *)
(* is a sequence of names.  One action per API call; each call yields      *)
(*   class   "defined"        the documented semantics fixes the outcome   *)
(*           "missingparent"  a file is to be created in a directory that  *)
(*                            does not exist (POSIX: not found)            *)
(*           "conflict"       a file where a directory is needed or the    *)
(*                            reverse: outcome unconstrained               *)
(*           "overlap"        source and destination of a copy / move      *)
(*                            overlap: outcome unconstrained, but the      *)
(*                            frame conditions hold                        *)
(*           "unspecified"    the documentation is silent (named in the    *)
(*                            comments below)                              *)
(*   expect  "ok" | "notfound" | "error" (any error kind)                  *)
(*   value   set of strings (listing, content, truth value, size)          *)
(*   the tree afterwards, and the roots under which the call may change    *)
(*   anything (frame).                                                     *)
(* Sources of the semantics: the doc comments of interfaces.go (mkdir -p,  *)
(* cp -r with the destination rule for files, mv, rm -rf, ls, touch), the  *)
(* behaviour asserted by the repository's tests, POSIX otherwise.  Named   *)
(* deviations taken over from the code (identical on both backends):       *)
(* moving a directory onto an existing directory merges its content into   *)
(* it; LsRecursive lists the start directory itself; Ls of a missing       *)
(* directory is an error of kind 'invalid'; IsEmpty of a missing path is   *)
(* true; reading an empty file is the error kind 'empty'.                  *)
(*                                                                         *)
(* Exhaustive configuration: invariants of the model itself (the tree      *)
(* stays well formed; a copy never changes its source; read-only calls     *)
(* change nothing; changes stay within the frame) over every call from     *)
(* every initial tree.  Simulation configuration: random programs with the *)
(* expected outcome of every call, emitted for the replay.                 *)
(***************************************************************************)
EXTENDS Naturals, Sequences, FiniteSets, TLC, Json

CONSTANTS Random,      \* TRUE: one random call per step (simulation); FALSE: every call (exhaustive)
          MaxCalls

Names == {"a", "b", "c"}
ArgPaths == {<<>>} \cup {<<n>> : n \in Names} \cup {<<n, m>> : n \in Names, m \in Names}
Contents == {"x", "y", ""}
ReadOps == {"ReadFile", "Ls", "LsRecursive", "LsRecursiveFiles", "ListDirTree", "SubDirectories", "Glob", "Exists", "IsFile", "IsDir", "IsEmpty", "GetFileSize", "FileHash"}
OneOps == {"MkDir", "WriteFile", "Touch", "Rm", "CleanDir"} \cup ReadOps
TwoOps == {"CopyToFile", "CopyToDirectory", "Copy", "Move"}
CopyOps == {"CopyToFile", "CopyToDirectory", "Copy"}
PathOps == {"ToRelative", "ToAbsolute", "RelAbsRoundTrip"}      \* pure path conversions: the tree plays no part

VARIABLES dirs, files, hist, init
vars == <<dirs, files, hist, init>>

\* ---- paths ---------------------------------------------------------------------------------------------
IsPrefix(p, q) == Len(p) <= Len(q) /\ SubSeq(q, 1, Len(p)) = p
IsProperPrefix(p, q) == Len(p) < Len(q) /\ SubSeq(q, 1, Len(p)) = p
Parent(p) == SubSeq(p, 1, Len(p) - 1)
Last(p) == p[Len(p)]
Prefixes(p) == {SubSeq(p, 1, k) : k \in 1..Len(p)}          \* non-empty prefixes, p included
RECURSIVE PathStr(_)
PathStr(p) == IF p = <<>> THEN "" ELSE IF Len(p) = 1 THEN p[1] ELSE p[1] \o "/" \o PathStr(Tail(p))

\* ---- the tree ------------------------------------------------------------------------------------------
Entries(D, F) == D \cup DOMAIN F
Exists(D, F, p) == p = <<>> \/ p \in D \/ p \in DOMAIN F
IsDir(D, p) == p = <<>> \/ p \in D
IsFile(F, p) == p \in DOMAIN F
FileAbove(F, p) == \E q \in DOMAIN F : IsProperPrefix(q, p)
Under(D, F, p) == {q \in Entries(D, F) : IsProperPrefix(p, q)}
Children(D, F, p) == {q \in Entries(D, F) : Len(q) = Len(p) + 1 /\ IsPrefix(p, q)}
WellFormed(D, F) == /\ D \cap DOMAIN F = {}
                    /\ \A q \in Entries(D, F) : q # <<>> /\ (Parent(q) = <<>> \/ Parent(q) \in D)
Restrict(F, S) == [q \in S |-> F[q]]
TreeStr(D, F) == {PathStr(q) \o "|dir|" : q \in D} \cup {PathStr(q) \o "|file|" \o F[q] : q \in DOMAIN F}
Rebase(q, from, to) == to \o SubSeq(q, Len(from) + 1, Len(q))

\* result of a call
Res(class, expect, value, D, F, roots) == [class |-> class, expect |-> expect, value |-> value, dirs |-> D, files |-> F, roots |-> roots]
Same(class, expect, value) == Res(class, expect, value, dirs, files, {})
Conflict(roots) == Res("conflict", "any", {}, dirs, files, roots)
Bool(b) == IF b THEN {"true"} ELSE {"false"}

\* merge-copy of the subtree at a (a directory) onto t: every entry below a re-based below t
MergeConflict(a, t) == \/ IsFile(files, t) \/ FileAbove(files, t)
                       \/ \E q \in Under(dirs, files, a) :
                             LET r == Rebase(q, a, t) IN (q \in dirs /\ IsFile(files, r)) \/ (q \in DOMAIN files /\ IsDir(dirs, r) /\ r # <<>>)
                                                         \/ (q \in DOMAIN files /\ r = <<>>)
MergedDirs(a, t) == dirs \cup Prefixes(t) \cup {Rebase(q, a, t) : q \in (Under(dirs, files, a) \cap dirs)}
MergedFiles(a, t) ==
    LET moved == {q \in Under(dirs, files, a) : q \in DOMAIN files}
        newdom == DOMAIN files \cup {Rebase(q, a, t) : q \in moved}
    IN [r \in newdom |-> IF \E q \in moved : Rebase(q, a, t) = r THEN files[CHOOSE q \in moved : Rebase(q, a, t) = r] ELSE files[r]]
Overlap(a, t) == IsPrefix(a, t) \/ IsPrefix(t, a)

\* a file (content c) lands at t, parents created
PutFile(t, c) == Res("defined", "ok", {}, dirs \cup Prefixes(Parent(t)), [q \in DOMAIN files \cup {t} |-> IF q = t THEN c ELSE files[q]], {t})

\* ---- one-path calls ------------------------------------------------------------------------------------------
One(op, a, c) ==
    CASE op = "MkDir" ->
           IF IsFile(files, a) \/ FileAbove(files, a) THEN Conflict({a})
           ELSE Res("defined", "ok", {}, dirs \cup Prefixes(a), files, {a})
      [] op = "WriteFile" ->
           IF a = <<>> \/ IsDir(dirs, a) \/ FileAbove(files, a) THEN Conflict({a})
           ELSE IF ~IsDir(dirs, Parent(a)) THEN Res("missingparent", "notfound", {}, dirs, files, {a})
           \* writing nothing: the documentation says the file is created / truncated; the code reports 'empty' - unspecified
           ELSE IF c = "" THEN Res("unspecified", "any", {}, dirs, files, {a})
           ELSE PutFile(a, c)
      [] op = "Touch" ->
           IF FileAbove(files, a) THEN Conflict({a})
           ELSE IF Exists(dirs, files, a) THEN Res("defined", "ok", {}, dirs, files, {a})
           ELSE IF ~IsDir(dirs, Parent(a)) THEN Res("missingparent", "notfound", {}, dirs, files, {a})
           ELSE PutFile(a, "")
      [] op = "Rm" ->
           IF a = <<>> THEN Res("unspecified", "any", {}, dirs, files, {a})      \* removing the sandbox root itself
           ELSE LET gone == {a} \cup Under(dirs, files, a) IN
                Res("defined", "ok", {}, dirs \ gone, Restrict(files, DOMAIN files \ gone), {a})
      [] op = "CleanDir" ->
           IF IsFile(files, a) \/ FileAbove(files, a) THEN Conflict({a})
           ELSE LET gone == Under(dirs, files, a) IN
                Res("defined", "ok", {}, dirs \ gone, Restrict(files, DOMAIN files \ gone), {a})
      [] op = "ReadFile" ->
           IF IsDir(dirs, a) \/ FileAbove(files, a) THEN Conflict({})
           ELSE IF ~IsFile(files, a) THEN Same("defined", "notfound", {})
           ELSE IF files[a] = "" THEN Same("defined", "error", {})
           ELSE Same("defined", "ok", {files[a]})
      [] op = "Ls" ->
           IF IsFile(files, a) \/ FileAbove(files, a) THEN Conflict({})
           ELSE IF ~IsDir(dirs, a) THEN Same("defined", "error", {})
           ELSE Same("defined", "ok", {Last(q) : q \in Children(dirs, files, a)})
      [] op = "LsRecursive" ->
           IF FileAbove(files, a) THEN Conflict({})
           ELSE IF ~Exists(dirs, files, a) THEN Same("defined", "notfound", {})
           ELSE IF IsFile(files, a) THEN Same("unspecified", "any", {})
           ELSE Same("defined", "ok", {IF q = <<>> THEN "." ELSE PathStr(q) : q \in {a} \cup Under(dirs, files, a)})
      [] op = "LsRecursiveFiles" ->
           IF FileAbove(files, a) THEN Conflict({})
           ELSE IF ~Exists(dirs, files, a) THEN Same("defined", "notfound", {})
           ELSE IF IsFile(files, a) THEN Same("unspecified", "any", {})
           ELSE Same("defined", "ok", {PathStr(q) : q \in (Under(dirs, files, a) \cap DOMAIN files)})
      [] op = "ListDirTree" ->
           IF IsFile(files, a) \/ FileAbove(files, a) THEN Conflict({})
           ELSE IF ~IsDir(dirs, a) THEN Same("defined", "error", {})
           ELSE Same("defined", "ok", {PathStr(q) : q \in Under(dirs, files, a)})
      [] op = "SubDirectories" ->
           IF IsFile(files, a) \/ FileAbove(files, a) THEN Conflict({})
           ELSE IF ~IsDir(dirs, a) THEN Same("defined", "notfound", {})
           ELSE Same("defined", "ok", {Last(q) : q \in (Children(dirs, files, a) \cap dirs)})
      [] op = "Glob" ->
           IF IsDir(dirs, a) THEN Same("defined", "ok", {PathStr(q) : q \in Children(dirs, files, a)})
           ELSE Same("defined", "ok", {})
      [] op = "Exists" -> Same("defined", "ok", Bool(Exists(dirs, files, a)))
      [] op = "IsFile" -> Same("defined", "ok", Bool(IsFile(files, a)))
      [] op = "IsDir" ->
           IF Exists(dirs, files, a) THEN Same("defined", "ok", Bool(IsDir(dirs, a))) ELSE Same("defined", "notfound", {})
      [] op = "IsEmpty" ->
           IF IsDir(dirs, a) THEN Same("defined", "ok", Bool(Children(dirs, files, a) = {}))
           ELSE IF IsFile(files, a) THEN Same("defined", "ok", Bool(files[a] = ""))
           ELSE Same("defined", "ok", {"true"})
      [] op = "GetFileSize" ->
           IF FileAbove(files, a) THEN Conflict({})
           ELSE IF IsFile(files, a) THEN Same("defined", "ok", {ToString(Len(files[a]))})
           ELSE IF IsDir(dirs, a) THEN Same("unspecified", "any", {})              \* the size of a directory is the backend's business
           ELSE Same("defined", "notfound", {})
      [] op = "FileHash" ->
           IF IsFile(files, a) /\ files[a] # "" THEN Same("defined", "ok", {files[a]})
           ELSE IF IsFile(files, a) THEN Same("unspecified", "any", {})
           ELSE Same("defined", "error", {})

\* ---- two-path calls -------------------------------------------------------------------------------------------
\* a file a copied / moved to the file path t
FileTo(a, t, roots) ==
    IF IsDir(dirs, t) \/ FileAbove(files, t) THEN Conflict(roots)
    ELSE IF t = a THEN Res("defined", "ok", {}, dirs, files, roots)
    ELSE Res("defined", "ok", {}, dirs \cup Prefixes(Parent(t)), [q \in DOMAIN files \cup {t} |-> IF q = t THEN files[a] ELSE files[q]], roots)
\* a directory a merged onto t
DirTo(a, t, roots) ==
    IF t = a THEN Res("defined", "ok", {}, dirs, files, roots)
    ELSE IF Overlap(a, t) THEN Res("overlap", "any", {}, dirs, files, roots)
    ELSE IF MergeConflict(a, t) THEN Conflict(roots)
    ELSE Res("defined", "ok", {}, MergedDirs(a, t), MergedFiles(a, t), roots)

Copy(a, b, trailing) ==
    IF FileAbove(files, a) THEN Conflict({b})
    ELSE IF ~Exists(dirs, files, a) THEN (IF a = b /\ ~trailing THEN Res("unspecified", "any", {}, dirs, files, {b}) ELSE Res("defined", "notfound", {}, dirs, files, {b}))
    ELSE IF FileAbove(files, b) THEN Conflict({b})
    ELSE IF IsFile(files, a)
         THEN IF IsDir(dirs, b) THEN FileTo(a, b \o <<Last(a)>>, {b})
              ELSE IF IsFile(files, b) THEN (IF trailing THEN Conflict({b}) ELSE FileTo(a, b, {b}))
              ELSE IF trailing THEN FileTo(a, b \o <<Last(a)>>, {b})
              ELSE FileTo(a, b, {b})
    ELSE IF a = <<>> THEN Res("overlap", "any", {}, dirs, files, {b})
    ELSE IF IsFile(files, b) THEN Conflict({b})
    ELSE IF IsDir(dirs, b) THEN DirTo(a, b \o <<Last(a)>>, {b})
    ELSE DirTo(a, b, {b})

CopyToDirectory(a, b) ==
    IF FileAbove(files, a) THEN Conflict({b})
    ELSE IF ~Exists(dirs, files, a) THEN Res("defined", "notfound", {}, dirs, files, {b})
    ELSE IF IsFile(files, b) \/ FileAbove(files, b) THEN Conflict({b})
    ELSE IF a = <<>> THEN Res("overlap", "any", {}, dirs, files, {b})
    ELSE IF IsFile(files, a)
         THEN LET t == b \o <<Last(a)>> IN
              IF IsDir(dirs, t) THEN Conflict({b})
              ELSE IF t = a THEN Res("defined", "ok", {}, dirs, files, {b})
              ELSE Res("defined", "ok", {}, dirs \cup Prefixes(b), [q \in DOMAIN files \cup {t} |-> IF q = t THEN files[a] ELSE files[q]], {b})
    ELSE LET t == b \o <<Last(a)>> IN
         IF t = a THEN Res("defined", "ok", {}, dirs, files, {b})
         ELSE IF Overlap(a, t) \/ Overlap(a, b) THEN Res("overlap", "any", {}, dirs, files, {b})
         ELSE IF MergeConflict(a, t) THEN Conflict({b})
         ELSE Res("defined", "ok", {}, MergedDirs(a, t) \cup Prefixes(b), MergedFiles(a, t), {b})

CopyToFile(a, b) ==
    IF IsDir(dirs, a) \/ FileAbove(files, a) THEN Conflict({b})
    ELSE IF ~IsFile(files, a) THEN Res("defined", "error", {}, dirs, files, {b})
    ELSE IF b = <<>> THEN Conflict({b})
    ELSE FileTo(a, b, {b})

Move(a, b, trailing) ==
    IF FileAbove(files, a) THEN Conflict({a, b})
    ELSE IF a = b /\ ~trailing THEN Res("defined", "ok", {}, dirs, files, {a, b})
    ELSE IF ~Exists(dirs, files, a) THEN Res("defined", "notfound", {}, dirs, files, {a, b})
    ELSE IF a = <<>> THEN Res("overlap", "any", {}, dirs, files, {a, b})
    ELSE IF IsProperPrefix(a, b) THEN Res("defined", "error", {}, dirs, files, {a, b})        \* into itself: refused
    ELSE IF FileAbove(files, b) THEN Conflict({a, b})
    ELSE IF IsFile(files, a)
         THEN LET t == IF IsDir(dirs, b) THEN b \o <<Last(a)>> ELSE b IN
              IF IsDir(dirs, t) THEN Conflict({a, b})
              ELSE IF t = a THEN Res("defined", "ok", {}, dirs, files, {a, b})
              ELSE IF trailing /\ ~IsDir(dirs, b) THEN Res("unspecified", "any", {}, dirs, files, {a, b})   \* "mv f missing/": POSIX refuses, the backends disagree
              ELSE Res("defined", "ok", {}, dirs \cup Prefixes(Parent(t)),
                       [q \in (DOMAIN files \cup {t}) \ {a} |-> IF q = t THEN files[a] ELSE files[q]], {a, b})
    ELSE IF IsFile(files, b) THEN Conflict({a, b})
    ELSE IF a = b THEN Res("defined", "ok", {}, dirs, files, {a, b})
    ELSE IF IsDir(dirs, b)
         THEN \* named deviation: the content of a is merged into b (not moved below it), recursively: directories merge, a file replaces a file
              IF IsPrefix(b, a) THEN Res("unspecified", "any", {}, dirs, files, {a, b})
              ELSE IF MergeConflict(a, b) THEN Conflict({a, b})
              ELSE LET gone == {a} \cup Under(dirs, files, a) IN
                   Res("defined", "ok", {}, MergedDirs(a, b) \ gone, Restrict(MergedFiles(a, b), DOMAIN MergedFiles(a, b) \ gone), {a, b})
    ELSE LET gone == {a} \cup Under(dirs, files, a) IN
         Res("defined", "ok", {}, MergedDirs(a, b) \ gone, Restrict(MergedFiles(a, b), DOMAIN MergedFiles(a, b) \ gone), {a, b})

Two(op, a, b, trailing) ==
    CASE op = "CopyToFile" -> CopyToFile(a, b)
      [] op = "CopyToDirectory" -> CopyToDirectory(a, b)
      [] op = "Copy" -> Copy(a, b, trailing)
      [] op = "Move" -> Move(a, b, trailing)

\* ---- path conversions --------------------------------------------------------------------------------------------
\* the path that leads from directory a to b: one ".." per component of a beyond the common prefix, then the rest of b
RECURSIVE CommonLen(_, _)
CommonLen(a, b) == IF a = <<>> \/ b = <<>> \/ Head(a) # Head(b) THEN 0 ELSE 1 + CommonLen(Tail(a), Tail(b))
Ups(n) == [i \in 1..n |-> ".."]
RelPath(a, b) == LET k == CommonLen(a, b) IN Ups(Len(a) - k) \o SubSeq(b, k + 1, Len(b))
RelStr(p) == IF p = <<>> THEN "." ELSE PathStr(p)
PathCall(op, a, b) ==
    CASE op = "ToRelative" -> Same("defined", "ok", {RelStr(RelPath(a, b))})
      [] op = "ToAbsolute" -> Same("defined", "ok", {RelStr(a \o b)})              \* b taken relative to a, reported relative to the sandbox root
      [] op = "RelAbsRoundTrip" -> Same("defined", "ok", {RelStr(b)})              \* ToAbsolute(a, ToRelative(a, b)) = b

\* ---- behaviours ---------------------------------------------------------------------------------------------------------
InitTrees == { [d |-> {}, f |-> <<>>],
               [d |-> {<<"a">>}, f |-> (<<"b">> :> "x")],
               [d |-> {<<"a">>, <<"a", "b">>}, f |-> (<<"a", "a">> :> "x" @@ <<"c">> :> "y")],
               [d |-> {<<"a">>, <<"a", "c">>, <<"b">>}, f |-> (<<"a", "c", "a">> :> "y" @@ <<"b", "a">> :> "")],
               [d |-> {<<"a">>, <<"b">>, <<"b", "b">>, <<"c">>}, f |-> (<<"a", "a">> :> "x" @@ <<"b", "b", "c">> :> "y" @@ <<"c", "a">> :> "x")] }

Init == /\ \E t \in InitTrees : dirs = t.d /\ files = t.f /\ init = TreeStr(t.d, t.f)
        /\ hist = <<>>

Record(op, a, b, c, trailing, r) ==
    [op |-> op, a |-> a, b |-> b, c |-> c, trailing |-> trailing, class |-> r.class, expect |-> r.expect, value |-> r.value,
     tree |-> TreeStr(r.dirs, r.files), changes |-> {PathStr(q) : q \in r.roots}]

Apply(op, a, b, c, trailing) ==
    LET r == IF op \in OneOps THEN One(op, a, c) ELSE IF op \in PathOps THEN PathCall(op, a, b) ELSE Two(op, a, b, trailing) IN
    /\ dirs' = r.dirs /\ files' = r.files
    /\ hist' = Append(hist, Record(op, a, b, c, trailing, r))
    /\ UNCHANGED init

Next == /\ Len(hist) < MaxCalls
        /\ IF Random
           THEN \* each draw is bound once (a LET definition would be re-evaluated, hence re-drawn, at every use)
                LET known == Entries(dirs, files) \cup {<<>>}
                    fresh == {d \o <<n>> : d \in (dirs \cup {<<>>}), n \in Names}      \* new names inside directories that exist
                IN \E k \in {RandomElement(1..10)} :
                   \E op \in {IF k <= 4 THEN RandomElement({"MkDir", "WriteFile", "Touch", "Rm", "CleanDir"})
                               ELSE IF k <= 8 THEN RandomElement(TwoOps) ELSE IF k = 9 THEN RandomElement(ReadOps \cup PathOps) ELSE RandomElement(ReadOps)} :
                   \E ka \in {RandomElement(1..4)}, kb \in {RandomElement(1..4)}, kc \in {RandomElement(1..6)}, kt \in {RandomElement(1..4)} :
                   \E a \in {IF ka = 1 THEN RandomElement(ArgPaths) ELSE RandomElement(known \cup fresh)} :
                   \E b \in {IF kb = 1 THEN RandomElement(ArgPaths) ELSE RandomElement(known \cup fresh)} :
                   \E c \in {IF kc = 1 THEN "" ELSE RandomElement({"x", "y"})} :
                      Apply(op, a, IF op \in (TwoOps \cup PathOps) THEN b ELSE <<>>, IF op = "WriteFile" THEN c ELSE "", op \in {"Copy", "Move"} /\ kt = 1)
           ELSE \/ \E op \in OneOps, a \in ArgPaths : Apply(op, a, <<>>, IF op = "WriteFile" THEN "x" ELSE "", FALSE)
                \/ \E op \in PathOps, a \in ArgPaths, b \in ArgPaths : Apply(op, a, b, "", FALSE)
                \/ \E op \in TwoOps, a \in ArgPaths, b \in ArgPaths, trailing \in BOOLEAN :
                       (trailing => op \in {"Copy", "Move"}) /\ Apply(op, a, b, "", trailing)
Spec == Init /\ [][Next]_vars

\* ---- invariants of the model itself -------------------------------------------------------------------------------------------
TreeWellFormed == WellFormed(dirs, files)
LastCall == hist[Len(hist)]
\* (checked as action properties through the history: the previous tree is what the previous record says)
PrevTree == IF Len(hist) = 1 THEN init ELSE hist[Len(hist) - 1].tree
ReadOnlyCallsChangeNothing == (hist # <<>> /\ LastCall.op \in (ReadOps \cup PathOps)) => LastCall.tree = PrevTree
UndefinedCallsChangeNothingInTheModel == (hist # <<>> /\ LastCall.class # "defined") => LastCall.tree = PrevTree
FailedCallsChangeNothing == (hist # <<>> /\ LastCall.class = "defined" /\ LastCall.expect # "ok") => LastCall.tree = PrevTree

\* a copy never changes its source (also when the call is refused or its outcome unconstrained in the model)
CopyKeepsSource ==
    [][ (Len(hist') > Len(hist) /\ hist'[Len(hist')].op \in CopyOps) =>
          LET a == hist'[Len(hist')].a IN
          \A q \in ({a} \cup Under(dirs, files, a)) : (q \in dirs => q \in dirs') /\ (q \in DOMAIN files => (q \in DOMAIN files' /\ files'[q] = files[q])) ]_vars
\* whatever changes lies at or below one of the call's roots, or is a directory created on the way to one
Differs(q) == (q \in dirs) # (q \in dirs') \/ (q \in DOMAIN files) # (q \in DOMAIN files') \/ (q \in DOMAIN files /\ q \in DOMAIN files' /\ files[q] # files'[q])
ChangesWithinFrame ==
    [][ Len(hist') > Len(hist) =>
          LET r == hist'[Len(hist')]
              roots == IF r.op \in OneOps THEN {r.a} ELSE IF r.op = "Move" THEN {r.a, r.b} ELSE {r.b}
          IN IF r.op \in ReadOps THEN dirs' = dirs /\ files' = files
             ELSE IF r.op \in PathOps THEN dirs' = dirs /\ files' = files
             ELSE \A q \in (Entries(dirs, files) \cup Entries(dirs', files')) : Differs(q) => \E t \in roots : IsPrefix(t, q) \/ IsPrefix(q, t) ]_vars

Emit == Len(hist) = MaxCalls => PrintT(<<"BEHAVIOUR", ToJson([init |-> init, calls |-> hist])>>)
=============================================================================
