SPECIFICATION Spec
INVARIANTS SkipAndProcessDisjoint Emit
CHECK_DEADLOCK FALSE
