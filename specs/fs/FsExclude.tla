------------------------------ MODULE FsExclude ------------------------------
(***************************************************************************)
(* C08 - exclusion patterns protect exactly what they name.                *)
(*                                                                         *)
(* Names are strings over {x, y, X, Y}; a pattern is a small regular-      *)
(* expression AST (literal, any character, concatenation, alternation,     *)
(* star, case folding of one whole pattern) whose                          *)
(* matching is defined here, recursively, on strings (TLC evaluates Len /  *)
(* SubSeq on strings).  For a tree and a set of patterns:                  *)
(*   MustSkip     entries with a path component that some pattern matches  *)
(*                IN FULL (the entry itself or an ancestor below the root) *)
(*   MustProcess  entries none of whose components CONTAINS a match        *)
(* Everything in between is unconstrained by the statement.  The scenario  *)
(* space (tree x pattern set x operation) is enumerated by TLC together    *)
(* with the two sets; the harness materialises it.                         *)
(***************************************************************************)
EXTENDS Naturals, Sequences, FiniteSets, TLC, Json

\* ---- regular expressions -----------------------------------------------------------------
Lit(c) == [t |-> "lit", c |-> c]
AnyChar == [t |-> "any"]
Cat(a, b) == [t |-> "cat", l |-> a, r |-> b]
Alt(a, b) == [t |-> "alt", l |-> a, r |-> b]
Star(a) == [t |-> "star", r |-> a]
Fold(a) == [t |-> "fold", r |-> a]     \* (?i)a at the start of a pattern: the whole of THIS pattern ignores case, no other pattern does

LowerC(c) == IF c = "X" THEN "x" ELSE IF c = "Y" THEN "y" ELSE c
RECURSIVE Lower(_)
Lower(s) == IF s = "" THEN "" ELSE LowerC(SubSeq(s, 1, 1)) \o Lower(SubSeq(s, 2, Len(s)))

RECURSIVE Full(_, _)
Full(r, s) ==
    CASE r.t = "lit" -> s = r.c
      [] r.t = "any" -> Len(s) = 1
      [] r.t = "cat" -> \E k \in 0..Len(s) : Full(r.l, SubSeq(s, 1, k)) /\ Full(r.r, SubSeq(s, k + 1, Len(s)))
      [] r.t = "alt" -> Full(r.l, s) \/ Full(r.r, s)
      [] r.t = "fold" -> Full(r.r, Lower(s))
      [] r.t = "star" -> s = "" \/ \E k \in 1..Len(s) : Full(r.r, SubSeq(s, 1, k)) /\ Full(r, SubSeq(s, k + 1, Len(s)))
Contains(r, s) == \E i \in 1..(Len(s) + 1) : \E j \in (i - 1)..Len(s) : Full(r, SubSeq(s, i, j))

RECURSIVE Src(_)
Src(r) == CASE r.t = "lit" -> r.c
            [] r.t = "any" -> "."
            [] r.t = "cat" -> Src(r.l) \o Src(r.r)
            [] r.t = "alt" -> "(" \o Src(r.l) \o "|" \o Src(r.r) \o ")"
            [] r.t = "star" -> "(" \o Src(r.r) \o ")*"
            [] r.t = "fold" -> "(?i)" \o Src(r.r)

PatternPool == << Lit("x"), Lit("y"), Lit("xy"), Lit("yy"), Cat(Lit("x"), AnyChar), Cat(AnyChar, Lit("y")), Cat(Lit("x"), Star(Lit("x"))),
                  Alt(Lit("xx"), Lit("yx")), Cat(AnyChar, AnyChar), Cat(Lit("y"), Cat(Star(Lit("x")), Lit("y"))), Cat(Lit("x"), Cat(AnyChar, Lit("y"))),
                  Fold(Lit("yy")) >>

\* ---- trees ---------------------------------------------------------------------------------
\* a node is <<path, kind>>; three fixed trees (rich, flat, deep) with names chosen so that patterns hit at every depth
TreeRich == { <<<<"x">>, "dir">>, <<<<"x", "y">>, "file">>, <<<<"x", "xy">>, "dir">>, <<<<"x", "xy", "x">>, "file">>, <<<<"x", "xy", "yy">>, "file">>,
              <<<<"y">>, "dir">>, <<<<"y", "x">>, "file">>, <<<<"y", "yx">>, "dir">>, <<<<"y", "yx", "xx">>, "file">>, <<<<"y", "yxy">>, "file">>,
              <<<<"xy">>, "file">>, <<<<"xx">>, "dir">>, <<<<"xx", "y">>, "dir">>, <<<<"xx", "y", "yy">>, "file">>, <<<<"yyy">>, "file">>, <<<<"yy">>, "dir">>,
              <<<<"X">>, "file">>, <<<<"x", "XY">>, "file">>, <<<<"Yy">>, "dir">>, <<<<"Yy", "x">>, "file">> }
TreeFlat == { <<<<"x">>, "file">>, <<<<"y">>, "file">>, <<<<"xy">>, "file">>, <<<<"yx">>, "dir">>, <<<<"xx">>, "file">>, <<<<"yy">>, "file">>, <<<<"xyx">>, "file">>, <<<<"yxy">>, "dir">>,
             <<<<"X">>, "file">>, <<<<"YY">>, "file">>, <<<<"Xy">>, "dir">> }
TreeDeep == { <<<<"y">>, "dir">>, <<<<"y", "y">>, "dir">>, <<<<"y", "y", "x">>, "dir">>, <<<<"y", "y", "x", "y">>, "file">>, <<<<"y", "y", "yy">>, "file">>,
              <<<<"y", "xy">>, "file">>, <<<<"yx">>, "dir">>, <<<<"yx", "yx">>, "dir">>, <<<<"yx", "yx", "yx">>, "file">>,
             <<<<"y", "Y">>, "file">>, <<<<"YX">>, "dir">>, <<<<"YX", "yY">>, "file">> }
Trees == [rich |-> TreeRich, flat |-> TreeFlat, deep |-> TreeDeep]

Ops == {"Walk", "Ls", "LsRecursive", "ListDirTree", "SubDirectories", "Copy", "Zip", "Remove", "CleanDir"}

VARIABLES tree, pats, op
vars == <<tree, pats, op>>
Init == /\ tree \in DOMAIN Trees
        /\ pats \in {S \in SUBSET (1..Len(PatternPool)) : Cardinality(S) <= 2}
        /\ op \in Ops
Next == UNCHANGED vars
Spec == Init /\ [][Next]_vars

Nodes == Trees[tree]
Paths == {n[1] : n \in Nodes}
KindOf(p) == (CHOOSE n \in Nodes : n[1] = p)[2]
P(i) == PatternPool[i]

ComponentFullyMatched(p) == \E k \in 1..Len(p) : \E i \in pats : Full(P(i), p[k])
ComponentContainsMatch(p) == \E k \in 1..Len(p) : \E i \in pats : Contains(P(i), p[k])
IsPrefix(a, b) == Len(a) <= Len(b) /\ SubSeq(b, 1, Len(a)) = a

\* which entries an operation is about: one level for Ls / SubDirectories, everything otherwise; directories only where that is the point
InScope(p) == CASE op = "Ls" -> Len(p) = 1
                [] op = "SubDirectories" -> Len(p) = 1 /\ KindOf(p) = "dir"
                [] op = "ListDirTree" -> TRUE
                [] OTHER -> TRUE
MustSkip == {p \in Paths : InScope(p) /\ ComponentFullyMatched(p)}
MustProcessAll == {p \in Paths : InScope(p) /\ ~ComponentContainsMatch(p)}
\* removal cannot delete a directory that still holds a protected entry
HoldsProtected(p) == \E q \in Paths : q # p /\ IsPrefix(p, q) /\ ComponentContainsMatch(q)
MustProcess == IF op \in {"Remove", "CleanDir"} THEN {p \in MustProcessAll : ~HoldsProtected(p)} ELSE MustProcessAll

\* sets of pattern sources with a member that is not a regular expression - some of them would be one if the members were
\* glued together (an unclosed group / class closed by the next member): every member must be valid on its own
InvalidSets == { {"x(y"}, {"x(", ")y"}, {"[x", "y]"}, {"*x"}, {"x{2,1}"}, {"(?i", ")x"} }

SkipAndProcessDisjoint == MustSkip \cap MustProcess = {}
Scenario == [tree |-> tree, nodes |-> Nodes, patterns |-> {Src(P(i)) : i \in pats}, op |-> op, mustSkip |-> MustSkip, mustProcess |-> MustProcess, invalidSets |-> InvalidSets]
Emit == PrintT(<<"BEHAVIOUR", ToJson(Scenario)>>)
=============================================================================
