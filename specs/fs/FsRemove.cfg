SPECIFICATION Spec
CONSTANT FollowLinks = FALSE
INVARIANTS OutsideUnchanged SuccessMeansGone ExcludedSurvive NothingElseTouched Emit
CHECK_DEADLOCK FALSE
