---------------------------- MODULE FsModelTrace ----------------------------
(***************************************************************************)
(* C06 - judging recorded calls against FsModel.tla.  One Call event per   *)
(* (program, step, backend): the model's class / expected outcome / value  *)
(* / tree afterwards / frame roots, and what the real call did: outcome    *)
(* kind, value, dump of the sandbox before and after, open handles,        *)
(* whether it returned, what changed outside the frame, and for copies the *)
(* entries of the source before and after.                                 *)
(***************************************************************************)
EXTENDS Naturals, Sequences, FiniteSets, TLC, Json
Trace == ndJsonDeserialize("trace.ndjson")
VARIABLES l
Ev == Trace[l]
ToSet(s) == {s[i] : i \in 1..Len(s)}
Verdict(v) == PrintT(<<"VERDICT", ToJson([id |-> l, viol |-> v])>>)

OutcomeOK == \/ Ev.expect = "any"
             \/ Ev.expect = Ev.got
             \/ (Ev.expect = "error" /\ Ev.got \notin {"ok", "blocked", "crash"})

MemReplacedFileOnPath == Ev.backend = "mem" /\ Ev.class = "conflict" /\ Ev.fileInPathReplaced
Frame ==
    (IF Ev.blocked THEN {"call-does-not-return"} ELSE {})
    \cup (IF Ev.wedged THEN {"backend-no-longer-answers-after-the-call"} ELSE {})
    \cup (IF Ev.got = "crash" THEN {"call-crashes-the-process"} ELSE {})
    \cup (IF Ev.got # "crash" /\ Ev.panicked THEN {"call-panics"} ELSE {})
    \cup (IF Ev.handles # 0 THEN {"handle-left-open"} ELSE {})
    \cup (IF Ev.outside # <<>> THEN {"changed-something-outside-the-sandbox-tree"} ELSE {})
    \* a file on the way to the destination replaced by a directory on the in-memory backend (kind conflict): its own causal signature
    \cup (IF Ev.outsideFrame # <<>>
          THEN (IF MemReplacedFileOnPath THEN {"memory-backend-replaces-a-file-on-the-path-by-a-directory"}
                ELSE {"changed-something-other-than-its-destination"}) ELSE {})
    \* what the source held is still there, unchanged (a destination inside the source may add to it)
    \* ... and a copy that is refused leaves it exactly as it was: nothing prepared inside it either
    \cup (IF Ev.isCopy /\ Ev.got \notin {"ok", "blocked", "crash"} /\ ~Ev.panicked /\ ToSet(Ev.srcBefore) \subseteq ToSet(Ev.srcAfter) /\ ToSet(Ev.srcAfter) # ToSet(Ev.srcBefore)
          THEN {"refused-copy-changed-its-source"} ELSE {})
    \cup (IF Ev.isCopy /\ ~(ToSet(Ev.srcBefore) \subseteq ToSet(Ev.srcAfter))
          THEN (IF MemReplacedFileOnPath /\ (ToSet(Ev.srcBefore) \ ToSet(Ev.srcAfter)) \subseteq ToSet(Ev.outsideFrame) THEN {}     \* that very file: reported under its own signature
                ELSE {"copy-changed-its-source"}) ELSE {})

Call ==
    /\ l <= Len(Trace) /\ Ev.op = "Call"
    /\ Verdict(
         IF Ev.blocked \/ Ev.wedged \/ Ev.got = "crash" \/ Ev.panicked THEN Frame
         ELSE Frame \cup
              (CASE Ev.class = "defined" ->
                      (IF ~OutcomeOK THEN {"outcome-differs-from-the-documented-semantics"} ELSE {})
                      \cup (IF OutcomeOK /\ Ev.got = "ok" /\ ToSet(Ev.gotValue) # ToSet(Ev.value) THEN {"value-differs-from-the-documented-semantics"} ELSE {})
                      \cup (IF ToSet(Ev.after) # ToSet(Ev.tree) THEN {"tree-differs-from-the-documented-semantics"} ELSE {})
                 [] Ev.class = "missingparent" ->
                      \* POSIX: not found, nothing created.  The in-memory backend creates the missing parents: its own causal signature
                      (IF Ev.got = "notfound" /\ ToSet(Ev.after) = ToSet(Ev.before) THEN {}
                       ELSE IF Ev.backend = "mem" /\ ToSet(Ev.after) # ToSet(Ev.before) THEN {"memory-backend-creates-missing-parent-directories"}
                       ELSE {"outcome-differs-from-the-documented-semantics"})
                 [] OTHER -> {}))
    /\ l' = l + 1
TraceSpec == l = 1 /\ [][Call]_l
TraceAccepted == LET n == TLCGet("stats").diameter - 1 IN PrintT(<<"TRACE_MATCHED", n>>) /\ n = Len(Trace)
=============================================================================
