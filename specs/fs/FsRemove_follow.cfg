SPECIFICATION Spec
CONSTANT FollowLinks = TRUE
INVARIANTS OutsideUnchanged SuccessMeansGone
CHECK_DEADLOCK FALSE
