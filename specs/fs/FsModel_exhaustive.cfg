SPECIFICATION Spec
CONSTANTS Random = FALSE
  MaxCalls = 2
INVARIANTS TreeWellFormed ReadOnlyCallsChangeNothing UndefinedCallsChangeNothingInTheModel FailedCallsChangeNothing
PROPERTIES CopyKeepsSource ChangesWithinFrame
CHECK_DEADLOCK FALSE
