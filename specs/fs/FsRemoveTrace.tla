---------------------------- MODULE FsRemoveTrace ----------------------------
(***************************************************************************)
(* C04 - judging recorded removals: each event is one real call of a       *)
(* removal entry point on a materialised scenario of FsRemove.tla (or on a *)
(* random larger tree), with the snapshot difference of the whole sandbox. *)
(***************************************************************************)
EXTENDS Naturals, Sequences, FiniteSets, TLC, Json
Trace == ndJsonDeserialize("trace.ndjson")
VARIABLES l
Ev == Trace[l]
ToSet(s) == {s[i] : i \in 1..Len(s)}
Verdict(v) == PrintT(<<"VERDICT", ToJson([id |-> l, viol |-> v])>>)

Removal ==
    /\ l <= Len(Trace) /\ Ev.op = "Removal"
    /\ Verdict(
         (IF Ev.outsideChanged # <<>> THEN {"outside-of-tree-modified"} ELSE {})
         \cup (IF ~(ToSet(Ev.protected) \subseteq ToSet(Ev.remaining)) THEN {"excluded-entry-or-ancestor-removed"} ELSE {})
         \cup (IF Ev.err = "" /\ ~(ToSet(Ev.remaining) \subseteq ToSet(Ev.after)) THEN {"success-but-entries-remain"} ELSE {})
         \cup (IF Ev.err = "" /\ ~(ToSet(Ev.after) \subseteq ToSet(Ev.remaining)) THEN {"unrelated-entry-removed"} ELSE {})
         \cup (IF Ev.err = "blocked" THEN {"removal-does-not-terminate"} ELSE {}))
    /\ l' = l + 1
TraceSpec == l = 1 /\ [][Removal]_l
TraceAccepted == LET n == TLCGet("stats").diameter - 1 IN PrintT(<<"TRACE_MATCHED", n>>) /\ n = Len(Trace)
=============================================================================
