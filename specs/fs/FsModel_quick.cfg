SPECIFICATION Spec
CONSTANTS Random = FALSE
  MaxCalls = 1
INVARIANTS TreeWellFormed ReadOnlyCallsChangeNothing UndefinedCallsChangeNothingInTheModel FailedCallsChangeNothing
PROPERTIES CopyKeepsSource ChangesWithinFrame
CHECK_DEADLOCK FALSE
