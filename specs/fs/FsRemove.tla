------------------------------ MODULE FsRemove ------------------------------
(***************************************************************************)
(* C04 - recursive removal never touches anything outside the tree.        *)
(*                                                                         *)
(* A sandbox holds the tree T that is removed / cleaned and an outside     *)
(* region O.  Nodes are paths (sequences of names); a node is a directory, *)
(* a file or a symbolic link with a target class.  The reference semantics *)
(* is `rm -rf` with exclusion patterns: links are leaves - unlinked, never *)
(* traversed; an entry whose name matches a pattern survives with its      *)
(* ancestors (and everything beneath it).  The scenario space (which       *)
(* optional nodes exist, where the link is and what it points to, which    *)
(* entry point, which pattern) is enumerated by TLC together with the      *)
(* expected tree afterwards; FollowLinks is the behaviour of a removal     *)
(* that resolves existence and kind through the link (sensitivity run).    *)
(***************************************************************************)
EXTENDS Naturals, Sequences, FiniteSets, TLC, Json

CONSTANT FollowLinks

T == <<"T">>
Inside == {<<"T", "d">>, <<"T", "d", "f">>, <<"T", "f">>, <<"T", "e">>, <<"T", "d", "sub">>, <<"T", "d", "sub", "x">>}
KindOf(p) == IF p \in {<<"T", "d">>, <<"T", "e">>, <<"T", "d", "sub">>} THEN "dir" ELSE "file"
Outside == {<<"O">>, <<"O", "g">>, <<"O", "od">>, <<"O", "od", "h">>}
LinkPlaces == {<<"T", "l">>, <<"T", "d", "l">>}
Targets == {"file-inside", "dir-inside", "file-outside", "dir-outside", "ancestor", "dangling", "none"}
\* GarbageCollect: everything (the link too) is older than the threshold; GarbageCollectAged: every file and directory, inside
\* and outside, is older than the threshold but the link itself is fresh - it stays, and what it points to is not collected
\* RmLinkTrailing: Rm on the link written with a trailing separator ("link/"), which makes the operating system resolve it
\* RmPrivileged: RemoveWithPrivileges whose first removal is refused once by the backend (permission denied): the call takes
\* ownership and tries again - the outcome is that of Rm, and nothing outside the tree is touched (not its ownership either)
Ops == {"Rm", "RmPrivileged", "RmLink", "RmLinkTrailing", "CleanDir", "GarbageCollect", "GarbageCollectAged", "RmExcluding", "CleanDirExcluding"}
Patterns == {"f", "d", "l", "sub"}

VARIABLES present,   \* set of optional inside nodes that exist
          linkAt, target, op, pattern,
          fault,     \* a nested entry whose removal the backend refuses (<<>> = none): the call must then not report success
          spelling   \* "plain" | "blanks" | "dots": the names begin or end with a blank / end with dots (the semantics does not depend on it)

vars == <<present, linkAt, target, op, pattern, fault, spelling>>

IsPrefix(a, b) == Len(a) <= Len(b) /\ SubSeq(b, 1, Len(a)) = a
Parent(p) == SubSeq(p, 1, Len(p) - 1)
Last(p) == p[Len(p)]

\* a well-formed tree: every present node has its parent; the link needs its parent and (for inside targets) its target
WellFormed(S, la, tg) ==
    /\ \A p \in S : Parent(p) = T \/ Parent(p) \in S
    /\ (tg # "none" => (Parent(la) = T \/ Parent(la) \in S))
    /\ (tg = "file-inside" => <<"T", "f">> \in S)
    /\ (tg = "dir-inside" => <<"T", "d">> \in S /\ la # <<"T", "d", "l">>)

Init == /\ present \in SUBSET Inside /\ linkAt \in LinkPlaces /\ target \in Targets
        /\ WellFormed(present, linkAt, target)
        /\ op \in Ops /\ pattern \in Patterns
        /\ (op \in {"RmLink", "RmLinkTrailing"} => target # "none")
        /\ fault \in {<<>>} \cup (IF op \in {"Rm", "CleanDir"} /\ target = "none" THEN present ELSE {})
        /\ spelling \in {"plain", "blanks", "dots"} /\ (spelling # "plain" => (fault = <<>> /\ op \in {"Rm", "RmLink", "CleanDir", "RmExcluding", "CleanDirExcluding"}))
        /\ (op \notin {"RmExcluding", "CleanDirExcluding"} => pattern = "f")     \* pattern only matters for the excluding entry points
Next == UNCHANGED vars
Spec == Init /\ [][Next]_vars

Nodes == {T} \cup present \cup (IF target = "none" THEN {} ELSE {linkAt})
HasLink == target # "none"

\* ---- reference semantics -------------------------------------------------------------------
Start == IF op \in {"RmLink", "RmLinkTrailing"} THEN linkAt ELSE T
Sub(p) == {n \in Nodes : IsPrefix(p, n)}                      \* links are leaves: prefix is structure, not resolution
Excluding == op \in {"RmExcluding", "CleanDirExcluding"}
Aged == op = "GarbageCollectAged"
Matches(n) == \/ Excluding /\ Len(n) > Len(Start) /\ Last(n) = pattern
              \/ Aged /\ HasLink /\ n = linkAt                   \* the fresh link is kept, hence its ancestors too
\* protected: an excluded entry, everything beneath it, and its ancestors within the removal
Protected(n) == \E m \in Sub(Start) : Matches(m) /\ (IsPrefix(m, n) \/ IsPrefix(n, m))
KeepsRoot == op \in {"CleanDir", "CleanDirExcluding", "GarbageCollect", "GarbageCollectAged"}
Removed == {n \in Sub(Start) : ~Protected(n) /\ ~(KeepsRoot /\ n = Start)}
After == Nodes \ Removed

\* ---- a removal that decides existence / kind through the link ----------------------------------
LinkDirTarget == IF target = "dir-inside" THEN <<"T", "d">> ELSE IF target = "dir-outside" THEN <<"O", "od">> ELSE <<>>
OutsideAfterFollow ==
    IF HasLink /\ linkAt \in Removed /\ target = "dir-outside" THEN Outside \ {<<"O", "od", "h">>}
    ELSE IF HasLink /\ Aged /\ target = "dir-outside" THEN Outside \ {<<"O", "od", "h">>, <<"O", "od">>}    \* collected through the fresh link
    ELSE Outside
InsideAfterFollow ==
    IF HasLink /\ target = "dangling" /\ linkAt \in Removed THEN After \cup {linkAt} ELSE After    \* "does not exist": left behind

OutsideAfter == IF FollowLinks THEN OutsideAfterFollow ELSE Outside
InsideAfter == IF FollowLinks THEN InsideAfterFollow ELSE After

\* ---- properties ---------------------------------------------------------------------------------
OutsideUnchanged == OutsideAfter = Outside
SuccessMeansGone == (~Excluding /\ ~Aged) => (InsideAfter \cap Sub(Start)) \subseteq (IF KeepsRoot THEN {Start} ELSE {})
ExcludedSurvive == \A n \in Sub(Start) : Protected(n) => n \in InsideAfter
NothingElseTouched == \A n \in Nodes \ Sub(Start) : n \in InsideAfter

ToPath(p) == p
\* with a refused removal the tree cannot be gone: success is then a lie (the expected tree stays the fault-free one, so that
\* "success but entries remain" is what the judge sees)
FaultMeansFailure == fault # <<>> => fault \in Removed
Scenario == [present |-> present, linkAt |-> linkAt, target |-> target, op |-> op, pattern |-> (IF Excluding THEN pattern ELSE ""), fault |-> fault, spelling |-> spelling,
             after |-> After, removed |-> Removed, protected |-> {n \in Sub(Start) : Protected(n)}]
Emit == PrintT(<<"BEHAVIOUR", ToJson(Scenario)>>)
=============================================================================
