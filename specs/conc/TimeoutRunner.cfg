SPECIFICATION FairSpec
CONSTANTS PromptRunner = TRUE
          StopCap = 1
          Listens = {"always", "late", "never"}
INVARIANTS OwnResultBeforeDeadline TimeoutAfterActionEnded ResultIsMeaningful NoBlockedGoroutine
PROPERTIES RunnerReturns
CHECK_DEADLOCK TRUE
