SPECIFICATION TraceSpec
CONSTANTS PromptRunner = FALSE
          StopCap = 1
          Listens = {"always", "late", "never"}
CONSTRAINT HighWater
POSTCONDITION TraceAccepted
VIEW TraceView
CHECK_DEADLOCK FALSE
