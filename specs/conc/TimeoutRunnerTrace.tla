------------------------- MODULE TimeoutRunnerTrace -------------------------
(***************************************************************************)
(* Trace validation for RunActionWithTimeout: each recorded run of the     *)
(* real runner (vh c12 sweep-timeout) - listening behaviour of the action, *)
(* measured order of "action finished" and "deadline" (finish-first /      *)
(* timer-first / either when within the scheduling margin), returned       *)
(* class, whether the action saw the stop signal and had ended - must be   *)
(* the outcome of SOME behaviour of TimeoutRunner.tla consistent with the  *)
(* measured order.  The steps inside a run are not logged: TLC infers them *)
(* (silent steps), acceptance is by the high-water mark of l.              *)
(***************************************************************************)
EXTENDS TimeoutRunner

Trace == ndJsonDeserialize("trace.ndjson")

VARIABLES l, phase

tvars == <<vars, l, phase>>
Ev == Trace[l]

Fresh(lst) == /\ listen' = lst
              /\ rpc' = "select" /\ apc' = "phase1" /\ timer' = FALSE
              /\ resultCh' = <<>> /\ stopBuf' = 0 /\ aresult' = "own" /\ ret' = "none"
              /\ sawStop' = FALSE /\ finishedBeforeTimer' = FALSE /\ hist' = <<>>

TraceInit == /\ Init /\ listen = "always" /\ l = 1 /\ phase = "idle" /\ TLCSet(1, 1)

StartRun == /\ phase = "idle" /\ l <= Len(Trace) /\ Ev.op = "Run" /\ Ev.listen \in {"always", "late", "never"}
            /\ Fresh(Ev.listen) /\ phase' = "running" /\ UNCHANGED l

\* measured order, with the margin read as "the other party had time to react"
OrderOK == CASE Ev.order = "finish-first" -> ((timer' /\ ~timer) => rpc = "ret")
             [] Ev.order = "timer-first"  -> ((apc' = "send" /\ apc # "send" /\ aresult' = "own") => rpc # "select")
             [] OTHER -> TRUE

SilentStep == /\ phase = "running"
              /\ (TimerFires \/ ActionProgress \/ ActionFinishes \/ ActionTakesStop \/ ActionSends
                  \/ RunnerGetsResult \/ RunnerTimesOut \/ RunnerSendsStopBuffered \/ RunnerSendsStopRendezvous \/ RunnerDrains)
              /\ OrderOK
              /\ UNCHANGED <<l, phase>>

EndRun == /\ phase = "running" /\ rpc = "ret" /\ apc = "done"
          /\ ret = Ev.ret /\ sawStop = Ev.sawStop /\ Ev.ended
          /\ l' = l + 1 /\ phase' = "idle" /\ UNCHANGED vars

TraceNext == StartRun \/ SilentStep \/ EndRun
TraceSpec == TraceInit /\ [][TraceNext]_tvars

HighWater == IF l > TLCGet(1) THEN TLCSet(1, l) ELSE TRUE
TraceAccepted == /\ PrintT(<<"TRACE_MATCHED", TLCGet(1) - 1>>)
                 /\ TLCGet(1) = Len(Trace) + 1
TraceView == <<listen, rpc, apc, timer, resultCh, stopBuf, aresult, ret, sawStop, l, phase>>
=============================================================================
