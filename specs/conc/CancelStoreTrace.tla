-------------------------- MODULE CancelStoreTrace --------------------------
(***************************************************************************)
(* Trace validation for the cancel store: concurrent histories of          *)
(* Register / Cancel / Len recorded from the real CancelFunctionStore      *)
(* (start and end events stamped under one log mutex, so the log order is  *)
(* consistent with real time).  Checked: every function whose Register had *)
(* returned when a Cancel began is invoked by that Cancel; nothing         *)
(* unregistered is invoked; Len lies between the registrations completed   *)
(* at its start and those begun at its end.                                *)
(***************************************************************************)
EXTENDS Naturals, Sequences, FiniteSets, TLC, Json

Trace == ndJsonDeserialize("trace.ndjson")

VARIABLES l, regStarted, regDone, atBegin, lenLow

tvars == <<l, regStarted, regDone, atBegin, lenLow>>
Ev == Trace[l]
ToSet(s) == {s[i] : i \in 1..Len(s)}

TraceInit == l = 1 /\ regStarted = {} /\ regDone = {} /\ atBegin = <<>> /\ lenLow = <<>>

Consume == l <= Len(Trace) /\ l' = l + 1

NewStore == /\ Consume /\ Ev.op = "New" /\ regStarted' = {} /\ regDone' = {} /\ atBegin' = <<>> /\ lenLow' = <<>>
RegStart == /\ Consume /\ Ev.op = "RegStart" /\ regStarted' = regStarted \cup {Ev.id} /\ UNCHANGED <<regDone, atBegin, lenLow>>
RegEnd == /\ Consume /\ Ev.op = "RegEnd" /\ Ev.id \in regStarted /\ regDone' = regDone \cup {Ev.id} /\ UNCHANGED <<regStarted, atBegin, lenLow>>
CancelStart == /\ Consume /\ Ev.op = "CancelStart"
               /\ atBegin' = [x \in DOMAIN atBegin \cup {Ev.id} |-> IF x = Ev.id THEN regDone ELSE atBegin[x]]
               /\ UNCHANGED <<regStarted, regDone, lenLow>>
CancelEnd == /\ Consume /\ Ev.op = "CancelEnd" /\ Ev.id \in DOMAIN atBegin
             /\ atBegin[Ev.id] \subseteq ToSet(Ev.invoked)        \* registered before the Cancel began => invoked
             /\ ToSet(Ev.invoked) \subseteq regStarted             \* nothing unregistered, and
             /\ Cardinality(ToSet(Ev.invoked)) = Len(Ev.invoked)   \* each at most once per Cancel
             /\ UNCHANGED <<regStarted, regDone, atBegin, lenLow>>
LenStart == /\ Consume /\ Ev.op = "LenStart"
            /\ lenLow' = [x \in DOMAIN lenLow \cup {Ev.id} |-> IF x = Ev.id THEN Cardinality(regDone) ELSE lenLow[x]]
            /\ UNCHANGED <<regStarted, regDone, atBegin>>
LenEnd == /\ Consume /\ Ev.op = "LenEnd" /\ Ev.id \in DOMAIN lenLow
          /\ lenLow[Ev.id] <= Ev.n /\ Ev.n <= Cardinality(regStarted)
          /\ UNCHANGED <<regStarted, regDone, atBegin, lenLow>>

TraceNext == NewStore \/ RegStart \/ RegEnd \/ CancelStart \/ CancelEnd \/ LenStart \/ LenEnd
TraceSpec == TraceInit /\ [][TraceNext]_tvars
TraceAccepted == LET n == TLCGet("stats").diameter - 1 IN PrintT(<<"TRACE_MATCHED", n>>) /\ n = Len(Trace)
=============================================================================
