SPECIFICATION Spec
CONSTANTS PromptRunner = TRUE
          StopCap = 1
          Listens = {"always", "late", "never"}
INVARIANTS Emit
CHECK_DEADLOCK FALSE
