SPECIFICATION Spec
CONSTANTS Period = 4
  Horizon = 14
  TickMayWinOverDone = FALSE
INVARIANTS NoOverlap NothingIfDoneAtCall OnceAfter AfterRunsIffNotCancelledFirst OnGrid LateCallsOnlyWhenSlow Regular NoCallAfterCancel Emit
CHECK_DEADLOCK FALSE
