SPECIFICATION Spec
CONSTANTS Period = 4
  Horizon = 14
  ChecksStop = FALSE
PROPERTIES NoCheckAfterStop
CHECK_DEADLOCK FALSE
