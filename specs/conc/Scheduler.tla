------------------------------ MODULE Scheduler ------------------------------
(***************************************************************************)
(* Growth beyond the listed properties: SafeScheduleAfter and SafeSchedule *)
(* (parallelisation.go) as coded.                                          *)
(*                                                                         *)
(*   SafeScheduleAfter(ctx, offset, f): nothing if ctx is done; otherwise  *)
(*     a goroutine waits for the timer or for ctx: f(ctx, t) runs once     *)
(*     when the timer fires first, never when ctx ends first.              *)
(*   SafeSchedule(ctx, period, offset, f): nothing if ctx is done;         *)
(*     otherwise one goroutine: the first call at the next instant that    *)
(*     is offset past a multiple of the period, then a ticker of that      *)
(*     period started just BEFORE the first call; calls never overlap (one *)
(*     goroutine); the ticker's channel holds one tick: ticks that fall    *)
(*     while f runs are dropped except one; the loop ends when it sees     *)
(*     ctx done.  As coded, when a tick is pending and ctx is done at the  *)
(*     same select, either may be taken: calls can still start after the   *)
(*     cancellation (named deviation TickMayWinOverDone; f is handed the   *)
(*     context and can see it is done).                                    *)
(*                                                                         *)
(* Discrete time: a call of f takes Dur instants; the context is cancelled *)
(* at CancelAt (0 = before the call of the scheduler, Horizon+1 = never).  *)
(* Properties: NoOverlap, OnGrid, Regular (one period apart while f is     *)
(* short), LateCallsOnlyWhenSlow, NothingIfDoneAtCall, OnceAfter,          *)
(* AfterRunsIffNotCancelledFirst; NoCallAfterCancel holds in the strict    *)
(* reading only (the as-coded configuration must violate it).              *)
(***************************************************************************)
EXTENDS Integers, Sequences, FiniteSets, TLC, Json

CONSTANTS Period, Horizon, TickMayWinOverDone

VARIABLES mode,      \* "after" | "schedule"
          dur,       \* instants a call of f takes
          cancelAt,  \* instant of the cancellation (0: before the call; Horizon + 1: never)
          first,     \* instant of the first execution (offset for "after"; position on the grid for "schedule")
          now, running, endsAt, pending, nextTick, started, calls, stopped, afterCancel

scenario == <<mode, dur, cancelAt, first>>
vars == <<mode, dur, cancelAt, first, now, running, endsAt, pending, nextTick, started, calls, stopped, afterCancel>>

Done == now >= cancelAt

Init == /\ mode \in {"after", "schedule"}
        /\ dur \in {1, Period + 2}
        /\ cancelAt \in {0, 2, 6, 10, Horizon + 1}     \* never at the instant of a tick (first + k * Period): no ties
        /\ first \in {1, 3}
        /\ now = 0 /\ running = FALSE /\ endsAt = 0 /\ pending = FALSE /\ nextTick = 0 /\ started = FALSE
        /\ calls = <<>> /\ stopped = (cancelAt = 0) /\ afterCancel = 0

Keep == UNCHANGED scenario

\* a call of f begins (t = now); for "schedule" the ticker starts with the first call
Begin == /\ running' = TRUE /\ endsAt' = now + dur /\ calls' = Append(calls, now)
         /\ afterCancel' = afterCancel + (IF Done THEN 1 ELSE 0)

\* the loop is at its select: what is ready?
FirstReady == ~started /\ now >= first
TickReady == started /\ mode = "schedule" /\ pending

\* the ticker delivers a tick into its one-slot channel (dropped when the slot is full)
Tick == /\ started /\ mode = "schedule" /\ ~stopped /\ now = nextTick
        /\ pending' = TRUE /\ nextTick' = nextTick + Period
        /\ Keep /\ UNCHANGED <<now, running, endsAt, started, calls, stopped, afterCancel>>

EndCall == /\ running /\ now = endsAt
           /\ running' = FALSE
           /\ stopped' = (stopped \/ mode = "after")        \* one shot
           /\ Keep /\ UNCHANGED <<now, endsAt, pending, nextTick, started, calls, afterCancel>>

SelectFirst == /\ ~running /\ ~stopped /\ FirstReady /\ (~Done \/ (TickMayWinOverDone /\ mode = "schedule"))
               /\ started' = TRUE /\ nextTick' = now + Period /\ Begin
               /\ Keep /\ UNCHANGED <<now, pending, stopped>>
SelectTick == /\ ~running /\ ~stopped /\ TickReady /\ (~Done \/ TickMayWinOverDone)
              /\ pending' = FALSE /\ Begin
              /\ Keep /\ UNCHANGED <<now, nextTick, started, stopped>>
SelectDone == /\ ~running /\ ~stopped /\ Done
              /\ stopped' = TRUE
              /\ Keep /\ UNCHANGED <<now, running, endsAt, pending, nextTick, started, calls, afterCancel>>

\* time passes when nothing is due at this instant; a loop that sees its context done must stop before time moves on
Advance == /\ now < Horizon
           /\ ~(running /\ now = endsAt)
           /\ ~(started /\ mode = "schedule" /\ ~stopped /\ now = nextTick)
           /\ ~(~running /\ ~stopped /\ (Done \/ (FirstReady /\ ~Done) \/ (TickReady /\ ~Done)))
           /\ now' = now + 1
           /\ Keep /\ UNCHANGED <<running, endsAt, pending, nextTick, started, calls, stopped, afterCancel>>

Next == Tick \/ EndCall \/ SelectFirst \/ SelectTick \/ SelectDone \/ Advance
Spec == Init /\ [][Next]_vars

\* ---- properties ---------------------------------------------------------------------------------------------
NoOverlap == \A i \in 1..(Len(calls) - 1) : calls[i + 1] >= calls[i] + dur
NothingIfDoneAtCall == cancelAt = 0 => calls = <<>>
OnceAfter == mode = "after" => (Len(calls) <= 1 /\ (calls # <<>> => calls[1] = first))
AfterRunsIffNotCancelledFirst == (mode = "after" /\ now = Horizon) => ((calls # <<>>) <=> (cancelAt > first))
OnGrid == mode = "schedule" => \A i \in 1..Len(calls) : calls[i] >= first /\ (i > 1 => calls[i] >= calls[1] + Period)
\* a call that starts after the cancellation: never in the strict reading; as coded only when a tick was waiting at the select,
\* which needs an f slower than the period (and then any number of times, as long as ticks keep waiting)
LateCallsOnlyWhenSlow == (afterCancel > 0) => (TickMayWinOverDone /\ mode = "schedule" /\ dur > Period)
\* while the context lives and f is short the calls are exactly one period apart
Regular == (mode = "schedule" /\ dur < Period) => \A i \in 1..(Len(calls) - 1) : calls[i + 1] = calls[i] + Period

NoCallAfterCancel == afterCancel = 0
Finished == now = Horizon
Scenario == [mode |-> mode, dur |-> dur, cancelAt |-> cancelAt, first |-> first, period |-> Period, horizon |-> Horizon,
             calls |-> calls, afterCancel |-> afterCancel]
Emit == Finished => PrintT(<<"BEHAVIOUR", ToJson(Scenario)>>)
=============================================================================
