-------------------------- MODULE ParalleliseTrace --------------------------
(***************************************************************************)
(* Trace validation for Parallelise: each recorded call (argument count,   *)
(* failing invocations, invocation count per argument, returned class,     *)
(* argument whose error was returned, result count, leaked goroutine) must *)
(* satisfy the terminal-state properties of Parallelise.tla.               *)
(***************************************************************************)
EXTENDS Naturals, Sequences, FiniteSets, TLC, Json

Trace == ndJsonDeserialize("trace.ndjson")
VARIABLES l
Ev == Trace[l]
ToSet(s) == {s[i] : i \in 1..Len(s)}

TraceInit == l = 1
Call == /\ l <= Len(Trace) /\ Ev.op = "Parallelise"
        /\ ~Ev.leaked                                                   \* NoBlockedGoroutine
        /\ Len(Ev.invoked) = Ev.n /\ \A i \in 1..Ev.n : Ev.invoked[i] = 1   \* OncePerArgument
        /\ IF Ev.fails = <<>>
           THEN Ev.ret = "ok" /\ Ev.nres = Ev.n                          \* ResultsAreAll
           ELSE Ev.ret = "error" /\ Ev.errArg \in ToSet(Ev.fails)        \* ErrorIsSomeInvocations
        /\ l' = l + 1
TraceSpec == TraceInit /\ [][Call]_l
TraceAccepted == LET n == TLCGet("stats").diameter - 1 IN PrintT(<<"TRACE_MATCHED", n>>) /\ n = Len(Trace)
=============================================================================
