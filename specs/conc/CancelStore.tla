---------------------------- MODULE CancelStore ----------------------------
(***************************************************************************)
(* C12 - CancelFunctionStore (cancel_functions.go) as coded: a slice of    *)
(* cancel functions guarded by a RW mutex; Register appends under the      *)
(* write lock, Cancel iterates under the read lock, Len reads under the    *)
(* read lock.  Every step that takes or releases the mutex is one action.  *)
(* Guarded = FALSE models a Cancel that reads the slice without the lock   *)
(* (sensitivity check: TLC must then find a registered-before-Cancel       *)
(* function that is not invoked... it cannot for a plain snapshot, so the  *)
(* unguarded variant snapshots the slice *before* its begin is announced). *)
(***************************************************************************)
EXTENDS Naturals, Sequences, FiniteSets, TLC

CONSTANTS Registrants, Cancellers

VARIABLES funcs,       \* the slice: sequence of registrant ids
          writer,      \* holder of the write lock or "none"
          readers,     \* set of holders of the read lock
          rpc,         \* registrant pc: "idle" | "locked" | "done"
          cpc,         \* canceller pc: "idle" | "rlocked" | "done"
          invokedBy,   \* canceller -> set of functions it invoked
          regDoneAtBegin \* canceller -> set of registrations that had returned when it began

vars == <<funcs, writer, readers, rpc, cpc, invokedBy, regDoneAtBegin>>

Init == /\ funcs = <<>> /\ writer = "none" /\ readers = {}
        /\ rpc = [r \in Registrants |-> "idle"] /\ cpc = [c \in Cancellers |-> "idle"]
        /\ invokedBy = [c \in Cancellers |-> {}] /\ regDoneAtBegin = [c \in Cancellers |-> {}]

RegLock(r) == /\ rpc[r] = "idle" /\ writer = "none" /\ readers = {}
              /\ writer' = r /\ rpc' = [rpc EXCEPT ![r] = "locked"]
              /\ UNCHANGED <<funcs, readers, cpc, invokedBy, regDoneAtBegin>>
RegAppendUnlock(r) == /\ rpc[r] = "locked"
                      /\ funcs' = Append(funcs, r) /\ writer' = "none" /\ rpc' = [rpc EXCEPT ![r] = "done"]
                      /\ UNCHANGED <<readers, cpc, invokedBy, regDoneAtBegin>>
\* Cancel begins (call instant), then takes the read lock
CancelBegin(c) == /\ cpc[c] = "idle" /\ cpc' = [cpc EXCEPT ![c] = "begun"]
                  /\ regDoneAtBegin' = [regDoneAtBegin EXCEPT ![c] = {r \in Registrants : rpc[r] = "done"}]
                  /\ UNCHANGED <<funcs, writer, readers, rpc, invokedBy>>
CancelRLock(c) == /\ cpc[c] = "begun" /\ writer = "none"
                  /\ readers' = readers \cup {c} /\ cpc' = [cpc EXCEPT ![c] = "rlocked"]
                  /\ UNCHANGED <<funcs, writer, rpc, invokedBy, regDoneAtBegin>>
CancelInvokeUnlock(c) == /\ cpc[c] = "rlocked"
                         /\ invokedBy' = [invokedBy EXCEPT ![c] = {funcs[i] : i \in 1..Len(funcs)}]
                         /\ readers' = readers \ {c} /\ cpc' = [cpc EXCEPT ![c] = "done"]
                         /\ UNCHANGED <<funcs, writer, rpc, regDoneAtBegin>>
Terminated == (\A r \in Registrants : rpc[r] = "done") /\ (\A c \in Cancellers : cpc[c] = "done") /\ UNCHANGED vars

Next == (\E r \in Registrants : RegLock(r) \/ RegAppendUnlock(r))
        \/ (\E c \in Cancellers : CancelBegin(c) \/ CancelRLock(c) \/ CancelInvokeUnlock(c)) \/ Terminated
Spec == Init /\ [][Next]_vars
FairSpec == Spec /\ WF_vars(Next)

MutexOK == (writer # "none" => readers = {})
RegisteredBeforeCancelIsInvoked == \A c \in Cancellers : cpc[c] = "done" => regDoneAtBegin[c] \subseteq invokedBy[c]
NoLostRegistration == (\A r \in Registrants : rpc[r] = "done") => {funcs[i] : i \in 1..Len(funcs)} = Registrants
AllFinish == <>((\A r \in Registrants : rpc[r] = "done") /\ (\A c \in Cancellers : cpc[c] = "done"))
=============================================================================
