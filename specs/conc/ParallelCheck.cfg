SPECIFICATION Spec
CONSTANTS Period = 4
  Horizon = 14
  ChecksStop = TRUE
INVARIANTS ResultRule EntryRule FailedCheckCancels CtxDoneAfterReturn WaitsForAction Emit
PROPERTIES NoCheckAfterStop Returns
CHECK_DEADLOCK FALSE
