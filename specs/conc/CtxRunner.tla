----------------------------- MODULE CtxRunner -----------------------------
(***************************************************************************)
(* C12 - RunActionWithTimeoutAndContext / ...AndCancelStore as coded:      *)
(*                                                                         *)
(*   if ctx done: return its error                                         *)
(*   timeoutCtx := WithTimeout(ctx); actionCtx := WithCancel(ctx)          *)
(*   go func() { channel <- action(actionCtx) }()          (capacity 1)    *)
(*   select {                                                              *)
(*   case err = <-channel: if err != nil { actionCancel(); <-actionCtx }   *)
(*        if timeoutCtx done: return its error; timeoutCancel(); return err*)
(*   case <-timeoutCtx.Done(): actionCancel(); timeoutCancel();            *)
(*        <-actionCtx.Done(); <-channel; return error of timeoutCtx }      *)
(*   (AndContext: deferred store.Cancel() cancels both on every exit)      *)
(*                                                                         *)
(* Contexts are booleans with parent/child propagation.  The action is a   *)
(* parameter: outcome nil / error, and whether it watches its context.     *)
(***************************************************************************)
EXTENDS Naturals, Sequences, TLC, Json

CONSTANTS DeferredStoreCancel,  \* TRUE for RunActionWithTimeoutAndContext (deferred store.Cancel())
          PromptRunner,
          TimeoutCancelInStore  \* TRUE: as coded - the cancel functions of BOTH derived contexts are registered in the caller's store

VARIABLES outcome,      \* "nil" | "error": what the action returns when it finishes on its own
          watches,      \* the action returns as soon as its context is done ...
          quiet,        \* ... with nil instead of the context's error (it stops without complaining)
          storeCancelled, \* somebody else called Cancel() on the caller's store while the runner was waiting (...AndCancelStore only)
          parentDone,   \* the caller's context is cancelled
          timerFired,   \* the timeout elapsed
          timeoutCancelled, actionCancelled,   \* explicit cancel calls
          tErr,         \* error of the timeout context: fixed by whatever ended it first ("none" while live)
          rpc,          \* "check" | "select" | "gotresult" | "timedout" | "drain" | "ret"
          apc,          \* "notstarted" | "working" | "send" | "done"
          aresult,      \* "nil" | "error" | "ctxerr"
          resultCh,
          got,          \* result received by the runner
          ret,          \* "none" | "nil" | "error" | "ctxerr" | "timeout" | "cancelled"
          finishedBeforeDeadline,
          hist

vars == <<outcome, watches, quiet, storeCancelled, parentDone, timerFired, timeoutCancelled, actionCancelled, tErr, rpc, apc, aresult, resultCh, got, ret,
          finishedBeforeDeadline, hist>>

TimeoutCtxDone == parentDone \/ timerFired \/ timeoutCancelled
ActionCtxDone == parentDone \/ actionCancelled



Init == /\ outcome \in {"nil", "error"} /\ watches \in BOOLEAN /\ quiet \in BOOLEAN /\ (quiet => watches) /\ storeCancelled = FALSE
        /\ parentDone \in BOOLEAN     \* the context may already be done at the call
        /\ timerFired = FALSE /\ timeoutCancelled = FALSE /\ actionCancelled = FALSE
        /\ tErr = (IF parentDone THEN "cancelled" ELSE "none")
        /\ rpc = "check" /\ apc = "notstarted" /\ aresult = "nil" /\ resultCh = <<>> /\ got = "none" /\ ret = "none"
        /\ finishedBeforeDeadline = FALSE /\ hist = <<>>

Log(a) == hist' = Append(hist, a)
Keep(vs) == UNCHANGED vs

ParentCancels == /\ ~parentDone /\ rpc # "ret" /\ parentDone' = TRUE /\ Log("ParentCancels")
                 /\ PromptRunner => ~((rpc = "select" /\ resultCh # <<>>) \/ rpc = "gotresult")
                 /\ tErr' = (IF tErr = "none" THEN "cancelled" ELSE tErr)
                 /\ UNCHANGED <<outcome, watches, quiet, storeCancelled, timerFired, timeoutCancelled, actionCancelled, rpc, apc, aresult, resultCh, got, ret, finishedBeforeDeadline>>

TimerFires == /\ ~timerFired /\ rpc \in {"select"} /\ ~TimeoutCtxDone
              /\ PromptRunner => resultCh = <<>>
              /\ timerFired' = TRUE /\ Log("TimerFires")
              /\ tErr' = (IF tErr = "none" THEN "timeout" ELSE tErr)
                 /\ UNCHANGED <<outcome, watches, quiet, storeCancelled, parentDone, timeoutCancelled, actionCancelled, rpc, apc, aresult, resultCh, got, ret, finishedBeforeDeadline>>

\* another goroutine cancels the caller's store while the runner waits: every function registered in it is invoked
StoreCancels == /\ ~DeferredStoreCancel /\ ~storeCancelled /\ rpc = "select" /\ ~TimeoutCtxDone /\ ~ActionCtxDone
                /\ (PromptRunner => resultCh = <<>>)
                /\ storeCancelled' = TRUE /\ actionCancelled' = TRUE
                /\ timeoutCancelled' = (timeoutCancelled \/ TimeoutCancelInStore)
                /\ tErr' = (IF TimeoutCancelInStore /\ tErr = "none" THEN "cancelled" ELSE tErr)
                /\ Log("StoreCancels")
                /\ UNCHANGED <<outcome, watches, quiet, parentDone, timerFired, rpc, apc, aresult, resultCh, got, ret, finishedBeforeDeadline>>

RunnerChecks == /\ rpc = "check"
                /\ IF parentDone THEN rpc' = "ret" /\ ret' = "cancelled" /\ apc' = apc
                   ELSE rpc' = "select" /\ ret' = ret /\ apc' = "working"
                /\ Log("RunnerChecks")
                /\ UNCHANGED <<tErr, outcome, watches, quiet, storeCancelled, parentDone, timerFired, timeoutCancelled, actionCancelled, aresult, resultCh, got, finishedBeforeDeadline>>

ActionMayMove == PromptRunner => ~(rpc = "select" /\ TimeoutCtxDone)

ActionFinishes == /\ apc = "working" /\ ActionMayMove /\ apc' = "send" /\ aresult' = outcome /\ Log("ActionFinishes")
                  /\ UNCHANGED <<tErr, outcome, watches, quiet, storeCancelled, parentDone, timerFired, timeoutCancelled, actionCancelled, rpc, resultCh, got, ret, finishedBeforeDeadline>>

ActionSeesCtx == /\ apc = "working" /\ ActionMayMove /\ watches /\ ActionCtxDone
                 /\ apc' = "send" /\ aresult' = (IF quiet THEN "nil" ELSE "ctxerr") /\ Log("ActionSeesCtx")
                 /\ UNCHANGED <<tErr, outcome, watches, quiet, storeCancelled, parentDone, timerFired, timeoutCancelled, actionCancelled, rpc, resultCh, got, ret, finishedBeforeDeadline>>

ActionSends == /\ ActionMayMove /\ apc = "send" /\ resultCh = <<>> /\ resultCh' = <<aresult>> /\ apc' = "done"
               /\ finishedBeforeDeadline' = ~TimeoutCtxDone
               /\ Log("ActionSends")
               /\ UNCHANGED <<tErr, outcome, watches, quiet, storeCancelled, parentDone, timerFired, timeoutCancelled, actionCancelled, rpc, aresult, got, ret>>

RunnerGetsResult == /\ rpc = "select" /\ resultCh # <<>>
                    /\ got' = resultCh[1] /\ resultCh' = <<>> /\ rpc' = "gotresult"
                    /\ actionCancelled' = (actionCancelled \/ resultCh[1] # "nil")   \* err != nil: actionCancel(); <-Done
                    /\ Log("RunnerGetsResult")
                    /\ UNCHANGED <<tErr, outcome, watches, quiet, storeCancelled, parentDone, timerFired, timeoutCancelled, apc, aresult, ret, finishedBeforeDeadline>>

\* after the result: err2 := error of timeoutCtx; if any return it, else timeoutCancel(); return err
RunnerReturnsResult == /\ rpc = "gotresult"
                       /\ IF tErr # "none"
                          THEN ret' = (IF tErr = "timeout" THEN "timeout" ELSE "ctxerr") /\ timeoutCancelled' = timeoutCancelled /\ tErr' = tErr
                          ELSE ret' = got /\ timeoutCancelled' = TRUE /\ tErr' = "cancelled"
                       /\ rpc' = "ret"
                       /\ actionCancelled' = (actionCancelled \/ DeferredStoreCancel)
                       /\ Log("RunnerReturnsResult")
                       /\ UNCHANGED <<outcome, watches, quiet, storeCancelled, parentDone, timerFired, apc, aresult, resultCh, got, finishedBeforeDeadline>>

RunnerTimesOut == /\ rpc = "select" /\ TimeoutCtxDone
                  /\ rpc' = "drain" /\ actionCancelled' = TRUE /\ timeoutCancelled' = TRUE /\ tErr' = tErr
                  /\ Log("RunnerTimesOut")
                  /\ UNCHANGED <<outcome, watches, quiet, storeCancelled, parentDone, timerFired, apc, aresult, resultCh, got, ret, finishedBeforeDeadline>>

RunnerDrains == /\ rpc = "drain" /\ resultCh # <<>>
                /\ resultCh' = <<>> /\ rpc' = "ret"
                /\ ret' = (IF tErr = "timeout" THEN "timeout" ELSE "ctxerr")
                /\ Log("RunnerDrains")
                /\ UNCHANGED <<tErr, outcome, watches, quiet, storeCancelled, parentDone, timerFired, timeoutCancelled, actionCancelled, apc, aresult, got, finishedBeforeDeadline>>

Terminated == rpc = "ret" /\ apc \in {"done", "notstarted"} /\ UNCHANGED vars

Next == ParentCancels \/ TimerFires \/ StoreCancels \/ RunnerChecks \/ ActionFinishes \/ ActionSeesCtx \/ ActionSends
        \/ RunnerGetsResult \/ RunnerReturnsResult \/ RunnerTimesOut \/ RunnerDrains \/ Terminated

Spec == Init /\ [][Next]_vars
FairSpec == Spec /\ WF_vars(RunnerChecks) /\ WF_vars(ActionFinishes) /\ WF_vars(ActionSeesCtx) /\ WF_vars(ActionSends)
                 /\ WF_vars(RunnerGetsResult) /\ WF_vars(RunnerReturnsResult) /\ WF_vars(RunnerTimesOut) /\ WF_vars(RunnerDrains)

RunnerReturns == <>(rpc = "ret")
PreCancelledRunsNothing == (rpc = "ret" /\ ret = "cancelled") => apc = "notstarted"
OwnResultBeforeDeadline == (rpc = "ret" /\ finishedBeforeDeadline /\ ~parentDone /\ ~timerFired) => ret = got
TimeoutCtxErrConsistent == (tErr = "none") = ~TimeoutCtxDone
TimeoutKindAfterDeadline == (rpc = "ret" /\ ret = "timeout") => timerFired
\* a run whose store was cancelled while the action was still at work does not report success
SentAfterStoreCancel == \E i, j \in 1..Len(hist) : i < j /\ hist[i] = "StoreCancels" /\ hist[j] = "ActionSends"
StoreCancelReported == (rpc = "ret" /\ apc = "done" /\ SentAfterStoreCancel) => ret \notin {"nil", "none"}
NoBlockedGoroutine == rpc = "ret" => apc \in {"done", "notstarted"}
\* the context handed to the action is cancelled on every exit path of the ...AndContext runner, and on
\* the error / timeout paths of the ...AndCancelStore runner
ActionContextTriggered ==
    (rpc = "ret" /\ apc = "done") => (IF DeferredStoreCancel THEN ActionCtxDone ELSE (got # "nil" => ActionCtxDone))

Scenario == [outcome |-> outcome, watches |-> watches, quiet |-> quiet, storeCancelled |-> storeCancelled, deferred |-> DeferredStoreCancel, steps |-> hist, ret |-> ret,
             parentDone |-> parentDone, timerFired |-> timerFired, actionCtxDone |-> ActionCtxDone, ran |-> (apc = "done")]
Emit == (rpc = "ret" /\ apc \in {"done", "notstarted"}) => PrintT(<<"BEHAVIOUR", ToJson(Scenario)>>)
=============================================================================
