---------------------------- MODULE Parallelise ----------------------------
(***************************************************************************)
(* C12 - Parallelise (parallelisation.go) as coded: one goroutine per      *)
(* argument runs the action and sends [item, err] on a channel whose       *)
(* capacity is ChanCap (= the number of arguments in the code); the caller *)
(* receives up to N results and returns at the first error.                *)
(***************************************************************************)
EXTENDS Naturals, Sequences, FiniteSets, TLC, Json

CONSTANTS N,        \* number of arguments
          ChanCap   \* capacity of the result channel (N as coded)

Args == 1..N

VARIABLES fails,    \* set of arguments whose invocation returns an error (chosen initially)
          wpc,      \* worker pc: "run" | "send" | "done"
          invoked,  \* number of invocations per argument
          chan,     \* sequence of [arg, err]
          cpc,      \* caller: "recv" | "ret"
          received, \* results received so far
          ret       \* "none" | "ok" | "error"

vars == <<fails, wpc, invoked, chan, cpc, received, ret>>

Init == /\ fails \in SUBSET Args
        /\ wpc = [a \in Args |-> "run"] /\ invoked = [a \in Args |-> 0]
        /\ chan = <<>> /\ cpc = "recv" /\ received = <<>> /\ ret = "none"

Run(a) == /\ wpc[a] = "run" /\ wpc' = [wpc EXCEPT ![a] = "send"] /\ invoked' = [invoked EXCEPT ![a] = @ + 1]
          /\ UNCHANGED <<fails, chan, cpc, received, ret>>
Send(a) == /\ wpc[a] = "send" /\ Len(chan) < ChanCap
           /\ chan' = Append(chan, [arg |-> a, err |-> (a \in fails)]) /\ wpc' = [wpc EXCEPT ![a] = "done"]
           /\ UNCHANGED <<fails, invoked, cpc, received, ret>>
Recv == /\ cpc = "recv" /\ Len(received) < N /\ chan # <<>>
        /\ chan' = Tail(chan) /\ received' = Append(received, Head(chan))
        /\ IF Head(chan).err THEN cpc' = "ret" /\ ret' = "error"
           ELSE IF Len(received) + 1 = N THEN cpc' = "ret" /\ ret' = "ok"
           ELSE cpc' = "recv" /\ ret' = ret
        /\ UNCHANGED <<fails, wpc, invoked>>
RetEmpty == /\ cpc = "recv" /\ N = 0 /\ cpc' = "ret" /\ ret' = "ok" /\ UNCHANGED <<fails, wpc, invoked, chan, received>>
Terminated == cpc = "ret" /\ (\A a \in Args : wpc[a] = "done") /\ UNCHANGED vars

Next == (\E a \in Args : Run(a) \/ Send(a)) \/ Recv \/ RetEmpty \/ Terminated
Spec == Init /\ [][Next]_vars
FairSpec == Spec /\ WF_vars(Next) /\ \A a \in Args : WF_vars(Run(a)) /\ WF_vars(Send(a))

OncePerArgument == \A a \in Args : invoked[a] <= 1
AllInvokedAtSuccess == ret = "ok" => \A a \in Args : invoked[a] = 1
ResultsAreAll == ret = "ok" => {received[i].arg : i \in 1..Len(received)} = Args /\ Len(received) = N
ErrorIsSomeInvocations == ret = "error" => \E i \in 1..Len(received) : received[i].err /\ received[i].arg \in fails
OkIffNoFailure == (ret = "ok" => fails = {}) /\ (ret = "error" => fails # {})
NoBlockedGoroutine == <>[](\A a \in Args : wpc[a] = "done")
CallerReturns == <>(cpc = "ret")

IsInitial == cpc = "recv" /\ received = <<>> /\ chan = <<>> /\ \A a \in Args : wpc[a] = "run"
Emit == IsInitial => PrintT(<<"BEHAVIOUR", ToJson([n |-> N, fails |-> fails])>>)
=============================================================================
