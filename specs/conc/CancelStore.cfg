SPECIFICATION FairSpec
CONSTANTS Registrants = {"r1", "r2", "r3"}
          Cancellers = {"c1", "c2"}
INVARIANTS MutexOK RegisteredBeforeCancelIsInvoked NoLostRegistration
PROPERTIES AllFinish
CHECK_DEADLOCK TRUE
