---------------------------- MODULE ParallelCheck ----------------------------
(***************************************************************************)
(* Growth beyond the listed properties: RunActionWithParallelCheck as      *)
(* coded (parallelisation.go):                                             *)
(*                                                                         *)
(*   if ctx done: return its error                                         *)
(*   cctx := WithCancel(ctx); store := {cancel}; defer store.Cancel()      *)
(*   go func() { for { select {                                            *)
(*        case <-cctx.Done(): store.Cancel(); return                       *)
(*        default: if !check(cctx) { store.Cancel(); return }              *)
(*                 SleepWithContext(cctx, period) } } }()                  *)
(*   err := action(cctx)                                                   *)
(*   if cctx done: return its error; return err                            *)
(*                                                                         *)
(* Discrete time.  The scenario fixes the instants (all distinct by        *)
(* construction: checks at multiples of Period, the parent's cancellation  *)
(* at 1 mod 4, the action's own end at 2 mod 4): which check fails (if     *)
(* any), when the caller's context is cancelled (if ever, possibly before  *)
(* the call), how long the action takes, whether it watches its context,   *)
(* and what it returns on its own.                                         *)
(*                                                                         *)
(* Properties: ResultRule (the context error iff the action's context is   *)
(* done when the action returns, else the action's own result),            *)
(* FailedCheckCancels, NoCheckAfterStop (no check starts once the context  *)
(* is done or the function has returned), CtxDoneAfterReturn, Returns.     *)
(***************************************************************************)
EXTENDS Integers, Sequences, FiniteSets, TLC, Json

CONSTANTS Period, Horizon,
          ChecksStop     \* TRUE: as coded.  FALSE (sensitivity): the checker does not look at the context before checking again

VARIABLES failAt,        \* 0 = no check fails; k = the k-th check returns false
          parentAt,      \* 0 = never; -1 = cancelled before the call; t = instant
          actionLen,     \* instant at which the action ends on its own
          watches, outcome,                 \* action: returns as soon as its context is done; "nil" | "error"
          now, cctxDone, parentDone, checks, checkTimes, apc, rpc, ret, retAt, sawCancel, hist

scenario == <<failAt, parentAt, actionLen, watches, outcome>>
vars == <<failAt, parentAt, actionLen, watches, outcome, now, cctxDone, parentDone, checks, checkTimes, apc, rpc, ret, retAt, sawCancel, hist>>

Init == /\ failAt \in 0..3
        /\ parentAt \in {-1, 0, 1, 5, 9}
        /\ actionLen \in {2, 6, 10}
        /\ watches \in BOOLEAN /\ outcome \in {"nil", "error"}
        /\ now = 0 /\ cctxDone = (parentAt = -1) /\ parentDone = (parentAt = -1)
        /\ checks = 0 /\ checkTimes = <<>> /\ apc = "notstarted" /\ rpc = "entry" /\ ret = "none" /\ retAt = 0 /\ sawCancel = FALSE /\ hist = <<>>

Keep == UNCHANGED scenario

\* the entry check
Enter == /\ rpc = "entry"
         /\ IF parentDone THEN rpc' = "returned" /\ ret' = "cancelled" /\ apc' = apc
            ELSE rpc' = "running" /\ ret' = ret /\ apc' = "working"
         /\ Keep /\ UNCHANGED <<now, cctxDone, parentDone, checks, checkTimes, sawCancel, retAt>> /\ hist' = Append(hist, "Enter")

\* the k-th check is due at (k-1) * Period; the checker looks at the context first
CheckDue == rpc # "entry" /\ ret # "cancelled-at-entry" /\ now = checks * Period /\ apc # "notstarted"
Check == /\ CheckDue /\ (ChecksStop => (~cctxDone /\ rpc = "running")) /\ checks < 4
         /\ checks' = checks + 1 /\ checkTimes' = Append(checkTimes, now)
         /\ cctxDone' = (cctxDone \/ (checks' = failAt))
         /\ Keep /\ UNCHANGED <<now, parentDone, apc, rpc, ret, retAt, sawCancel>> /\ hist' = Append(hist, "Check")

ParentCancels == /\ parentAt > 0 /\ now = parentAt /\ ~parentDone
                 /\ parentDone' = TRUE /\ cctxDone' = TRUE
                 /\ Keep /\ UNCHANGED <<now, checks, checkTimes, apc, rpc, ret, retAt, sawCancel>> /\ hist' = Append(hist, "ParentCancels")

\* the action ends: on its own, or because it watches its context
ActionEnds == /\ apc = "working" /\ (now = actionLen \/ (watches /\ cctxDone))
              /\ apc' = "done" /\ sawCancel' = cctxDone
              \* the runner returns at once
              /\ rpc' = "returned" /\ retAt' = now
              /\ ret' = (IF cctxDone THEN "cancelled" ELSE outcome)
              /\ cctxDone' = TRUE                       \* deferred store.Cancel()
              /\ Keep /\ UNCHANGED <<now, parentDone, checks, checkTimes>> /\ hist' = Append(hist, "ActionEnds")

\* time passes when nothing is due at this instant
NothingDue == /\ ~(rpc = "entry")
              /\ ~(parentAt > 0 /\ now = parentAt /\ ~parentDone)
              /\ ~(apc = "working" /\ (now = actionLen \/ (watches /\ cctxDone)))
              /\ ~(CheckDue /\ (ChecksStop => (~cctxDone /\ rpc = "running")) /\ checks < 4 /\ now = checks * Period)
Tick == /\ NothingDue /\ now < Horizon /\ now' = now + 1
        /\ Keep /\ UNCHANGED <<cctxDone, parentDone, checks, checkTimes, apc, rpc, ret, retAt, sawCancel, hist>>

Next == Enter \/ Check \/ ParentCancels \/ ActionEnds \/ Tick
Spec == Init /\ [][Next]_vars /\ WF_vars(Next)

\* ---- properties ---------------------------------------------------------------------------------------------
Returned == rpc = "returned"
StopInstantReached == cctxDone \/ Returned
ResultRule == Returned /\ parentAt # -1 => ret = (IF sawCancel THEN "cancelled" ELSE outcome)
EntryRule == parentAt = -1 => (Returned => (ret = "cancelled" /\ checks = 0 /\ apc = "notstarted"))
FailedCheckCancels == (failAt > 0 /\ checks >= failAt) => cctxDone
CtxDoneAfterReturn == Returned => cctxDone
\* no check starts once the context is done or the function has returned (action property)
NoCheckAfterStop == [][(checks' > checks) => (~cctxDone /\ rpc = "running")]_vars
Returns == <>Returned
\* an action that does not watch its context is waited for
WaitsForAction == (Returned /\ parentAt # -1 /\ ~watches) => retAt = actionLen

Done == Returned /\ now = Horizon
Scenario == [failAt |-> failAt, parentAt |-> parentAt, actionLen |-> actionLen, watches |-> watches, outcome |-> outcome,
             ret |-> ret, retAt |-> retAt, checks |-> checks, checkTimes |-> checkTimes, period |-> Period]
Emit == Done => PrintT(<<"BEHAVIOUR", ToJson(Scenario)>>)
=============================================================================
