SPECIFICATION Spec
CONSTANTS DeferredStoreCancel = FALSE
          TimeoutCancelInStore = FALSE
          PromptRunner = TRUE
INVARIANTS StoreCancelReported
CHECK_DEADLOCK FALSE
