SPECIFICATION Spec
CONSTANTS Period = 4
  Horizon = 14
  TickMayWinOverDone = TRUE
INVARIANTS NoOverlap NothingIfDoneAtCall OnceAfter AfterRunsIffNotCancelledFirst OnGrid LateCallsOnlyWhenSlow Regular
CHECK_DEADLOCK FALSE
