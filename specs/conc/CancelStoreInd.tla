--------------------------- MODULE CancelStoreInd ---------------------------
(***************************************************************************)
(* Unbounded-length safety of CancelStore.tla by an inductive invariant,   *)
(* discharged by Apalache:                                                 *)
(*   apalache-mc check --cinit=ConstInit --init=Init    --inv=IndInv --length=0   (initiation)   *)
(*   apalache-mc check --cinit=ConstInit --init=IndInit --inv=IndInv --length=1   (consecution)  *)
(*   apalache-mc check --cinit=ConstInit --init=IndInit --inv=Safety --length=0   (IndInv => the properties) *)
(* The slice is kept as a sequence as in CancelStore.tla; IndInit draws it *)
(* with Apalache's bounded generator.                                      *)
(***************************************************************************)
EXTENDS Naturals, Sequences, FiniteSets, Apalache

CONSTANTS
    \* @type: Set(Str);
    Registrants,
    \* @type: Set(Str);
    Cancellers

VARIABLES
    \* @type: Seq(Str);
    funcs,
    \* @type: Str;
    writer,
    \* @type: Set(Str);
    readers,
    \* @type: Str -> Str;
    rpc,
    \* @type: Str -> Str;
    cpc,
    \* @type: Str -> Set(Str);
    invokedBy,
    \* @type: Str -> Set(Str);
    regDoneAtBegin

vars == <<funcs, writer, readers, rpc, cpc, invokedBy, regDoneAtBegin>>

ConstInit == Registrants = {"r1", "r2", "r3", "r4"} /\ Cancellers = {"c1", "c2", "c3"}

Init == /\ funcs = <<>> /\ writer = "none" /\ readers = {}
        /\ rpc = [r \in Registrants |-> "idle"] /\ cpc = [c \in Cancellers |-> "idle"]
        /\ invokedBy = [c \in Cancellers |-> {}] /\ regDoneAtBegin = [c \in Cancellers |-> {}]

RegLock(r) == /\ rpc[r] = "idle" /\ writer = "none" /\ readers = {}
              /\ writer' = r /\ rpc' = [rpc EXCEPT ![r] = "locked"]
              /\ UNCHANGED <<funcs, readers, cpc, invokedBy, regDoneAtBegin>>
RegAppendUnlock(r) == /\ rpc[r] = "locked"
                      /\ funcs' = Append(funcs, r) /\ writer' = "none" /\ rpc' = [rpc EXCEPT ![r] = "done"]
                      /\ UNCHANGED <<readers, cpc, invokedBy, regDoneAtBegin>>
CancelBegin(c) == /\ cpc[c] = "idle" /\ cpc' = [cpc EXCEPT ![c] = "begun"]
                  /\ regDoneAtBegin' = [regDoneAtBegin EXCEPT ![c] = {r \in Registrants : rpc[r] = "done"}]
                  /\ UNCHANGED <<funcs, writer, readers, rpc, invokedBy>>
CancelRLock(c) == /\ cpc[c] = "begun" /\ writer = "none"
                  /\ readers' = readers \cup {c} /\ cpc' = [cpc EXCEPT ![c] = "rlocked"]
                  /\ UNCHANGED <<funcs, writer, rpc, invokedBy, regDoneAtBegin>>
CancelInvokeUnlock(c) == /\ cpc[c] = "rlocked"
                         /\ invokedBy' = [invokedBy EXCEPT ![c] = {funcs[i] : i \in DOMAIN funcs}]
                         /\ readers' = readers \ {c} /\ cpc' = [cpc EXCEPT ![c] = "done"]
                         /\ UNCHANGED <<funcs, writer, rpc, regDoneAtBegin>>

Next == (\E r \in Registrants : RegLock(r) \/ RegAppendUnlock(r))
        \/ (\E c \in Cancellers : CancelBegin(c) \/ CancelRLock(c) \/ CancelInvokeUnlock(c))

Done == {r \in Registrants : rpc[r] = "done"}
InSlice == {funcs[i] : i \in DOMAIN funcs}

TypeOK == /\ writer \in Registrants \cup {"none"}
          /\ readers \subseteq Cancellers
          /\ rpc \in [Registrants -> {"idle", "locked", "done"}]
          /\ cpc \in [Cancellers -> {"idle", "begun", "rlocked", "done"}]
          /\ invokedBy \in [Cancellers -> SUBSET Registrants]
          /\ regDoneAtBegin \in [Cancellers -> SUBSET Registrants]
          /\ Len(funcs) <= Cardinality(Registrants)

IndInv == /\ TypeOK
          /\ \A r \in Registrants : (writer = r) <=> (rpc[r] = "locked")
          /\ readers = {c \in Cancellers : cpc[c] = "rlocked"}
          /\ (writer # "none" => readers = {})
          /\ InSlice = Done
          /\ Len(funcs) = Cardinality(Done)            \* every registration exactly once in the slice
          /\ \A c \in Cancellers : regDoneAtBegin[c] \subseteq Done
          /\ \A c \in Cancellers : cpc[c] = "done" => regDoneAtBegin[c] \subseteq invokedBy[c]

\* any state satisfying the invariant (the slice drawn from the bounded generator)
IndInit == /\ funcs = Gen(4)
           /\ writer \in Registrants \cup {"none"}
           /\ readers \in SUBSET Cancellers
           /\ rpc \in [Registrants -> {"idle", "locked", "done"}]
           /\ cpc \in [Cancellers -> {"idle", "begun", "rlocked", "done"}]
           /\ invokedBy \in [Cancellers -> SUBSET Registrants]
           /\ regDoneAtBegin \in [Cancellers -> SUBSET Registrants]
           /\ IndInv

\* sensitivity: without "every registration exactly once in the slice" the invariant is NOT inductive (a slice with repeats
\* outgrows its bound): the consecution check of IndInvWeak from IndInitWeak must fail
IndInvWeak == /\ TypeOK
              /\ \A r \in Registrants : (writer = r) <=> (rpc[r] = "locked")
              /\ readers = {c \in Cancellers : cpc[c] = "rlocked"}
              /\ (writer # "none" => readers = {})
              /\ InSlice = Done
              /\ \A c \in Cancellers : regDoneAtBegin[c] \subseteq Done
              /\ \A c \in Cancellers : cpc[c] = "done" => regDoneAtBegin[c] \subseteq invokedBy[c]
IndInitWeak == /\ funcs = Gen(4)
               /\ writer \in Registrants \cup {"none"}
               /\ readers \in SUBSET Cancellers
               /\ rpc \in [Registrants -> {"idle", "locked", "done"}]
               /\ cpc \in [Cancellers -> {"idle", "begun", "rlocked", "done"}]
               /\ invokedBy \in [Cancellers -> SUBSET Registrants]
               /\ regDoneAtBegin \in [Cancellers -> SUBSET Registrants]
               /\ IndInvWeak

\* the properties of CancelStore.tla
MutexOK == (writer # "none" => readers = {})
RegisteredBeforeCancelIsInvoked == \A c \in Cancellers : cpc[c] = "done" => regDoneAtBegin[c] \subseteq invokedBy[c]
NoLostRegistration == (\A r \in Registrants : rpc[r] = "done") => InSlice = Registrants
Safety == MutexOK /\ RegisteredBeforeCancelIsInvoked /\ NoLostRegistration
=============================================================================
