SPECIFICATION FairSpec
CONSTANTS PromptRunner = TRUE
          StopCap = 0
          Listens = {"always", "late", "never"}
INVARIANTS OwnResultBeforeDeadline TimeoutAfterActionEnded ResultIsMeaningful NoBlockedGoroutine
PROPERTIES RunnerReturns
CHECK_DEADLOCK TRUE
