------------------------- MODULE ParallelCheckTrace -------------------------
(***************************************************************************)
(* Judging replays of ParallelCheck.tla's scenarios on the real            *)
(* RunActionWithParallelCheck (growth beyond the listed properties: every  *)
(* signature is an observation).  A run whose scripted instants were not   *)
(* realised is judged on the timing-independent rules only.                *)
(***************************************************************************)
EXTENDS Integers, Sequences, FiniteSets, TLC, Json
Trace == ndJsonDeserialize("trace.ndjson")
VARIABLES l
Ev == Trace[l]
Sc == Ev.scenario
Verdict(v) == PrintT(<<"VERDICT", ToJson([id |-> l, viol |-> v])>>)
UnitMs == 15

Run ==
    /\ l <= Len(Trace) /\ Ev.op = "ParallelCheck"
    /\ Verdict(
         (IF ~Ev.returned THEN {"observation:parallel-check-never-returns"} ELSE
            \* timing-independent
            (IF Ev.lateChecks > 0 THEN {"observation:check-begun-after-the-return"} ELSE {})
            \cup (IF Ev.checksOnDone > 0 THEN {"observation:check-begun-with-a-done-context"} ELSE {})
            \cup (IF ~Ev.actionCtxDoneAfterReturn THEN {"observation:action-context-left-live"} ELSE {})
            \cup (IF Ev.actionRan /\ ~Ev.actionEndedBeforeReturn THEN {"observation:returned-before-the-action-ended"} ELSE {})
            \cup (IF Sc.parentAt = -1 /\ (Ev.ret # "cancelled" \/ Ev.actionRan \/ Ev.checks # 0) THEN {"observation:ran-with-a-cancelled-context"} ELSE {})
            \cup (IF Sc.failAt > 0 /\ Ev.checks >= Sc.failAt /\ Ev.ret # "cancelled" THEN {"observation:failed-check-did-not-cancel"} ELSE {})
            \* with the scripted instants realised: the model's result, number of checks and return instant
            \cup (IF Ev.timingOk /\ Sc.parentAt # -1
                  THEN (IF Ev.ret # Sc.ret THEN {"observation:result-differs-from-the-model"} ELSE {})
                       \cup (IF Ev.checks # Sc.checks THEN {"observation:number-of-checks-differs-from-the-model"} ELSE {})
                       \cup (IF Ev.retAtMs >= 0 /\ (Ev.retAtMs < Sc.retAt * UnitMs - 8 \/ Ev.retAtMs > Sc.retAt * UnitMs + 8)
                             THEN {"observation:return-instant-differs-from-the-model"} ELSE {})
                  ELSE {})))
    /\ l' = l + 1
TraceSpec == l = 1 /\ [][Run]_l
TraceAccepted == LET n == TLCGet("stats").diameter - 1 IN PrintT(<<"TRACE_MATCHED", n>>) /\ n = Len(Trace)
=============================================================================
