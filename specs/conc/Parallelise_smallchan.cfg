SPECIFICATION FairSpec
CONSTANTS N = 3
          ChanCap = 1
INVARIANTS OncePerArgument AllInvokedAtSuccess ResultsAreAll ErrorIsSomeInvocations OkIffNoFailure
PROPERTIES NoBlockedGoroutine CallerReturns
CHECK_DEADLOCK TRUE
