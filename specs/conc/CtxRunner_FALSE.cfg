SPECIFICATION FairSpec
CONSTANTS DeferredStoreCancel = FALSE
          TimeoutCancelInStore = TRUE
          PromptRunner = TRUE
INVARIANTS StoreCancelReported TimeoutCtxErrConsistent PreCancelledRunsNothing OwnResultBeforeDeadline TimeoutKindAfterDeadline NoBlockedGoroutine ActionContextTriggered
PROPERTIES RunnerReturns
CHECK_DEADLOCK TRUE
