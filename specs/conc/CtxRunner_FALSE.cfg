SPECIFICATION FairSpec
CONSTANTS DeferredStoreCancel = FALSE
          PromptRunner = TRUE
INVARIANTS TimeoutCtxErrConsistent PreCancelledRunsNothing OwnResultBeforeDeadline TimeoutKindAfterDeadline NoBlockedGoroutine ActionContextTriggered
PROPERTIES RunnerReturns
CHECK_DEADLOCK TRUE
