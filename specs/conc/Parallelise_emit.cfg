SPECIFICATION Spec
CONSTANTS N = 4
          ChanCap = 4
INVARIANTS Emit
CHECK_DEADLOCK FALSE
