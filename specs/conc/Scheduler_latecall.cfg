SPECIFICATION Spec
CONSTANTS Period = 4
  Horizon = 14
  TickMayWinOverDone = TRUE
INVARIANTS NoCallAfterCancel
CHECK_DEADLOCK FALSE
