--------------------------- MODULE SchedulerTrace ---------------------------
(***************************************************************************)
(* Judging replays of Scheduler.tla's scenarios on the real SafeSchedule / *)
(* SafeScheduleAfter (growth beyond the listed properties: every signature *)
(* is an observation).  units = start instants of the real calls rounded   *)
(* to model instants.  The calls that start before the cancellation must   *)
(* be the model's (strict reading); calls begun with a done context are    *)
(* the named deviation of the code as it is: allowed only for SafeSchedule *)
(* with an f slower than the period.                                       *)
(***************************************************************************)
EXTENDS Integers, Sequences, FiniteSets, TLC, Json
Trace == ndJsonDeserialize("trace.ndjson")
VARIABLES l
Ev == Trace[l]
Sc == Ev.scenario
Verdict(v) == PrintT(<<"VERDICT", ToJson([id |-> l, viol |-> v])>>)
Before(s, t) == SelectSeq(s, LAMBDA x : x < t)
\* the horizon of the model ends the comparison
Within(s) == SelectSeq(s, LAMBDA x : x <= Sc.horizon)

Run ==
    /\ l <= Len(Trace) /\ Ev.op = "Schedule"
    /\ Verdict(
         (IF Ev.overlaps > 0 THEN {"observation:scheduled-calls-overlap"} ELSE {})
         \cup (IF Ev.afterStop > 0 /\ ~(Sc.mode = "schedule" /\ Sc.dur > Sc.period) THEN {"observation:calls-go-on-long-after-the-cancellation"} ELSE {})
         \cup (IF Sc.cancelAt = 0 /\ Len(Ev.units) > 0 THEN {"observation:scheduled-with-a-done-context"} ELSE {})
         \cup (IF Ev.lateCalls > 0 /\ ~(Sc.mode = "schedule" /\ Sc.dur > Sc.period) THEN {"observation:call-begun-with-a-done-context"} ELSE {})
         \cup (IF Ev.lateCalls > 0 /\ Sc.mode = "schedule" /\ Sc.dur > Sc.period THEN {"observation:named-deviation-tick-wins-over-done"} ELSE {})
         \cup (IF Sc.mode = "after" /\ Len(Ev.units) > 1 THEN {"observation:one-shot-called-more-than-once"} ELSE {})
         \cup (IF Ev.timingOk /\ Before(Within(Ev.units), Sc.cancelAt) # Before(Sc.calls, Sc.cancelAt)
               THEN {"observation:calls-differ-from-the-model"} ELSE {}))
    /\ l' = l + 1
TraceSpec == l = 1 /\ [][Run]_l
TraceAccepted == LET n == TLCGet("stats").diameter - 1 IN PrintT(<<"TRACE_MATCHED", n>>) /\ n = Len(Trace)
=============================================================================
