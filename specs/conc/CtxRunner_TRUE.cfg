SPECIFICATION FairSpec
CONSTANTS DeferredStoreCancel = TRUE
          TimeoutCancelInStore = TRUE
          PromptRunner = TRUE
INVARIANTS StoreCancelReported TimeoutCtxErrConsistent PreCancelledRunsNothing OwnResultBeforeDeadline TimeoutKindAfterDeadline NoBlockedGoroutine ActionContextTriggered
PROPERTIES RunnerReturns
CHECK_DEADLOCK TRUE
