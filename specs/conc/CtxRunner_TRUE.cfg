SPECIFICATION FairSpec
CONSTANTS DeferredStoreCancel = TRUE
          PromptRunner = TRUE
INVARIANTS TimeoutCtxErrConsistent PreCancelledRunsNothing OwnResultBeforeDeadline TimeoutKindAfterDeadline NoBlockedGoroutine ActionContextTriggered
PROPERTIES RunnerReturns
CHECK_DEADLOCK TRUE
