--------------------------- MODULE TimeoutRunner ---------------------------
(***************************************************************************)
(* C12 - RunActionWithTimeout (parallelisation.go) as coded:               *)
(*                                                                         *)
(*   channel := make(chan error, 1); stop := make(chan bool, StopCap)      *)
(*   go func() { channel <- action(stop) }()                               *)
(*   select { case err = <-channel: completed                              *)
(*            case <-time.After(timeout): stop <- true; err = ErrTimeout } *)
(*   if !completed { <-channel }                                           *)
(*                                                                         *)
(* Processes: the runner, the action goroutine, the timer.  The action is  *)
(* a parameter: it works for a while and then returns its own result; it   *)
(* may listen to the stop channel from the start ("always"), only in a     *)
(* second phase ("late") or not at all ("never").  StopCap is the capacity *)
(* of the stop channel: 0 in the original code (a send blocks until the    *)
(* action receives), 1 after the repair.                                   *)
(***************************************************************************)
EXTENDS Naturals, Sequences, TLC, Json

CONSTANTS StopCap,      \* capacity of the stop channel
          PromptRunner, \* BOOLEAN: the runner goroutine is scheduled before the deadline once a result is available
                        \* (the real-time assumption behind "finishes before the deadline": a margin, not an instant)
          Listens       \* set of listening behaviours explored: subset of {"always", "late", "never"}

VARIABLES listen,       \* the action's listening behaviour (chosen initially)
          rpc,          \* runner:  "select" | "sendstop" | "drain" | "ret"
          apc,          \* action:  "phase1" | "phase2" | "send" | "done"
          timer,        \* the timeout has fired
          resultCh,     \* buffered result channel: <<>> or <<value>>
          stopBuf,      \* number of values sitting in the stop channel buffer
          aresult,      \* what the action returns: "own" | "stopped"
          ret,          \* what the runner returned: "none" | "own" | "stopped" | "timeout"
          sawStop,      \* the action received the stop signal
          finishedBeforeTimer,  \* ghost: the action put its result before the timer fired
          hist          \* sequence of action labels (behaviour emission)

vars == <<listen, rpc, apc, timer, resultCh, stopBuf, aresult, ret, sawStop, finishedBeforeTimer, hist>>

Init == /\ listen \in Listens
        /\ rpc = "select" /\ apc = "phase1" /\ timer = FALSE
        /\ resultCh = <<>> /\ stopBuf = 0 /\ aresult = "own" /\ ret = "none"
        /\ sawStop = FALSE /\ finishedBeforeTimer = FALSE /\ hist = <<>>

Log(a) == hist' = Append(hist, a)

\* prompt runner, other direction: once the deadline has passed the runner takes its timer branch before
\* the action makes another move
ActionMayMove == PromptRunner => ~(rpc = "select" /\ timer)

CanListen == (listen = "always") \/ (listen = "late" /\ apc = "phase2")

\* the timer fires (any time while the runner is still selecting)
TimerFires == /\ ~timer /\ timer' = TRUE /\ Log("TimerFires")
              /\ PromptRunner => ~(rpc = "select" /\ resultCh # <<>>)
              /\ UNCHANGED <<listen, rpc, apc, resultCh, stopBuf, aresult, ret, sawStop, finishedBeforeTimer>>

\* action: phase 1 -> phase 2 (keeps working)
ActionProgress == /\ ActionMayMove /\ apc = "phase1" /\ apc' = "phase2" /\ Log("ActionProgress")
                  /\ UNCHANGED <<listen, rpc, timer, resultCh, stopBuf, aresult, ret, sawStop, finishedBeforeTimer>>

\* action finishes its work on its own
ActionFinishes == /\ ActionMayMove /\ apc \in {"phase1", "phase2"} /\ apc' = "send" /\ aresult' = "own" /\ Log("ActionFinishes")
                  /\ UNCHANGED <<listen, rpc, timer, resultCh, stopBuf, ret, sawStop, finishedBeforeTimer>>

\* action takes a buffered stop signal
ActionTakesStop == /\ ActionMayMove /\ apc \in {"phase1", "phase2"} /\ CanListen /\ stopBuf > 0
                   /\ stopBuf' = stopBuf - 1 /\ sawStop' = TRUE /\ apc' = "send" /\ aresult' = "stopped"
                   /\ Log("ActionTakesStop")
                   /\ UNCHANGED <<listen, rpc, timer, resultCh, ret, finishedBeforeTimer>>

\* action delivers its result (channel of capacity 1: never blocks, single sender)
ActionSends == /\ ActionMayMove /\ apc = "send" /\ resultCh = <<>>
               /\ resultCh' = <<aresult>> /\ apc' = "done"
               /\ finishedBeforeTimer' = ~timer
               /\ Log("ActionSends")
               /\ UNCHANGED <<listen, rpc, timer, stopBuf, aresult, ret, sawStop>>

\* runner: select takes the result
RunnerGetsResult == /\ rpc = "select" /\ resultCh # <<>>
                    /\ ret' = resultCh[1] /\ resultCh' = <<>> /\ rpc' = "ret"
                    /\ Log("RunnerGetsResult")
                    /\ UNCHANGED <<listen, apc, timer, stopBuf, aresult, sawStop, finishedBeforeTimer>>

\* runner: select takes the timer branch
RunnerTimesOut == /\ rpc = "select" /\ timer
                  /\ rpc' = "sendstop" /\ Log("RunnerTimesOut")
                  /\ UNCHANGED <<listen, apc, timer, resultCh, stopBuf, aresult, ret, sawStop, finishedBeforeTimer>>

\* runner: stop <- true, buffered
RunnerSendsStopBuffered == /\ rpc = "sendstop" /\ stopBuf < StopCap
                           /\ stopBuf' = stopBuf + 1 /\ rpc' = "drain" /\ Log("RunnerSendsStop")
                           /\ UNCHANGED <<listen, apc, timer, resultCh, aresult, ret, sawStop, finishedBeforeTimer>>

\* runner: stop <- true, rendezvous with a listening action (unbuffered channel)
RunnerSendsStopRendezvous == /\ rpc = "sendstop" /\ StopCap = 0
                             /\ apc \in {"phase1", "phase2"} /\ CanListen
                             /\ rpc' = "drain" /\ sawStop' = TRUE /\ apc' = "send" /\ aresult' = "stopped"
                             /\ Log("RunnerSendsStop")
                             /\ UNCHANGED <<listen, timer, resultCh, stopBuf, ret, finishedBeforeTimer>>

\* runner: <-channel after a timeout
RunnerDrains == /\ rpc = "drain" /\ resultCh # <<>>
                /\ resultCh' = <<>> /\ ret' = "timeout" /\ rpc' = "ret" /\ Log("RunnerDrains")
                /\ UNCHANGED <<listen, apc, timer, stopBuf, aresult, sawStop, finishedBeforeTimer>>

Terminated == rpc = "ret" /\ apc = "done" /\ UNCHANGED vars

Next == TimerFires \/ ActionProgress \/ ActionFinishes \/ ActionTakesStop \/ ActionSends
        \/ RunnerGetsResult \/ RunnerTimesOut \/ RunnerSendsStopBuffered \/ RunnerSendsStopRendezvous
        \/ RunnerDrains \/ Terminated

Spec == Init /\ [][Next]_vars
FairSpec == Spec /\ WF_vars(Next)
             /\ WF_vars(ActionFinishes) /\ WF_vars(ActionSends) /\ WF_vars(RunnerGetsResult) /\ WF_vars(RunnerDrains)
             /\ WF_vars(RunnerSendsStopBuffered) /\ WF_vars(RunnerTimesOut) /\ WF_vars(TimerFires)

(***************************************************************************)
(* Properties                                                              *)
(***************************************************************************)
\* the runner always returns (TLC's deadlock check covers "never blocks forever": the only state without
\* a successor other than Terminated's stuttering would be a blocked runner or action)
RunnerReturns == <>(rpc = "ret")

\* the action's own result when it finished before the deadline
OwnResultBeforeDeadline == (rpc = "ret" /\ finishedBeforeTimer) => ret = "own"

\* a timeout is only reported once the action goroutine has ended, and after the signal was sent
TimeoutAfterActionEnded == (ret = "timeout") => (apc = "done")
ResultIsMeaningful == rpc = "ret" => ret \in {"own", "timeout"}

\* no goroutine stays blocked once the runner has returned
NoBlockedGoroutine == rpc = "ret" => apc = "done"

Scenario == [listen |-> listen, stopCap |-> StopCap, steps |-> hist, ret |-> ret, sawStop |-> sawStop]
Emit == (rpc = "ret" /\ apc = "done") => PrintT(<<"BEHAVIOUR", ToJson(Scenario)>>)
=============================================================================
