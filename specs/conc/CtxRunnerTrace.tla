--------------------------- MODULE CtxRunnerTrace ---------------------------
(***************************************************************************)
(* Trace validation for RunActionWithTimeoutAndContext / ...AndCancelStore *)
(* (vh c12 sweep-ctx): each recorded run of the real runner - what the     *)
(* action returns on its own, whether it watches its context, the measured *)
(* order of "action finished" and "deadline" (finish-first / timer-first / *)
(* either when within the scheduling margin), and the class of the value   *)
(* returned - must be the outcome of SOME behaviour of CtxRunner.tla       *)
(* consistent with the measured order.  The steps inside a run are not     *)
(* logged: TLC infers them (silent steps), acceptance is by the high-water *)
(* mark of l.  A run that never returned matches nothing.                  *)
(***************************************************************************)
EXTENDS CtxRunner

Trace == ndJsonDeserialize("trace.ndjson")

VARIABLES l, phase
tvars == <<vars, l, phase>>
Ev == Trace[l]

Fresh(o, w) == /\ outcome' = o /\ watches' = w /\ quiet' = FALSE /\ storeCancelled' = FALSE /\ parentDone' = FALSE
               /\ timerFired' = FALSE /\ timeoutCancelled' = FALSE /\ actionCancelled' = FALSE /\ tErr' = "none"
               /\ rpc' = "check" /\ apc' = "notstarted" /\ aresult' = "nil" /\ resultCh' = <<>> /\ got' = "none" /\ ret' = "none"
               /\ finishedBeforeDeadline' = FALSE /\ hist' = <<>>

TraceInit == /\ Init /\ outcome = "nil" /\ watches = FALSE /\ quiet = FALSE /\ parentDone = FALSE /\ l = 1 /\ phase = "idle" /\ TLCSet(1, 1)

StartRun == /\ phase = "idle" /\ l <= Len(Trace) /\ Ev.op = "CtxRun" /\ Ev.outcome \in {"nil", "error"}
            /\ Fresh(Ev.outcome, Ev.watches) /\ phase' = "running" /\ UNCHANGED l

\* measured order, with the margin read as "the other party had time to react"
OrderOK == CASE Ev.order = "finish-first" -> ((timerFired' /\ ~timerFired) => rpc = "ret")
             [] Ev.order = "timer-first"  -> ((apc' = "send" /\ apc # "send" /\ aresult' = outcome) => timerFired)
             [] OTHER -> TRUE

SilentStep == /\ phase = "running"
              /\ (TimerFires \/ RunnerChecks \/ ActionFinishes \/ ActionSeesCtx \/ ActionSends
                  \/ RunnerGetsResult \/ RunnerReturnsResult \/ RunnerTimesOut \/ RunnerDrains)
              /\ OrderOK
              /\ UNCHANGED <<l, phase>>

EndRun == /\ phase = "running" /\ rpc = "ret" /\ apc = "done"
          /\ ret = Ev.ret /\ Ev.ended
          /\ l' = l + 1 /\ phase' = "idle" /\ UNCHANGED vars

TraceNext == StartRun \/ SilentStep \/ EndRun
TraceSpec == TraceInit /\ [][TraceNext]_tvars

HighWater == IF l > TLCGet(1) THEN TLCSet(1, l) ELSE TRUE
TraceAccepted == /\ PrintT(<<"TRACE_MATCHED", TLCGet(1) - 1>>)
                 /\ TLCGet(1) = Len(Trace) + 1
TraceView == <<outcome, watches, quiet, storeCancelled, timerFired, timeoutCancelled, actionCancelled, tErr, rpc, apc, aresult, resultCh, got, ret, l, phase>>
=============================================================================
