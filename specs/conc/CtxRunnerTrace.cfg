SPECIFICATION TraceSpec
CONSTANTS PromptRunner = FALSE
          DeferredStoreCancel = TRUE
          TimeoutCancelInStore = TRUE
CONSTRAINT HighWater
POSTCONDITION TraceAccepted
VIEW TraceView
CHECK_DEADLOCK FALSE
