SPECIFICATION Spec
CONSTANTS DeferredStoreCancel = FALSE
          PromptRunner = TRUE
INVARIANTS Emit
CHECK_DEADLOCK FALSE
