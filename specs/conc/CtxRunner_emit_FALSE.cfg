SPECIFICATION Spec
CONSTANTS DeferredStoreCancel = FALSE
          TimeoutCancelInStore = TRUE
          PromptRunner = TRUE
INVARIANTS Emit
CHECK_DEADLOCK FALSE
