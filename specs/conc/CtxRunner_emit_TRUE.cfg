SPECIFICATION Spec
CONSTANTS DeferredStoreCancel = TRUE
          PromptRunner = TRUE
INVARIANTS Emit
CHECK_DEADLOCK FALSE
