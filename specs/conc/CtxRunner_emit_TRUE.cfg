SPECIFICATION Spec
CONSTANTS DeferredStoreCancel = TRUE
          TimeoutCancelInStore = TRUE
          PromptRunner = TRUE
INVARIANTS Emit
CHECK_DEADLOCK FALSE
