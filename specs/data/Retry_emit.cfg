SPECIFICATION Spec
CONSTANTS MaxAttempts = 4
          GuardAttempts = TRUE
INVARIANTS Emit
CHECK_DEADLOCK FALSE
