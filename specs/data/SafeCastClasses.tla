--------------------------- MODULE SafeCastClasses ---------------------------
(***************************************************************************)
(* The input class space of C10, enumerated by TLC: a class is a source    *)
(* kind, an anchor (a range boundary of some target type or a signed power *)
(* of two), an integer offset, and for floating sources a fraction and a   *)
(* neighbour step (next-down / exact / next-up).  The harness materialises *)
(* each class into a concrete Go value of the source type, converts it to  *)
(* all ten targets with the real functions and logs the result for         *)
(* SafeCastTrace.                                                          *)
(***************************************************************************)
EXTENDS SafeCast, Integers, Json

CONSTANTS MaxOffset, IntSources, FloatSources

VARIABLE class

Anchors == {[kind |-> "max", of |-> t, e |-> 0] : t \in Targets}
           \cup {[kind |-> "min", of |-> t, e |-> 0] : t \in Targets}
           \cup {[kind |-> k, of |-> "", e |-> e] : k \in {"pow2", "negpow2"}, e \in 0..64}
           \cup {[kind |-> k, of |-> "", e |-> 0] : k \in {"inf", "neginf", "maxfloat", "negmaxfloat"}}

IntClasses == {[src |-> s, anchor |-> a, d |-> d, frac |-> 0, nbr |-> 0] :
                 s \in IntSources, a \in {x \in Anchors : x.kind \in {"max", "min", "pow2", "negpow2"}}, d \in -MaxOffset..MaxOffset}
FloatClasses == {[src |-> s, anchor |-> a, d |-> d, frac |-> f, nbr |-> n] :
                 s \in FloatSources, a \in Anchors, d \in -MaxOffset..MaxOffset, f \in {-1, 0, 1}, n \in {-1, 0, 1}}

Init == class \in IntClasses \cup FloatClasses
Next == UNCHANGED class
Spec == Init /\ [][Next]_class
Emit == PrintT(<<"BEHAVIOUR", ToJson(class)>>)
=============================================================================
