SPECIFICATION Spec
CONSTANTS MaxLen = 6
          MaxOps = 3
INVARIANTS ContainsIsMembership
CHECK_DEADLOCK FALSE
