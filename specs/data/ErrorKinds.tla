----------------------------- MODULE ErrorKinds -----------------------------
(***************************************************************************)
(* C11 - error kinds survive wrapping and serialisation.                   *)
(*                                                                         *)
(* Text-level transcription of utils/commonerrors (TLC evaluates Len,      *)
(* SubSeq and \o on strings):                                              *)
(*   - the constructors New / Errorf / WrapError / WrapIfNotCommonError    *)
(*     (errors.go): which sentinel or error becomes the %w target, and the *)
(*     text "<target>: <msg>[: <cause text>]";                             *)
(*   - the line parser, the 30-way first-match kind recogniser with its    *)
(*     "kind text contains the candidate" rule, Serialise and Deserialise  *)
(*     (serialisation.go).                                                 *)
(* An error is a record [kind, text, unwrap, utext]:                       *)
(*   kind   what Any/errors.Is recognises ("plain": not a common error,    *)
(*          "rawcancel"/"rawdeadline": context.Canceled/DeadlineExceeded)  *)
(*   text   Error()                                                        *)
(*   unwrap what Unwrap() returns: "none" | "sentinel" | "error"           *)
(*   utext  the text of the unwrapped error                                *)
(* The statement is KindOf (documented rule) and the round-trip oracles.   *)
(***************************************************************************)
EXTENDS Naturals, Sequences, TLC, Json

CONSTANTS MaxDepth,      \* wrapping layers above the base error
          BaseKinds,     \* kinds used for the innermost error
          WrapKinds,     \* kinds used by wrapping layers
          Msgs,          \* messages
          NotFoundMapsTo \* kind returned by the recogniser entry "contains(not found)" ("exists" as coded)

(***************************************************************************)
(* Kinds and their texts, in the order of the recogniser.                  *)
(***************************************************************************)
KindTable == <<
  <<"notimplemented", "not implemented">>, <<"noextension", "missing extension">>, <<"nologger", "missing logger">>,
  <<"nologgersource", "missing logger source">>, <<"nologsource", "missing log source">>, <<"undefined", "undefined">>,
  <<"invaliddestination", "invalid destination">>, <<"timeout", "timeout">>, <<"locked", "locked">>, <<"stalelock", "stale lock">>,
  <<"exists", "already exists">>, <<"notfound", "not found">>, <<"unsupported", "unsupported">>, <<"unavailable", "unavailable">>,
  <<"wronguser", "wrong user">>, <<"unauthorised", "unauthorised">>, <<"unknown", "unknown">>, <<"invalid", "invalid">>,
  <<"conflict", "conflict">>, <<"marshalling", "unserialisable">>, <<"cancelled", "cancelled">>, <<"empty", "empty">>,
  <<"unexpected", "unexpected">>, <<"toolarge", "too large">>, <<"forbidden", "forbidden">>, <<"condition", "failed condition">>,
  <<"eof", "end of file">>, <<"malicious", "suspected malicious intent">>, <<"warning", "warning">>, <<"outofrange", "out of range">> >>

AllKinds == {KindTable[i][1] : i \in 1..Len(KindTable)}
Text(k) == LET i == CHOOSE j \in 1..Len(KindTable) : KindTable[j][1] = k IN KindTable[i][2]
CtxKinds == {"cancelled", "timeout"}

\* the recogniser as coded: exact matches first, then "kind text contains candidate", first match wins.
\* <<mode, kind whose text is compared, kind returned>>
Chain == << <<"exact", "invalid", "invalid">>, <<"exact", "notfound", "notfound">> >>
         \o [i \in 1..11 |-> <<"contains", KindTable[i][1], KindTable[i][1]>>]
         \o << <<"contains", "notfound", NotFoundMapsTo>> >>
         \o [i \in 1..18 |-> <<"contains", KindTable[i + 12][1], KindTable[i + 12][1]>>]

(***************************************************************************)
(* String helpers.                                                         *)
(***************************************************************************)
Contains(s, t) == Len(t) = 0 \/ \E i \in 1..(Len(s) - Len(t) + 1) : SubSeq(s, i, i + Len(t) - 1) = t

RECURSIVE TrimLeft(_)
TrimLeft(s) == IF Len(s) > 0 /\ SubSeq(s, 1, 1) = " " THEN TrimLeft(SubSeq(s, 2, Len(s))) ELSE s
RECURSIVE TrimRight(_)
TrimRight(s) == IF Len(s) > 0 /\ SubSeq(s, Len(s), Len(s)) = " " THEN TrimRight(SubSeq(s, 1, Len(s) - 1)) ELSE s
Trim(s) == TrimRight(TrimLeft(s))

\* strings.Split(s, ":")
RECURSIVE SplitFrom(_, _, _)
SplitFrom(s, start, i) ==
    IF i > Len(s) THEN <<SubSeq(s, start, Len(s))>>
    ELSE IF SubSeq(s, i, i) = ":" THEN <<SubSeq(s, start, i - 1)>> \o SplitFrom(s, i + 1, i + 1)
    ELSE SplitFrom(s, start, i + 1)
Split(s) == SplitFrom(s, 1, 1)

RECURSIVE JoinWith(_, _)
JoinWith(seq, sep) == IF Len(seq) = 0 THEN "" ELSE IF Len(seq) = 1 THEN seq[1] ELSE seq[1] \o sep \o JoinWith(Tail(seq), sep)

(***************************************************************************)
(* Parser / recogniser as coded.                                           *)
(***************************************************************************)
RECURSIVE FirstMatch(_, _)
FirstMatch(str, i) ==
    IF i > Len(Chain) THEN "none"
    ELSE LET e == Chain[i] IN
         IF (e[1] = "exact" /\ str = Text(e[2])) \/ (e[1] = "contains" /\ Contains(Text(e[2]), str))
         THEN e[3] ELSE FirstMatch(str, i + 1)

\* deserialiseCommonError: kind for a candidate string ("nil" for the empty string, "none" when unrecognised)
Recognise(str) == LET s == Trim(str) IN IF s = "" THEN "nil" ELSE FirstMatch(s, 1)

\* processErrorStrLine: [kind, head (text of the first element), reason]
ParseLine(text) ==
    LET elems == Split(Trim(text))
        k == Recognise(elems[1])
        rs == [i \in 1..(Len(elems) - 1) |-> Trim(elems[i + 1])]
    IN [kind |-> IF k \in {"nil", "none"} THEN "plain" ELSE k, head |-> Trim(elems[1]), reason |-> JoinWith(rs, ": ")]

(***************************************************************************)
(* Constructors as coded.                                                  *)
(***************************************************************************)
Err(k, t, u, ut) == [kind |-> k, text |-> t, unwrap |-> u, utext |-> ut]
Plain(msg) == Err("plain", msg, "none", "")
RawCancel == Err("rawcancel", "context canceled", "none", "")
RawDeadline == Err("rawdeadline", "context deadline exceeded", "none", "")

IsCommon(e) == e.kind \in AllKinds
\* ConvertContextError
Converted(e) == IF e.kind = "rawcancel" THEN Err("cancelled", Text("cancelled"), "none", "")
                ELSE IF e.kind = "rawdeadline" THEN Err("timeout", Text("timeout"), "none", "")
                ELSE e
IsSentinelText(e) == e.kind \in AllKinds /\ e.text = Text(e.kind)

\* Errorf(target, msg) with target a sentinel kind
NewK(k, msg) == Err(k, Text(k) \o ": " \o msg, "sentinel", Text(k))
\* Errorf(target, msg) with target a whole error
NewE(t, msg) == LET c == Converted(t) IN
                Err(c.kind, c.text \o ": " \o msg, IF IsSentinelText(c) THEN "sentinel" ELSE "error", c.text)

WrapError(k, orig, msg) ==
    LET o == Converted(orig) IN
    IF o.kind \in CtxKinds
    THEN NewE(o, msg \o ": " \o orig.text)           \* the context cause wins and becomes the target
    ELSE NewK(k, msg \o ": " \o orig.text)

WrapIfNotCommon(k, orig, msg) ==
    IF k \in CtxKinds THEN WrapError(k, orig, msg)
    ELSE IF IsCommon(orig) THEN NewE(orig, msg)
    ELSE WrapError(k, orig, msg)

\* the documented rule for the kind of the result
KindOfNew(k) == k
KindOfWrap(k, orig) == IF Converted(orig).kind \in CtxKinds THEN Converted(orig).kind ELSE k
KindOfWrapIfNotCommon(k, orig) ==
    IF Converted(orig).kind \in CtxKinds THEN Converted(orig).kind
    ELSE IF k \in CtxKinds THEN k
    ELSE IF IsCommon(orig) THEN orig.kind ELSE k

(***************************************************************************)
(* Serialise / Deserialise as coded (single error, single line).           *)
(***************************************************************************)
\* marshallingError.ConvertToError().Error()
TextOf(typeText, reason) == IF reason = "" THEN typeText ELSE typeText \o ": " \o reason

Serialise(e) ==
    LET p == ParseLine(e.text)
        typeText == IF e.unwrap = "none" THEN (IF p.kind = "plain" THEN p.head ELSE Text(p.kind)) ELSE e.utext
    IN TextOf(typeText, p.reason)

Deserialise(text) ==
    LET p == ParseLine(text) IN
    [kind |-> p.kind, reason |-> p.reason,
     text |-> TextOf(IF p.kind = "plain" THEN p.head ELSE Text(p.kind), p.reason)]

Reason(text) == ParseLine(text).reason

(***************************************************************************)
(* State machine: build a chain layer by layer, then serialise.            *)
(***************************************************************************)
VARIABLES err,      \* current error
          expect,   \* kind it must have by the documented rule
          layers,   \* how it was built (for the harness)
          done

vars == <<err, expect, layers, done>>

Bases == {NewK(k, m) : k \in BaseKinds, m \in Msgs} \cup {Plain("plain failure"), RawCancel, RawDeadline}

Init == /\ err \in Bases
        /\ expect = err.kind
        /\ layers = <<[ctor |-> (IF err.kind \in {"plain", "rawcancel", "rawdeadline"} THEN err.kind ELSE "New"),
                       kind |-> err.kind, msg |-> (IF err.unwrap = "none" THEN err.text ELSE Reason(err.text))]>>
        /\ done = FALSE

Wrap(ctor, k, m) ==
    /\ ~done /\ Len(layers) <= MaxDepth
    /\ err' = (CASE ctor = "WrapError" -> WrapError(k, err, m)
                 [] ctor = "WrapIfNotCommonError" -> WrapIfNotCommon(k, err, m)
                 [] ctor = "NewOnError" -> NewE(err, m))            \* New(err, msg): an error given as the kind
    /\ expect' = (CASE ctor = "WrapError" -> KindOfWrap(k, err)
                    [] ctor = "WrapIfNotCommonError" -> KindOfWrapIfNotCommon(k, err)
                    [] ctor = "NewOnError" -> Converted(err).kind)
    /\ layers' = Append(layers, [ctor |-> ctor, kind |-> k, msg |-> m])
    /\ UNCHANGED done

Finish == ~done /\ done' = TRUE /\ UNCHANGED <<err, expect, layers>>

Next == \/ \E ctor \in {"WrapError", "WrapIfNotCommonError"}, k \in WrapKinds, m \in Msgs : Wrap(ctor, k, m)
        \/ \E m \in Msgs : err.kind \notin {"plain"} /\ Wrap("NewOnError", "unknown", m)
        \/ Finish

Spec == Init /\ [][Next]_vars

(***************************************************************************)
(* Properties.                                                             *)
(***************************************************************************)
\* wrapping gives the documented kind (transcription vs. rule)
IsKind == err.kind = expect
\* a context cause is never reclassified
CtxNeverReclassified == (Len(layers) > 1 /\ layers[1].kind \in {"rawcancel", "rawdeadline", "cancelled", "timeout"}) => err.kind \in CtxKinds
\* crossing a process boundary keeps the kind (common errors)
RoundTripKind == (done /\ IsCommon(err)) => Deserialise(Serialise(err)).kind = err.kind
\* ... and the reason, for the errors of the statement: a single error built with a single-line message
StripColonSpace(s) == JoinWith([i \in 1..Len(Split(s)) |-> Trim(Split(s)[i])], ":")
RoundTripReason == (done /\ IsCommon(err) /\ Len(layers) = 1) =>
                       StripColonSpace(Deserialise(Serialise(err)).reason) = StripColonSpace(Reason(err.text))
\* every kind text is recognised as itself (order sensitivity of the first-match chain)
ChainRecognisesEveryKind == \A k \in AllKinds : Recognise(Text(k)) = k

Scenario == [layers |-> layers, kind |-> err.kind, text |-> err.text, ser |-> Serialise(err),
             rtKind |-> Deserialise(Serialise(err)).kind, rtReason |-> Deserialise(Serialise(err)).reason]
Emit == done => PrintT(<<"BEHAVIOUR", ToJson(Scenario)>>)
=============================================================================
