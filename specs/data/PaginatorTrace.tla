--------------------------- MODULE PaginatorTrace ---------------------------
(***************************************************************************)
(* Trace validation for C19: call results recorded from the real           *)
(* paginators (vh c19 record) are checked, event by event, against the     *)
(* actions of Paginator.tla.  Several traces are concatenated; a "Config"  *)
(* line starts a new collection.                                           *)
(***************************************************************************)
EXTENDS Paginator

Trace == ndJsonDeserialize("trace.ndjson")

VARIABLES l,         \* next trace line
          unchecked  \* the rest of this collection's trace is outside the statement (free step / stalled host)

tvars == <<vars, l, unchecked>>

Ev == Trace[l]

LoadConfig(e) ==
    /\ pages = e.pages /\ links = e.links /\ open = e.open /\ failAt = e.failAt
    /\ built = "no" /\ cur = 1 /\ idx = 0
    /\ stopped = FALSE /\ dry = FALSE /\ late = FALSE /\ graceOver = FALSE /\ yielded = 0
    /\ last = NoRes /\ agree = TRUE /\ hist = <<>> /\ stopAfter = 0 /\ haltFetch = 0

TraceInit == /\ l = 2 /\ unchecked = FALSE
             /\ Trace[1].op = "Config"
             /\ LoadConfig(Trace[1])

Consume == l <= Len(Trace) /\ l' = l + 1

\* a new collection begins
TraceReset ==
    /\ Consume /\ Ev.op = "Config"
    /\ unchecked' = FALSE
    /\ pages' = Ev.pages /\ links' = Ev.links /\ open' = Ev.open /\ failAt' = Ev.failAt
    /\ built' = "no" /\ cur' = 1 /\ idx' = 0
    /\ stopped' = FALSE /\ dry' = FALSE /\ late' = FALSE /\ graceOver' = FALSE /\ yielded' = 0
    /\ last' = NoRes /\ agree' = TRUE
    /\ UNCHANGED <<hist, stopAfter, haltFetch>>

Matches(e, r) == /\ r.op = e.op /\ r.b = e.b
                 /\ (e.op = "GetNext" /\ e.b) => r.item = e.item

\* one recorded call = one action of the specification with the recorded result
TraceCall ==
    /\ Consume /\ Ev.op # "Config" /\ ~unchecked /\ ~Ev.slow
    /\ Call
    /\ (last'.op \in {"Stop", "Close", "Cancel"}) = (Ev.op \in {"Stop", "Close", "Cancel"})
    /\ \/ /\ Matches(Ev, last') /\ unchecked' = FALSE
       \/ /\ last'.free /\ last'.op = Ev.op /\ ~Matches(Ev, last') /\ unchecked' = TRUE
    /\ UNCHANGED <<hist, stopAfter, haltFetch>>

\* outside the statement: only the ordering part of the property is still checked
TraceUnchecked ==
    /\ Consume /\ Ev.op # "Config" /\ (unchecked \/ Ev.slow)
    /\ unchecked' = TRUE
    /\ (Ev.op = "GetNext" /\ Ev.b) => (Ev.item = yielded + 1 /\ ~stopped)
    /\ yielded' = IF Ev.op = "GetNext" /\ Ev.b THEN yielded + 1 ELSE yielded
    /\ stopped' = (stopped \/ Ev.op \in {"Stop", "Close", "Cancel"})
    /\ UNCHANGED <<pages, links, open, failAt, built, cur, idx, dry, late, graceOver, last, agree, hist, stopAfter, haltFetch>>

TraceNext == TraceReset \/ TraceCall \/ TraceUnchecked

TraceSpec == TraceInit /\ [][TraceNext]_tvars

TraceAccepted ==
    LET n == TLCGet("stats").diameter - 1 IN
    /\ PrintT(<<"TRACE_MATCHED", n + 1>>)
    /\ n + 1 = Len(Trace)

TraceView == <<core, l, unchecked>>
=============================================================================
