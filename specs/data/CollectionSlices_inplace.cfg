SPECIFICATION Spec
CONSTANTS SliceLen = 3
          ValsLen = 2
          LowestIndexReading = FALSE
INVARIANTS CallerSliceKept
CHECK_DEADLOCK FALSE
