SPECIFICATION FairSpec
CONSTANTS MaxAttempts = 4
          GuardAttempts = FALSE
INVARIANTS AtMostConfigured AtLeastOnce NilIffSomeSuccess LastErrorOrCtxKind
PROPERTIES NoAttemptAfterSuccessOrFatal NoAttemptOnceDone Returns
CHECK_DEADLOCK TRUE
