--------------------------- MODULE CollectionTrace ---------------------------
(***************************************************************************)
(* Growth: judging what the real `collection` package answered on the      *)
(* scenarios of Collection.tla (histories of one Conditions object) and    *)
(* CollectionSlices.tla (slice helpers): every answer is recomputed here   *)
(* from CollectionOps; nothing the harness says about expectations is used.*)
(* The package is outside the listed properties: every signature is an     *)
(* observation (counted in the evidence, never an alarm).                  *)
(***************************************************************************)
EXTENDS CollectionOps, TLC, Json
Trace == ndJsonDeserialize("trace.ndjson")
VARIABLES l
Ev == Trace[l]
Verdict(v) == PrintT(<<"VERDICT", ToJson([id |-> l, viol |-> v])>>)

\* ---- histories of one Conditions object --------------------------------------------------------------------
RECURSIVE ListAt(_, _)
ListAt(h, i) == IF i = 1 THEN h[1].arg
                ELSE LET prev == ListAt(h, i - 1) IN
                     CASE h[i].op \in {"Add", "Concat"} -> prev \o h[i].arg
                       [] h[i].op = "ConcatSelf" -> prev \o prev
                       [] OTHER -> prev
RetAt(h, i) == IF h[i].op = "Negate" THEN NegateOf(ListAt(h, i)) ELSE ListAt(h, i)
StepVerdict(h, g, i) ==
    LET want == Observe(ListAt(h, i)) IN
    (IF g[i].after.list # want.list
       THEN (IF h[i].op = "Negate" THEN {"observation:negate-changed-the-object"} ELSE {"observation:conditions-object-holds-another-list"})
       ELSE {})
    \cup (IF g[i].ret # RetAt(h, i) THEN {"observation:conditions-call-returned-another-list"} ELSE {})
    \cup (IF g[i].after.list = want.list /\ g[i].after # want THEN {"observation:conditions-reduction-wrong"} ELSE {})
    \cup (IF g[i].after.list = <<>> /\ g[i].after.hasF THEN {"observation:empty-conditions-said-to-contain-false"} ELSE {})
CondVerdict == IF Len(Ev.got) # Len(Ev.hist) THEN {"observation:conditions-history-not-run"}
               ELSE UNION {StepVerdict(Ev.hist, Ev.got, i) : i \in 1..Len(Ev.hist)}

\* ---- slice helpers -----------------------------------------------------------------------------------------------
FindVerdict(strict, slice, vals, pos, found, tag) ==
    LET got == [idx |-> pos, found |-> found]
        sound == IF found THEN pos \in 1..Len(slice) /\ \E j \in 1..Len(vals) : Same(strict, slice[pos], vals[j])
                 ELSE pos = 0 /\ \A j \in 1..Len(vals) : Hits(strict, slice, vals[j]) = {}
    IN IF got = FindAsCoded(strict, slice, vals) THEN {}
       ELSE IF sound THEN {"observation:" \o tag \o "-answers-another-occurrence"} ELSE {"observation:" \o tag \o "-wrong"}
SliceVerdict ==
    FindVerdict(Ev.strict, Ev.slice, Ev.vals, Ev.findPos, Ev.found, "find-in-slice")
    \cup (IF Len(Ev.vals) = 1 THEN FindVerdict(TRUE, Ev.slice, Ev.vals, Ev.find1Pos, Ev.find1Found, "find") ELSE {})
    \cup (IF Ev.removed # RemoveOf(Ev.slice, Ev.vals) THEN {"observation:remove-wrong-elements"} ELSE {})
    \cup (IF Ev.sliceAfter # CallerSliceAfterRemove(Ev.slice, Ev.vals) THEN {"observation:callers-slice-not-as-modelled"} ELSE {})
    \cup (IF Ev.sliceAfter # Ev.slice THEN {"observation:remove-rewrote-the-callers-slice"} ELSE {})
    \cup (IF {Ev.unique[i] : i \in 1..Len(Ev.unique)} # UniqueOf(Ev.slice) \/ Len(Ev.unique) # Cardinality(UniqueOf(Ev.slice))
            THEN {"observation:unique-entries-wrong"} ELSE {})
    \cup (IF Ev.anyEmpty # AnyEmptyOf(Ev.strict, Ev.slice) \/ Ev.allNotEmpty # AllNotEmptyOf(Ev.strict, Ev.slice)
            THEN {"observation:empty-test-wrong"} ELSE {})

Run == /\ l <= Len(Trace)
       /\ Verdict(IF Ev.op = "Conditions" THEN CondVerdict ELSE SliceVerdict)
       /\ l' = l + 1
TraceSpec == l = 1 /\ [][Run]_l
TraceAccepted == LET n == TLCGet("stats").diameter - 1 IN PrintT(<<"TRACE_MATCHED", n>>) /\ n = Len(Trace)
=============================================================================
