------------------------------- MODULE Retry -------------------------------
(***************************************************************************)
(* C14 (first sentence) - RetryIf / RetryOnError (utils/retry) as coded on *)
(* top of retry-go's Do loop:                                              *)
(*                                                                         *)
(*   if ctx done: return its error                                         *)
(*   loop: err = fn(); if err == nil return nil                            *)
(*         if !retryIf(err) break                                          *)
(*         if n == attempts-1 break; n++                                   *)
(*         select { case <-After(delay): ; case <-ctx.Done(): return ctx } *)
(*   return last error                                                     *)
(*                                                                         *)
(* The operation follows a script of outcomes; the context may be          *)
(* cancelled from inside attempt CancelIn (0 = never) or before the call.  *)
(* GuardAttempts = TRUE is the repaired wrapper (no attempt is started and *)
(* no retry is granted once the context is done); FALSE is retry-go's bare *)
(* select, where a zero delay and a done context race.                     *)
(***************************************************************************)
EXTENDS Naturals, Sequences, TLC, Json

CONSTANTS MaxAttempts,     \* attempts configured: 1..MaxAttempts explored
          GuardAttempts

Outcomes == {"ok", "retriable", "fatal"}

VARIABLES attempts,   \* configured number of attempts
          enabled,    \* retry policy enabled
          script,     \* outcome of the k-th invocation
          cancelIn,   \* context cancelled from inside this invocation (0 never, attempts+1: before the call)
          preCancelled,
          n,          \* invocations made
          ctxDone,
          pc,         \* "start" | "attempt" | "decide" | "wait" | "ret"
          lastOutcome,
          ret         \* "none" | "nil" | "retriable" | "fatal" | "ctx"

vars == <<attempts, enabled, script, cancelIn, preCancelled, n, ctxDone, pc, lastOutcome, ret>>

Init == /\ attempts \in 1..MaxAttempts
        /\ enabled \in BOOLEAN
        /\ script \in [1..MaxAttempts -> Outcomes]
        /\ cancelIn \in 0..MaxAttempts
        /\ preCancelled \in BOOLEAN
        /\ n = 0 /\ ctxDone = preCancelled /\ pc = "start" /\ lastOutcome = "none" /\ ret = "none"

Start == /\ pc = "start"
         /\ IF enabled /\ ctxDone THEN pc' = "ret" /\ ret' = "ctx"      \* retry-go checks the context first
            ELSE pc' = "attempt" /\ ret' = ret
         /\ UNCHANGED <<attempts, enabled, script, cancelIn, preCancelled, n, ctxDone, lastOutcome>>

Attempt == /\ pc = "attempt"
           /\ IF GuardAttempts /\ enabled /\ ctxDone
              THEN /\ pc' = "ret" /\ ret' = "ctx" /\ UNCHANGED <<n, ctxDone, lastOutcome>>
              ELSE /\ n' = n + 1
                   /\ lastOutcome' = script[n + 1]
                   /\ ctxDone' = (ctxDone \/ cancelIn = n + 1)
                   /\ pc' = "decide" /\ ret' = ret
           /\ UNCHANGED <<attempts, enabled, script, cancelIn, preCancelled>>

Decide == /\ pc = "decide"
          /\ IF lastOutcome = "ok" THEN pc' = "ret" /\ ret' = "nil"
             ELSE IF ~enabled THEN pc' = "ret" /\ ret' = lastOutcome
             ELSE IF lastOutcome = "fatal" THEN pc' = "ret" /\ ret' = "fatal"
             ELSE IF GuardAttempts /\ ctxDone THEN pc' = "ret" /\ ret' = "retriable"   \* no retry granted once done
             ELSE IF n = attempts THEN pc' = "ret" /\ ret' = "retriable"
             ELSE pc' = "wait" /\ ret' = ret
          /\ UNCHANGED <<attempts, enabled, script, cancelIn, preCancelled, n, ctxDone, lastOutcome>>

\* select { timer ; ctx.Done }: with a done context both may be ready
WaitTimer == /\ pc = "wait" /\ pc' = "attempt"
             /\ UNCHANGED <<attempts, enabled, script, cancelIn, preCancelled, n, ctxDone, lastOutcome, ret>>
WaitCtx == /\ pc = "wait" /\ ctxDone /\ pc' = "ret" /\ ret' = "ctx"
           /\ UNCHANGED <<attempts, enabled, script, cancelIn, preCancelled, n, ctxDone, lastOutcome>>

Terminated == pc = "ret" /\ UNCHANGED vars
Next == Start \/ Attempt \/ Decide \/ WaitTimer \/ WaitCtx \/ Terminated
Spec == Init /\ [][Next]_vars
FairSpec == Spec /\ WF_vars(Next)

(***************************************************************************)
(* Properties                                                              *)
(***************************************************************************)
AtMostConfigured == n <= (IF enabled THEN attempts ELSE 1)
AtLeastOnce == (pc = "ret" /\ ~preCancelled) => n >= 1
NoAttemptAfterSuccessOrFatal == [][(lastOutcome \in {"ok", "fatal"}) => n' = n]_vars
NoAttemptOnceDone == [][(enabled /\ ctxDone) => n' = n]_vars
NilIffSomeSuccess == pc = "ret" => ((ret = "nil") = (\E k \in 1..n : script[k] = "ok"))
LastErrorOrCtxKind == (pc = "ret" /\ ret # "nil") => (ret = "ctx" /\ ctxDone) \/ (ret = lastOutcome)
Returns == <>(pc = "ret")

Scenario == [attempts |-> attempts, enabled |-> enabled, script |-> script, cancelIn |-> cancelIn, preCancelled |-> preCancelled,
             n |-> n, ret |-> ret]
Emit == pc = "ret" => PrintT(<<"BEHAVIOUR", ToJson(Scenario)>>)
=============================================================================
