SPECIFICATION Spec
CONSTANTS SliceLen = 3
          ValsLen = 2
          LowestIndexReading = FALSE
INVARIANTS FoundIsAHit NotFoundMeansAbsent RemoveRemoves RemoveIdempotent EmptyDuality StrictEmptyIsWider Emit
CHECK_DEADLOCK FALSE
