SPECIFICATION FairSpec
CONSTANTS MaxAttempts = 4
          GuardAttempts = TRUE
INVARIANTS AtMostConfigured AtLeastOnce NilIffSomeSuccess LastErrorOrCtxKind
PROPERTIES NoAttemptAfterSuccessOrFatal NoAttemptOnceDone Returns
CHECK_DEADLOCK TRUE
