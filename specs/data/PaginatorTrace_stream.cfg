SPECIFICATION TraceSpec
CONSTANTS MaxPages = 1
          MaxItems = 1
          MaxCalls = 1
          ShapeStops = FALSE
          Stream = TRUE
          HaltInFetch = FALSE
INVARIANTS Agree InOrderExactlyOnce
POSTCONDITION TraceAccepted
CHECK_DEADLOCK FALSE
