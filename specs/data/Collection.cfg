SPECIFICATION Spec
CONSTANTS MaxLen = 6
          MaxOps = 3
INVARIANTS TypeOK EmptyIsFalse DeMorgan OneHotIsXorAndAny AllImpliesAny NegateTwice XorSplits Emit
PROPERTIES GrowOnly
CHECK_DEADLOCK FALSE
