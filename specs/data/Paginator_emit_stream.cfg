SPECIFICATION Spec
CONSTANTS MaxPages = 4
          MaxItems = 2
          MaxCalls = 14
          ShapeStops = TRUE
          Stream = TRUE
          HaltInFetch = TRUE
INVARIANTS Emit
CHECK_DEADLOCK FALSE
