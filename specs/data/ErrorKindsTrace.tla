--------------------------- MODULE ErrorKindsTrace ---------------------------
(***************************************************************************)
(* Trace validation for C11: recorded observations of the real library     *)
(* (vh c11 record): chains built with random messages and constructors and *)
(* sent through Serialise -> child process -> Deserialise, joins of 1..4   *)
(* errors, and the backend-condition table of the three converters.        *)
(***************************************************************************)
EXTENDS Naturals, Sequences, FiniteSets, TLC, Json

Trace == ndJsonDeserialize("trace.ndjson")
VARIABLES l
Ev == Trace[l]
ToSet(s) == {s[i] : i \in 1..Len(s)}
CtxKinds == {"cancelled", "timeout"}

\* the one stable kind each backend condition maps to ({} with nil = "no error")
Expected(conv, cond) ==
    CASE cond = "nil" -> {}
      [] cond = "ctx-cancelled" -> {"cancelled"}
      [] cond = "ctx-deadline" -> {"timeout"}
      [] conv = "fs" /\ cond = "deadline" -> {"timeout"}
      [] conv = "fs" /\ cond = "exists" -> {"exists"}
      [] conv = "fs" /\ cond = "closed-or-denied" -> {"conflict"}
      [] conv = "fs" /\ cond = "missing" -> {"notfound"}
      [] conv = "fs" /\ cond = "no-deadline" -> {"unsupported"}
      [] conv = "fs" /\ cond = "invalid" -> {"invalid"}
      [] conv = "fs" /\ cond = "out-of-range" -> {"outofrange"}
      [] conv = "fs" /\ cond = "too-large" -> {"toolarge"}
      [] conv = "fs" /\ cond = "not-implemented" -> {"notimplemented"}
      [] conv = "fs" /\ cond = "unexpected-eof" -> {"eof"}
      [] conv = "io" /\ cond = "eof" -> {"eof"}
      [] conv = "proc" /\ cond = "no-such-process" -> {}
      [] conv = "proc" /\ cond = "wait-delay" -> {"timeout"}
      [] conv = "proc" /\ cond = "executable-missing" -> {"notfound"}
      [] conv = "proc" /\ cond = "not-permitted" -> {"forbidden"}
      [] conv = "proc" /\ cond = "not-running" -> {"notfound"}
      [] conv = "proc" /\ cond = "access-denied" -> {"notfound"}
      [] conv = "proc" /\ cond = "not-implemented" -> {"notimplemented"}
      [] OTHER -> {"?"}
ExpectNil(conv, cond) == cond = "nil" \/ (conv = "proc" /\ cond = "no-such-process")

TraceInit == l = 1
Consume == l <= Len(Trace) /\ l' = l + 1

Built == Consume /\ Ev.op = "Built"
RoundTrip == /\ Consume /\ Ev.op = "RoundTrip"
             /\ ToSet(Ev.kindsMid) = {Ev.kindIn}                         \* recognised as the kind it was given, and only that
             /\ Ev.ctxCause => Ev.kindIn \in CtxKinds                     \* a context cause is never reclassified
             /\ ~Ev.nil /\ ToSet(Ev.kindsOut) = {Ev.kindIn}               \* same kind across the process boundary
             /\ Ev.single => Ev.reasonEq                                  \* same reason (single error, one constructor)
Join == /\ Consume /\ Ev.op = "Join"
        /\ ToSet(Ev.kindsMid) = ToSet(Ev.kindsIn)
        /\ ~Ev.nil /\ ToSet(Ev.kindsOut) = ToSet(Ev.kindsIn)
Convert == /\ Consume /\ Ev.op = "Convert"
           /\ ToSet(Ev.kindsOut) = Expected(Ev.conv, Ev.cond)
           /\ Ev.nil = ExpectNil(Ev.conv, Ev.cond)

TraceSpec == TraceInit /\ [][Built \/ RoundTrip \/ Join \/ Convert]_l
TraceAccepted == LET n == TLCGet("stats").diameter - 1 IN PrintT(<<"TRACE_MATCHED", n>>) /\ n = Len(Trace)
=============================================================================
