---------------------------- MODULE SafeCastTrace ----------------------------
(***************************************************************************)
(* Trace validation for C10: every recorded conversion                     *)
(*   [s: source kind, t: target, v: exact truncated input, o: output]      *)
(* (limb-encoded by the harness with math/big) must satisfy o = Clamp(v,t) *)
(* and, within a stream of one (s,t) pair, a larger input never yields a   *)
(* smaller output.  A panic is an event no action accepts.                 *)
(***************************************************************************)
EXTENDS SafeCast, Json

Trace == ndJsonDeserialize("trace.ndjson")

VARIABLES l, prev

tvars == <<l, prev>>

Ev == Trace[l]
NoPrev == [s |-> "", t |-> "", v |-> Zero, o |-> Zero]

InOf(e)  == [neg |-> e.n, huge |-> e.h, l2 |-> e.a, l1 |-> e.b, l0 |-> e.c]
OutOf(e) == [neg |-> e.on, huge |-> FALSE, l2 |-> e.oa, l1 |-> e.ob, l0 |-> e.oc]

\* within one (source, target) stream a larger input never yields a smaller output
Monotone(v, o) ==
    IF prev.s = Ev.s /\ prev.t = Ev.t
    THEN (IF Leq(prev.v, v) THEN Leq(prev.o, o) ELSE TRUE) /\ (IF Leq(v, prev.v) THEN Leq(o, prev.o) ELSE TRUE)
    ELSE TRUE

TraceInit == l = 1 /\ prev = NoPrev

Convert ==
    /\ l <= Len(Trace)
    /\ Ev.op = "conv"
    /\ Ev.t \in Targets
    /\ LET v == InOf(Ev)
           o == OutOf(Ev)
       IN /\ Eq(o, Clamp(v, Ev.t))                                        \* saturating conversion
          /\ Monotone(v, o)
          /\ prev' = [s |-> Ev.s, t |-> Ev.t, v |-> v, o |-> o]
    /\ l' = l + 1

TraceNext == Convert
TraceSpec == TraceInit /\ [][TraceNext]_tvars

TraceAccepted ==
    LET n == TLCGet("stats").diameter - 1 IN
    /\ PrintT(<<"TRACE_MATCHED", n>>)
    /\ n = Len(Trace)
=============================================================================
