--------------------------- MODULE BackoffClasses ---------------------------
(* Configuration / response classes of C14 enumerated by TLC for the harness to materialise. *)
EXTENDS BackoffPolicy
VARIABLE class
Classes == [enabled : BOOLEAN, backoff : BOOLEAN, linear : BOOLEAN, ra : BOOLEAN, status : Statuses,
            header : HeaderClasses, attempt : AttemptClasses, waits : WaitClasses]
Init == class \in Classes
Next == UNCHANGED class
Spec == Init /\ [][Next]_class
Emit == PrintT(<<"BEHAVIOUR", ToJson(class)>>)
=============================================================================
