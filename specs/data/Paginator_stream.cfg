SPECIFICATION Spec
CONSTANTS MaxPages = 3
          MaxItems = 2
          MaxCalls = 10
          ShapeStops = FALSE
          Stream = TRUE
          HaltInFetch = TRUE
INVARIANTS TypeOK Agree InOrderExactlyOnce CursorIsCount CtorFailureIsError
PROPERTIES NothingAfterStop HasNextIdempotent
VIEW View
CHECK_DEADLOCK FALSE
