---------------------------- MODULE BackoffPolicy ----------------------------
(***************************************************************************)
(* C14 (second sentence) - the wait between HTTP attempts.                 *)
(*                                                                         *)
(* Magnitudes (hours in nanoseconds times 2^31 attempts, 2^63 seconds) do  *)
(* not fit TLC's integers, so the harness projects each real result of     *)
(* BackOffPolicyFactory(cfg).Apply(min, max, n, resp) to ORDER RELATIONS   *)
(* computed with math/big (-1 / 0 / 1 for less / equal / greater); which   *)
(* relation must hold for which configuration is decided here.             *)
(***************************************************************************)
EXTENDS Integers, Sequences, TLC, Json

Statuses == {200, 429, 500, 503}
HeaderClasses == {"absent", "negative", "zero", "small", "huge", "datepast", "datefuture", "datefar", "garbage", "empty"}
\* datefar: an HTTP date centuries ahead (beyond what a nanosecond counter reaches): a value, not representable as a duration
AttemptClasses == {"0", "1", "small", "big", "max31"}          \* 0, 1, 2..8, 2^20.., 2^31-1
WaitClasses == {"zero", "equal", "ms", "hours", "minzero"}     \* (min,max): 0/0, m/m, ms..s, hours, 0..max

\* policy selected by the configuration (BackOffPolicyFactory)
PolicyOf(enabled, backoff, linear) ==
    IF ~enabled \/ ~backoff THEN "constant" ELSE IF linear THEN "linear" ELSE "exponential"

\* does a Retry-After value replace the computed wait?
HeaderIsValue(h) == h \in {"negative", "zero", "small", "huge", "datepast", "datefuture", "datefar"}
RetryAfterApplies(raEnabled, status, h) == raEnabled /\ status \in {429, 503} /\ HeaderIsValue(h)

(***************************************************************************)
(* The verdict on one observation e:                                       *)
(*   e.sign      sign of the wait                                          *)
(*   e.cMin      wait ? min            e.cMax    wait ? max                *)
(*   e.cLo       wait ? (n+1)*min      e.cHi     wait ? (n+1)*max          *)
(*   e.loRep/hiRep  those products are representable as a duration         *)
(*   e.cRA       wait ? the Retry-After value (seconds*1e9 or time until   *)
(*               the date, 0 when negative or past); e.raRep representable *)
(***************************************************************************)
NonNegative(e) == e.sign >= 0

ComputedOK(e) ==
    LET p == PolicyOf(e.enabled, e.backoff, e.linear) IN
    CASE p = "constant"    -> e.cMin = 0
      [] p = "linear"      -> (e.loRep => e.cLo >= 0) /\ (e.hiRep => e.cHi <= 0)
      [] p = "exponential" -> e.cMin >= 0 /\ e.cMax <= 0

WaitOK(e) ==
    /\ NonNegative(e)
    /\ IF RetryAfterApplies(e.ra, e.status, e.header)
       THEN (e.raRep => e.cRA = 0)       \* replaced exactly (when representable; only non-negativity otherwise)
       ELSE ComputedOK(e)
=============================================================================
