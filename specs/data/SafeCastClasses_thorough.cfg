SPECIFICATION Spec
CONSTANTS MaxOffset = 6
          IntSources = {"int", "int8", "int16", "int32", "int64", "uint", "uint8", "uint16", "uint32", "uint64", "MyInt", "MyInt8", "MyUint16", "MyUint64"}
          FloatSources = {"float32", "float64", "MyFloat32", "MyFloat64"}
INVARIANTS Emit
CHECK_DEADLOCK FALSE
