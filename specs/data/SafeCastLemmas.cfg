SPECIFICATION Spec
INVARIANTS LemmaMonotone
CHECK_DEADLOCK FALSE
