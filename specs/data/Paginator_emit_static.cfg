SPECIFICATION Spec
CONSTANTS MaxPages = 4
          MaxItems = 2
          MaxCalls = 12
          ShapeStops = TRUE
          Stream = FALSE
          HaltInFetch = TRUE
INVARIANTS Emit
CHECK_DEADLOCK FALSE
