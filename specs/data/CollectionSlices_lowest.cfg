SPECIFICATION Spec
CONSTANTS SliceLen = 3
          ValsLen = 2
          LowestIndexReading = FALSE
INVARIANTS CodedIsLowest
CHECK_DEADLOCK FALSE
