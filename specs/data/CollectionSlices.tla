-------------------------- MODULE CollectionSlices --------------------------
(***************************************************************************)
(* Growth: scenario classes of the slice helpers of `collection`, with the *)
(* answer the library must give computed here from CollectionOps.          *)
(***************************************************************************)
EXTENDS CollectionOps, TLC, Json
CONSTANTS SliceLen, ValsLen, LowestIndexReading
VARIABLE sc
StrSeqs(n) == UNION {[1..k -> Items] : k \in 0..n}
Scenarios == [strict : BOOLEAN, slice : StrSeqs(SliceLen), vals : StrSeqs(ValsLen)]
Init == sc \in Scenarios
Next == UNCHANGED sc
Spec == Init /\ [][Next]_sc

Find(s) == IF LowestIndexReading THEN FindLowestOverall(s.strict, s.slice, s.vals) ELSE FindAsCoded(s.strict, s.slice, s.vals)

\* what a caller relies on, whichever value decides: a reported index holds one of the wanted values, and nothing is found only when none occurs
FoundIsAHit == LET f == Find(sc) IN f.found => \E j \in 1..Len(sc.vals) : Same(sc.strict, sc.slice[f.idx], sc.vals[j])
NotFoundMeansAbsent == LET f == Find(sc) IN ~f.found => \A j \in 1..Len(sc.vals) : Hits(sc.strict, sc.slice, sc.vals[j]) = {}
\* sensitivity: "the first index" read as the lowest index over ALL wanted values is not what the code answers
CodedIsLowest == FindAsCoded(sc.strict, sc.slice, sc.vals) = FindLowestOverall(sc.strict, sc.slice, sc.vals)
RemoveRemoves == LET r == RemoveOf(sc.slice, sc.vals) IN
                   /\ \A i \in 1..Len(r) : \A j \in 1..Len(sc.vals) : r[i] # sc.vals[j]
                   /\ Len(r) = Cardinality({i \in 1..Len(sc.slice) : \A j \in 1..Len(sc.vals) : sc.slice[i] # sc.vals[j]})
RemoveIdempotent == RemoveOf(RemoveOf(sc.slice, sc.vals), sc.vals) = RemoveOf(sc.slice, sc.vals)
\* sensitivity: Remove leaves the caller's slice alone - not so with exactly one value
CallerSliceKept == CallerSliceAfterRemove(sc.slice, sc.vals) = sc.slice
EmptyDuality == AllNotEmptyOf(sc.strict, sc.slice) = ~AnyEmptyOf(sc.strict, sc.slice)
StrictEmptyIsWider == AnyEmptyOf(FALSE, sc.slice) => AnyEmptyOf(TRUE, sc.slice)

Emit == PrintT(<<"BEHAVIOUR", ToJson([kind |-> "slices", strict |-> sc.strict, slice |-> sc.slice, vals |-> sc.vals])>>)
=============================================================================
