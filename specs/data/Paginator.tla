------------------------------ MODULE Paginator ------------------------------
(***************************************************************************)
(* C19 - paginators yield every item exactly once, in order.               *)
(*                                                                         *)
(* Implementation-shaped model of utils/collection/pagination:             *)
(*   AbstractPaginator.HasNext / GetNext / Stop / Close  (pagination.go)   *)
(*   AbstractStreamPaginator.HasNext / GetNext / DryUp   (stream.go)       *)
(* A collection is a sequence of pages (sizes), linked by "next" links     *)
(* (static/dynamic paginators) or by "next"/"future" links (streams); the  *)
(* last page of a stream may be open-ended (HasFuture stays true and the   *)
(* future page is empty for ever).  Items are numbered 1..N in page order, *)
(* so "every item exactly once and in order" is: the k-th successful       *)
(* GetNext returns k.                                                      *)
(*                                                                         *)
(* The algorithm as coded (recursive cursor advance over exhausted and     *)
(* empty pages) is transcribed in BaseAdv/StreamAdv; the property-level    *)
(* oracle is SpecHas.  TLC checks that the two agree in every reachable    *)
(* state (Agree), and the emitted behaviours / validated traces bind both  *)
(* to the real code.                                                       *)
(***************************************************************************)
EXTENDS Naturals, Sequences, FiniteSets, TLC, Json

CONSTANTS MaxPages,   \* pages per collection: 1..MaxPages
          MaxItems,   \* items per page: 0..MaxItems
          MaxCalls,   \* calls per behaviour (bounded configurations)
          ShapeStops, \* BOOLEAN: draw the earliest stop instant in Init (simulation shaping only)
          Stream,     \* BOOLEAN: stream paginators (future links, DryUp, grace period)
          HaltInFetch \* BOOLEAN: scenarios in which the paginator is halted while a page is being fetched

VARIABLES pages,    \* sequence of page sizes
          links,    \* links[i] \in {"next","future"}: how page i+1 is reached from page i
          open,     \* last page claims a future for ever (open-ended stream)
          failAt,   \* 0 = no failure; k = obtaining page k fails (k = 1: constructor failure)
          built,    \* "no" | "ok" | "failed"
          cur, idx, \* cursor as coded: current page, items consumed in it
          stopped,  \* Stop()/Close()/context cancellation happened
          dry,      \* DryUp() was called
          late,     \* as coded: the run-out timer (restarted by a HasNext that finds something, by crossing
                    \* a future link while not dry, and by DryUp) has expired
          graceOver,\* statement: the stream was told to dry up and a grace period has elapsed since
          yielded,  \* number of items yielded so far (ghost)
          last,     \* observable record of the last call
          agree,    \* ghost: as-coded result agreed with the property-level oracle so far
          hist,     \* history of call records (behaviour emission only)
          stopAfter,\* emission shaping: Stop/Close/Cancel only once this many calls were made
          haltFetch \* scenario: the paginator is halted (Stop / Close / cancellation, from inside the fetch callback or by
                    \* another goroutine) WHILE page number haltFetch is being fetched, and the fetch still delivers the
                    \* page; 0 = never

core == <<pages, links, open, failAt, built, cur, idx, stopped, dry, late, graceOver, yielded, last, agree>>
vars == <<core, hist, stopAfter, haltFetch>>

NoRes == [op |-> "none", b |-> FALSE, item |-> 0, kind |-> "", free |-> FALSE, late |-> FALSE]

RECURSIVE SumTo(_, _)
SumTo(s, n) == IF n = 0 THEN 0 ELSE s[n] + SumTo(s, n - 1)

Total == SumTo(pages, Len(pages))

\* pages that can be obtained at all (failure of page k hides k and everything behind it)
Obtainable == IF failAt = 0 THEN Len(pages) ELSE failAt - 1

(***************************************************************************)
(* Property-level oracle.                                                  *)
(***************************************************************************)
\* items not yet yielded that lie in obtainable pages reachable from page c through links in L
RECURSIVE ReachItems(_, _, _)
ReachItems(c, i, L) ==
    (pages[c] - i) +
    (IF c < Obtainable /\ c < Len(pages) /\ links[c] \in L THEN ReachItems(c + 1, 0, L) ELSE 0)

RemainNextOnly == ReachItems(cur, idx, {"next"})
RemainAll      == ReachItems(cur, idx, {"next", "future"})

\* "true" / "false" / "free" (unconstrained by the statement: the stream was told to dry up and
\* the grace period elapsed, items only beyond a future link)
SpecHas ==
    IF stopped THEN "false"
    ELSE IF RemainNextOnly > 0 THEN "true"
    ELSE IF RemainAll > 0 THEN (IF graceOver THEN "free" ELSE "true")
    ELSE "false"

(***************************************************************************)
(* The algorithm as coded.                                                 *)
(***************************************************************************)
\* AbstractPaginator.HasNext: advance across exhausted and empty pages through next links
RECURSIVE BaseAdv(_, _)
BaseAdv(c, i) ==
    IF i < pages[c] THEN [c |-> c, i |-> i, has |-> TRUE, halted |-> FALSE]
    ELSE IF c < Len(pages) /\ links[c] = "next"
         THEN IF failAt = c + 1 THEN [c |-> c, i |-> i, has |-> FALSE, halted |-> FALSE]
              \* halted during this very fetch: the page arrives, the context test that follows ends the search
              ELSE IF haltFetch = c + 1 THEN [c |-> c + 1, i |-> 0, has |-> FALSE, halted |-> TRUE]
              ELSE BaseAdv(c + 1, 0)
         ELSE [c |-> c, i |-> i, has |-> FALSE, halted |-> FALSE]

\* AbstractStreamPaginator.HasNext: loop over future pages with the dry-up timeout
RECURSIVE StreamAdv(_, _, _)
StreamAdv(c, i, lt) ==
    LET b == BaseAdv(c, i) IN
    IF b.halted THEN [c |-> b.c, i |-> b.i, has |-> FALSE, late |-> lt, blocks |-> FALSE, halted |-> TRUE]
    ELSE IF b.has THEN [c |-> b.c, i |-> b.i, has |-> TRUE, late |-> FALSE, blocks |-> FALSE, halted |-> FALSE]
    ELSE LET hasFuture == \/ (b.c < Len(pages) /\ links[b.c] = "future")
                          \/ (b.c = Len(pages) /\ open)
         IN IF ~hasFuture THEN [c |-> b.c, i |-> b.i, has |-> FALSE, late |-> lt, blocks |-> FALSE, halted |-> FALSE]
            ELSE IF dry /\ lt THEN [c |-> b.c, i |-> b.i, has |-> FALSE, late |-> lt, blocks |-> FALSE, halted |-> FALSE]
            ELSE IF b.c = Len(pages)
                 \* open end: the future page is empty for ever; the loop spins until dried up and
                 \* the grace period elapsed (for ever when not dry: the call blocks)
                 THEN [c |-> b.c, i |-> b.i, has |-> FALSE, late |-> TRUE, blocks |-> ~dry, halted |-> FALSE]
            ELSE IF failAt = b.c + 1 THEN [c |-> b.c, i |-> b.i, has |-> FALSE, late |-> lt, blocks |-> FALSE, halted |-> FALSE]
            ELSE IF haltFetch = b.c + 1 THEN [c |-> b.c + 1, i |-> 0, has |-> FALSE, late |-> lt, blocks |-> FALSE, halted |-> TRUE]
            ELSE StreamAdv(b.c + 1, 0, IF dry THEN lt ELSE FALSE)

Adv == IF stopped THEN [c |-> cur, i |-> idx, has |-> FALSE, late |-> late, blocks |-> FALSE, halted |-> FALSE]
       ELSE IF Stream THEN StreamAdv(cur, idx, late)
       ELSE LET b == BaseAdv(cur, idx) IN [c |-> b.c, i |-> b.i, has |-> b.has, late |-> late, blocks |-> FALSE, halted |-> b.halted]

Agrees(has) == LET s == SpecHas IN s = "free" \/ (s = "true") = has

(***************************************************************************)
(* Actions = public calls.                                                 *)
(***************************************************************************)
Construct ==
    /\ built = "no"
    /\ IF failAt = 1
       THEN /\ built' = "failed"
            /\ last' = [op |-> "New", b |-> FALSE, item |-> 0, kind |-> "error", free |-> FALSE, late |-> late]
       ELSE /\ built' = "ok"
            /\ last' = [op |-> "New", b |-> TRUE, item |-> 0, kind |-> "", free |-> FALSE, late |-> late]
    /\ UNCHANGED <<pages, links, open, failAt, cur, idx, stopped, dry, late, graceOver, yielded, agree>>

HasNext ==
    /\ built = "ok"
    /\ LET a == Adv IN
       /\ ~a.blocks
       /\ cur' = a.c /\ idx' = a.i /\ late' = a.late
       /\ stopped' = (stopped \/ a.halted)
       \* halted inside this call: the answer must be "no" whatever was left
       /\ agree' = (agree /\ (IF a.halted THEN ~a.has ELSE Agrees(a.has)))
       /\ last' = [op |-> "HasNext", b |-> a.has, item |-> 0, kind |-> "", free |-> (SpecHas = "free"), late |-> late]
    /\ UNCHANGED <<pages, links, open, failAt, built, dry, graceOver, yielded>>

\* GetNext as coded: the base paginator's GetNext first (it does not touch the run-out timer); only
\* when that finds nothing the stream's HasNext loop runs and the base GetNext is retried
AdvGet == IF stopped \/ ~Stream THEN Adv
          ELSE LET b == BaseAdv(cur, idx) IN
               IF b.has THEN [c |-> b.c, i |-> b.i, has |-> TRUE, late |-> late, blocks |-> FALSE, halted |-> FALSE]
               ELSE StreamAdv(cur, idx, late)

GetNext ==
    /\ built = "ok"
    /\ LET a == AdvGet IN
       /\ ~a.blocks
       /\ stopped' = (stopped \/ a.halted)
       /\ agree' = (agree /\ (IF a.halted THEN ~a.has ELSE Agrees(a.has)))
       /\ IF a.has
          THEN /\ cur' = a.c /\ idx' = a.i + 1 /\ late' = a.late
               /\ yielded' = yielded + 1
               /\ last' = [op |-> "GetNext", b |-> TRUE, item |-> SumTo(pages, a.c - 1) + a.i + 1,
                           kind |-> "", free |-> (SpecHas = "free"), late |-> late]
          ELSE /\ cur' = a.c /\ idx' = a.i /\ late' = a.late
               /\ yielded' = yielded
               /\ last' = [op |-> "GetNext", b |-> FALSE, item |-> 0,
                           kind |-> (IF stopped THEN "cancelled" ELSE "notfound"), free |-> (SpecHas = "free"), late |-> late]
    /\ UNCHANGED <<pages, links, open, failAt, built, dry, graceOver>>

Halt(how) ==   \* Stop()(), Close(), cancellation of the parent context
    /\ built = "ok"
    /\ stopped' = TRUE
    /\ last' = [op |-> how, b |-> TRUE, item |-> 0, kind |-> "", free |-> FALSE, late |-> late]
    /\ UNCHANGED <<pages, links, open, failAt, built, cur, idx, dry, late, graceOver, yielded, agree>>

DryUp ==
    /\ Stream /\ built = "ok" /\ ~dry
    /\ dry' = TRUE
    /\ late' = FALSE          \* DryUp restarts the run-out timer
    /\ graceOver' = FALSE
    /\ last' = [op |-> "DryUp", b |-> TRUE, item |-> 0, kind |-> "", free |-> FALSE, late |-> late]
    /\ UNCHANGED <<pages, links, open, failAt, built, cur, idx, stopped, yielded, agree>>

Tick ==        \* the caller lets more than the grace period pass
    /\ Stream /\ built = "ok" /\ (~late \/ (dry /\ ~graceOver))
    /\ late' = TRUE
    /\ graceOver' = dry
    /\ last' = [op |-> "Tick", b |-> TRUE, item |-> 0, kind |-> "", free |-> FALSE, late |-> late]
    /\ UNCHANGED <<pages, links, open, failAt, built, cur, idx, stopped, dry, yielded, agree>>

Call == Construct \/ HasNext \/ GetNext \/ Halt("Stop") \/ Halt("Close") \/ Halt("Cancel") \/ DryUp \/ Tick

(***************************************************************************)
(* Bounded specification (exhaustive checking and behaviour emission).     *)
(***************************************************************************)
StopAfterSet == IF ShapeStops THEN 1..(MaxCalls + 1) ELSE {0}
PageSeqs == UNION {[1..n -> 0..MaxItems] : n \in 1..MaxPages}
LinkSeqs(n) == IF Stream THEN [1..(n - 1) -> {"next", "future"}] ELSE [1..(n - 1) -> {"next"}]

Init ==
    /\ pages \in PageSeqs
    /\ links \in LinkSeqs(Len(pages))
    /\ open \in (IF Stream THEN BOOLEAN ELSE {FALSE})
    /\ failAt \in 0..Len(pages)
    /\ built = "no" /\ cur = 1 /\ idx = 0
    /\ stopped = FALSE /\ dry = FALSE /\ late = FALSE /\ graceOver = FALSE /\ yielded = 0
    /\ last = NoRes /\ agree = TRUE /\ hist = <<>>
    /\ stopAfter \in StopAfterSet
    /\ haltFetch \in (IF HaltInFetch THEN 2..Len(pages) ELSE {}) \cup {0}
    /\ (haltFetch # 0 => failAt = 0)

Next == /\ Len(hist) < MaxCalls
        /\ Call
        /\ (last'.op \in {"Stop", "Close", "Cancel"} => (Len(hist) >= stopAfter /\ (ShapeStops => ~stopped)))
        /\ hist' = Append(hist, last')
        /\ UNCHANGED <<stopAfter, haltFetch>>

Spec == Init /\ [][Next]_vars

(***************************************************************************)
(* Properties.                                                             *)
(***************************************************************************)
TypeOK == /\ cur \in 1..Len(pages) /\ idx \in 0..pages[cur]
          /\ yielded \in 0..Total

\* the algorithm as coded decides HasNext as the statement demands
Agree == agree

\* every item exactly once, in order: the k-th yield is item k
InOrderExactlyOnce == (last.op = "GetNext" /\ last.b) => last.item = yielded

\* the cursor always stands right behind the last yielded item
CursorIsCount == built = "ok" => SumTo(pages, cur - 1) + idx >= yielded /\
                                 (idx > 0 => SumTo(pages, cur - 1) + idx = yielded)

\* nothing is yielded after Stop/Close/cancellation
NothingAfterStop == [][stopped => yielded' = yielded]_vars

\* constructor failures are reported as errors
CtorFailureIsError == (failAt = 1 /\ built # "no") => built = "failed"

\* HasNext is idempotent: a second HasNext right after the first gives the same answer and moves nothing
HasNextIdempotent ==
    [][(last.op = "HasNext" /\ last'.op = "HasNext" /\ ~(Stream /\ dry)) => (last'.b = last.b /\ yielded' = yielded)]_vars

\* at exhaustion everything obtainable through next links was yielded
ExhaustedMeansAll ==
    (last.op = "HasNext" /\ ~last.b /\ ~stopped /\ ~Stream) => yielded = SumTo(pages, Obtainable)

Scenario == [pages |-> pages, links |-> links, open |-> open, failAt |-> failAt, stream |-> Stream, haltFetch |-> haltFetch, calls |-> hist]
Emit == (Len(hist) = MaxCalls \/ built = "failed") => PrintT(<<"BEHAVIOUR", ToJson(Scenario)>>)

View == <<core, haltFetch>>
=============================================================================
