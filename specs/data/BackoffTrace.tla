---------------------------- MODULE BackoffTrace ----------------------------
(***************************************************************************)
(* Trace validation for the back-off policies: every recorded Apply() must *)
(* satisfy WaitOK; within a stream of increasing attempt numbers of one     *)
(* exponential configuration the wait must not decrease.                   *)
(***************************************************************************)
EXTENDS BackoffPolicy
Trace == ndJsonDeserialize("trace.ndjson")
VARIABLES l
Ev == Trace[l]
TraceInit == l = 1
Apply == /\ l <= Len(Trace) /\ Ev.op = "Apply"
         /\ WaitOK(Ev)
         /\ IF Ev.stream /\ PolicyOf(Ev.enabled, Ev.backoff, Ev.linear) = "exponential" /\ ~RetryAfterApplies(Ev.ra, Ev.status, Ev.header)
            THEN Ev.cPrev >= 0 ELSE TRUE       \* non-decreasing in the attempt number
         /\ l' = l + 1
\* the real retrying client against a local server: attempts within bounds
Client == /\ l <= Len(Trace) /\ Ev.op = "Client"
          /\ Ev.requests >= 1 /\ Ev.requests <= Ev.maxRetries + 1
          /\ (Ev.alwaysFails /\ Ev.policyEnabled) => Ev.requests = Ev.maxRetries + 1
          /\ l' = l + 1
TraceSpec == TraceInit /\ [][Apply \/ Client]_l
TraceAccepted == LET n == TLCGet("stats").diameter - 1 IN PrintT(<<"TRACE_MATCHED", n>>) /\ n = Len(Trace)
=============================================================================
