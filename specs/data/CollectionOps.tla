---------------------------- MODULE CollectionOps ----------------------------
(***************************************************************************)
(* Growth: the value-level meaning of the `collection` package, shared by  *)
(* Collection.tla (the Conditions object), CollectionSlices.tla (scenario  *)
(* classes of the slice helpers) and CollectionTrace.tla (the judge).      *)
(***************************************************************************)
EXTENDS Naturals, Sequences, FiniteSets

BoolSeqs(n) == UNION {[1..k -> BOOLEAN] : k \in 0..n}

\* ---- reductions of a list of booleans: every reduction of the empty list is FALSE (documented) ------------
CountTrue(s) == Cardinality({i \in 1..Len(s) : s[i]})
AnyOf(s) == \E i \in 1..Len(s) : s[i]
AllOf(s) == Len(s) > 0 /\ \A i \in 1..Len(s) : s[i]
XorOf(s) == CountTrue(s) % 2 = 1
OneHotOf(s) == CountTrue(s) = 1
NegateOf(s) == [i \in 1..Len(s) |-> ~s[i]]
\* as coded: Contains(TRUE) = Any, Contains(FALSE) = ~All - which says "contains FALSE" about the empty list
ContainsAsCoded(s, v) == IF v THEN AnyOf(s) ELSE ~AllOf(s)
ContainsIntended(s, v) == \E i \in 1..Len(s) : s[i] = v
Observe(s) == [any |-> AnyOf(s), all |-> AllOf(s), xor |-> XorOf(s), onehot |-> OneHotOf(s),
               hasT |-> ContainsAsCoded(s, TRUE), hasF |-> ContainsAsCoded(s, FALSE), list |-> s]

\* ---- strings: a six-item alphabet closed under the loose comparison (trim blanks, ignore case) ------------
Items == {"a", "A", " a ", "", "  ", "b"}
Norm(x) == CASE x \in {"a", "A", " a "} -> "a" [] x \in {"", "  "} -> "" [] OTHER -> x
Same(strict, x, y) == IF strict THEN x = y ELSE Norm(x) = Norm(y)
Min(S) == CHOOSE m \in S : \A n \in S : m <= n

\* FindInSlice: the FIRST of the wanted values (in the order given) that occurs decides; the answer is where it occurs first.
\* (0-based index, -1 = not found.)  `LowestOverall` is the other reading of "returns the first index".
Hits(strict, slice, v) == {i \in 1..Len(slice) : Same(strict, slice[i], v)}
FindAsCoded(strict, slice, vals) ==
    LET present == {j \in 1..Len(vals) : Hits(strict, slice, vals[j]) # {}}
    IN IF present = {} THEN [idx |-> 0, found |-> FALSE]           \* idx is reported as -1; 0 here stands for it (1-based otherwise)
       ELSE [idx |-> Min(Hits(strict, slice, vals[Min(present)])), found |-> TRUE]
FindLowestOverall(strict, slice, vals) ==
    LET all == UNION {Hits(strict, slice, vals[j]) : j \in 1..Len(vals)}
    IN IF all = {} THEN [idx |-> 0, found |-> FALSE] ELSE [idx |-> Min(all), found |-> TRUE]

\* Remove: every element equal to one of the values goes, the others keep their order
RemoveOf(slice, vals) == SelectSeq(slice, LAMBDA x : \A j \in 1..Len(vals) : x # vals[j])
\* named deviation (as coded): with exactly ONE value the caller's own slice is compacted in place and its freed tail blanked;
\* with none it is returned as it is; with several a new slice is built and the caller's is left alone
CallerSliceAfterRemove(slice, vals) ==
    IF Len(vals) = 1 THEN RemoveOf(slice, vals) \o [i \in 1..(Len(slice) - Len(RemoveOf(slice, vals))) |-> ""] ELSE slice
UniqueOf(slice) == {slice[i] : i \in 1..Len(slice)}
\* AnyEmpty(strict): with strict, blanks count as empty - i.e. the LOOSE comparison with "" (the flag is inverted on the way down)
AnyEmptyOf(strict, slice) == \E i \in 1..Len(slice) : Same(~strict, slice[i], "")
AllNotEmptyOf(strict, slice) == ~AnyEmptyOf(strict, slice)
=============================================================================
