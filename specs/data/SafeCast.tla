------------------------------ MODULE SafeCast ------------------------------
(***************************************************************************)
(* C10 - numeric conversions saturate: never wrap, never panic, monotone.  *)
(*                                                                         *)
(* TLC integers are 32-bit, the values at stake reach 2^64 and beyond, so  *)
(* an integer is a limb record  [neg, huge, l2, l1, l0]  (three 24-bit     *)
(* limbs, magnitude l2*2^48 + l1*2^24 + l0 < 2^72; huge = magnitude >=     *)
(* 2^72, infinities included).  The type ranges are derived here from      *)
(* (bits, signed) - not from Go's math constants - and Clamp is the        *)
(* statement of the property: the value itself when in range, else the     *)
(* nearer bound.                                                           *)
(***************************************************************************)
EXTENDS Naturals, Sequences, TLC

B == 16777216   \* 2^24

Targets == {"int", "int8", "int16", "int32", "int64", "uint", "uint8", "uint16", "uint32", "uint64"}

Bits(t) == CASE t \in {"int8", "uint8"} -> 8
             [] t \in {"int16", "uint16"} -> 16
             [] t \in {"int32", "uint32"} -> 32
             [] OTHER -> 64          \* int, uint are 64-bit on the platforms the library supports here
Signed(t) == t \in {"int", "int8", "int16", "int32", "int64"}

RECURSIVE Pow2(_)
Pow2(n) == IF n = 0 THEN 1 ELSE 2 * Pow2(n - 1)

Limb(neg, l2, l1, l0) == [neg |-> neg, huge |-> FALSE, l2 |-> l2, l1 |-> l1, l0 |-> l0]
Zero == Limb(FALSE, 0, 0, 0)

\* 2^n - 1 and 2^n as magnitudes, n <= 64
Pow2Minus1(n) == IF n <= 24 THEN Limb(FALSE, 0, 0, Pow2(n) - 1)
                 ELSE IF n <= 48 THEN Limb(FALSE, 0, Pow2(n - 24) - 1, B - 1)
                 ELSE Limb(FALSE, Pow2(n - 48) - 1, B - 1, B - 1)
Pow2L(n) == IF n < 24 THEN Limb(FALSE, 0, 0, Pow2(n))
            ELSE IF n < 48 THEN Limb(FALSE, 0, Pow2(n - 24), 0)
            ELSE Limb(FALSE, Pow2(n - 48), 0, 0)
Negate(x) == [x EXCEPT !.neg = ~x.neg]

MaxOf(t) == IF Signed(t) THEN Pow2Minus1(Bits(t) - 1) ELSE Pow2Minus1(Bits(t))
MinOf(t) == IF Signed(t) THEN Negate(Pow2L(Bits(t) - 1)) ELSE Zero

IsZero(x) == ~x.huge /\ x.l2 = 0 /\ x.l1 = 0 /\ x.l0 = 0

\* magnitude comparison
MagLess(x, y) ==
    IF x.huge \/ y.huge THEN (~x.huge /\ y.huge)
    ELSE \/ x.l2 < y.l2
         \/ (x.l2 = y.l2 /\ x.l1 < y.l1)
         \/ (x.l2 = y.l2 /\ x.l1 = y.l1 /\ x.l0 < y.l0)
MagEq(x, y) == x.huge = y.huge /\ (x.huge \/ (x.l2 = y.l2 /\ x.l1 = y.l1 /\ x.l0 = y.l0))

Neg(x) == x.neg /\ ~IsZero(x)

Less(x, y) ==
    IF Neg(x) /\ ~Neg(y) THEN TRUE
    ELSE IF ~Neg(x) /\ Neg(y) THEN FALSE
    ELSE IF Neg(x) THEN MagLess(y, x)      \* both negative
    ELSE MagLess(x, y)
Eq(x, y) == (IsZero(x) /\ IsZero(y)) \/ (Neg(x) = Neg(y) /\ MagEq(x, y))
Leq(x, y) == Less(x, y) \/ Eq(x, y)

\* the statement of the property
Clamp(v, t) == IF Less(v, MinOf(t)) THEN MinOf(t)
               ELSE IF Less(MaxOf(t), v) THEN MaxOf(t)
               ELSE v

(***************************************************************************)
(* Lemmas about Clamp, checked by TLC over a grid of limb values around    *)
(* every boundary (SafeCastLemmas.cfg): in range, idempotent, monotone.    *)
(***************************************************************************)
Grid == {0, 1, 126, 127, 128, 129, 254, 255, 256, 257, 32767, 32768, 65535, 65536, 65537, B - 2, B - 1}
GridVals == {[neg |-> n, huge |-> h, l2 |-> a, l1 |-> b, l0 |-> c] :
                n \in BOOLEAN, h \in BOOLEAN, a \in {0, 32767, 32768, 65535, 65536}, b \in {0, 127, 128, 255, 256, B - 1}, c \in Grid}

InRange(x, t) == Leq(MinOf(t), x) /\ Leq(x, MaxOf(t))
LemmaInRange == \A v \in GridVals, t \in Targets : InRange(Clamp(v, t), t)
LemmaIdentity == \A v \in GridVals, t \in Targets : InRange(v, t) => Eq(Clamp(v, t), v)
LemmaIdempotent == \A v \in GridVals, t \in Targets : Eq(Clamp(Clamp(v, t), t), Clamp(v, t))
LemmaNearest == \A v \in GridVals, t \in Targets :
                    /\ Less(v, MinOf(t)) => Eq(Clamp(v, t), MinOf(t))
                    /\ Less(MaxOf(t), v) => Eq(Clamp(v, t), MaxOf(t))
=============================================================================
