SPECIFICATION Spec
CONSTANTS MaxDepth = 1
          BaseKinds = {"notimplemented", "noextension", "nologger", "nologgersource", "nologsource", "undefined", "invaliddestination", "timeout", "locked", "stalelock", "exists", "notfound", "unsupported", "unavailable", "wronguser", "unauthorised", "unknown", "invalid", "conflict", "marshalling", "cancelled", "empty", "unexpected", "toolarge", "forbidden", "condition", "eof", "malicious", "warning", "outofrange"}
          WrapKinds = {"invalid", "notfound", "cancelled", "timeout", "exists", "unknown"}
          Msgs = {"", "boom", "a: b", "a:b", "see not found here", " lead"}
          NotFoundMapsTo = "exists"
INVARIANTS Emit
CHECK_DEADLOCK FALSE
