SPECIFICATION Spec
CONSTANTS MaxDepth = 2
          BaseKinds = {"notimplemented", "noextension", "nologger", "nologgersource", "nologsource", "undefined", "invaliddestination", "timeout", "locked", "stalelock", "exists", "notfound", "unsupported", "unavailable", "wronguser", "unauthorised", "unknown", "invalid", "conflict", "marshalling", "cancelled", "empty", "unexpected", "toolarge", "forbidden", "condition", "eof", "malicious", "warning", "outofrange"}
          WrapKinds = {"invalid", "notfound", "cancelled", "timeout", "exists", "unknown"}
          Msgs = {"", "boom", "a: b", "see not found here"}
          NotFoundMapsTo = "exists"
INVARIANTS IsKind CtxNeverReclassified RoundTripKind RoundTripReason ChainRecognisesEveryKind
CHECK_DEADLOCK FALSE
