SPECIFICATION Spec
CONSTANTS MaxPages = 2
          MaxItems = 2
          MaxCalls = 5
          ShapeStops = FALSE
          Stream = FALSE
          HaltInFetch = TRUE
INVARIANTS Emit
CHECK_DEADLOCK FALSE
