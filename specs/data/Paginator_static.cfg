SPECIFICATION Spec
CONSTANTS MaxPages = 4
          MaxItems = 2
          MaxCalls = 12
          ShapeStops = FALSE
          Stream = FALSE
          HaltInFetch = TRUE
INVARIANTS TypeOK Agree InOrderExactlyOnce CursorIsCount CtorFailureIsError ExhaustedMeansAll
PROPERTIES NothingAfterStop HasNextIdempotent
VIEW View
CHECK_DEADLOCK FALSE
