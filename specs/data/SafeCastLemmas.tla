--------------------------- MODULE SafeCastLemmas ---------------------------
EXTENDS SafeCast
VARIABLES pair   \* a pair of grid values, for monotonicity
Init == pair \in {<<v, w>> : v \in {x \in GridVals : ~x.huge /\ x.l2 \in {0, 32768} /\ x.l1 \in {0, 128, B - 1}},
                              w \in {x \in GridVals : x.l2 \in {0, 32767, 65536} /\ x.l1 \in {0, 127, B - 1} /\ x.l0 \in {0, 127, 128, 255, 65535, B - 1}}}
Next == UNCHANGED pair
Spec == Init /\ [][Next]_pair
LemmaMonotone == \A t \in Targets : Leq(pair[1], pair[2]) => Leq(Clamp(pair[1], t), Clamp(pair[2], t))
ASSUME LemmaInRange
ASSUME LemmaIdentity
ASSUME LemmaIdempotent
ASSUME LemmaNearest
=============================================================================
