----------------------------- MODULE Collection -----------------------------
(***************************************************************************)
(* Growth (beyond the listed properties): the `collection` package - the   *)
(* Conditions object (a growing list of booleans with Add / Concat /       *)
(* Negate and the reductions Any, All, And, Or, Xor, OneHot, Contains) and *)
(* the slice helpers Find / FindInSlice / Remove / UniqueEntries /         *)
(* AnyEmpty / AllNotEmpty.                                                 *)
(*                                                                         *)
(* The Conditions object is a little state machine: Add and Concat grow    *)
(* the object itself (and return it), Negate returns a NEW list and leaves *)
(* the object alone.  The reductions are defined here as the library       *)
(* documents them, including the convention that every reduction of the    *)
(* empty list is FALSE.                                                    *)
(***************************************************************************)
EXTENDS CollectionOps, TLC, Json

CONSTANTS MaxLen,      \* longest Conditions list explored
          MaxOps       \* operations per history

\* ---- the object -----------------------------------------------------------------------------------------
VARIABLES conds,     \* the list inside the object
          hist       \* operations applied, with the result the library must give (scenario + oracle)
vars == <<conds, hist>>

Chunks == BoolSeqs(2)

Init == /\ conds \in BoolSeqs(2)
        /\ hist = <<[op |-> "New", arg |-> conds, ret |-> conds, after |-> Observe(conds)]>>

Add(c) == /\ Len(conds) + Len(c) <= MaxLen
          /\ conds' = conds \o c
          /\ hist' = Append(hist, [op |-> "Add", arg |-> c, ret |-> conds', after |-> Observe(conds')])
\* Concat with another object holding c (Concat with the object itself doubles it)
Concat(c) == /\ Len(conds) + Len(c) <= MaxLen
             /\ conds' = conds \o c
             /\ hist' = Append(hist, [op |-> "Concat", arg |-> c, ret |-> conds', after |-> Observe(conds')])
ConcatSelf == /\ 2 * Len(conds) <= MaxLen
              /\ conds' = conds \o conds
              /\ hist' = Append(hist, [op |-> "ConcatSelf", arg |-> <<>>, ret |-> conds', after |-> Observe(conds')])
\* Negate answers with a new list; the object keeps its own
Negate == /\ conds' = conds
          /\ hist' = Append(hist, [op |-> "Negate", arg |-> <<>>, ret |-> NegateOf(conds), after |-> Observe(conds)])

Next == /\ Len(hist) <= MaxOps
        /\ \/ \E c \in Chunks : Add(c) \/ Concat(c)
           \/ ConcatSelf \/ Negate
Spec == Init /\ [][Next]_vars

\* ---- what holds of the reductions, whatever the history --------------------------------------------------
TypeOK == conds \in BoolSeqs(MaxLen)
EmptyIsFalse == conds = <<>> => ~AnyOf(conds) /\ ~AllOf(conds) /\ ~XorOf(conds) /\ ~OneHotOf(conds)
DeMorgan == conds # <<>> => (AnyOf(conds) <=> ~AllOf(NegateOf(conds))) /\ (AllOf(conds) <=> ~AnyOf(NegateOf(conds)))
OneHotIsXorAndAny == OneHotOf(conds) => XorOf(conds) /\ AnyOf(conds)
AllImpliesAny == AllOf(conds) => AnyOf(conds)
NegateTwice == NegateOf(NegateOf(conds)) = conds
\* Xor of a concatenation is the xor of the parts' xors (what makes the left fold in the code right)
XorSplits == \A k \in 0..Len(conds) : XorOf(conds) = (XorOf(SubSeq(conds, 1, k)) # XorOf(SubSeq(conds, k + 1, Len(conds))))
\* the history only ever grows the object
GrowOnly == [][\E t \in BoolSeqs(MaxLen) : conds' = conds \o t]_vars
\* sensitivity: the set-membership reading of Contains differs from the coded one exactly on the empty list
ContainsIsMembership == \A v \in BOOLEAN : ContainsAsCoded(conds, v) = ContainsIntended(conds, v)

Emit == Len(hist) = MaxOps + 1 => PrintT(<<"BEHAVIOUR", ToJson([kind |-> "conditions", hist |-> hist])>>)
=============================================================================
