SPECIFICATION Spec
CONSTANTS Clients = {"A", "B"}
          Versions = {1, 2}
          LockBroken = FALSE
          IgnoreSideHashFailure = FALSE
          MaxOps = 4
          UnlockBeforeCleanup = TRUE
INVARIANTS InstalledIsComplete NoViolation
VIEW View
CHECK_DEADLOCK FALSE
