-------------------------- MODULE SharedCacheTrace --------------------------
(***************************************************************************)
(* C16 - judging recorded executions of the real shared caches.            *)
(*  Sweep events: Store(v2) over an entry holding v1 interrupted at        *)
(*    backend call k (injected error / death of the client), stale-lock    *)
(*    cleaning, then a Fetch by another client.                            *)
(*  Interleaving traces: Begin, StoreBegin/Stored, FetchBegin/Fetched,     *)
(*    FinalFetch of concurrent clients under gated random schedules.       *)
(* The monitor is the one of SharedCache.tla: a successful Fetch installs  *)
(* one complete version that was passed to Store; a Fetch that begins      *)
(* after a successful Store (and before any other Store begins) returns    *)
(* that version.                                                           *)
(***************************************************************************)
EXTENDS Naturals, Sequences, FiniteSets, TLC, Json

Trace == ndJsonDeserialize("trace.ndjson")
Clients == {"A", "B", "C"}

VARIABLES l, traceId, passed, lastStore, storing, overlap, expect, viol, judged,
          mutable,                    \* the lock-based cache: overlapping Stores are ordered by their critical sections
          acqSeq, acq, lastStoreAcq   \* number of critical sections so far, the one each client's Store is/was in (0: none), the one of lastStore
vars == <<l, traceId, passed, lastStore, storing, overlap, expect, viol, judged, mutable, acqSeq, acq, lastStoreAcq>>
lockVars == <<mutable, acqSeq, acq, lastStoreAcq>>
Ev == Trace[l]
Consume == l <= Len(Trace) /\ l' = l + 1
Verdict == PrintT(<<"VERDICT", ToJson([id |-> traceId, viol |-> viol, judged |-> judged])>>)
V(n) == CASE n = 1 -> "v1" [] n = 2 -> "v2" [] n = 3 -> "v3" [] OTHER -> "v?"
Flag(s) == viol' = viol \cup s

TraceInit == l = 1 /\ traceId = 0 /\ passed = {} /\ lastStore = 0 /\ storing = 0 /\ overlap = FALSE
             /\ expect = [c \in Clients |-> 0] /\ viol = {} /\ judged = 0
             /\ mutable = FALSE /\ acqSeq = 0 /\ acq = [c \in Clients |-> 0] /\ lastStoreAcq = 0

\* Known defect of the lock (not of the cache), in-memory backend only: a heart-beat write already on its way when the release
\* removed the lock directory re-creates it (the backend creates missing parents) - a lock nobody holds and nobody refreshes, on
\* which every later call fails with a lock error until CleanEntry.  The harness establishes it from the recorded backend calls
\* (`zombie`); a call refused for that reason is named after its cause.
LockErrors == {"stalelock", "locked", "timeout"}
NotVisible(zombie, result) == IF zombie /\ result \in LockErrors THEN {"released-lock-recreated-by-late-heartbeat"} ELSE {"store-success-not-visible"}

Sweep ==
    /\ Consume /\ Ev.op = "Sweep"
    /\ (traceId # 0 => Verdict)
    /\ traceId' = 100000 + l
    /\ judged' = (IF Ev.match = "void" THEN 0 ELSE 1)
    /\ viol' = IF Ev.match = "void" THEN {}
               ELSE (IF Ev.fetch = "" /\ Ev.match \notin {"v1", "v2"} THEN {"fetch-installed-incomplete-tree"} ELSE {})
                    \cup (IF Ev.store = "" /\ ~(Ev.fetch = "" /\ Ev.match = "v2") THEN NotVisible(Ev.zombie /\ Ev.backend = "mem" /\ Ev.cache = "mutable", Ev.fetch) ELSE {})
                    \* afterwards the earlier content (v1) is stored again, alone: a Store that reports success is what the next Fetch returns
                    \cup (IF Ev.matchAgain # "void" /\ Ev.storeAgain = "" /\ ~(Ev.fetchAgain = "" /\ Ev.matchAgain = "v1") THEN NotVisible(Ev.zombie /\ Ev.backend = "mem" /\ Ev.cache = "mutable", Ev.fetchAgain) ELSE {})
                    \cup (IF Ev.matchAgain # "void" /\ Ev.fetchAgain = "" /\ Ev.matchAgain \notin {"v1", "v2"} THEN {"fetch-installed-incomplete-tree"} ELSE {})
    /\ UNCHANGED <<passed, lastStore, storing, overlap, expect, lockVars>>

Begin == /\ Consume /\ Ev.op = "Begin" /\ (traceId # 0 => Verdict)
         /\ traceId' = Ev.id /\ passed' = {} /\ lastStore' = 0 /\ storing' = 0 /\ overlap' = FALSE
         /\ expect' = [c \in Clients |-> 0] /\ viol' = {} /\ judged' = 0
         /\ mutable' = (Ev.cache = "mutable") /\ acqSeq' = 0 /\ acq' = [c \in Clients |-> 0] /\ lastStoreAcq' = 0
End == Consume /\ Ev.op = "End" /\ (traceId # 0 => Verdict) /\ UNCHANGED <<traceId, passed, lastStore, storing, overlap, expect, viol, judged, lockVars>>

StoreBegin == /\ Consume /\ Ev.op = "StoreBegin"
              /\ passed' = passed \cup {Ev.v} /\ storing' = storing + 1 /\ lastStore' = 0
              /\ overlap' = (overlap \/ storing >= 1)     \* Stores that overlap have no defined order
              /\ expect' = [c \in Clients |-> 0]
              /\ acq' = [acq EXCEPT ![Ev.c] = 0] /\ lastStoreAcq' = 0
              /\ UNCHANGED <<traceId, viol, judged, mutable, acqSeq>>
\* a Store entered its critical section (it created the entry's lock directory): what an earlier Store made visible may be replaced from now on
LockAcquired == /\ Consume /\ Ev.op = "LockAcquired"
                /\ acqSeq' = acqSeq + 1 /\ acq' = [acq EXCEPT ![Ev.c] = acqSeq + 1]
                /\ lastStore' = 0 /\ lastStoreAcq' = 0 /\ expect' = [c \in Clients |-> 0]
                /\ UNCHANGED <<traceId, passed, storing, overlap, viol, judged, mutable>>
\* the baseline Store of v1 is reported without a StoreBegin
Stored == /\ Consume /\ Ev.op = "Stored"
          /\ passed' = passed \cup {Ev.v}
          /\ storing' = (IF storing > 0 /\ Ev.v # 1 THEN storing - 1 ELSE storing)
          \* a Store alone defines what is visible.  Lock-based cache, overlapping Stores: the critical sections order them - a
          \* successful Store whose critical section is the latest defines it; a failed Store whose critical section came before
          \* the defining one (or that never had one) leaves it alone
          /\ LET latest == mutable /\ acq[Ev.c] # 0 /\ acq[Ev.c] = acqSeq
                 harmless == mutable /\ lastStore # 0 /\ Ev.v # 1 /\ acq[Ev.c] < lastStoreAcq
                 \* ... and so does a Store - failed or not - whose critical section came before the defining one: the lock serialises the
                 \* sections, what it did to the entry was over before the defining Store began its own
                 earlier == harmless \/ (mutable /\ lastStore # 0 /\ Ev.v # 1 /\ acq[Ev.c] # 0 /\ acq[Ev.c] < lastStoreAcq)
             IN /\ lastStore' = (IF earlier THEN lastStore
                                ELSE IF Ev.result = "" /\ ((storing <= 1 /\ ~overlap) \/ latest) THEN Ev.v ELSE 0)
                /\ lastStoreAcq' = (IF earlier THEN lastStoreAcq
                                   ELSE IF Ev.result = "" /\ ((storing <= 1 /\ ~overlap) \/ latest) THEN (IF Ev.v = 1 THEN 0 ELSE acq[Ev.c]) ELSE 0)
          /\ overlap' = (IF storing <= 1 THEN FALSE ELSE overlap)
          /\ UNCHANGED <<traceId, expect, viol, judged, mutable, acqSeq, acq>>
FetchBegin == /\ Consume /\ Ev.op = "FetchBegin"
              /\ expect' = [expect EXCEPT ![Ev.c] = IF storing = 0 THEN lastStore ELSE 0]
              /\ UNCHANGED <<traceId, passed, lastStore, storing, overlap, viol, judged, lockVars>>
Fetched == /\ Consume /\ Ev.op = "Fetched"
           /\ judged' = judged + 1
           /\ Flag((IF Ev.result = "" /\ ~(\E v \in passed : Ev.match = V(v)) THEN {"fetch-installed-incomplete-tree"} ELSE {})
                   \cup (IF Ev.quiet /\ expect[Ev.c] # 0 /\ ~(Ev.result = "" /\ Ev.match = V(expect[Ev.c]))
                         THEN NotVisible(Ev.zombie /\ mutable, Ev.result) ELSE {}))
           /\ UNCHANGED <<traceId, passed, lastStore, storing, overlap, expect, lockVars>>
FinalFetch == /\ Consume /\ Ev.op = "FinalFetch"
              /\ judged' = judged + 1
              /\ Flag((IF Ev.result = "" /\ ~(\E v \in passed : Ev.match = V(v)) THEN {"fetch-installed-incomplete-tree"} ELSE {})
                      \cup (IF lastStore # 0 /\ storing = 0 /\ ~(Ev.result = "" /\ Ev.match = V(lastStore))
                            THEN NotVisible(Ev.zombie /\ mutable, Ev.result) ELSE {}))
              /\ UNCHANGED <<traceId, passed, lastStore, storing, overlap, expect, lockVars>>

TraceNext == Sweep \/ Begin \/ End \/ StoreBegin \/ LockAcquired \/ Stored \/ FetchBegin \/ Fetched \/ FinalFetch
TraceSpec == TraceInit /\ [][TraceNext]_vars
TraceAccepted == LET n == TLCGet("stats").diameter - 1 IN PrintT(<<"TRACE_MATCHED", n>>) /\ n = Len(Trace)
=============================================================================
