-------------------------- MODULE SharedCacheTrace --------------------------
(***************************************************************************)
(* C16 - judging recorded executions of the real shared caches.            *)
(*  Sweep events: Store(v2) over an entry holding v1 interrupted at        *)
(*    backend call k (injected error / death of the client), stale-lock    *)
(*    cleaning, then a Fetch by another client.                            *)
(*  Interleaving traces: Begin, StoreBegin/Stored, FetchBegin/Fetched,     *)
(*    FinalFetch of concurrent clients under gated random schedules.       *)
(* The monitor is the one of SharedCache.tla: a successful Fetch installs  *)
(* one complete version that was passed to Store; a Fetch that begins      *)
(* after a successful Store (and before any other Store begins) returns    *)
(* that version.                                                           *)
(***************************************************************************)
EXTENDS Naturals, Sequences, FiniteSets, TLC, Json

Trace == ndJsonDeserialize("trace.ndjson")
Clients == {"A", "B", "C"}

VARIABLES l, traceId, passed, lastStore, storing, overlap, expect, viol, judged
vars == <<l, traceId, passed, lastStore, storing, overlap, expect, viol, judged>>
Ev == Trace[l]
Consume == l <= Len(Trace) /\ l' = l + 1
Verdict == PrintT(<<"VERDICT", ToJson([id |-> traceId, viol |-> viol, judged |-> judged])>>)
V(n) == CASE n = 1 -> "v1" [] n = 2 -> "v2" [] n = 3 -> "v3" [] OTHER -> "v?"
Flag(s) == viol' = viol \cup s

TraceInit == l = 1 /\ traceId = 0 /\ passed = {} /\ lastStore = 0 /\ storing = 0 /\ overlap = FALSE
             /\ expect = [c \in Clients |-> 0] /\ viol = {} /\ judged = 0

Sweep ==
    /\ Consume /\ Ev.op = "Sweep"
    /\ (traceId # 0 => Verdict)
    /\ traceId' = 100000 + l
    /\ judged' = (IF Ev.match = "void" THEN 0 ELSE 1)
    /\ viol' = IF Ev.match = "void" THEN {}
               ELSE (IF Ev.fetch = "" /\ Ev.match \notin {"v1", "v2"} THEN {"fetch-installed-incomplete-tree"} ELSE {})
                    \cup (IF Ev.store = "" /\ ~(Ev.fetch = "" /\ Ev.match = "v2") THEN {"store-success-not-visible"} ELSE {})
    /\ UNCHANGED <<passed, lastStore, storing, overlap, expect>>

Begin == /\ Consume /\ Ev.op = "Begin" /\ (traceId # 0 => Verdict)
         /\ traceId' = Ev.id /\ passed' = {} /\ lastStore' = 0 /\ storing' = 0 /\ overlap' = FALSE
         /\ expect' = [c \in Clients |-> 0] /\ viol' = {} /\ judged' = 0
End == Consume /\ Ev.op = "End" /\ (traceId # 0 => Verdict) /\ UNCHANGED <<traceId, passed, lastStore, storing, overlap, expect, viol, judged>>

StoreBegin == /\ Consume /\ Ev.op = "StoreBegin"
              /\ passed' = passed \cup {Ev.v} /\ storing' = storing + 1 /\ lastStore' = 0
              /\ overlap' = (overlap \/ storing >= 1)     \* Stores that overlap have no defined order
              /\ expect' = [c \in Clients |-> 0]
              /\ UNCHANGED <<traceId, viol, judged>>
\* the baseline Store of v1 is reported without a StoreBegin
Stored == /\ Consume /\ Ev.op = "Stored"
          /\ passed' = passed \cup {Ev.v}
          /\ storing' = (IF storing > 0 /\ Ev.v # 1 THEN storing - 1 ELSE storing)
          /\ lastStore' = (IF Ev.result = "" /\ storing <= 1 /\ ~overlap THEN Ev.v ELSE 0)
          /\ overlap' = (IF storing <= 1 THEN FALSE ELSE overlap)
          /\ UNCHANGED <<traceId, expect, viol, judged>>
FetchBegin == /\ Consume /\ Ev.op = "FetchBegin"
              /\ expect' = [expect EXCEPT ![Ev.c] = IF storing = 0 THEN lastStore ELSE 0]
              /\ UNCHANGED <<traceId, passed, lastStore, storing, overlap, viol, judged>>
Fetched == /\ Consume /\ Ev.op = "Fetched"
           /\ judged' = judged + 1
           /\ Flag((IF Ev.result = "" /\ ~(\E v \in passed : Ev.match = V(v)) THEN {"fetch-installed-incomplete-tree"} ELSE {})
                   \cup (IF Ev.quiet /\ expect[Ev.c] # 0 /\ ~(Ev.result = "" /\ Ev.match = V(expect[Ev.c]))
                         THEN {"store-success-not-visible"} ELSE {}))
           /\ UNCHANGED <<traceId, passed, lastStore, storing, overlap, expect>>
FinalFetch == /\ Consume /\ Ev.op = "FinalFetch"
              /\ judged' = judged + 1
              /\ Flag((IF Ev.result = "" /\ ~(\E v \in passed : Ev.match = V(v)) THEN {"fetch-installed-incomplete-tree"} ELSE {})
                      \cup (IF lastStore # 0 /\ storing = 0 /\ ~(Ev.result = "" /\ Ev.match = V(lastStore))
                            THEN {"store-success-not-visible"} ELSE {}))
              /\ UNCHANGED <<traceId, passed, lastStore, storing, overlap, expect>>

TraceNext == Sweep \/ Begin \/ End \/ StoreBegin \/ Stored \/ FetchBegin \/ Fetched \/ FinalFetch
TraceSpec == TraceInit /\ [][TraceNext]_vars
TraceAccepted == LET n == TLCGet("stats").diameter - 1 IN PrintT(<<"TRACE_MATCHED", n>>) /\ n = Len(Trace)
=============================================================================
