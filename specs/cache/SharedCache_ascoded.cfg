SPECIFICATION Spec
CONSTANTS Clients = {"A", "B"}
          Versions = {1, 2}
          LockBroken = TRUE
          IgnoreSideHashFailure = TRUE
          MaxOps = 4
          UnlockBeforeCleanup = FALSE
INVARIANTS InstalledIsComplete EmitViolations
VIEW View
CHECK_DEADLOCK FALSE
