----------------------------- MODULE SharedCache -----------------------------
(***************************************************************************)
(* C16 - shared cache: a successful Fetch installs one complete stored     *)
(* version.                                                                *)
(*                                                                         *)
(* Remote entry (what lives on the shared filesystem, per key):            *)
(*   zip      the package file as a sequence of chunks, each chunk tagged  *)
(*            with the version it belongs to (<<>> = absent); a complete   *)
(*            package of version v is <<v, v>>                             *)
(*   sidehash the content hash recorded next to it (NoHash or the          *)
(*            sequence it was computed from)                               *)
(*   lock     holder of the entry lock (mutable cache)                     *)
(* Store(v) as coded (TransferFiles under the lock for the mutable kind):  *)
(*   lock; h1 := hash(source);  create/truncate zip;  write chunk 1;       *)
(*   write chunk 2;  h2 := hash(zip) (and record it in sidehash - a        *)
(*   failure of that write is IGNORED);  h1 = h2 ? ok : remove + error;    *)
(*   unlock                                                                *)
(* Fetch as coded:  lock;  h1 := sidehash if present else hash(zip);       *)
(*   copy chunk 1; copy chunk 2 (to a private temp file);  h2 := hash of   *)
(*   the copy;  h1 = h2 ? unzip into destination : error;  unlock          *)
(* Faults: Crash(c) at any step, a failing backend call (FailSideHash is   *)
(* the one the code ignores).  The lock is abstract here (its own protocol *)
(* is C01); LockBroken models the known ways two clients end up inside     *)
(* the critical section together.                                          *)
(***************************************************************************)
EXTENDS Naturals, Sequences, FiniteSets, TLC, Json

CONSTANTS Clients, Versions, LockBroken, IgnoreSideHashFailure, MaxOps,
          UnlockBeforeCleanup   \* FALSE: as coded.  TRUE (sensitivity): a Store whose transfer failed gives the lock back before it removes its package

VARIABLES zip, sidehash, lock,
          pc, ver, h1, copy,          \* per client: program counter, version being stored, first hash, private copy
          installed,                  \* per client: what its last successful Fetch installed
          stored,                     \* versions whose Store returned success, in order of success
          lastStore,                  \* the last Store that returned success and no Store has begun since (0 otherwise)
          passed,                     \* versions passed to a Store call so far
          expect,                     \* per client: the version a Fetch that began now must return (0: unconstrained)
          result,                     \* per client: result of its last call
          faultsLeft, ops, hist, viol

vars == <<zip, sidehash, lock, pc, ver, h1, copy, installed, stored, lastStore, passed, expect, result, faultsLeft, ops, hist, viol>>

NoHash == <<0>>
Complete(v) == <<v, v>>
IsComplete(z) == Len(z) = 2 /\ z[1] = z[2]

Init == /\ zip = <<>> /\ sidehash = NoHash /\ lock = "free"
        /\ pc = [c \in Clients |-> "idle"] /\ ver = [c \in Clients |-> 0]
        /\ h1 = [c \in Clients |-> NoHash] /\ copy = [c \in Clients |-> <<>>]
        /\ installed = [c \in Clients |-> <<>>] /\ stored = <<>> /\ lastStore = 0
        /\ passed = {} /\ expect = [c \in Clients |-> 0]
        /\ result = [c \in Clients |-> "none"] /\ faultsLeft = 1 /\ ops = 0 /\ hist = <<>> /\ viol = {}

Log(c, a) == hist' = Append(hist, [c |-> c, a |-> a])
Goto(c, l) == pc' = [pc EXCEPT ![c] = l]
CanEnter(c) == lock = "free" \/ LockBroken

\* ------------------------------------------------------------------ Store
BeginStore(c, v) ==
    /\ pc[c] = "idle" /\ ops < MaxOps /\ CanEnter(c)
    /\ lock' = c /\ ver' = [ver EXCEPT ![c] = v] /\ Goto(c, "s_trunc") /\ ops' = ops + 1
    /\ h1' = [h1 EXCEPT ![c] = Complete(v)] /\ lastStore' = 0
    /\ UNCHANGED <<zip, sidehash, copy, installed, stored, result, faultsLeft, viol>> /\ Log(c, "BeginStore")
    /\ passed' = passed \cup {v} /\ expect' = [d \in Clients |-> 0]
STrunc(c) == /\ pc[c] = "s_trunc" /\ zip' = <<>> /\ Goto(c, "s_w1")
             /\ UNCHANGED <<sidehash, lock, ver, h1, copy, installed, stored, lastStore, passed, expect, result, faultsLeft, ops, viol>> /\ Log(c, "STrunc")
SWrite1(c) == /\ pc[c] = "s_w1" /\ zip' = <<ver[c]>> /\ Goto(c, "s_w2")
              /\ UNCHANGED <<sidehash, lock, ver, h1, copy, installed, stored, lastStore, passed, expect, result, faultsLeft, ops, viol>> /\ Log(c, "SWrite1")
SWrite2(c) == /\ pc[c] = "s_w2" /\ zip' = (IF Len(zip) >= 1 THEN <<zip[1], ver[c]>> ELSE <<ver[c]>>) /\ Goto(c, "s_hash")
              /\ UNCHANGED <<sidehash, lock, ver, h1, copy, installed, stored, lastStore, passed, expect, result, faultsLeft, ops, viol>> /\ Log(c, "SWrite2")
\* h2 := hash(zip), recorded in the side file; fail: the side file write fails (ignored as coded)
SHash(c, fail) ==
    /\ pc[c] = "s_hash" /\ (fail => faultsLeft > 0)
    /\ faultsLeft' = (IF fail THEN faultsLeft - 1 ELSE faultsLeft)
    /\ sidehash' = (IF fail THEN sidehash ELSE zip)
    /\ IF zip = h1[c]
       THEN IF fail /\ ~IgnoreSideHashFailure
            THEN result' = [result EXCEPT ![c] = "error"] /\ UNCHANGED <<stored, lastStore>>
            ELSE /\ result' = [result EXCEPT ![c] = "ok"] /\ stored' = Append(stored, ver[c])
                 /\ lastStore' = (IF \E d \in Clients \ {c} : pc[d] \in {"s_trunc", "s_w1", "s_w2", "s_hash"} \/ (pc[d] = "s_cleanup" /\ lock = d) THEN 0 ELSE ver[c])
       ELSE result' = [result EXCEPT ![c] = "error"] /\ UNCHANGED <<stored, lastStore>>
    /\ zip' = (IF zip = h1[c] THEN zip ELSE <<>>)          \* mismatch: the package is removed
    /\ lock' = (IF lock = c THEN "free" ELSE lock) /\ Goto(c, "idle")
    /\ UNCHANGED <<ver, h1, copy, installed, passed, expect, ops, viol>> /\ Log(c, IF fail THEN "SHashFailSide" ELSE "SHash")

\* a write of the transfer fails: the Store removes what it has written (by name) and reports the error - as coded still under
\* the lock; with UnlockBeforeCleanup the lock is given back first
SWriteFail(c) ==
    /\ pc[c] \in {"s_w1", "s_w2"} /\ faultsLeft > 0 /\ faultsLeft' = faultsLeft - 1
    /\ Goto(c, "s_cleanup")
    /\ lock' = (IF UnlockBeforeCleanup /\ lock = c THEN "free" ELSE lock)
    /\ UNCHANGED <<zip, sidehash, ver, h1, copy, installed, stored, lastStore, passed, expect, result, ops, viol>> /\ Log(c, "SWriteFail")
SCleanup(c) ==
    /\ pc[c] = "s_cleanup"
    /\ zip' = <<>> /\ result' = [result EXCEPT ![c] = "error"]
    /\ lock' = (IF lock = c THEN "free" ELSE lock) /\ Goto(c, "idle")
    /\ UNCHANGED <<sidehash, ver, h1, copy, installed, stored, lastStore, passed, expect, faultsLeft, ops, viol>> /\ Log(c, "SCleanup")

\* ------------------------------------------------------------------ Fetch
\* nothing there: the Fetch fails ('empty') - a violation when a Store has made its version visible and no Store began since
FetchEmpty(c) ==
    /\ pc[c] = "idle" /\ ops < MaxOps /\ zip = <<>> /\ CanEnter(c) /\ ops' = ops + 1
    /\ result' = [result EXCEPT ![c] = "error"]
    /\ viol' = viol \cup (IF lastStore # 0 THEN {"store-success-not-visible"} ELSE {})
    /\ UNCHANGED <<zip, sidehash, lock, pc, ver, h1, copy, installed, stored, lastStore, passed, expect, faultsLeft>> /\ Log(c, "FetchEmpty")
BeginFetch(c) ==
    /\ pc[c] = "idle" /\ ops < MaxOps /\ zip # <<>> /\ CanEnter(c)
    /\ lock' = c /\ ops' = ops + 1
    /\ h1' = [h1 EXCEPT ![c] = IF sidehash # NoHash THEN sidehash ELSE zip]
    /\ copy' = [copy EXCEPT ![c] = <<>>] /\ Goto(c, "f_c1")
    /\ UNCHANGED <<zip, sidehash, ver, installed, stored, lastStore, passed, result, faultsLeft, viol>> /\ Log(c, "BeginFetch")
    /\ expect' = [expect EXCEPT ![c] = lastStore]
FCopy1(c) == /\ pc[c] = "f_c1" /\ copy' = [copy EXCEPT ![c] = IF Len(zip) >= 1 THEN <<zip[1]>> ELSE <<>>] /\ Goto(c, "f_c2")
             /\ UNCHANGED <<zip, sidehash, lock, ver, h1, installed, stored, lastStore, passed, expect, result, faultsLeft, ops, viol>> /\ Log(c, "FCopy1")
FCopy2(c) == /\ pc[c] = "f_c2" /\ copy' = [copy EXCEPT ![c] = IF Len(zip) >= 2 THEN Append(copy[c], zip[2]) ELSE copy[c]] /\ Goto(c, "f_check")
             /\ UNCHANGED <<zip, sidehash, lock, ver, h1, installed, stored, lastStore, passed, expect, result, faultsLeft, ops, viol>> /\ Log(c, "FCopy2")
FCheck(c) ==
    /\ pc[c] = "f_check"
    /\ LET ok == copy[c] = h1[c] /\ IsComplete(copy[c]) IN      \* hashes agree and the archive can be unpacked
       /\ result' = [result EXCEPT ![c] = IF ok THEN "ok" ELSE "error"]
       /\ installed' = [installed EXCEPT ![c] = IF ok THEN copy[c] ELSE <<>>]
       /\ viol' = viol \cup
            (IF ok /\ ~(\E v \in passed : copy[c] = Complete(v)) THEN {"fetch-installed-unstored-version"} ELSE {})
            \cup (IF expect[c] # 0 /\ (~ok \/ copy[c] # Complete(expect[c])) THEN {"store-success-not-visible"} ELSE {})
    /\ lock' = (IF lock = c THEN "free" ELSE lock) /\ Goto(c, "idle")
    /\ UNCHANGED <<zip, sidehash, ver, h1, copy, stored, lastStore, passed, expect, faultsLeft, ops>> /\ Log(c, "FCheck")

\* ------------------------------------------------------------------ faults
Crash(c) == /\ pc[c] \notin {"idle", "dead"} /\ faultsLeft > 0 /\ faultsLeft' = faultsLeft - 1
            /\ Goto(c, "dead") /\ lock' = (IF lock = c THEN "free" ELSE lock)    \* the stale lock is cleaned (C17)
            /\ UNCHANGED <<zip, sidehash, ver, h1, copy, installed, stored, lastStore, passed, expect, result, ops, viol>> /\ Log(c, "Crash")

Next == viol = {} /\ \E c \in Clients :
           \/ \E v \in Versions : BeginStore(c, v)
           \/ STrunc(c) \/ SWrite1(c) \/ SWrite2(c) \/ SHash(c, FALSE) \/ SHash(c, TRUE) \/ SWriteFail(c) \/ SCleanup(c)
           \/ BeginFetch(c) \/ FetchEmpty(c) \/ FCopy1(c) \/ FCopy2(c) \/ FCheck(c) \/ Crash(c)
Spec == Init /\ [][Next]_vars

\* a successful Fetch installed exactly one complete version
InstalledIsComplete == \A c \in Clients : installed[c] # <<>> => IsComplete(installed[c])
NoViolation == viol = {}
View == <<zip, sidehash, lock, pc, ver, h1, copy, installed, stored, lastStore, passed, expect, result, faultsLeft, ops, viol>>
EmitViolations == viol # {} => PrintT(<<"BEHAVIOUR", ToJson([viol |-> viol, sched |-> hist])>>)
=============================================================================
