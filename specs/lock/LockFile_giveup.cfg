SPECIFICATION Spec
CONSTANTS Procs = {"A", "B"}
          OverrideProcs = {}
          LockProcs = {"B"}
          MaxCycles = 2
          MaxRetry = 1
          MaxDeaths = 0
          MaxTicks = 0
          Deviations = {"GiveUpCleans", "PathRemove"}
          ImplicitParent = FALSE
INVARIANTS EmitViolations MutualExclusion
VIEW View
CHECK_DEADLOCK FALSE
