SPECIFICATION Spec
CONSTANTS P = 4
          J = 2
          Horizon = 40
          ListFailureUsesDirAge = FALSE
          SweepStopsWriter = TRUE
          StopOnWriteError = FALSE
          MaxFaults = 0
INVARIANTS LiveNeverStale DeadBecomesStale
CHECK_DEADLOCK FALSE
