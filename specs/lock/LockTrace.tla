------------------------------ MODULE LockTrace ------------------------------
(***************************************************************************)
(* C01 - judging recorded executions of the real RemoteLockFile.           *)
(*                                                                         *)
(* The harness (vh c01 replay / random) drives real lock objects through   *)
(* the filesystem gate, so the log of backend calls is totally ordered and *)
(* every effect is attributed to a contender.  The log is projected to the *)
(* events below; this specification replays them on the monitor state of   *)
(* LockMonitor.tla and, at the end of each trace, prints the set of causal *)
(* signatures that occurred (VERDICT).  Nothing is "rejected" for being a  *)
(* violation - every trace is judged to its end; an event that no action   *)
(* matches means the projection and this specification disagree (reported  *)
(* as inconclusive by the checker, not as a violation).                    *)
(***************************************************************************)
EXTENDS LockMonitor, Json

Trace == ndJsonDeserialize("trace.ndjson")

VARIABLES l, traceId, implicit

tvars == <<mvars, l, traceId, implicit>>
Ev == Trace[l]

TraceInit == MInit /\ l = 1 /\ traceId = 0 /\ implicit = FALSE

Consume == l <= Len(Trace) /\ l' = l + 1
Keep == UNCHANGED <<traceId, implicit>>
Verdict == PrintT(<<"VERDICT", ToJson([id |-> traceId, viol |-> viol])>>)

Reset == /\ Consume /\ Ev.op = "Reset"
         /\ (traceId # 0 => Verdict)
         /\ traceId' = Ev.id /\ implicit' = Ev.implicit
         /\ dir' = 0 /\ hb' = FALSE /\ dirStale' = FALSE /\ hbStale' = FALSE /\ gen' = 0 /\ creator' = <<>>
         /\ holds' = [p \in Procs |-> FALSE] /\ hbOn' = [p \in Procs |-> FALSE] /\ alive' = [p \in Procs |-> TRUE]
         /\ acquiring' = [p \in Procs |-> 0] /\ ownGen' = [p \in Procs |-> 0]
         /\ decidedGen' = [p \in Procs |-> 0] /\ sawStale' = [p \in Procs |-> FALSE] /\ rechecked' = [p \in Procs |-> FALSE]
         /\ relStartGen' = [p \in Procs |-> 0] /\ lifeSince' = [p \in Procs |-> FALSE] /\ stalled' = [p \in Procs |-> FALSE]
         /\ viol' = {}

End == /\ Consume /\ Ev.op = "End" /\ (traceId # 0 => Verdict) /\ UNCHANGED mvars /\ Keep

Flag(s) == viol' = viol \cup s

MkdirOk == /\ Consume /\ Ev.op = "MkdirOk" /\ Keep
           /\ IF dir = 0 THEN MMkdirOk(Ev.p)
              ELSE \* the backend let a second contender "create" the directory that exists: no exclusive creation
                   /\ Flag({"acquire-without-exclusive-create"})
                   /\ acquiring' = [acquiring EXCEPT ![Ev.p] = dir] /\ ownGen' = [ownGen EXCEPT ![Ev.p] = dir]
                   /\ UNCHANGED <<dir, hb, dirStale, hbStale, gen, creator, holds, hbOn, alive, decidedGen, sawStale, rechecked, relStartGen, lifeSince, stalled>>

MkdirFail == Consume /\ Ev.op = "MkdirFail" /\ UNCHANGED mvars /\ Keep
TouchDir == Consume /\ Ev.op = "TouchDir" /\ MTouchDir /\ Keep

Beat == /\ Consume /\ Ev.op = "Beat" /\ Keep
        /\ IF Ev.kind = "open" THEN MBeat(Ev.p, Ev.dirNow)   \* dirNow: the backend (re-)created the directory, as observed
           ELSE /\ hbStale' = (IF hb THEN FALSE ELSE hbStale)
                /\ lifeSince' = (IF hb THEN [q \in Procs |-> TRUE] ELSE lifeSince)
                /\ UNCHANGED <<dir, hb, dirStale, gen, creator, holds, hbOn, alive, acquiring, ownGen, decidedGen, sawStale, rechecked, relStartGen, stalled, viol>>

RemoveHbOk == Consume /\ Ev.op = "RemoveHbOk" /\ MRemoveHb /\ Keep

RemoveDirOk == /\ Consume /\ Ev.op = "RemoveDirOk" /\ Keep
               /\ IF dir # 0
                  THEN /\ Flag(RemovalVerdict(Ev.p, Ev.takeover))
                       /\ dir' = 0 /\ hb' = FALSE /\ dirStale' = FALSE
                       /\ UNCHANGED <<hbStale, gen, creator, holds, hbOn, alive, acquiring, ownGen, decidedGen, sawStale, rechecked, relStartGen, lifeSince, stalled>>
                  ELSE UNCHANGED mvars

Decide == Consume /\ Ev.op = "Decide" /\ MDecide(Ev.p, Ev.aged, Ev.kind = "stale2") /\ Keep

AcquireOk == /\ Consume /\ Ev.op = "AcquireOk" /\ Keep
             /\ LET others == {q \in Procs \ {Ev.p} : holds[q] /\ alive[q] /\ hbOn[q]}
                    dbl == IF others = {} THEN {}
                           ELSE IF viol \cap RootCauses = {} THEN {"double-holder-unexplained"} ELSE {"double-holder"}
                    noCreate == IF acquiring[Ev.p] = 0 THEN {"acquire-without-exclusive-create"} ELSE {}
                IN Flag(dbl \cup noCreate)
             /\ holds' = [holds EXCEPT ![Ev.p] = TRUE] /\ hbOn' = [hbOn EXCEPT ![Ev.p] = TRUE]
             /\ acquiring' = [acquiring EXCEPT ![Ev.p] = 0]
             /\ UNCHANGED <<dir, hb, dirStale, hbStale, gen, creator, alive, ownGen, decidedGen, sawStale, rechecked, relStartGen, lifeSince, stalled>>

AcquireFail == /\ Consume /\ Ev.op = "AcquireFail" /\ Keep
               /\ Flag(IF Ev.kind = "stalelock" /\ ~sawStale[Ev.p] THEN {"fresh-lock-reported-stale"} ELSE {})
               /\ acquiring' = [acquiring EXCEPT ![Ev.p] = 0]
               /\ UNCHANGED <<dir, hb, dirStale, hbStale, gen, creator, holds, hbOn, alive, ownGen, decidedGen, sawStale, rechecked, relStartGen, lifeSince, stalled>>

ReleaseBegin == Consume /\ Ev.op = "ReleaseBegin" /\ MReleaseBegin(Ev.p) /\ Keep
Quiet == Consume /\ Ev.op \in {"ReleaseEnd", "TakeoverBegin", "TakeoverEnd"} /\ UNCHANGED mvars /\ Keep
\* the in-memory backend broke down (afero MemMapFs panics on an orphaned child): the rest of the trace is void
BackendPanic == /\ Consume /\ Ev.op = "BackendPanic" /\ Keep /\ Flag({"backend-panic"})
                /\ UNCHANGED <<dir, hb, dirStale, hbStale, gen, creator, holds, hbOn, alive, acquiring, ownGen, decidedGen, sawStale, rechecked, relStartGen, lifeSince, stalled>>
Tick == Consume /\ Ev.op = "Tick" /\ Keep /\ (IF dir # 0 THEN MTick ELSE UNCHANGED mvars)
Die == Consume /\ Ev.op = "Die" /\ MDie(Ev.p) /\ Keep

TraceNext == Reset \/ End \/ MkdirOk \/ MkdirFail \/ TouchDir \/ Beat \/ RemoveHbOk \/ RemoveDirOk \/ Decide
             \/ AcquireOk \/ AcquireFail \/ ReleaseBegin \/ Quiet \/ BackendPanic \/ Tick \/ Die
TraceSpec == TraceInit /\ [][TraceNext]_tvars
TraceAccepted == LET n == TLCGet("stats").diameter - 1 IN PrintT(<<"TRACE_MATCHED", n>>) /\ n = Len(Trace)
=============================================================================
