SPECIFICATION Spec
CONSTANTS P = 4
          J = 2
          Horizon = 40
          ListFailureUsesDirAge = TRUE
          SweepStopsWriter = FALSE
          StopOnWriteError = FALSE
          MaxFaults = 0
INVARIANTS LiveNeverReportedStale
CHECK_DEADLOCK FALSE
