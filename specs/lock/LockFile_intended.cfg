SPECIFICATION Spec
CONSTANTS Procs = {"A", "B"}
          OverrideProcs = {"A", "B"}
          LockProcs = {"B"}
          MaxCycles = 2
          MaxRetry = 1
          MaxDeaths = 1
          MaxTicks = 2
          Deviations = {}
          ImplicitParent = FALSE
INVARIANTS NoViolation MutualExclusion
VIEW View
CHECK_DEADLOCK FALSE
