------------------------------ MODULE LockFile ------------------------------
(***************************************************************************)
(* C01 - implementation-shaped model of RemoteLockFile (lockfile.go).      *)
(*                                                                         *)
(* One action per *mutating* backend call and one per block of *deciding*  *)
(* reads - the grain at which another contender can interleave:            *)
(*                                                                         *)
(*  TryLock:  Mkdir -> ok: Chtimes(dir), spawn heartbeat, return           *)
(*                  -> exists: Stale1 (IsStale)                            *)
(*                        not stale: Locked (Lock(): poll again)           *)
(*                        stale, no override: StaleLock                    *)
(*                        stale, override: Stale2 (ReleaseIfStale re-check)*)
(*                             stale: Unlock (scan, rm hb, re-check,       *)
(*                                    rm dir, exists?) then TryLock again  *)
(*  Unlock:   cancel heartbeat, then up to MaxRetry times                  *)
(*            [ UScan -> URmHb -> URecheck -> URmDir ] -> UExists          *)
(*            (UExists present => retry: deviation ReleaseRetry)           *)
(*  heartbeat writer: HbOpen (create/truncate/write) -> HbChtimes -> sleep *)
(*  Tick: two periods pass without refresh.   Die(p): p stops for ever.    *)
(*                                                                         *)
(* Deviations (the code as it is has all of them; Intended = {}):          *)
(*   ReleaseRetry    Unlock re-checks existence after its removal and      *)
(*                   removes again                                         *)
(*   PathRemove      a releaser removes whatever directory is at the path  *)
(*                   (Intended: only the generation it owns)               *)
(*   SplitTakeover   staleness decision and removal are separate steps     *)
(*                   (Intended: one atomic step on the judged generation)  *)
(*   Stall           a contender may be suspended for more than two        *)
(*                   periods inside an acquire or a release                *)
(* GiveUp(p): a blocking acquire (Lock under LockWithTimeout, or with a    *)
(* cancelled context) stops polling and returns without the lock: nothing  *)
(* on the filesystem changes.  The deviation GiveUpCleans (not in the code *)
(* as it is; a sensitivity configuration) has the contender "clean up" by  *)
(* running the release steps on its way out - on whatever is at the path.  *)
(***************************************************************************)
EXTENDS LockMonitor, Json

CONSTANTS OverrideProcs,   \* contenders created with overrideStaleLock
          LockProcs,       \* contenders using the blocking Lock (others: TryLock)
          MaxCycles,       \* acquire attempts per contender
          MaxRetry,        \* retries of the release loop
          MaxDeaths,
          MaxTicks,
          Deviations,
          ImplicitParent   \* the backend re-creates a missing directory on file creation (in-memory backend)

VARIABLES pc, takeover, retries, cycles, hbpc, deaths, ticks, sched

lvars == <<pc, takeover, retries, cycles, hbpc, deaths, ticks>>
vars == <<mvars, lvars, sched>>

Critical == {"chtimes", "stale2", "u_scan", "u_rmhb", "u_recheck", "u_rmdir", "u_exists"}

Init == /\ MInit
        /\ pc = [p \in Procs |-> "idle"] /\ takeover = [p \in Procs |-> FALSE]
        /\ retries = [p \in Procs |-> 0] /\ cycles = [p \in Procs |-> 0]
        /\ hbpc = [p \in Procs |-> "off"] /\ deaths = 0 /\ ticks = 0 /\ sched = <<>>

Log(p, a) == sched' = Append(sched, [p |-> p, a |-> a])
Goto(p, l) == pc' = [pc EXCEPT ![p] = l]
Same(vs) == UNCHANGED vs

(***************************************************************************)
(* Acquire                                                                 *)
(***************************************************************************)
StartAcquire(p) ==
    /\ alive[p] /\ pc[p] = "idle" /\ ~holds[p] /\ cycles[p] < MaxCycles
    /\ Goto(p, "mkdir") /\ cycles' = [cycles EXCEPT ![p] = @ + 1]
    /\ takeover' = [takeover EXCEPT ![p] = FALSE]
    /\ UNCHANGED <<mvars, retries, hbpc, deaths, ticks>> /\ Log(p, "StartAcquire")

Mkdir(p) ==
    /\ alive[p] /\ pc[p] = "mkdir"
    /\ IF dir = 0
       THEN MMkdirOk(p) /\ Goto(p, "chtimes")
       ELSE UNCHANGED mvars /\ Goto(p, "stale1")
    /\ UNCHANGED <<takeover, retries, cycles, hbpc, deaths, ticks>> /\ Log(p, "Mkdir")

\* IsStale() called from TryLock
Stale1(p) ==
    /\ alive[p] /\ pc[p] = "stale1"
    /\ MDecide(p, LooksStale, FALSE)
    /\ IF ~LooksStale
       THEN Goto(p, IF p \in LockProcs THEN "mkdir" ELSE "idle")    \* ErrLocked: Lock() polls, TryLock returns
       ELSE IF p \in OverrideProcs THEN Goto(p, "stale2") ELSE Goto(p, "idle")   \* ErrStaleLock
    /\ UNCHANGED <<takeover, retries, cycles, hbpc, deaths, ticks>> /\ Log(p, "Stale1")

\* a polling contender gives up (time-out / cancellation) between two attempts
GiveUp(p) ==
    /\ alive[p] /\ pc[p] = "mkdir" /\ p \in LockProcs /\ dir # 0
    /\ IF "GiveUpCleans" \in Deviations
       THEN Goto(p, "u_scan") /\ takeover' = [takeover EXCEPT ![p] = FALSE] /\ retries' = [retries EXCEPT ![p] = 0]
            /\ relStartGen' = [relStartGen EXCEPT ![p] = gen]
            /\ UNCHANGED <<dir, hb, dirStale, hbStale, gen, creator, holds, hbOn, alive, acquiring, ownGen, decidedGen, sawStale, rechecked, lifeSince, stalled, viol>>
       ELSE Goto(p, "idle") /\ UNCHANGED <<mvars, takeover, retries>>
    /\ UNCHANGED <<cycles, hbpc, deaths, ticks>> /\ Log(p, "GiveUp")

\* IsStale() called from ReleaseIfStale, then (as coded) the separate removal steps
Stale2(p) ==
    /\ alive[p] /\ pc[p] = "stale2" /\ "SplitTakeover" \in Deviations
    /\ MDecide(p, LooksStale, TRUE)
    /\ IF LooksStale
       THEN Goto(p, "u_scan") /\ takeover' = [takeover EXCEPT ![p] = TRUE] /\ retries' = [retries EXCEPT ![p] = 0]
       ELSE Goto(p, "mkdir") /\ UNCHANGED <<takeover, retries>>
    /\ UNCHANGED <<cycles, hbpc, deaths, ticks>> /\ Log(p, "Stale2")

\* Intended: decision and removal of the judged generation in one atomic step
AtomicTakeover(p) ==
    /\ alive[p] /\ pc[p] = "stale2" /\ "SplitTakeover" \notin Deviations
    /\ IF LooksStale
       THEN /\ dir' = 0 /\ hb' = FALSE /\ dirStale' = FALSE /\ hbStale' = FALSE
            /\ decidedGen' = [decidedGen EXCEPT ![p] = dir] /\ sawStale' = [sawStale EXCEPT ![p] = TRUE]
            /\ rechecked' = [rechecked EXCEPT ![p] = TRUE]
            /\ lifeSince' = [lifeSince EXCEPT ![p] = FALSE]
            /\ UNCHANGED <<gen, creator, holds, hbOn, alive, acquiring, ownGen, relStartGen, stalled, viol>>
       ELSE UNCHANGED mvars
    /\ Goto(p, "mkdir")
    /\ UNCHANGED <<takeover, retries, cycles, hbpc, deaths, ticks>> /\ Log(p, "AtomicTakeover")

\* Chtimes on the new directory, heartbeat started, success returned
Chtimes(p) ==
    /\ alive[p] /\ pc[p] = "chtimes"
    /\ dirStale' = (IF dir # 0 THEN FALSE ELSE dirStale)
    /\ LET others == {q \in Procs \ {p} : holds[q] /\ alive[q] /\ hbOn[q]} IN
       viol' = viol \cup (IF others = {} THEN {}
                          ELSE IF viol \cap RootCauses = {} THEN {"double-holder-unexplained"} ELSE {"double-holder"})
    /\ holds' = [holds EXCEPT ![p] = TRUE] /\ hbOn' = [hbOn EXCEPT ![p] = TRUE]
    /\ acquiring' = [acquiring EXCEPT ![p] = 0]
    /\ lifeSince' = (IF dir # 0 THEN [q \in Procs |-> TRUE] ELSE lifeSince)
    /\ UNCHANGED <<dir, hb, hbStale, gen, creator, alive, ownGen, decidedGen, sawStale, rechecked, relStartGen, stalled>>
    /\ Goto(p, "hold") /\ hbpc' = [hbpc EXCEPT ![p] = "open"]
    /\ UNCHANGED <<takeover, retries, cycles, deaths, ticks>> /\ Log(p, "Chtimes")

(***************************************************************************)
(* Release                                                                 *)
(***************************************************************************)
BeginRelease(p) ==
    /\ alive[p] /\ pc[p] = "hold"
    /\ MReleaseBegin(p)
    /\ Goto(p, "u_scan") /\ takeover' = [takeover EXCEPT ![p] = FALSE] /\ retries' = [retries EXCEPT ![p] = 0]
    /\ UNCHANGED <<cycles, hbpc, deaths, ticks>> /\ Log(p, "BeginRelease")

AfterUnlock(p) == IF takeover[p] THEN "mkdir" ELSE "idle"

\* Rm: Exists / IsDir / IsEmpty / listing
UScan(p) ==
    /\ alive[p] /\ pc[p] = "u_scan"
    /\ Goto(p, IF dir = 0 THEN "u_exists" ELSE IF hb THEN "u_rmhb" ELSE "u_rmdir")
    /\ UNCHANGED <<mvars, takeover, retries, cycles, hbpc, deaths, ticks>> /\ Log(p, "UScan")

URmHb(p) ==
    /\ alive[p] /\ pc[p] = "u_rmhb"
    /\ MRemoveHb /\ Goto(p, "u_recheck")
    /\ UNCHANGED <<takeover, retries, cycles, hbpc, deaths, ticks>> /\ Log(p, "URmHb")

\* IsEmpty again: a heartbeat written meanwhile keeps the directory
URecheck(p) ==
    /\ alive[p] /\ pc[p] = "u_recheck"
    /\ Goto(p, IF dir # 0 /\ ~hb THEN "u_rmdir" ELSE "u_exists")
    /\ UNCHANGED <<mvars, takeover, retries, cycles, hbpc, deaths, ticks>> /\ Log(p, "URecheck")

Retry(p) == IF retries[p] < MaxRetry
            THEN Goto(p, "u_scan") /\ retries' = [retries EXCEPT ![p] = @ + 1]
            ELSE Goto(p, AfterUnlock(p)) /\ UNCHANGED retries

URmDir(p) ==
    /\ alive[p] /\ pc[p] = "u_rmdir"
    /\ IF dir # 0 /\ ~hb /\ ("PathRemove" \in Deviations \/ takeover[p] \/ dir = ownGen[p])
       THEN /\ MRemoveDirOk(p, takeover[p])
            /\ IF "ReleaseRetry" \in Deviations THEN Goto(p, "u_exists") ELSE Goto(p, AfterUnlock(p))
            /\ UNCHANGED retries
       ELSE /\ UNCHANGED mvars          \* Remove fails (not empty / absent / not ours): error, the loop retries
            /\ Retry(p)
    /\ UNCHANGED <<takeover, cycles, hbpc, deaths, ticks>> /\ Log(p, "URmDir")

\* "if fs.Exists(lockPath) -> error -> retry"
UExists(p) ==
    /\ alive[p] /\ pc[p] = "u_exists"
    /\ IF dir = 0 THEN Goto(p, AfterUnlock(p)) /\ UNCHANGED retries
       ELSE IF "ReleaseRetry" \in Deviations THEN Retry(p)
       ELSE Goto(p, AfterUnlock(p)) /\ UNCHANGED retries
    /\ UNCHANGED <<mvars, takeover, cycles, hbpc, deaths, ticks>> /\ Log(p, "UExists")

(***************************************************************************)
(* Heartbeat writer of p (runs while its context lives; a step already     *)
(* past the context check is still performed after cancellation)           *)
(***************************************************************************)
HbOpen(p) ==
    /\ alive[p] /\ hbpc[p] = "open"
    /\ MBeat(p, ImplicitParent) /\ hbpc' = [hbpc EXCEPT ![p] = "chtimes"]
    /\ UNCHANGED <<pc, takeover, retries, cycles, deaths, ticks>> /\ Log(p, "HbOpen")

HbChtimes(p) ==
    /\ alive[p] /\ hbpc[p] = "chtimes"
    /\ hbStale' = (IF hb THEN FALSE ELSE hbStale)
    /\ lifeSince' = (IF hb THEN [q \in Procs |-> TRUE] ELSE lifeSince)
    /\ UNCHANGED <<dir, hb, dirStale, gen, creator, holds, hbOn, alive, acquiring, ownGen, decidedGen, sawStale, rechecked, relStartGen, stalled, viol>>
    /\ hbpc' = [hbpc EXCEPT ![p] = "sleep"]
    /\ UNCHANGED <<pc, takeover, retries, cycles, deaths, ticks>> /\ Log(p, "HbChtimes")

HbWake(p) ==
    /\ alive[p] /\ hbpc[p] = "sleep"
    /\ hbpc' = [hbpc EXCEPT ![p] = IF hbOn[p] THEN "open" ELSE "off"]
    /\ UNCHANGED <<mvars, pc, takeover, retries, cycles, deaths, ticks>> /\ Log(p, "HbWake")

(***************************************************************************)
(* Environment                                                             *)
(***************************************************************************)
\* no live heartbeat keeps the lock fresh, and (unless Stall) nobody is suspended inside a critical window
Tick ==
    /\ ticks < MaxTicks
    /\ \A p \in Procs : alive[p] => (~hbOn[p] /\ hbpc[p] \in {"off", "sleep"})
    /\ ("Stall" \in Deviations \/ \A p \in Procs : alive[p] => pc[p] \notin Critical)
    /\ ~LooksStale
    /\ MTick /\ ticks' = ticks + 1
    /\ UNCHANGED <<pc, takeover, retries, cycles, hbpc, deaths>> /\ Log("env", "Tick")

Die(p) ==
    /\ alive[p] /\ deaths < MaxDeaths /\ pc[p] # "idle"
    /\ MDie(p) /\ deaths' = deaths + 1 /\ hbpc' = [hbpc EXCEPT ![p] = "off"]
    /\ UNCHANGED <<pc, takeover, retries, cycles, ticks>> /\ Log(p, "Die")

Step(p) == StartAcquire(p) \/ Mkdir(p) \/ GiveUp(p) \/ Stale1(p) \/ Stale2(p) \/ AtomicTakeover(p) \/ Chtimes(p)
           \/ BeginRelease(p) \/ UScan(p) \/ URmHb(p) \/ URecheck(p) \/ URmDir(p) \/ UExists(p)
           \/ HbOpen(p) \/ HbChtimes(p) \/ HbWake(p) \/ Die(p)

\* exploration stops at the first violation (the schedule up to it is what gets replayed)
Next == viol = {} /\ ((\E p \in Procs : Step(p)) \/ Tick)

Spec == Init /\ [][Next]_vars

View == <<mvars, lvars>>
Scenario == [procs |-> Procs, override |-> OverrideProcs, lockers |-> LockProcs, implicitParent |-> ImplicitParent,
             viol |-> viol, sched |-> sched]
EmitViolations == viol # {} => PrintT(<<"BEHAVIOUR", ToJson(Scenario)>>)
=============================================================================
