SPECIFICATION Spec
CONSTANTS P = 4
          J = 2
          Horizon = 40
          ListFailureUsesDirAge = FALSE
          SweepStopsWriter = FALSE
          StopOnWriteError = FALSE
          MaxFaults = 1
INVARIANTS LiveNeverReportedStale LiveNeverStale DeadBecomesStale
CHECK_DEADLOCK FALSE
