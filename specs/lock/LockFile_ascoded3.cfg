SPECIFICATION Spec
CONSTANTS Procs = {"A", "B", "C"}
          OverrideProcs = {"A", "B"}
          LockProcs = {"C"}
          MaxCycles = 1
          MaxRetry = 1
          MaxDeaths = 1
          MaxTicks = 1
          Deviations = {"ReleaseRetry", "PathRemove", "SplitTakeover", "Stall"}
          ImplicitParent = FALSE
INVARIANTS EmitViolations
VIEW View
CHECK_DEADLOCK FALSE
