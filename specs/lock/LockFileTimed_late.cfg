SPECIFICATION Spec
CONSTANTS P = 4
          J = 9
          Horizon = 40
INVARIANTS LiveNeverStale DeadBecomesStale
CHECK_DEADLOCK FALSE
