SPECIFICATION Spec
CONSTANTS P = 4
          J = 9
          Horizon = 40
          ListFailureUsesDirAge = FALSE
          SweepStopsWriter = FALSE
          StopOnWriteError = FALSE
          MaxFaults = 1
INVARIANTS LiveNeverStale DeadBecomesStale
CHECK_DEADLOCK FALSE
