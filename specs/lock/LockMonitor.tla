---------------------------- MODULE LockMonitor ----------------------------
(***************************************************************************)
(* C01 - the shared state of the directory lock (utils/filesystem          *)
(* lockfile.go) and the property monitor, used both by the                 *)
(* implementation-shaped model LockFile.tla and by the trace specification *)
(* LockTrace.tla that judges recorded executions of the real code.         *)
(*                                                                         *)
(* Shared state = what lives on the filesystem: the lock directory (dir =  *)
(* 0 when absent, otherwise the *generation* number of the Mkdir that      *)
(* created it - a ghost), the heartbeat file inside it, and their ages     *)
(* (stale = older than two heartbeat periods).  Per contender the monitor  *)
(* keeps what the statement talks about: who holds, whose heartbeat runs,  *)
(* which generation a staleness decision looked at, when a release began.  *)
(*                                                                         *)
(* viol collects causal signatures:                                        *)
(*   release-removes-successor  a releaser's Remove destroyed a lock       *)
(*        directory created after its release had begun                    *)
(*   takeover-decision-outdated  a takeover removed the generation it had  *)
(*        judged stale although a sign of life was written in between      *)
(*   stale-takeover-double   a takeover removed a generation other than    *)
(*        the one it had judged stale                                      *)
(*   slow-acquirer-overtaken a takeover removed a directory whose creator  *)
(*        had been suspended for two periods between its Mkdir and return  *)
(*   fresh-lock-taken-over   a takeover although the deciding reads saw no *)
(*        stale time stamp                                                 *)
(*   takeover-without-recheck  a takeover whose removal was not preceded   *)
(*        by the staleness re-check of ReleaseIfStale                      *)
(*   double-holder[-unexplained]  an acquire returned success while        *)
(*        another live holder with a running heartbeat had not begun to    *)
(*        release (unexplained: none of the root causes above preceded it) *)
(***************************************************************************)
EXTENDS Naturals, Sequences, FiniteSets, TLC

CONSTANT Procs

VARIABLES dir, hb, dirStale, hbStale,       \* filesystem
          gen, creator,                     \* ghost: generation counter, creator of each generation
          holds, hbOn, alive,               \* contender status
          acquiring, ownGen,                \* generation created and not yet confirmed / last generation created
          decidedGen, sawStale, rechecked,  \* last staleness decision: generation looked at, stale stamp seen, made by the re-check of ReleaseIfStale
          relStartGen,                      \* value of gen when the contender's own release began
          stalled,                          \* ghost: two periods passed while the contender sat between its Mkdir and its return
          lifeSince,                        \* ghost: a sign of life was written since the contender's last staleness decision
          viol

mvars == <<dir, hb, dirStale, hbStale, gen, creator, holds, hbOn, alive, acquiring, ownGen, decidedGen, sawStale, rechecked, relStartGen, lifeSince, stalled, viol>>

RootCauses == {"takeover-without-recheck", "release-removes-successor", "stale-takeover-double", "takeover-decision-outdated", "slow-acquirer-overtaken", "fresh-lock-taken-over"}

MInit == /\ dir = 0 /\ hb = FALSE /\ dirStale = FALSE /\ hbStale = FALSE
         /\ gen = 0 /\ creator = <<>>
         /\ holds = [p \in Procs |-> FALSE] /\ hbOn = [p \in Procs |-> FALSE] /\ alive = [p \in Procs |-> TRUE]
         /\ acquiring = [p \in Procs |-> 0] /\ ownGen = [p \in Procs |-> 0]
         /\ decidedGen = [p \in Procs |-> 0] /\ sawStale = [p \in Procs |-> FALSE] /\ rechecked = [p \in Procs |-> FALSE]
         /\ relStartGen = [p \in Procs |-> 0]
         /\ lifeSince = [p \in Procs |-> FALSE] /\ stalled = [p \in Procs |-> FALSE]
         /\ viol = {}

\* what IsStale() computes from the filesystem
LooksStale == dir # 0 /\ (IF hb THEN hbStale ELSE dirStale)

\* --- filesystem mutations -------------------------------------------------------------------
\* successful Mkdir of the lock directory by p
MMkdirOk(p) ==
    /\ dir = 0
    /\ gen' = gen + 1 /\ dir' = gen + 1 /\ creator' = Append(creator, p)
    /\ hb' = FALSE /\ dirStale' = FALSE /\ hbStale' = FALSE
    /\ acquiring' = [acquiring EXCEPT ![p] = gen + 1] /\ ownGen' = [ownGen EXCEPT ![p] = gen + 1]
    /\ lifeSince' = [q \in Procs |-> TRUE]
    /\ stalled' = [stalled EXCEPT ![p] = FALSE]
    /\ UNCHANGED <<holds, hbOn, alive, decidedGen, sawStale, rechecked, relStartGen, viol>>

\* Chtimes on the lock directory (refreshes it if it exists)
MTouchDir == /\ dirStale' = (IF dir # 0 THEN FALSE ELSE dirStale)
             /\ lifeSince' = (IF dir # 0 THEN [q \in Procs |-> TRUE] ELSE lifeSince)
             /\ UNCHANGED <<dir, hb, hbStale, gen, creator, holds, hbOn, alive, acquiring, ownGen, decidedGen, sawStale, rechecked, relStartGen, stalled, viol>>

\* heartbeat file created / truncated / written / re-stamped by p's heartbeat writer.
\* implicitParent: the backend re-creates a missing lock directory (in-memory backend)
MBeat(p, implicitParent) ==
    /\ IF dir # 0
       THEN /\ hb' = TRUE /\ hbStale' = FALSE /\ UNCHANGED <<dir, gen, creator, dirStale>>
       ELSE IF implicitParent
            THEN /\ gen' = gen + 1 /\ dir' = gen + 1 /\ creator' = Append(creator, p)
                 /\ hb' = TRUE /\ hbStale' = FALSE /\ dirStale' = FALSE
            ELSE UNCHANGED <<dir, hb, hbStale, gen, creator, dirStale>>
    /\ lifeSince' = (IF dir # 0 \/ implicitParent THEN [q \in Procs |-> TRUE] ELSE lifeSince)
    /\ UNCHANGED <<holds, hbOn, alive, acquiring, ownGen, decidedGen, sawStale, rechecked, relStartGen, stalled, viol>>

\* the heartbeat file is removed
MRemoveHb == /\ hb' = FALSE
             /\ UNCHANGED <<dir, dirStale, hbStale, gen, creator, holds, hbOn, alive, acquiring, ownGen, decidedGen, sawStale, rechecked, relStartGen, lifeSince, stalled, viol>>

\* signatures raised by the removal of the lock directory by p
RemovalVerdict(p, takeover) ==
    LET g == dir
        c == creator[g]
    IN IF takeover
       THEN IF ~rechecked[p] THEN {"takeover-without-recheck"}
            ELSE IF ~sawStale[p] THEN {"fresh-lock-taken-over"}
            ELSE IF decidedGen[p] # g THEN {"stale-takeover-double"}
            ELSE IF lifeSince[p] THEN {"takeover-decision-outdated"}
            ELSE IF alive[c] /\ ownGen[c] = g /\ stalled[c] THEN {"slow-acquirer-overtaken"}
            ELSE {}
       ELSE IF g # ownGen[p] /\ g > relStartGen[p] /\ c # p THEN {"release-removes-successor"}
            ELSE {}

\* successful Remove of the (empty) lock directory by p; takeover = inside an acquire / ReleaseIfStale
MRemoveDirOk(p, takeover) ==
    /\ dir # 0 /\ ~hb
    /\ viol' = viol \cup RemovalVerdict(p, takeover)
    /\ dir' = 0 /\ dirStale' = FALSE
    /\ UNCHANGED <<hb, hbStale, gen, creator, holds, hbOn, alive, acquiring, ownGen, decidedGen, sawStale, rechecked, relStartGen, lifeSince, stalled>>

\* --- contender events -------------------------------------------------------------------------
\* p's staleness decision (IsStale): what it looked at and whether it saw an old time stamp
MDecide(p, stale, recheck) ==
    /\ decidedGen' = [decidedGen EXCEPT ![p] = dir]
    /\ sawStale' = [sawStale EXCEPT ![p] = stale]
    /\ rechecked' = [rechecked EXCEPT ![p] = recheck]
    /\ lifeSince' = [lifeSince EXCEPT ![p] = FALSE]
    /\ UNCHANGED <<dir, hb, dirStale, hbStale, gen, creator, holds, hbOn, alive, acquiring, ownGen, relStartGen, stalled, viol>>

\* an acquire call of p returned success
MAcquireOk(p) ==
    LET others == {q \in Procs \ {p} : holds[q] /\ alive[q] /\ hbOn[q]} IN
    /\ viol' = viol \cup (IF others = {} THEN {}
                          ELSE IF viol \cap RootCauses = {} THEN {"double-holder-unexplained"} ELSE {"double-holder"})
    /\ holds' = [holds EXCEPT ![p] = TRUE] /\ hbOn' = [hbOn EXCEPT ![p] = TRUE]
    /\ acquiring' = [acquiring EXCEPT ![p] = 0]
    /\ UNCHANGED <<dir, hb, dirStale, hbStale, gen, creator, alive, ownGen, decidedGen, sawStale, rechecked, relStartGen, lifeSince, stalled>>

\* an acquire call of p returned without the lock (locked / stale / error): nothing is held
MAcquireFailed(p) ==
    /\ acquiring' = [acquiring EXCEPT ![p] = 0]
    /\ UNCHANGED <<dir, hb, dirStale, hbStale, gen, creator, holds, hbOn, alive, ownGen, decidedGen, sawStale, rechecked, relStartGen, lifeSince, stalled, viol>>

\* p begins to release (Unlock called)
MReleaseBegin(p) ==
    /\ holds' = [holds EXCEPT ![p] = FALSE] /\ hbOn' = [hbOn EXCEPT ![p] = FALSE]
    /\ relStartGen' = [relStartGen EXCEPT ![p] = gen]
    /\ UNCHANGED <<dir, hb, dirStale, hbStale, gen, creator, alive, acquiring, ownGen, decidedGen, sawStale, rechecked, lifeSince, stalled, viol>>

\* more than two heartbeat periods pass without any refresh
MTick == /\ dir # 0
         /\ dirStale' = TRUE /\ hbStale' = TRUE
         /\ stalled' = [q \in Procs |-> stalled[q] \/ acquiring[q] # 0]
         /\ UNCHANGED <<dir, hb, gen, creator, holds, hbOn, alive, acquiring, ownGen, decidedGen, sawStale, rechecked, relStartGen, lifeSince, viol>>

\* p dies: it and its heartbeat writer stop for ever
MDie(p) == /\ alive' = [alive EXCEPT ![p] = FALSE] /\ hbOn' = [hbOn EXCEPT ![p] = FALSE]
           /\ UNCHANGED <<dir, hb, dirStale, hbStale, gen, creator, holds, acquiring, ownGen, decidedGen, sawStale, rechecked, relStartGen, lifeSince, stalled, viol>>

\* --- the property as invariants (used for the Intended configuration) --------------------------
MutualExclusion == Cardinality({p \in Procs : holds[p] /\ alive[p] /\ hbOn[p]}) <= 1
NoViolation == viol = {}
=============================================================================
