SPECIFICATION Spec
CONSTANTS P = 4
          J = 2
          Horizon = 40
          ListFailureUsesDirAge = FALSE
          SweepStopsWriter = FALSE
          StopOnWriteError = TRUE
          MaxFaults = 1
INVARIANTS LiveNeverStale DeadBecomesStale
CHECK_DEADLOCK FALSE
