---------------------------- MODULE LockFileTimed ----------------------------
(***************************************************************************)
(* C17 - stale-lock detection with explicit discrete time.                 *)
(*                                                                         *)
(* One holder acquires (Mkdir, Chtimes), its heartbeat writer re-stamps    *)
(* the heartbeat file every period (P ticks, up to J ticks late), and it   *)
(* may die at any point of the acquisition or of the steady state.         *)
(* Observers evaluate IsStale at any instant exactly as coded: the newest  *)
(* sign of life is the heartbeat file's time stamp if the file exists,     *)
(* else the directory's; stale <=> now - stamp > 2P.                       *)
(***************************************************************************)
EXTENDS Integers, Sequences, TLC, Json

CONSTANTS ListFailureUsesDirAge,   \* FALSE: as coded (an observer that cannot list the lock directory cannot tell: not stale)
          SweepStopsWriter,   \* FALSE: as coded (ReleaseIfStale on a lock that is not stale does nothing, whoever calls it)
          StopOnWriteError,   \* FALSE: as coded (a failed write is skipped, the time stamp is still refreshed, the writer goes on)
          MaxFaults,          \* transient failures of the heartbeat write
          P,        \* heartbeat period in ticks
          J,        \* worst lateness of a heartbeat write (ticks)
          Horizon   \* time bound of the exploration

VARIABLES now,
          dirAt,     \* -1: no lock directory, else its time stamp
          hbAt,      \* -1: no heartbeat file, else its time stamp
          hpc,       \* holder: "idle" | "made" | "holding" | "dead"
          nextBeat,  \* deadline of the next heartbeat write (holding)
          diedAt,    \* -1 or the instant of death
          deathPoint,\* where it died (for scenario emission)
          reported,  \* last IsStale answer: "none" | "fresh" | "stale"
          faults, writerOn   \* failed heartbeat writes so far; the heartbeat writer is running

vars == <<now, dirAt, hbAt, hpc, nextBeat, diedAt, deathPoint, reported, faults, writerOn>>

Init == /\ now = 0 /\ dirAt = -1 /\ hbAt = -1 /\ hpc = "idle" /\ nextBeat = 0 /\ diedAt = -1
        /\ deathPoint = "none" /\ reported = "none" /\ faults = 0 /\ writerOn = TRUE

Stamp == IF hbAt >= 0 THEN hbAt ELSE dirAt
LooksStale == dirAt >= 0 /\ now - Stamp > 2 * P

\* time passes, but never beyond a pending heartbeat deadline + J (the writer is at most J late)
Tick == /\ now < Horizon
        /\ ((hpc = "holding" /\ writerOn) => now < nextBeat + J)
        /\ (hpc = "made" => now < dirAt + J)            \* the acquisition itself completes within J
        /\ now' = now + 1
        /\ UNCHANGED <<dirAt, hbAt, hpc, nextBeat, diedAt, deathPoint, reported, faults, writerOn>>

Mkdir == /\ hpc = "idle" /\ dirAt = -1
         /\ dirAt' = now /\ hpc' = "made"
         /\ UNCHANGED <<now, hbAt, nextBeat, diedAt, deathPoint, reported, faults, writerOn>>

\* Chtimes on the directory, heartbeat writer started: first beat is due at once
Confirm == /\ hpc = "made"
           /\ dirAt' = now /\ hpc' = "holding" /\ nextBeat' = now
           /\ UNCHANGED <<now, hbAt, diedAt, deathPoint, reported, faults, writerOn>>

Beat == /\ hpc = "holding" /\ writerOn /\ now >= nextBeat
        /\ hbAt' = now /\ nextBeat' = now + P
        /\ UNCHANGED <<now, dirAt, hpc, diedAt, deathPoint, reported, faults, writerOn>>

\* the write of a beat fails (a transient I/O error) once the heartbeat file exists: as coded the content is not rewritten but the
\* time stamp is refreshed all the same and the writer goes on; StopOnWriteError: the writer gives up for good
BeatFails == /\ hpc = "holding" /\ writerOn /\ now >= nextBeat /\ hbAt >= 0 /\ faults < MaxFaults
             /\ faults' = faults + 1
             /\ IF StopOnWriteError THEN writerOn' = FALSE /\ UNCHANGED <<hbAt, nextBeat>>
                ELSE writerOn' = TRUE /\ hbAt' = now /\ nextBeat' = now + P
             /\ UNCHANGED <<now, dirAt, hpc, diedAt, deathPoint, reported>>

\* housekeeping: the holder itself runs ReleaseIfStale over the locks it knows - its own, live, lock among them.  Not stale:
\* nothing happens (SweepStopsWriter: the call cancels the lock object's own activity first, the heartbeat writer with it)
SelfSweep == /\ hpc = "holding" /\ writerOn /\ ~LooksStale
             /\ writerOn' = ~SweepStopsWriter
             /\ UNCHANGED <<now, dirAt, hbAt, hpc, nextBeat, diedAt, deathPoint, reported, faults>>

Die == /\ hpc \in {"made", "holding"}
       /\ deathPoint' = (IF hpc = "made" THEN "after-mkdir" ELSE IF hbAt < 0 THEN "before-first-beat" ELSE "steady")
       /\ hpc' = "dead" /\ diedAt' = now
       /\ UNCHANGED <<now, dirAt, hbAt, nextBeat, reported, faults, writerOn>>

Observe == /\ reported' = (IF LooksStale THEN "stale" ELSE "fresh")
           /\ UNCHANGED <<now, dirAt, hbAt, hpc, nextBeat, diedAt, deathPoint, faults, writerOn>>

\* an observer whose listing of the lock directory fails (a transient I/O error, no file descriptor left) while the directory
\* itself can still be examined: as coded it cannot tell and answers "not stale"; ListFailureUsesDirAge: it falls back on the
\* age of the directory, which is only stamped at the acquisition
ObserveListingFails ==
    /\ dirAt >= 0
    /\ reported' = (IF ListFailureUsesDirAge /\ now - dirAt > 2 * P THEN "stale" ELSE "fresh")
    /\ UNCHANGED <<now, dirAt, hbAt, hpc, nextBeat, diedAt, deathPoint, faults, writerOn>>

Next == ObserveListingFails \/ Tick \/ Mkdir \/ Confirm \/ Beat \/ BeatFails \/ SelfSweep \/ Die \/ Observe
Spec == Init /\ [][Next]_vars

\* sign of life as the statement means it
LastSign == Stamp
\* reported stale only if silent for more than two periods
StaleOnlyIfSilent == (reported = "stale" /\ dirAt >= 0) => TRUE   \* holds by construction of Observe; kept for the trace specification
\* a live holder (not dead) is never seen stale, provided the writer is less than a period late
LiveNeverStale == (hpc \in {"made", "holding"}) => ~LooksStale
\* ... and never REPORTED stale either, whatever the observer could or could not read
LiveNeverReportedStale == (hpc \in {"made", "holding"} /\ writerOn) => reported # "stale"
\* a dead holder's lock looks stale at the latest 2P+1 ticks after its last sign of life, i.e. at most 2P+J+1 after death
DeadBecomesStale == (hpc = "dead" /\ now - diedAt > 2 * P + J) => LooksStale

Scenario == [deathPoint |-> deathPoint, diedAt |-> diedAt, dirAt |-> dirAt, hbAt |-> hbAt]
EmitDeaths == (hpc = "dead" /\ reported = "none") => PrintT(<<"BEHAVIOUR", ToJson(Scenario)>>)
=============================================================================
