SPECIFICATION TraceSpec
CONSTANTS Procs = {"A", "B", "C", "D"}
POSTCONDITION TraceAccepted
CHECK_DEADLOCK FALSE
