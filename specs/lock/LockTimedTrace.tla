--------------------------- MODULE LockTimedTrace ---------------------------
(***************************************************************************)
(* C17 - judging recorded executions against the timed lock model.         *)
(*                                                                         *)
(* Two kinds of recorded evidence (vh c17):                                *)
(*  DeathPoint  (model time, gated): the holder was stopped after k of its *)
(*     backend calls; what observers saw before and after two periods.     *)
(*  real-time rounds: Start / Sign(t, mtime) (every sign of life of the    *)
(*     holder seen at the backend boundary) / Ctl (a control heartbeat run *)
(*     by the harness with the documented period) / Poll(kind, start, end, *)
(*     judged stale?, largest control / library heartbeat gap over the     *)
(*     poll's look-back window) / Died / Released / Recover.  Times in µs. *)
(* The rules are those of LockFileTimed.tla: stale <=> newest sign of life *)
(* older than two periods; live => never stale; dead => stale within a     *)
(* bounded delay and recoverable.  Verdicts are printed per round.         *)
(***************************************************************************)
EXTENDS Integers, Sequences, FiniteSets, TLC, Json

Trace == ndJsonDeserialize("trace.ndjson")

VARIABLES l, roundId, period, lastM, alive, released, diedAt, viol, valid, discarded,
          void,   \* the live holder's lock was removed in an overloaded window: the rest of the round says nothing about the holder
          nSign, lateSign, lateCtl   \* time stamps written by the holder's heartbeat / of those, older than half a period when written / same for the control heartbeat

vars == <<l, roundId, period, lastM, alive, released, diedAt, viol, valid, discarded, void, nSign, lateSign, lateCtl>>
Ev == Trace[l]
Consume == l <= Len(Trace) /\ l' = l + 1
Flag(s) == viol' = viol \cup s
\* a sign of life carries the time at which it is written (LockFileTimed: mtime' = now): a heartbeat whose stamps are
\* systematically older than half a period when they reach the backend - while the control heartbeat's are not - ages the
\* lock towards "stale" although the holder lives
StampVerdict == IF lateSign >= 5 /\ 4 * lateSign >= nSign /\ 4 * lateCtl <= lateSign THEN {"sign-of-life-stamp-not-current"} ELSE {}
Verdict == PrintT(<<"VERDICT", ToJson([id |-> roundId, viol |-> viol \cup StampVerdict, valid |-> valid, discarded |-> discarded])>>)

Max3(a, b, c) == IF a >= b /\ a >= c THEN a ELSE IF b >= c THEN b ELSE c
Slack == 60000      \* µs: millisecond truncation of the age test, time stamp granularity, scheduling of the poll

TraceInit == l = 1 /\ roundId = 0 /\ period = 50000 /\ lastM = 0 /\ alive = FALSE /\ released = FALSE /\ diedAt = -1
             /\ viol = {} /\ valid = 0 /\ discarded = 0 /\ void = FALSE /\ nSign = 0 /\ lateSign = 0 /\ lateCtl = 0

Start == /\ Consume /\ Ev.op = "Start" /\ (roundId # 0 => Verdict)
         /\ roundId' = Ev.id /\ period' = Ev.period /\ lastM' = 0 /\ alive' = FALSE /\ released' = FALSE /\ diedAt' = -1
         /\ viol' = {} /\ valid' = 0 /\ discarded' = 0 /\ void' = FALSE /\ nSign' = 0 /\ lateSign' = 0 /\ lateCtl' = 0
End == Consume /\ Ev.op = "End" /\ (roundId # 0 => Verdict) /\ UNCHANGED <<roundId, period, lastM, alive, released, diedAt, viol, valid, discarded, void, nSign, lateSign, lateCtl>>

Sign == /\ Consume /\ Ev.op = "Sign"
        /\ lastM' = (IF Ev.mtime > lastM THEN Ev.mtime ELSE lastM)
        /\ nSign' = nSign + 1
        /\ lateSign' = (IF Ev.t - Ev.mtime > period \div 2 THEN lateSign + 1 ELSE lateSign)
        \* the stamp is taken before the write begins: it can never lie in the future (5 ms for the two clocks read apart)
        /\ (IF Ev.mtime > Ev.t + 5000 THEN Flag({"sign-of-life-stamp-in-the-future"}) ELSE UNCHANGED viol)
        /\ UNCHANGED <<roundId, period, alive, released, diedAt, valid, discarded, void, lateCtl>>
Ctl == /\ Consume /\ Ev.op = "Ctl"
       /\ lateCtl' = (IF Ev.t - Ev.mtime > period \div 2 THEN lateCtl + 1 ELSE lateCtl)
       /\ UNCHANGED <<roundId, period, lastM, alive, released, diedAt, viol, valid, discarded, void, nSign, lateSign>>
Acquired == Consume /\ Ev.op = "Acquired" /\ alive' = TRUE /\ UNCHANGED <<roundId, period, lastM, released, diedAt, viol, valid, discarded, void, nSign, lateSign, lateCtl>>
Died == Consume /\ Ev.op = "Died" /\ alive' = FALSE /\ diedAt' = Ev.t /\ UNCHANGED <<roundId, period, lastM, released, viol, valid, discarded, void, nSign, lateSign, lateCtl>>
Released == Consume /\ Ev.op = "Released" /\ alive' = FALSE /\ released' = TRUE /\ UNCHANGED <<roundId, period, lastM, diedAt, viol, valid, discarded, void, nSign, lateSign, lateCtl>>

\* a poll: IsStale / ReleaseIfStale / TryLock by an observer
Poll ==
    /\ Consume /\ Ev.op = "Poll"
    /\ LET silent == Ev.end - lastM > 2 * period            \* necessary for any "stale" answer
           ctlOK == Ev.ctlGap <= period + period \div 2      \* the control heartbeat was healthy over the window
       IN IF released \/ void THEN UNCHANGED <<viol, valid, discarded>>      \* the holder is releasing / lost its lock: anything may be seen
          ELSE IF Ev.judged /\ ~silent
               THEN Flag({"stale-reported-without-silence"}) /\ UNCHANGED <<valid, discarded>>
          ELSE IF Ev.judged /\ alive
               THEN \* really silent although the holder lives: its heartbeat was late.  One late beat is what a stalled
                    \* host produces; whether the library keeps its period is judged over the whole round (Stats)
                    \* a control heartbeat that kept its period meanwhile makes the round a suspect (aggregated over rounds by the checker)
                    /\ discarded' = discarded + 1 /\ UNCHANGED valid
                    /\ (IF ctlOK /\ ~void THEN Flag({"suspect-live-lock-heartbeat-late"}) ELSE UNCHANGED viol)
          ELSE IF ~Ev.judged /\ ~alive /\ diedAt >= 0 /\ Ev.kind = "IsStale"
                  /\ Ev.start > Max3(lastM, diedAt, Ev.lastSign) + 2 * period + Slack   \* a write already under way at the death still counts
               THEN Flag({"dead-lock-not-reported-stale"}) /\ UNCHANGED <<valid, discarded>>
          ELSE valid' = valid + 1 /\ UNCHANGED <<viol, discarded>>
    \* a live holder's lock that was actually released or taken over no longer is the holder's
    /\ void' = (void \/ (Ev.judged /\ alive /\ ~released /\ Ev.kind \in {"ReleaseIfStale", "TryLock"} /\ Ev.end - lastM > 2 * period))
    /\ UNCHANGED <<roundId, period, lastM, alive, released, diedAt, nSign, lateSign, lateCtl>>

\* beats seen over the time the holder lived (libGap / ctlGap carry the counts): the library must keep up with the
\* control heartbeat that did the same work at the documented period (at least 2/3 of its beats, when the control
\* itself made at least 2/3 of the beats the period asks for - otherwise the host was overloaded)
Stats == /\ Consume /\ Ev.op = "Stats"
         /\ LET want == (Ev.end - Ev.start) \div period IN
            IF want >= 3 /\ 3 * Ev.ctlGap >= 2 * want /\ 3 * Ev.libGap < 2 * Ev.ctlGap /\ Ev.ctlGap >= Ev.libGap + 2
            THEN Flag({"live-lock-heartbeat-late"}) ELSE UNCHANGED viol
         /\ UNCHANGED <<roundId, period, lastM, alive, released, diedAt, valid, discarded, void, nSign, lateSign, lateCtl>>

\* after the death: reported stale, released by ReleaseIfStale, acquired by a fresh contender
Recover == /\ Consume /\ Ev.op = "Recover"
           /\ IF void THEN UNCHANGED viol
              ELSE Flag((IF ~Ev.judged THEN {"dead-lock-not-reported-stale"} ELSE {}) \cup
                        (IF Ev.silentAfterTakeover THEN {"lock-won-by-takeover-gives-no-sign-of-life"} ELSE {}) \cup
                        (IF Ev.result # "" THEN {"dead-lock-not-recoverable"} ELSE {}))
           /\ UNCHANGED <<roundId, period, lastM, alive, released, diedAt, valid, discarded, void, nSign, lateSign, lateCtl>>

\* model-time death points
DeathPoint ==
    /\ Consume /\ Ev.op = "DeathPoint"
    /\ (roundId # 0 => Verdict)
    /\ roundId' = 1000 + l
    /\ viol' = (IF Ev.staleBefore THEN {"stale-reported-without-silence"} ELSE {})
               \cup (IF Ev.dirExists /\ Ev.lockedBefore # "locked" THEN {"lock-of-just-dead-holder-not-respected"} ELSE {})
               \cup (IF Ev.dirExists /\ ~Ev.staleAfter THEN {"dead-lock-not-reported-stale"} ELSE {})
               \cup (IF Ev.releaseKind # "" \/ Ev.acquireKind # "" THEN {"dead-lock-not-recoverable"} ELSE {})
    /\ valid' = 1 /\ discarded' = 0
    /\ nSign' = 0 /\ lateSign' = 0 /\ lateCtl' = 0
    /\ UNCHANGED <<period, lastM, alive, released, diedAt, void>>

\* take-over, then hold (vh c17 takeoverhold): B won a dead holder's lock by taking it over and holds it; four periods later an
\* overriding C must still be refused (and must not see B's lock stale) - provided the control heartbeat kept its period
TakeoverHold ==
    /\ Consume /\ Ev.op = "TakeoverHold"
    /\ (roundId # 0 => Verdict)
    /\ roundId' = 5000 + l
    /\ viol' = (IF Ev.acquiredB # "" THEN {"dead-lock-not-recoverable"} ELSE
                 (IF Ev.ctlBeats >= 3 /\ Ev.resultC = "" THEN {"lock-taken-over-from-a-live-holder"} ELSE {})
                 \cup (IF Ev.ctlBeats >= 3 /\ Ev.staleSeenByC THEN {"live-lock-reported-stale-after-takeover"} ELSE {}))
    /\ valid' = 1 /\ discarded' = 0 /\ nSign' = 0 /\ lateSign' = 0 /\ lateCtl' = 0
    /\ UNCHANGED <<period, lastM, alive, released, diedAt, void>>

TraceNext == TakeoverHold \/ Stats \/ Start \/ End \/ Sign \/ Ctl \/ Acquired \/ Died \/ Released \/ Poll \/ Recover \/ DeathPoint
TraceSpec == TraceInit /\ [][TraceNext]_vars
TraceAccepted == LET n == TLCGet("stats").diameter - 1 IN PrintT(<<"TRACE_MATCHED", n>>) /\ n = Len(Trace)
=============================================================================
