SPECIFICATION Spec
CONSTANTS Procs = {"A", "B", "C"}
          OverrideProcs = {"A", "B", "C"}
          LockProcs = {"C"}
          MaxCycles = 1
          MaxRetry = 1
          MaxDeaths = 1
          MaxTicks = 2
          Deviations = {}
          ImplicitParent = FALSE
INVARIANTS NoViolation MutualExclusion
VIEW View
CHECK_DEADLOCK FALSE
