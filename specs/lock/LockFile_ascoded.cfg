SPECIFICATION Spec
CONSTANTS Procs = {"A", "B"}
          OverrideProcs = {"A", "B"}
          LockProcs = {}
          MaxCycles = 2
          MaxRetry = 1
          MaxDeaths = 1
          MaxTicks = 2
          Deviations = {"ReleaseRetry", "PathRemove", "SplitTakeover", "Stall"}
          ImplicitParent = FALSE
INVARIANTS EmitViolations
VIEW View
CHECK_DEADLOCK FALSE
