------------------------------- MODULE Paths -------------------------------
(***************************************************************************)
(* Lexical path algebra (POSIX rules, written from the rules - not from    *)
(* Go's path/filepath): a path is [abs, comps] with comps a sequence of    *)
(* component strings; Clean removes "" and ".", and resolves ".." against  *)
(* the preceding component (dropping it at the root, keeping it in front   *)
(* of a relative path).                                                    *)
(***************************************************************************)
EXTENDS Naturals, Sequences

RECURSIVE CleanComps(_, _, _)
\* acc: cleaned components so far; rest: what is left
CleanComps(abs, acc, rest) ==
    IF rest = <<>> THEN acc
    ELSE LET c == Head(rest) IN
         IF c = "" \/ c = "." THEN CleanComps(abs, acc, Tail(rest))
         ELSE IF c = ".."
              THEN IF Len(acc) > 0 /\ acc[Len(acc)] # ".." THEN CleanComps(abs, SubSeq(acc, 1, Len(acc) - 1), Tail(rest))
                   ELSE IF abs THEN CleanComps(abs, acc, Tail(rest))          \* "/.." = "/"
                   ELSE CleanComps(abs, Append(acc, ".."), Tail(rest))
              ELSE CleanComps(abs, Append(acc, c), Tail(rest))

Clean(p) == [abs |-> p.abs, comps |-> CleanComps(p.abs, <<>>, p.comps)]
\* joining a name under a directory: the name's own leading separator does not make the result absolute
Join(dir, name) == Clean([abs |-> dir.abs, comps |-> dir.comps \o name.comps])
IsPrefixSeq(a, b) == Len(a) <= Len(b) /\ SubSeq(b, 1, Len(a)) = a
\* p is dest itself or lies beneath it
Inside(p, dest) == LET cp == Clean(p) cd == Clean(dest) IN cp.abs = cd.abs /\ IsPrefixSeq(cd.comps, cp.comps)
Dir(p) == [abs |-> p.abs, comps |-> IF Len(p.comps) = 0 THEN <<>> ELSE SubSeq(p.comps, 1, Len(p.comps) - 1)]
=============================================================================
