SPECIFICATION Spec
CONSTANTS Memoise = FALSE
  MaxOps = 5
INVARIANTS DigestIsOfBytes Emit
CHECK_DEADLOCK FALSE
