------------------------------- MODULE SafeIO -------------------------------
(***************************************************************************)
(* C09 (first part) - context-aware I/O helpers yield exact prefixes.      *)
(*                                                                         *)
(* A source is L bytes; the reader delivers it in chunks (zero-length      *)
(* reads included), may fail after errAt bytes, and the context may be     *)
(* done before the call or be cancelled from inside the cancelAt-th Read.  *)
(* An observation of one real call is                                      *)
(*   [op, L, param, errAt, pre, cancelAt, delivered, prefix, kind,         *)
(*    readsAfterDone, needed]                                              *)
(* and Verdict says which clause of the statement it breaks, if any.       *)
(* TLC enumerates the scenario classes (SafeIOClasses) and judges every    *)
(* recorded observation (SafeIOTrace).                                     *)
(***************************************************************************)
EXTENDS Integers, Sequences, FiniteSets, TLC, Json

Ops == {"ReadAtMost", "ReadAll", "CopyN", "CopyData", "ReadFileWithLimits"}
CtxKinds == {"cancelled", "timeout"}
Min(a, b) == IF a < b THEN a ELSE b

\* bytes the operation has to take from the source when nothing goes wrong
Needed(op, L, param) ==
    CASE op = "ReadAtMost" -> (IF param < 0 THEN L ELSE Min(L, param))
      [] op = "ReadAll" -> L
      [] op = "CopyN" -> Min(L, param)
      [] op = "CopyData" -> L
      [] op = "ReadFileWithLimits" -> (IF L > param THEN 0 ELSE L)

\* verdict on an observation o (units: abstract bytes; the harness scales sizes and projects back)
Verdict(o) ==
    LET need == Needed(o.op, o.L, o.param)
        \* the reader fails INSTEAD of continuing once errAt bytes were delivered (errAt = L: it fails instead of reporting
        \* the end); a length-limited operation stops asking when its limit is reached
        limited == o.op \in {"ReadAtMost", "CopyN"} /\ o.param >= 0
        reachesError == o.errAt >= 0 /\ o.errAt <= o.L /\ ~(limited /\ o.param <= o.errAt)
                        /\ ~(o.op = "ReadFileWithLimits" /\ o.L > o.param)
        cancelled == o.pre \/ o.cancelAt > 0
    IN
    (IF ~o.prefix THEN {"not-a-prefix-of-the-source"} ELSE {})
    \cup (IF o.readsAfterDone > 0 THEN {"read-started-after-context-done"} ELSE {})
    \cup (IF o.pre /\ (o.delivered > 0 \/ o.kind \notin CtxKinds) THEN {"done-context-not-honoured"} ELSE {})
    \cup (IF o.op \in {"ReadAtMost", "CopyN"} /\ o.param >= 0 /\ o.delivered > o.param THEN {"more-than-the-maximum"} ELSE {})
    \cup (IF o.delivered > o.L THEN {"more-than-the-source"} ELSE {})
    \cup (IF ~cancelled /\ ~reachesError
          THEN (CASE o.op = "ReadFileWithLimits" /\ o.L > o.param -> (IF o.kind # "toolarge" THEN {"too-large-file-not-refused"} ELSE {})
                  [] o.op = "CopyN" /\ o.param > o.L -> (IF o.kind # "eof" THEN {"short-copy-not-reported-as-eof"} ELSE {})
                  [] OTHER -> (IF o.delivered # need THEN {"wrong-amount-delivered"} ELSE {})
                              \cup (IF o.kind \notin {"", "empty"} \/ (o.kind = "empty" /\ need # 0) THEN {"spurious-error"} ELSE {}))
          ELSE {})
    \cup (IF ~cancelled /\ reachesError /\ o.kind = "" THEN {"reader-error-swallowed"} ELSE {})
    \cup (IF ~o.pre /\ o.cancelAt > 0 /\ o.kind # "" /\ o.kind \notin CtxKinds /\ ~reachesError /\ o.delivered < need
             /\ ~(o.op = "CopyN" /\ o.param > o.L) /\ ~(o.op = "ReadFileWithLimits" /\ o.L > o.param)
          THEN {"cancellation-reported-as-other-kind"} ELSE {})
=============================================================================
