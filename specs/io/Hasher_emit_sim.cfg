SPECIFICATION Spec
CONSTANTS Tokens = {"a", "b", "c"}
          MaxLen = 4
          MaxCalcs = 6
          ResetOnFailure = TRUE
          AsyncCopy = FALSE
INVARIANTS Emit
CHECK_DEADLOCK FALSE
