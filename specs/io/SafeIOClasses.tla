--------------------------- MODULE SafeIOClasses ---------------------------
(* Scenario classes of the context-aware I/O helpers, enumerated by TLC for the harness. *)
EXTENDS SafeIO
CONSTANTS MaxL
VARIABLE c
Chunkings == {"one", "bytewise", "zeros", "halves", "writerto"}
Classes == {[op |-> op, L |-> L, param |-> p, chunking |-> ch, errAt |-> e, pre |-> pre, cancelAt |-> ca] :
              op \in Ops, L \in 0..MaxL, p \in -1..(MaxL + 2), ch \in Chunkings, e \in -1..MaxL, pre \in BOOLEAN, ca \in 0..3}
Valid(x) == /\ (x.op \in {"ReadAll", "CopyData"} => x.param = -1)
            /\ (x.op \in {"CopyN", "ReadFileWithLimits"} => x.param >= 0)
            /\ (x.errAt >= 0 => (x.errAt <= x.L /\ ~x.pre /\ x.cancelAt = 0))
            /\ (x.pre => x.cancelAt = 0)
            /\ (x.op = "ReadFileWithLimits" => (x.errAt = -1 /\ x.chunking = "one"))
            /\ (x.chunking = "writerto" => (x.errAt = -1 /\ x.cancelAt = 0))
Init == c \in {x \in Classes : Valid(x)}
Next == UNCHANGED c
Spec == Init /\ [][Next]_c
Emit == PrintT(<<"BEHAVIOUR", ToJson(c)>>)
=============================================================================
