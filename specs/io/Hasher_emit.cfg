SPECIFICATION Spec
CONSTANTS Tokens = {"a", "b"}
          MaxLen = 2
          MaxCalcs = 3
          ResetOnFailure = TRUE
          AsyncCopy = FALSE
INVARIANTS Emit
CHECK_DEADLOCK FALSE
