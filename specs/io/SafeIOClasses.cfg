SPECIFICATION Spec
CONSTANT MaxL = 4
INVARIANTS Emit
CHECK_DEADLOCK FALSE
