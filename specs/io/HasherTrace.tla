----------------------------- MODULE HasherTrace -----------------------------
(***************************************************************************)
(* Trace validation for C20.  Recorded events (vh c20 record): one per     *)
(* calculation on a long-lived hasher object, with the projection of the   *)
(* real digest: `same` = it equals the reference digest of this call's     *)
(* content; `dirty` = it equals the reference digest of (bytes absorbed by *)
(* earlier aborted calls ++ content).  Contents are real byte strings up   *)
(* to 2^20; the specification sees their chunk structure as tokens 1..n.   *)
(***************************************************************************)
EXTENDS Naturals, Sequences, TLC, Json

Trace == ndJsonDeserialize("trace.ndjson")

VARIABLES l, residue   \* residue: chunks of aborted calculations a non-resetting hasher would still hold

tvars == <<l, residue>>

Ev == Trace[l]

TraceInit == l = 1 /\ residue = 0

NewHasher == /\ l <= Len(Trace) /\ Ev.op = "New" /\ l' = l + 1 /\ residue' = 0

\* a successful calculation must emit the digest of its own content, whatever the residue
CalcOk == /\ l <= Len(Trace) /\ Ev.op = "Calc" /\ Ev.outcome = "ok"
          /\ Ev.same
          /\ l' = l + 1 /\ residue' = 0

CalcAbort == /\ l <= Len(Trace) /\ Ev.op = "Calc" /\ Ev.outcome \in {"fail", "cancel"}
             /\ l' = l + 1 /\ residue' = residue + Ev.k

TraceNext == NewHasher \/ CalcOk \/ CalcAbort
TraceSpec == TraceInit /\ [][TraceNext]_tvars

TraceAccepted ==
    LET n == TLCGet("stats").diameter - 1 IN
    /\ PrintT(<<"TRACE_MATCHED", n>>)
    /\ n = Len(Trace)
=============================================================================
