----------------------------- MODULE FileDigest -----------------------------
(***************************************************************************)
(* C20 - "hashing a file returns the value of hashing its bytes": the      *)
(* file side.  One path on one filesystem object; its content is replaced  *)
(* by contents of the same or of another length, with the modification     *)
(* time moving on or put back to what it was (Chtimes, a time-preserving   *)
(* copy, a coarse clock), it is removed and created again; in between the  *)
(* file is hashed with FileHash.                                           *)
(*                                                                         *)
(*   DigestIsOfBytes  every Hash returns H(current content)                *)
(* Memoise = TRUE (sensitivity; not the code as it is): digests are        *)
(* remembered per (size, modification time) - DigestIsOfBytes must fail.   *)
(***************************************************************************)
EXTENDS Naturals, Sequences, FiniteSets, TLC, Json

CONSTANTS Memoise, MaxOps

\* contents: "a" and "b" have the same length, "c" is longer
Contents == {"a", "b", "c"}
Size(x) == IF x = "c" THEN 2 ELSE 1

VARIABLES content,  \* "" = no file
          mtime,    \* abstract clock value of the file
          clock,    \* the next fresh time
          memo,     \* set of <<size, mtime, digest>> remembered (Memoise)
          ops, good

vars == <<content, mtime, clock, memo, ops, good>>

Init == content = "" /\ mtime = 0 /\ clock = 1 /\ memo = {} /\ ops = <<>> /\ good = TRUE

\* write a content; keep = the modification time is put back afterwards to what it was before (only when the file existed)
Write(x, keep) ==
    /\ Len(ops) < MaxOps /\ (keep => content # "")
    /\ content' = x
    /\ mtime' = (IF keep THEN mtime ELSE clock) /\ clock' = clock + 1
    /\ ops' = Append(ops, [op |-> "write", x |-> x, keep |-> keep, digest |-> ""])
    /\ UNCHANGED <<memo, good>>

Remove == /\ Len(ops) < MaxOps /\ content # ""
          /\ content' = "" /\ UNCHANGED <<mtime, clock, memo, good>>
          /\ ops' = Append(ops, [op |-> "remove", x |-> "", keep |-> FALSE, digest |-> ""])

\* the digest stands for itself: H(x) = x
Hash == /\ Len(ops) < MaxOps /\ content # ""
        /\ LET hit == {m \in memo : m[1] = Size(content) /\ m[2] = mtime}
               d == IF Memoise /\ hit # {} THEN (CHOOSE m \in hit : TRUE)[3] ELSE content
           IN /\ good' = (good /\ d = content)
              /\ memo' = (IF Memoise THEN memo \cup {<<Size(content), mtime, d>>} ELSE memo)
              /\ ops' = Append(ops, [op |-> "hash", x |-> "", keep |-> FALSE, digest |-> content])
        /\ UNCHANGED <<content, mtime, clock>>

Next == Hash \/ Remove \/ \E x \in Contents, k \in BOOLEAN : Write(x, k)
Spec == Init /\ [][Next]_vars

DigestIsOfBytes == good
\* emission: complete histories with at least two hashes and a write between them
Hashes == {i \in 1..Len(ops) : ops[i].op = "hash"}
Interesting == \E i, j \in Hashes : i + 1 < j
Emit == (Len(ops) = MaxOps /\ Interesting) => PrintT(<<"BEHAVIOUR", ToJson([ops |-> ops])>>)
View == <<content, mtime, memo, ops, good>>
=============================================================================
