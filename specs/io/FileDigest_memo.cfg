SPECIFICATION Spec
CONSTANTS Memoise = TRUE
  MaxOps = 5
INVARIANTS DigestIsOfBytes
CHECK_DEADLOCK FALSE
