---------------------------- MODULE SafeIOTrace ----------------------------
(* C09 - every recorded call of a context-aware I/O helper, and every cancellation run of a filesystem entry point,
   judged by the rules of SafeIO.tla / FsCancel.tla. *)
EXTENDS SafeIO
Trace == ndJsonDeserialize("trace.ndjson")
VARIABLES l
Ev == Trace[l]
Emit(v) == PrintT(<<"VERDICT", ToJson([id |-> l, viol |-> v])>>)

\* bound on the backend calls issued after the context ended (FsCancel.tla: a loop that tests its context once per
\* item issues at most the calls of the item under way; measured on the unchanged tree: <= 8)
B == 64

IO == /\ l <= Len(Trace) /\ Ev.ev = "io" /\ Emit(Verdict(Ev)) /\ l' = l + 1

Cancel ==
    /\ l <= Len(Trace) /\ Ev.ev = "cancel"
    /\ Emit(
         (IF Ev.blocked THEN {"cancelled-operation-does-not-return"} ELSE {})
         \cup (IF Ev.pre /\ Ev.mutated THEN {"done-context-yet-something-changed"} ELSE {})
         \cup (IF Ev.pre /\ Ev.kind \notin CtxKinds THEN {"done-context-not-honoured"} ELSE {})
         \cup (IF ~Ev.pre /\ Ev.callsAfter > B
               THEN (IF Ev.entry = "GarbageCollect" THEN {"gc-fanout-work-after-cancellation"} ELSE {"unbounded-work-after-cancellation"}) ELSE {})
         \cup (IF ~Ev.pre /\ ~Ev.finishedAnyway /\ Ev.kind \notin CtxKinds THEN {"cancellation-reported-as-other-kind"} ELSE {})
         \* the fan-out workers of the garbage collection may outlive the call (known finding); anywhere else an open handle is a leak
         \cup (IF Ev.handles # 0 THEN (IF Ev.entry = "GarbageCollect" THEN {"gc-fanout-work-after-cancellation"} ELSE {"file-handle-left-open"}) ELSE {}))
    /\ l' = l + 1
TraceSpec == l = 1 /\ [][IO \/ Cancel]_l
TraceAccepted == LET n == TLCGet("stats").diameter - 1 IN PrintT(<<"TRACE_MATCHED", n>>) /\ n = Len(Trace)
=============================================================================
