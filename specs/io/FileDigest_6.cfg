SPECIFICATION Spec
CONSTANTS Memoise = FALSE
  MaxOps = 6
INVARIANTS DigestIsOfBytes Emit
CHECK_DEADLOCK FALSE
