SPECIFICATION Spec
CONSTANTS Tokens = {"a", "b"}
          MaxLen = 3
          MaxCalcs = 4
          ResetOnFailure = FALSE
          AsyncCopy = FALSE
INVARIANTS DigestIsContent CleanBetweenCalls
VIEW View
CHECK_DEADLOCK FALSE
