SPECIFICATION Spec
CONSTANTS Tokens = {"a", "b"}
          MaxLen = 3
          MaxCalcs = 4
          ResetOnFailure = TRUE
          AsyncCopy = TRUE
INVARIANTS DigestIsContent
VIEW View
CHECK_DEADLOCK FALSE
