--------------------------- MODULE FileDigestTrace ---------------------------
(***************************************************************************)
(* C20 - judging replays of FileDigest.tla's histories on FS.FileHash: per *)
(* history the digests obtained, each compared by the harness with the     *)
(* reference digest of the content the model has in the file at that step. *)
(***************************************************************************)
EXTENDS Naturals, Sequences, FiniteSets, TLC, Json
Trace == ndJsonDeserialize("trace.ndjson")
VARIABLES l
Ev == Trace[l]
Verdict(v) == PrintT(<<"VERDICT", ToJson([id |-> l, viol |-> v])>>)
HashVerdict(h) == IF h.err # "" THEN {"file-hash-failed"}
                  ELSE IF h.same THEN {}
                  ELSE IF h.stale THEN {"file-digest-is-of-earlier-bytes"} ELSE {"file-digest-differs-from-reference"}
Run == /\ l <= Len(Trace) /\ Ev.op = "FileDigest"
       /\ Verdict(IF Ev.problem # "" THEN {} ELSE UNION {HashVerdict(Ev.hashes[i]) : i \in 1..Len(Ev.hashes)})
       /\ l' = l + 1
TraceSpec == l = 1 /\ [][Run]_l
TraceAccepted == LET n == TLCGet("stats").diameter - 1 IN PrintT(<<"TRACE_MATCHED", n>>) /\ n = Len(Trace)
=============================================================================
