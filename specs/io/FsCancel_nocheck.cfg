SPECIFICATION Spec
CONSTANTS N = 6
          C = 3
          CheckEvery = 0
INVARIANTS BoundedAfterCancel BoundIndependentOfN
CHECK_DEADLOCK FALSE
