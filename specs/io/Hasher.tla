------------------------------- MODULE Hasher -------------------------------
(***************************************************************************)
(* C20 - a digest depends only on the algorithm and the bytes.             *)
(*                                                                         *)
(* A hasher object (utils/hashing hashingAlgo, filesystem fileHashing)     *)
(* wraps one stateful hash.Hash.  The abstract digest of a calculation IS  *)
(* the sequence of chunks the underlying hash absorbed since its last      *)
(* reset: "the digest depends only on the bytes of this call" is then      *)
(* `absorbed at emission = content of the call`, whatever happened before. *)
(* A calculation reads its content chunk by chunk and may succeed, fail    *)
(* (reader error after k chunks) or be cancelled (context done after k     *)
(* chunks).  As coded: copy into the hash; on error return; on success     *)
(* Sum then Reset.  ResetOnFailure is the repaired behaviour (fix: commit),*)
(* ResetOnFailure = FALSE the tree before the repair (kept as a model      *)
(* sensitivity check: TLC must find the dirty-state counterexample).       *)
(***************************************************************************)
EXTENDS Naturals, Sequences, TLC, Json

CONSTANTS Tokens,          \* chunk alphabet
          MaxLen,          \* chunks per content
          MaxCalcs,        \* calculations per history
          ResetOnFailure,  \* BOOLEAN
          AsyncCopy        \* BOOLEAN: FALSE = as coded (the copy runs in the calling goroutine: when the call returns nothing
                           \* is in flight); TRUE = a copy that goes on in the background after a cancelled call has returned

VARIABLES absorbed,  \* what the wrapped hash has absorbed since its last reset
          hist,      \* calculations so far: [content, outcome, k, digestIsContent]
          good       \* every emitted digest so far was the digest of its own content

vars == <<absorbed, hist, good>>

Contents == UNION {[1..n -> Tokens] : n \in 0..MaxLen}

Prefix(s, k) == SubSeq(s, 1, k)

Init == absorbed = <<>> /\ hist = <<>> /\ good = TRUE

\* eof: how the reader signals the end - with a separate final Read returning (0, EOF), or together with
\* the last chunk (n > 0, EOF), which the io.Reader contract allows; the bytes absorbed are the same
EofModes == {"separate", "joined"}

CalcOk(c, eof) ==
    LET digest == absorbed \o c IN
    /\ good' = (good /\ digest = c)
    /\ absorbed' = <<>>                                  \* Sum, then Reset
    /\ hist' = Append(hist, [content |-> c, outcome |-> "ok", k |-> Len(c), same |-> (digest = c), eof |-> eof, late |-> FALSE])

\* the reader fails / the context is cancelled after k chunks were absorbed.  late: the cancellation arrives while the
\* reader is inside Read, and the reader hands its chunk over only afterwards - a synchronous copy has it refused (or
\* absorbed and reset) before the call returns; a background copy writes it into the hash AFTER the reset
CalcAbort(c, how, k, late) ==
    /\ absorbed' = IF ~ResetOnFailure THEN absorbed \o Prefix(c, k)
                   ELSE IF late /\ AsyncCopy /\ k < Len(c) THEN <<c[k + 1]>> ELSE <<>>
    /\ good' = good
    /\ hist' = Append(hist, [content |-> c, outcome |-> how, k |-> k, same |-> TRUE, eof |-> "separate", late |-> late])

Next == /\ Len(hist) < MaxCalcs
        /\ \E c \in Contents :
             \/ \E eof \in EofModes : CalcOk(c, eof)
             \/ \E how \in {"fail", "cancel"}, k \in 0..Len(c) : CalcAbort(c, how, k, FALSE)
             \/ \E k \in 0..(Len(c) - 1) : CalcAbort(c, "cancel", k, TRUE)

Spec == Init /\ [][Next]_vars

DigestIsContent == good
CleanBetweenCalls == ResetOnFailure => absorbed = <<>>

Emit == Len(hist) = MaxCalcs => PrintT(<<"BEHAVIOUR", ToJson([calcs |-> hist])>>)
View == <<absorbed, good, Len(hist)>>
=============================================================================
