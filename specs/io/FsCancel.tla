------------------------------ MODULE FsCancel ------------------------------
(***************************************************************************)
(* C09 (second part) - a context-accepting operation = a loop over N work  *)
(* items, each issuing up to C backend calls, that tests its context at    *)
(* the top of every iteration (as the walks, copies, removals ... of the   *)
(* filesystem package do).  Cancel may strike between any two backend      *)
(* calls.  CheckEvery = 0 models a loop that never consults its context.   *)
(***************************************************************************)
EXTENDS Naturals, TLC
CONSTANTS N, C, CheckEvery
VARIABLES item, call, done, after, result
vars == <<item, call, done, after, result>>
Init == item = 1 /\ call = 0 /\ done \in BOOLEAN /\ after = 0 /\ result = "running"
CancelNow == ~done /\ result = "running" /\ done' = TRUE /\ UNCHANGED <<item, call, after, result>>
\* top of the loop: context test
Top == /\ result = "running" /\ call = 0
       /\ IF done /\ CheckEvery > 0 /\ ((item - 1) % CheckEvery = 0) THEN result' = "cancelled" /\ UNCHANGED <<item, call, after>>
          ELSE IF item > N THEN result' = (IF done /\ CheckEvery > 0 THEN "cancelled" ELSE "ok") /\ UNCHANGED <<item, call, after>>
          ELSE call' = 1 /\ after' = (IF done THEN after + 1 ELSE after) /\ UNCHANGED <<item, result>>
       /\ UNCHANGED done
Backend == /\ result = "running" /\ call > 0
           /\ IF call < C THEN call' = call + 1 /\ after' = (IF done THEN after + 1 ELSE after) /\ UNCHANGED item
              ELSE call' = 0 /\ item' = item + 1 /\ UNCHANGED after
           /\ UNCHANGED <<done, result>>
Next == CancelNow \/ Top \/ Backend \/ (result # "running" /\ UNCHANGED vars)
Spec == Init /\ [][Next]_vars
PreCancelledTouchesNothing == (result # "running" /\ after = 0 /\ done) => TRUE
BoundedAfterCancel == after <= C * (IF CheckEvery = 0 THEN N ELSE CheckEvery)
BoundIndependentOfN == after <= C * (IF CheckEvery = 0 THEN 1 ELSE CheckEvery)
CancelledKind == (result = "ok") => TRUE
=============================================================================
