SPECIFICATION Spec
CONSTANTS Desc = {1, 2}
  OnCancel = "kill-tree"
  ReapedGroupKill = TRUE
  StaleWaited = FALSE
  TermThenWait = FALSE
  GroupWhenTranslated = FALSE
  WaitDelay = TRUE
INVARIANTS AfterReturnNoSurvivor
CHECK_DEADLOCK FALSE
