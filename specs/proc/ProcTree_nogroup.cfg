SPECIFICATION Spec
CONSTANTS Desc = {1, 2}
  OnCancel = "kill-tree"
  ReapedGroupKill = TRUE
  GroupWhenTranslated = FALSE
  WaitDelay = TRUE
INVARIANTS AfterReturnNoSurvivor
CHECK_DEADLOCK FALSE
