SPECIFICATION Spec
CONSTANTS Desc = {1, 2}
  OnCancel = "kill-child"
INVARIANTS AfterReturnNoSurvivor
