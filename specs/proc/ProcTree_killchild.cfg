SPECIFICATION Spec
CONSTANTS Desc = {1, 2}
  OnCancel = "kill-child"
  ReapedGroupKill = TRUE
  WaitDelay = FALSE
INVARIANTS AfterReturnNoSurvivor
CHECK_DEADLOCK FALSE
