SPECIFICATION Spec
CONSTANTS Desc = {1, 2}
  OnCancel = "kill-child"
  ReapedGroupKill = TRUE
  StaleWaited = FALSE
  TermThenWait = FALSE
  GroupWhenTranslated = TRUE
  WaitDelay = FALSE
INVARIANTS AfterReturnNoSurvivor
CHECK_DEADLOCK FALSE
