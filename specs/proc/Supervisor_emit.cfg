SPECIFICATION Spec
CONSTANTS MaxIter = 3
  LeakOnPostStartFailure = TRUE
  Shaped = TRUE
INVARIANTS Emit
VIEW EmitView
CHECK_DEADLOCK FALSE
