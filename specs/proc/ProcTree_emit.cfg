SPECIFICATION Spec
CONSTANTS Desc = {1, 2, 3}
  OnCancel = "kill-tree"
  ReapedGroupKill = TRUE
  StaleWaited = FALSE
  TermThenWait = FALSE
  GroupWhenTranslated = TRUE
  WaitDelay = TRUE
INVARIANTS Emit
VIEW EmitView
CHECK_DEADLOCK FALSE
