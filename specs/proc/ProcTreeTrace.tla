---------------------------- MODULE ProcTreeTrace ----------------------------
(***************************************************************************)
(* C05 - judging recorded runs of real process trees against the           *)
(* properties of ProcTree.tla: one Tree event per scenario with what was   *)
(* measured - the descendants that recorded themselves and those in the    *)
(* direct child's process group, whether the stopping call returned (or    *)
(* IsOn() turned false) within the bound, the processes still alive 300 ms *)
(* later, IsOn().                                                          *)
(***************************************************************************)
EXTENDS Naturals, Sequences, FiniteSets, TLC, Json
Trace == ndJsonDeserialize("trace.ndjson")
VARIABLES l
Ev == Trace[l]
Verdict(v) == PrintT(<<"VERDICT", ToJson([id |-> l, viol |-> v])>>)

Tree ==
    /\ l <= Len(Trace) /\ Ev.op = "Tree"
    /\ Verdict(
         IF ~Ev.setupOk THEN {"harness-setup-incomplete"}
         ELSE (IF ~Ev.returned THEN {"stop-does-not-return-within-bound"} ELSE {})           \* ProcTree!StopReturns
              \* ProcTree!AfterReturnNoSurvivor; the named deviation ReapedGroupKill = FALSE has its own causal signature
              \cup (IF Ev.returned /\ Ev.survivorsIn # <<>>
                    THEN (IF Ev.startMode = "execute" /\ Ev.rootExits THEN {"in-group-descendant-survives-when-child-exited-before-cancellation"}
                          ELSE {"process-in-group-survives"}) ELSE {})
              \cup (IF Ev.returned /\ Ev.isOn THEN {"ison-true-afterwards"} ELSE {})
              \* "afterwards" begins when the call returns: asked by the caller at that very moment (Execute)
              \cup (IF Ev.returned /\ Ev.startMode = "execute" /\ Ev.isOnAtReturn THEN {"ison-true-when-execute-returns"} ELSE {}))                     \* ProcTree!IsOnFalseAfterwards
    /\ l' = l + 1
TraceSpec == l = 1 /\ [][Tree]_l
TraceAccepted == LET n == TLCGet("stats").diameter - 1 IN PrintT(<<"TRACE_MATCHED", n>>) /\ n = Len(Trace)
=============================================================================
