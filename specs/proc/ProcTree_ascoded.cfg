SPECIFICATION Spec
CONSTANTS Desc = {1, 2}
  OnCancel = "kill-tree"
  ReapedGroupKill = FALSE
  StaleWaited = FALSE
  TermThenWait = FALSE
  GroupWhenTranslated = TRUE
  WaitDelay = TRUE
INVARIANTS AfterReturnNoSurvivor
CHECK_DEADLOCK FALSE
