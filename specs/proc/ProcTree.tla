------------------------------ MODULE ProcTree ------------------------------
(***************************************************************************)
(* C05 - cancelling a subprocess terminates its whole process tree,        *)
(* promptly.                                                               *)
(*                                                                         *)
(* Processes: 0 = the direct child (leader of the process group created at *)
(* spawn) and descendants Desc.  Scenario constants chosen in Init: the    *)
(* parent of each descendant, whether it stays in the group (or calls      *)
(* setsid), ignores SIGTERM, keeps the output pipes open; whether the      *)
(* direct child exits by itself once its children are spawned; how the     *)
(* process is started (Execute, Start) and stopped (context cancelled or   *)
(* timed out, Cancel(), Stop()).                                           *)
(*                                                                         *)
(* Kernel: KILL to a pid or to the group; TERM kills unless ignored; an    *)
(* orphan stays in its group.  Wait (os/exec) returns when the direct      *)
(* child is dead AND nobody alive holds the write end of the output pipes. *)
(*                                                                         *)
(* Library (constant OnCancel):                                            *)
(*   "kill-child"  as it was coded: when the context of a running Execute  *)
(*                 ends, the runtime kills the direct child only; the      *)
(*                 monitor's Stop waits for the mutex Execute holds        *)
(*   "kill-tree"   the cancellation kills the tree: TERM to the child,     *)
(*                 KILL to its group                                       *)
(* ReapedGroupKill: FALSE = as coded (named deviation): once Execute's Wait  *)
(* has reaped a direct child that exited by itself, the library has no     *)
(* process left to signal and a later cancellation reaches nobody; TRUE =  *)
(* the group is still killed by its id.                                    *)
(* WaitDelay: Wait gives up on the pipes a bounded time after the child    *)
(* died (a descendant that left the group may still hold them).            *)
(* Stop() after Start(): KillWithChildren (TERM, KILL to the group) and    *)
(* Wait.                                                                   *)
(*                                                                         *)
(* launcher: the command is run as it is ("direct") or through a command   *)
(* translator ("translated": sudo, su, gosu ... - the harness uses env,     *)
(* which execs the command).  GroupWhenTranslated: TRUE = as coded, the    *)
(* process group is created at spawn whatever the launcher; FALSE = a      *)
(* translated command stays in the caller's group: there is no group to    *)
(* signal and the kill can only walk the tree by parent pid, which finds   *)
(* no descendant whose parent is gone.                                     *)
(*                                                                         *)
(* Descendants never exit by themselves (they sleep): a call that can only *)
(* return once one of them exits never returns in the model.               *)
(* Properties: AfterReturnNoSurvivor (safety), StopReturns (liveness under *)
(* weak fairness), IsOnFalseAfterwards.                                    *)
(***************************************************************************)
EXTENDS Naturals, FiniteSets, TLC, Json

CONSTANTS Desc, OnCancel, WaitDelay, ReapedGroupKill, GroupWhenTranslated,
          StaleWaited,   \* FALSE: as coded.  TRUE (sensitivity): an object that has completed a run before remembers "already waited for" and its cancellation signals nobody
          TermThenWait   \* FALSE: as coded (TERM, then KILL to the group at once).  TRUE (sensitivity): the kill waits for the direct child to die of TERM first

Procs == {0} \cup Desc
VARIABLES parent, inGroup, ignTerm, holds, rootExits, startMode, stopMode, launcher, rootIgnTerm, reused,    \* the scenario
          spawned, alive, phase, termSent, isOn

scenario == <<parent, inGroup, ignTerm, holds, rootExits, startMode, stopMode, launcher, rootIgnTerm, reused>>
vars == <<parent, inGroup, ignTerm, holds, rootExits, startMode, stopMode, launcher, rootIgnTerm, reused, spawned, alive, phase, termSent, isOn>>

Init == /\ parent \in [Desc -> Procs] /\ \A d \in Desc : parent[d] < d
        /\ inGroup \in [Desc -> BOOLEAN] /\ ignTerm \in [Desc -> BOOLEAN] /\ holds \in [Desc -> BOOLEAN]
        \* a process that left the group is out of the statement's scope; so are its children unless they ... keep it simple: leaving the group is inherited
        /\ \A d \in Desc : (parent[d] # 0 /\ ~inGroup[parent[d]]) => ~inGroup[d]
        \* the output pipes are inherited: only a child of a process that still has them can hold them
        /\ \A d \in Desc : IF parent[d] = 0 THEN TRUE ELSE (holds[d] => holds[parent[d]])
        /\ rootExits \in BOOLEAN
        /\ startMode \in {"execute", "start"}
        /\ stopMode \in {"ctx", "deadline", "cancel", "stop"}     \* "deadline": the context ends by its time limit, not by cancel()
        /\ (stopMode = "stop" => startMode = "start")
        /\ launcher \in {"direct", "translated"}
        \* the direct child itself may ignore SIGTERM (a shell with a trap, an init-like wrapper); it does not then exit by itself either
        /\ rootIgnTerm \in BOOLEAN /\ (rootIgnTerm => ~rootExits)
        \* the Subprocess object has completed a run before (started and stopped once): what that run left behind must not matter
        /\ reused \in BOOLEAN /\ (reused => (launcher = "direct" /\ ~rootIgnTerm))     \* (the scenario space is kept tractable)
        /\ spawned = [p \in Procs |-> p = 0] /\ alive = [p \in Procs |-> p = 0]
        /\ phase = "running" /\ termSent = FALSE /\ isOn = TRUE

\* ---- the tree lives ---------------------------------------------------------------------------------------
Spawn(d) == /\ ~spawned[d] /\ alive[parent[d]] /\ phase = "running"
            /\ spawned' = [spawned EXCEPT ![d] = TRUE] /\ alive' = [alive EXCEPT ![d] = TRUE]
            /\ UNCHANGED <<scenario, phase, termSent, isOn>>
RootExit == /\ rootExits /\ alive[0] /\ \A d \in Desc : parent[d] = 0 => spawned[d]
            /\ alive' = [alive EXCEPT ![0] = FALSE]
            /\ UNCHANGED <<scenario, spawned, phase, termSent, isOn>>

\* ---- stop request and what the library does ---------------------------------------------------------------------
Request == /\ phase = "running" /\ phase' = "requested"
           /\ UNCHANGED <<scenario, spawned, alive, termSent, isOn>>

KillTree == startMode = "start" \/ OnCancel = "kill-tree"
InGroupAlive == {d \in Desc : spawned[d] /\ alive[d] /\ inGroup[d]}

\* is there a process group to signal?  Without one the kill walks the tree by parent pid from the direct child
HasGroup == launcher = "direct" \/ GroupWhenTranslated
RECURSIVE Reachable(_)
Reachable(d) == spawned[d] /\ alive[parent[d]] /\ (parent[d] = 0 \/ Reachable(parent[d]))
\* signals: either the direct child only, or TERM to it then KILL to the whole group
Signals == /\ phase = "requested"
           /\ ~(TermThenWait /\ rootIgnTerm /\ alive[0])     \* waiting for a death by TERM that never comes
           /\ IF (startMode = "execute" /\ ~alive[0] /\ ~ReapedGroupKill) \/ (StaleWaited /\ reused /\ startMode = "execute")
              THEN UNCHANGED alive          \* the direct child was already waited for: nobody left to signal
              ELSE IF KillTree /\ HasGroup
              THEN alive' = [p \in Procs |-> IF p = 0 \/ (p \in Desc /\ inGroup[p]) THEN FALSE ELSE alive[p]]
              ELSE IF KillTree
              THEN alive' = [p \in Procs |-> IF p = 0 \/ (p \in Desc /\ Reachable(p)) THEN FALSE ELSE alive[p]]
              ELSE alive' = [alive EXCEPT ![0] = FALSE]
           /\ phase' = "signalled" /\ termSent' = TRUE
           /\ UNCHANGED <<scenario, spawned, isOn>>

PipeHeld == \E d \in Desc : spawned[d] /\ alive[d] /\ holds[d]
\* Wait returns: the direct child is dead and the pipes are closed
\* (WaitDelay: after a bounded delay the pipes are closed by force)
Return == /\ phase = "signalled" /\ ~alive[0] /\ (~PipeHeld \/ WaitDelay)
          /\ phase' = "returned" /\ isOn' = FALSE
          /\ UNCHANGED <<scenario, spawned, alive, termSent>>

Next == Request \/ Signals \/ Return \/ RootExit \/ \E d \in Desc : Spawn(d)
Spec == Init /\ [][Next]_vars /\ WF_vars(Request) /\ WF_vars(Signals) /\ WF_vars(Return)

\* ---- properties -----------------------------------------------------------------------------------------------------
AfterReturnNoSurvivor == phase = "returned" => InGroupAlive = {}
IsOnFalseAfterwards == phase = "returned" => ~isOn
StopReturns == <>(phase = "returned")
\* out of scope and therefore allowed to survive: processes that left the group
OutOfScopeSurvivors == {d \in Desc : spawned[d] /\ alive[d] /\ ~inGroup[d]}

Scenario == [parent |-> [d \in Desc |-> parent[d]], inGroup |-> [d \in Desc |-> inGroup[d]], ignTerm |-> [d \in Desc |-> ignTerm[d]],
             holds |-> [d \in Desc |-> holds[d]], rootExits |-> rootExits, startMode |-> startMode, stopMode |-> stopMode,
             launcher |-> launcher, rootIgnTerm |-> rootIgnTerm, reused |-> reused, desc |-> Desc]
EmitView == scenario
Emit == PrintT(<<"BEHAVIOUR", ToJson(Scenario)>>)
=============================================================================
