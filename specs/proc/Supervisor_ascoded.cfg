SPECIFICATION Spec
CONSTANTS MaxIter = 3
  LeakOnPostStartFailure = TRUE
  Shaped = FALSE
INVARIANTS HookOrder OneAtATime HaltingStops
PROPERTIES NoStartAfterCancel
CHECK_DEADLOCK FALSE
