---------------------------- MODULE OutputStream ----------------------------
(***************************************************************************)
(* C18 - subprocess results are faithful.                                  *)
(*                                                                         *)
(* The child writes tokens on two streams ("o" standard output, "e"        *)
(* standard error): a text token (a number - a piece of a line) or NL (0). *)
(* The operating system hands what was written to the parent in chunks     *)
(* (Read: any non-empty prefix of what is pending on a stream), the adapter*)
(* turns chunks into log messages, and when the child has ended and both   *)
(* streams are drained Execute logs the end message and returns.           *)
(*                                                                         *)
(* Adapter (constant Adapter):                                             *)
(*   "per-chunk"  as it was coded: each chunk is split on NL and every     *)
(*                non-empty piece is logged - a line that straddles two    *)
(*                chunks becomes two messages                              *)
(*   "buffered"   an incomplete line is kept until its NL arrives (or the  *)
(*                stream ends)                                             *)
(* Properties (at the end):                                                *)
(*   LinesComplete   messages of a stream = the non-empty lines of what    *)
(*                   the child wrote on it, in order                       *)
(*   StartFirst / OneEndLast  the start message precedes, exactly one end  *)
(*                   message follows, all of the child's output            *)
(*   NilIffZero      result nil <=> exit status 0 (and not cancelled)      *)
(*   CtxKindIfCancelled                                                    *)
(***************************************************************************)
EXTENDS Naturals, Sequences, FiniteSets, TLC, Json, LineAlgebra

CONSTANTS Adapter, MaxTokens, MaxText

Streams == {"o", "e"}

VARIABLES phase,      \* "init" | "running" | "exited" | "ended"
          written,    \* per stream: tokens written by the child
          taken,      \* per stream: number of tokens already read by the parent
          partial,    \* per stream: tokens of the line being assembled (buffered adapter)
          log,        \* sequence of messages: <<"start">>, <<"line", stream, tokens>>, <<"ok">>, <<"failed">>
          exit,       \* "none" | "zero" | "nonzero" | "signal"
          cancelled, result,
          chunks      \* per stream: sequence of chunk lengths (for the replay)

vars == <<phase, written, taken, partial, log, exit, cancelled, result, chunks>>

Init == /\ phase = "init" /\ written = [s \in Streams |-> <<>>] /\ taken = [s \in Streams |-> 0]
        /\ partial = [s \in Streams |-> <<>>] /\ log = <<>> /\ exit = "none" /\ cancelled = FALSE /\ result = "none"
        /\ chunks = [s \in Streams |-> <<>>]

Total == Len(written["o"]) + Len(written["e"])
TextTokensUsed == Cardinality({i \in 1..Len(written["o"]) : written["o"][i] # NL}) + Cardinality({i \in 1..Len(written["e"]) : written["e"][i] # NL})

Start == /\ phase = "init" /\ phase' = "running" /\ log' = <<<<"start">>>>
         /\ UNCHANGED <<written, taken, partial, exit, cancelled, result, chunks>>

\* the child writes a token: NL or the next text token (text tokens are numbered in order of writing)
ChildWrite(s, nl) ==
    /\ phase = "running" /\ Total < MaxTokens
    /\ (~nl => TextTokensUsed < MaxText)
    /\ written' = [written EXCEPT ![s] = Append(@, IF nl THEN NL ELSE TextTokensUsed + 1)]
    /\ UNCHANGED <<phase, taken, partial, log, exit, cancelled, result, chunks>>

\* ---- adapters -------------------------------------------------------------------------------------
AsMessages(s, ps) == [i \in 1..Len(ps) |-> <<"line", s, ps[i]>>]

Read(s, k) ==
    /\ phase \in {"running", "exited"} /\ k \in 1..(Len(written[s]) - taken[s])
    /\ LET c == SubSeq(written[s], taken[s] + 1, taken[s] + k) IN
       IF Adapter = "per-chunk"
       THEN /\ log' = log \o AsMessages(s, NonEmpty(Pieces(c, <<>>)))
            /\ UNCHANGED partial
       ELSE LET ps == Pieces(c, partial[s])            \* the pending piece is continued
                complete == SubSeq(ps, 1, Len(ps) - 1)
            IN /\ log' = log \o AsMessages(s, NonEmpty(complete))
               /\ partial' = [partial EXCEPT ![s] = ps[Len(ps)]]
    /\ taken' = [taken EXCEPT ![s] = @ + k]
    /\ chunks' = [chunks EXCEPT ![s] = Append(@, k)]
    /\ UNCHANGED <<phase, written, exit, cancelled, result>>

Exit(mode) == /\ phase = "running" /\ phase' = "exited" /\ exit' = mode
              /\ UNCHANGED <<written, taken, partial, log, cancelled, result, chunks>>

\* the context is cancelled while the child runs: it is killed
Cancel == /\ phase = "running" /\ cancelled' = TRUE /\ phase' = "exited" /\ exit' = "signal"
          /\ UNCHANGED <<written, taken, partial, log, result, chunks>>

\* Execute returns once both streams are drained
End == /\ phase = "exited" /\ \A s \in Streams : taken[s] = Len(written[s])
       /\ LET flush == IF Adapter = "buffered"
                       THEN AsMessages("o", NonEmpty(<<partial["o"]>>)) \o AsMessages("e", NonEmpty(<<partial["e"]>>))
                       ELSE <<>>
              ok == exit = "zero" /\ ~cancelled
          IN /\ log' = log \o flush \o <<(IF ok THEN <<"ok">> ELSE <<"failed">>)>>
             /\ result' = (IF ok THEN "nil" ELSE IF cancelled THEN "context" ELSE "error")
       /\ partial' = [s \in Streams |-> <<>>]
       /\ phase' = "ended"
       /\ UNCHANGED <<written, taken, exit, cancelled, chunks>>

Next == \/ Start \/ End \/ Cancel
        \/ \E s \in Streams : \E nl \in BOOLEAN : ChildWrite(s, nl)
        \/ \E s \in Streams : \E k \in 1..MaxTokens : Read(s, k)
        \/ \E m \in {"zero", "nonzero", "signal"} : Exit(m)
Spec == Init /\ [][Next]_vars

\* ---- properties --------------------------------------------------------------------------------------
Lines(s) == LinesOf(written[s])
MessagesOf(s) == LET ms == SelectSeq(log, LAMBDA m : m[1] = "line" /\ m[2] = s) IN [i \in 1..Len(ms) |-> ms[i][3]]
Ended == phase = "ended"
\* a cancelled child may be killed before the parent has read everything: completeness is stated for children that end by themselves
LinesComplete == (Ended /\ ~cancelled) => \A s \in Streams : MessagesOf(s) = Lines(s)
NothingInvented == \A s \in Streams : \A i \in 1..Len(MessagesOf(s)) : MessagesOf(s)[i] # <<>>
StartFirst == log # <<>> => log[1] = <<"start">> /\ \A i \in 2..Len(log) : log[i] # <<"start">>
OneEndLast == Ended => /\ log[Len(log)] \in {<<"ok">>, <<"failed">>}
                       /\ \A i \in 1..(Len(log) - 1) : log[i] \notin {<<"ok">>, <<"failed">>}
NoEndBeforeEnded == ~Ended => \A i \in 1..Len(log) : log[i] \notin {<<"ok">>, <<"failed">>}
NilIffZero == Ended => ((result = "nil") <=> (exit = "zero" /\ ~cancelled))
CtxKindIfCancelled == Ended /\ cancelled => result = "context"
SuccessMessageIffNil == Ended => ((log[Len(log)] = <<"ok">>) <=> result = "nil")

\* scenarios for the replay: what the child writes, how it reaches the parent, how it ends
Scenario == [o |-> written["o"], e |-> written["e"], chunksO |-> chunks["o"], chunksE |-> chunks["e"], exit |-> exit, cancelled |-> cancelled]
\* one emission per distinct scenario: the log and the result are functions of it
EmitView == <<phase, written, taken, exit, cancelled, chunks>>
Emit == (Ended /\ Total > 0) => PrintT(<<"BEHAVIOUR", ToJson(Scenario)>>)
=============================================================================
