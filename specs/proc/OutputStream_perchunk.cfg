SPECIFICATION Spec
CONSTANTS Adapter = "per-chunk"
  MaxTokens = 3
  MaxText = 2
INVARIANTS LinesComplete
CHECK_DEADLOCK FALSE
