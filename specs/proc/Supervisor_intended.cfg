SPECIFICATION Spec
CONSTANTS MaxIter = 3
  LeakOnPostStartFailure = FALSE
  Shaped = FALSE
INVARIANTS HookOrder OneAtATime HaltingStops NoCommandLeftRunning
PROPERTIES NoStartAfterCancel
CHECK_DEADLOCK FALSE
