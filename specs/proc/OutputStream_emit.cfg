SPECIFICATION Spec
CONSTANTS Adapter = "buffered"
  MaxTokens = 5
  MaxText = 3
INVARIANTS Emit
VIEW EmitView
CHECK_DEADLOCK FALSE
