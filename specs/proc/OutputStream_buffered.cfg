SPECIFICATION Spec
CONSTANTS Adapter = "buffered"
  MaxTokens = 4
  MaxText = 3
INVARIANTS LinesComplete NothingInvented StartFirst OneEndLast NoEndBeforeEnded NilIffZero CtxKindIfCancelled SuccessMessageIffNil
CHECK_DEADLOCK FALSE
