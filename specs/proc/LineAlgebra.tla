---------------------------- MODULE LineAlgebra ----------------------------
(* Lines of a token stream: NL (0) separates, every other token is a piece of text. Shared by OutputStream.tla and OutputStreamTrace.tla. *)
EXTENDS Naturals, Sequences
NL == 0
\* pieces of a chunk between NLs, continuing the piece cur; the last element is what follows the last NL (possibly empty)
RECURSIVE Pieces(_, _)
Pieces(c, cur) == IF c = <<>> THEN <<cur>>
                  ELSE IF Head(c) = NL THEN <<cur>> \o Pieces(Tail(c), <<>>)
                  ELSE Pieces(Tail(c), Append(cur, Head(c)))
NonEmpty(ps) == SelectSeq(ps, LAMBDA p : p # <<>>)
LinesOf(tokens) == NonEmpty(Pieces(tokens, <<>>))
=============================================================================
