SPECIFICATION Spec
CONSTANTS Desc = {1, 2}
  OnCancel = "kill-tree"
  ReapedGroupKill = TRUE
  StaleWaited = TRUE
  TermThenWait = FALSE
  GroupWhenTranslated = TRUE
  WaitDelay = TRUE
INVARIANTS AfterReturnNoSurvivor
CHECK_DEADLOCK FALSE
