-------------------------- MODULE OutputStreamTrace --------------------------
(***************************************************************************)
(* C18 - judging recorded executions of real children.  One Exec event per *)
(* run: the script (tokens per stream as the child wrote them; text tokens *)
(* are numbers, NL is 0), how the child ended, the messages the recording  *)
(* logger received in order (start / line(stream, tokens) / ok / failed /  *)
(* other), the returned error (nil / context kind / other), and the lines  *)
(* Output() returned for the same script.  A message that is not exactly a *)
(* sequence of whole tokens is recorded with token -1... as 999999.        *)
(***************************************************************************)
EXTENDS Naturals, Sequences, FiniteSets, TLC, Json, LineAlgebra
Trace == ndJsonDeserialize("trace.ndjson")
VARIABLES l
Ev == Trace[l]
Verdict(v) == PrintT(<<"VERDICT", ToJson([id |-> l, viol |-> v])>>)

Log == Ev.log
IsLine(m, s) == m[1] = "line" /\ m[2] = s
MessagesOf(s) == LET ms == SelectSeq(Log, LAMBDA m : IsLine(m, s)) IN [i \in 1..Len(ms) |-> ms[i][3]]
Script(s) == IF s = "o" THEN Ev.o ELSE Ev.e
IsEnd(m) == m[1] \in {"ok", "failed"}
Flat(ls) == LET RECURSIVE F(_) F(x) == IF x = <<>> THEN <<>> ELSE Head(x) \o F(Tail(x)) IN F(ls)
IsPrefixSeq(a, b) == Len(a) <= Len(b) /\ SubSeq(b, 1, Len(a)) = a

StreamVerdict(s) ==
    IF MessagesOf(s) = LinesOf(Script(s)) THEN {}
    ELSE IF Ev.cancelled /\ IsPrefixSeq(MessagesOf(s), LinesOf(Script(s))) THEN {}     \* killed before everything was read
    ELSE IF Flat(MessagesOf(s)) = Flat(LinesOf(Script(s))) THEN {"line-split-or-merged"}
    ELSE {"line-lost-duplicated-or-modified"}

OutputVerdict(s, got) ==
    IF got = LinesOf(Script(s)) THEN {}
    ELSE IF Flat(got) = Flat(LinesOf(Script(s))) THEN {"output-line-split-or-merged"} ELSE {"output-incomplete-or-modified"}

Exec ==
    /\ l <= Len(Trace) /\ Ev.op = "Exec"
    /\ Verdict(
         StreamVerdict("o") \cup StreamVerdict("e")
         \cup (IF Len(Log) = 0 \/ Log[1] # <<"start">> THEN {"start-message-not-first"} ELSE {})
         \cup (IF Cardinality({i \in 1..Len(Log) : Log[i] = <<"start">>}) # 1 THEN {"start-message-not-once"} ELSE {})
         \cup (IF Cardinality({i \in 1..Len(Log) : IsEnd(Log[i])}) # 1 THEN {"end-message-not-exactly-one"}
               ELSE IF ~IsEnd(Log[Len(Log)]) THEN {"end-message-before-child-output"} ELSE {})
         \cup (IF \E i \in 1..Len(Log) : Log[i][1] = "other" THEN {"unexpected-message"} ELSE {})
         \* OutputStream!NilIffZero, CtxKindIfCancelled, SuccessMessageIffNil
         \cup (IF (Ev.result = "nil") # (Ev.exit = "zero" /\ ~Ev.cancelled) THEN {"nil-result-does-not-match-exit-status"} ELSE {})
         \cup (IF Ev.cancelled /\ Ev.result # "context" THEN {"cancelled-but-error-not-of-context-kind"} ELSE {})
         \cup (IF Len(Log) > 0 /\ IsEnd(Log[Len(Log)]) /\ ((Log[Len(Log)] = <<"ok">>) # (Ev.result = "nil")) THEN {"end-message-contradicts-result"} ELSE {})
         \cup (IF Ev.hasOutput THEN OutputVerdict("o", Ev.outputO) \cup OutputVerdict("e", Ev.outputE)
                                     \cup (IF (Ev.outputResult = "nil") # (Ev.exit = "zero") THEN {"output-nil-result-does-not-match-exit-status"} ELSE {})
               ELSE {}))
    /\ l' = l + 1
TraceSpec == l = 1 /\ [][Exec]_l
TraceAccepted == LET n == TLCGet("stats").diameter - 1 IN PrintT(<<"TRACE_MATCHED", n>>) /\ n = Len(Trace)
=============================================================================
