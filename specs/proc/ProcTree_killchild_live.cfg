SPECIFICATION Spec
CONSTANTS Desc = {1, 2}
  OnCancel = "kill-child"
  ReapedGroupKill = TRUE
  StaleWaited = FALSE
  TermThenWait = FALSE
  GroupWhenTranslated = TRUE
  WaitDelay = FALSE
PROPERTIES StopReturns
CHECK_DEADLOCK FALSE
