--------------------------- MODULE SupervisorTrace ---------------------------
(***************************************************************************)
(* Judging recorded runs of the real supervisor against the behaviours of  *)
(* Supervisor.tla (shaped, as coded): one Supervise event per scenario     *)
(* with the model's expected log / return / command left behind, and what  *)
(* was observed - the hooks and command starts in order, what postStop was *)
(* handed, what Run returned, which command was still alive afterwards.    *)
(***************************************************************************)
EXTENDS Naturals, Sequences, FiniteSets, TLC, Json
Trace == ndJsonDeserialize("trace.ndjson")
VARIABLES l
Ev == Trace[l]
ToSet(s) == {s[i] : i \in 1..Len(s)}
Verdict(v) == PrintT(<<"VERDICT", ToJson([id |-> l, viol |-> v])>>)

\* what postStop must be handed for iteration i: success only for a command that ended by itself with status 0
ExpectedKind(i) == IF Ev.script[i] = "ok" /\ i # Ev.cancelAt THEN "ok" ELSE "failed"

Supervise ==
    /\ l <= Len(Trace) /\ Ev.op = "Supervise"
    /\ Verdict(
         IF ~Ev.returned THEN {"supervisor-does-not-return"}
         ELSE (IF Ev.names # Ev.expectedLog THEN {"hooks-or-restarts-differ-from-the-model"} ELSE {})
              \cup (IF Ev.expectedRet # "" /\ Ev.ret # Ev.expectedRet THEN {"run-returns-" \o Ev.ret \o "-instead-of-" \o Ev.expectedRet} ELSE {})
              \cup (IF \E k \in 1..Len(Ev.stopKinds) : Ev.stopKinds[k][2] # ExpectedKind(Ev.stopKinds[k][1]) THEN {"postStop-handed-the-wrong-outcome"} ELSE {})
              \* Supervisor!NoCommandLeftRunning, with the named deviation LeakOnPostStartFailure
              \cup (IF ToSet(Ev.alive) \subseteq ToSet(Ev.expectedLeaked) THEN {} ELSE {"command-left-running-after-the-supervisor-returned"})
              \cup (IF ToSet(Ev.alive) # {} /\ ToSet(Ev.alive) \subseteq ToSet(Ev.expectedLeaked) THEN {"observation:command-left-running-when-postStart-fails"} ELSE {})
              \cup (IF Ev.cancelAt # 0 /\ Ev.latencyMs > 12000 THEN {"cancelled-supervisor-returns-late"} ELSE {}))
    /\ l' = l + 1
TraceSpec == l = 1 /\ [][Supervise]_l
TraceAccepted == LET n == TLCGet("stats").diameter - 1 IN PrintT(<<"TRACE_MATCHED", n>>) /\ n = Len(Trace)
=============================================================================
