----------------------------- MODULE Supervisor -----------------------------
(***************************************************************************)
(* The subprocess supervisor (utils/subprocess/supervisor): a loop that    *)
(* runs a command, restarts it when it ends, and calls hooks around it.    *)
(* Growth of the specification beyond the listed properties; it shares the *)
(* process-tree vocabulary of ProcTree.tla (C05) - a cancelled supervisor  *)
(* must leave no command running.                                          *)
(*                                                                         *)
(* One iteration, as coded (supervisor.go Run):                            *)
(*   context test -> preStart -> newCommand -> Execute started in the      *)
(*   background -> postStart -> wait for the command -> postStop (with a   *)
(*   context that ignores cancellation) -> halting-error test -> restart   *)
(*   delay -> next iteration                                               *)
(* The command of iteration i ends by itself with outcome script[i]        *)
(* ("ok", "fail": an error that is not halting, "halt": a halting error)   *)
(* or because the context was cancelled ("cancelled").  Hooks may fail     *)
(* (hookFail = <<iteration, hook>>).                                       *)
(*                                                                         *)
(* Properties:                                                             *)
(*   HookOrder        per iteration preStart < start < postStart, and      *)
(*                    postStop only after the command has ended            *)
(*   OneAtATime       at most one command runs                             *)
(*   HaltingStops     a halting error ends the loop and is what Run        *)
(*                    returns; a non-halting failure restarts              *)
(*   CancelStops      once the context is cancelled no new command is      *)
(*                    started and Run returns a context error              *)
(*   NoCommandLeftRunning  when Run has returned no command is running     *)
(*                    (named deviation LeakOnPostStartFailure: as coded,   *)
(*                    a failing postStart hook makes Run return without    *)
(*                    waiting for - or stopping - the command it started)  *)
(***************************************************************************)
EXTENDS Naturals, Sequences, FiniteSets, TLC, Json

CONSTANTS MaxIter,                 \* iterations explored
          LeakOnPostStartFailure,  \* TRUE = as coded
          Shaped                   \* TRUE: replayable scenarios - the context is cancelled exactly while the supervisor waits for
                                   \* the command of iteration cancelAt, which never ends by itself; FALSE: cancelled at any moment

Outcomes == {"ok", "fail", "halt"}
Hooks == {"preStart", "postStart", "postStop", "newCommand", "none"}

VARIABLES script,      \* outcome of the command of each iteration when it ends by itself
          hookFail,    \* <<iteration, hook>> that fails (<<0, "none">> = none)
          iter, pc,    \* current iteration and place in the loop
          running,     \* set of iterations whose command is running
          cancelled,   \* the supervisor's context is done
          ended,       \* how the command of the current iteration ended ("" = not yet)
          ret,         \* what Run returned ("" = still running)
          log,         \* sequence of events
          cancelAt     \* (shaped scenarios) iteration during which the context is cancelled; 0 = never

vars == <<script, hookFail, iter, pc, running, cancelled, ended, ret, log, cancelAt>>

Init == /\ script \in [1..MaxIter -> Outcomes]
        /\ hookFail \in ({<<0, "none">>} \cup ((1..MaxIter) \X {"preStart", "postStart", "postStop", "newCommand"}))
        /\ cancelAt \in (IF Shaped THEN 0..MaxIter ELSE {0})
        /\ iter = 1 /\ pc = "check" /\ running = {} /\ cancelled = FALSE /\ ended = "" /\ ret = "" /\ log = <<>>

Ev(name) == log' = Append(log, <<name, iter>>)
Fails(h) == hookFail = <<iter, h>>
Return(kind) == /\ ret' = kind /\ pc' = "done"

\* the context is cancelled at any moment; a running command is then interrupted (C05) and ends "cancelled"
Cancel == /\ ~cancelled /\ ret = "" /\ cancelled' = TRUE
          /\ (Shaped => (iter = cancelAt /\ pc = "wait" /\ iter \in running))
          /\ UNCHANGED <<script, hookFail, iter, pc, running, ended, ret, log, cancelAt>>

Check == /\ pc = "check" /\ iter <= MaxIter
         /\ IF cancelled THEN Return("context") /\ UNCHANGED log
            ELSE pc' = "preStart" /\ UNCHANGED <<ret, log, cancelAt>>
         /\ UNCHANGED <<script, hookFail, iter, running, cancelled, ended, cancelAt>>

PreStart == /\ pc = "preStart" /\ Ev("preStart")
            /\ IF Fails("preStart") THEN Return("unexpected") ELSE pc' = "newCommand" /\ UNCHANGED ret
            /\ UNCHANGED <<script, hookFail, iter, running, cancelled, ended, cancelAt>>

NewCommand == /\ pc = "newCommand"
              /\ IF Fails("newCommand") THEN Return("unexpected") /\ UNCHANGED <<running, log, cancelAt>>
                 ELSE pc' = "postStart" /\ running' = running \cup {iter} /\ Ev("start") /\ UNCHANGED ret
              /\ UNCHANGED <<script, hookFail, iter, cancelled, ended, cancelAt>>

\* the command ends: by itself as scripted, or interrupted once the context is cancelled
CommandEnds == /\ iter \in running
               /\ (Shaped /\ iter = cancelAt => cancelled)          \* that command sleeps until it is interrupted
               /\ running' = running \ {iter}
               /\ ended' = (IF cancelled THEN "cancelled" ELSE script[iter])
               /\ Ev("end")
               /\ UNCHANGED <<script, hookFail, iter, pc, cancelled, ret, cancelAt>>

PostStart == /\ pc = "postStart" /\ Ev("postStart")
             /\ IF Fails("postStart")
                THEN IF LeakOnPostStartFailure THEN Return("unexpected")              \* the command is left behind
                     ELSE pc' = "stopThenFail" /\ UNCHANGED ret
                ELSE pc' = "wait" /\ UNCHANGED ret
             /\ UNCHANGED <<script, hookFail, iter, running, cancelled, ended, cancelAt>>

\* (intended variant) the command is stopped and waited for before the failure is reported
StopThenFail == /\ pc = "stopThenFail" /\ iter \notin running /\ Return("unexpected")
                /\ UNCHANGED <<script, hookFail, iter, running, cancelled, ended, log, cancelAt>>

Wait == /\ pc = "wait" /\ iter \notin running /\ ended # ""
        /\ pc' = "postStop"
        /\ UNCHANGED <<script, hookFail, iter, running, cancelled, ended, ret, log, cancelAt>>

PostStop == /\ pc = "postStop" /\ Ev("postStop")
            /\ IF Fails("postStop") THEN Return("unexpected")
               ELSE IF ended = "halt" THEN Return("halting")
               ELSE pc' = "delay" /\ UNCHANGED ret
            /\ UNCHANGED <<script, hookFail, iter, running, cancelled, ended, cancelAt>>

Delay == /\ pc = "delay"
         /\ pc' = "check" /\ iter' = iter + 1 /\ ended' = ""
         /\ UNCHANGED <<script, hookFail, running, cancelled, ret, log, cancelAt>>

\* the stopThenFail variant interrupts the command itself
ForcedEnd == /\ pc = "stopThenFail" /\ iter \in running
             /\ running' = running \ {iter} /\ ended' = "cancelled" /\ Ev("end")
             /\ UNCHANGED <<script, hookFail, iter, pc, cancelled, ret, cancelAt>>

Next == Cancel \/ Check \/ PreStart \/ NewCommand \/ CommandEnds \/ PostStart \/ StopThenFail \/ Wait \/ PostStop \/ Delay \/ ForcedEnd
Spec == Init /\ [][Next]_vars

\* ---- properties ----------------------------------------------------------------------------------------
Pos(name, i) == IF \E k \in 1..Len(log) : log[k] = <<name, i>> THEN CHOOSE k \in 1..Len(log) : log[k] = <<name, i>> ELSE 0
Count(name, i) == Cardinality({k \in 1..Len(log) : log[k] = <<name, i>>})
HookOrder == \A i \in 1..MaxIter :
    /\ Count("preStart", i) <= 1 /\ Count("start", i) <= 1 /\ Count("postStart", i) <= 1 /\ Count("postStop", i) <= 1
    /\ (Pos("start", i) # 0 => Pos("preStart", i) # 0 /\ Pos("preStart", i) < Pos("start", i))
    /\ (Pos("postStart", i) # 0 => Pos("start", i) # 0 /\ Pos("start", i) < Pos("postStart", i))
    /\ (Pos("postStop", i) # 0 => Pos("end", i) # 0 /\ Pos("end", i) < Pos("postStop", i))
    /\ (i > 1 /\ Pos("preStart", i) # 0 => Pos("postStop", i - 1) # 0 /\ Pos("postStop", i - 1) < Pos("preStart", i))
OneAtATime == Cardinality(running) <= 1
HaltingStops == (ret = "halting") => (ended = "halt" /\ iter \notin running)
NoStartAfterCancel == [][cancelled /\ pc = "check" => running' = running]_vars
NoCommandLeftRunning == (ret # "") => running = {}

Scenario == [script |-> script, hookFail |-> hookFail, cancelAt |-> cancelAt, log |-> SelectSeq(log, LAMBDA e : e[1] # "end"), ret |-> ret, leaked |-> running]
EmitView == <<script, hookFail, cancelAt, log, ret, running, pc>>
Emit == (ret # "" \/ (iter > MaxIter /\ pc = "check")) => PrintT(<<"BEHAVIOUR", ToJson(Scenario)>>)
=============================================================================
