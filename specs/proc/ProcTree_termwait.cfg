SPECIFICATION Spec
CONSTANTS Desc = {1, 2}
  OnCancel = "kill-tree"
  ReapedGroupKill = TRUE
  StaleWaited = FALSE
  TermThenWait = TRUE
  GroupWhenTranslated = TRUE
  WaitDelay = TRUE
PROPERTIES StopReturns
CHECK_DEADLOCK FALSE
