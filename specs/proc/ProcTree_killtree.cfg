SPECIFICATION Spec
CONSTANTS Desc = {1, 2, 3}
  OnCancel = "kill-tree"
INVARIANTS AfterReturnNoSurvivor IsOnFalseAfterwards
PROPERTIES StopReturns
