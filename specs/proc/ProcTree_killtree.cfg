SPECIFICATION Spec
CONSTANTS Desc = {1, 2, 3}
  OnCancel = "kill-tree"
  ReapedGroupKill = TRUE
  StaleWaited = FALSE
  TermThenWait = FALSE
  GroupWhenTranslated = TRUE
  WaitDelay = TRUE
INVARIANTS AfterReturnNoSurvivor IsOnFalseAfterwards
PROPERTIES StopReturns
CHECK_DEADLOCK FALSE
