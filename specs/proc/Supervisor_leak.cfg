SPECIFICATION Spec
CONSTANTS MaxIter = 2
  LeakOnPostStartFailure = TRUE
  Shaped = FALSE
INVARIANTS NoCommandLeftRunning
CHECK_DEADLOCK FALSE
