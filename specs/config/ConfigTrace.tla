----------------------------- MODULE ConfigTrace -----------------------------
(***************************************************************************)
(* C15 - judging recorded loads.  Load events: for every subject field the *)
(* sources that held a value, the winner the model expects, and the source *)
(* whose value the loaded structure holds ("none" if it holds something    *)
(* else); the error kind and whether the message names the invalidated     *)
(* field.  EnvNames events: the names reported by                          *)
(* DetermineConfigurationEnvironmentVariables, the model's names, and for  *)
(* each the leaf it changed when set alone.                                *)
(***************************************************************************)
EXTENDS Naturals, Sequences, FiniteSets, TLC, Json
Trace == ndJsonDeserialize("trace.ndjson")
VARIABLES l
Ev == Trace[l]
ToSet(s) == {s[i] : i \in 1..Len(s)}
Verdict(v) == PrintT(<<"VERDICT", ToJson([id |-> l, viol |-> v])>>)

Order == <<"flagset", "env", "file", "def", "flagdef">>
Winner(S) == Order[CHOOSE i \in 1..Len(Order) : Order[i] \in S /\ \A j \in 1..(i - 1) : Order[j] \notin S]

SubjectVerdict(s) ==
    IF s.loadedFrom = Winner(ToSet(s.sources)) THEN {}
    ELSE IF s.loadedFrom = "none" THEN {"field-holds-no-source-value"}
    ELSE {"loaded-from-" \o s.loadedFrom \o "-instead-of-" \o Winner(ToSet(s.sources))}

Load ==
    /\ l <= Len(Trace) /\ Ev.op = "Load"
    /\ Verdict(
         IF Ev.invalid = <<>>
         THEN (IF Ev.err # "" THEN {"valid-configuration-rejected"}
               ELSE UNION {SubjectVerdict(Ev.subjects[i]) : i \in 1..Len(Ev.subjects)})
         ELSE (IF Ev.err = "" THEN {"invalid-configuration-accepted"}
               ELSE (IF Ev.err # "invalid" THEN {"validation-error-not-of-invalid-kind"} ELSE {})
                    \cup (IF ~Ev.namesField THEN {"validation-error-does-not-name-the-field"} ELSE {})))
    /\ l' = l + 1

EnvNames ==
    /\ l <= Len(Trace) /\ Ev.op = "EnvNames"
    /\ Verdict(
         (IF ToSet(Ev.reported) # ToSet(Ev.model) THEN {"reported-environment-names-differ-from-the-rule"} ELSE {})
         \cup (IF Ev.notHonoured # <<>> THEN {"reported-environment-name-not-honoured"} ELSE {})
         \cup (IF Ev.wrongField # <<>> THEN {"environment-name-sets-another-field"} ELSE {}))
    /\ l' = l + 1
TraceSpec == l = 1 /\ [][Load \/ EnvNames]_l
TraceAccepted == LET n == TLCGet("stats").diameter - 1 IN PrintT(<<"TRACE_MATCHED", n>>) /\ n = Len(Trace)
=============================================================================
