SPECIFICATION Spec
CONSTANT SkipUnsetSections = TRUE
INVARIANTS EveryLevelValidated
