-------------------------- MODULE ConfigPrecedence --------------------------
(***************************************************************************)
(* C15 - configuration loading: precedence of sources, then validation.    *)
(*                                                                         *)
(* A configuration structure is a tree; a leaf field is named by its path  *)
(* of keys (lower case letters, digits, "_" and "-").  For a leaf each of these sources *)
(* may hold a value (all values distinct, none empty):                     *)
(*   flagset  a command-line flag bound to the field, explicitly set       *)
(*   env      the environment variable PREFIX_PATH_TO_FIELD                *)
(*   file     the configuration file                                       *)
(*   def      the supplied default configuration                           *)
(*   flagdef  the default value of a bound flag that was not set           *)
(* Winner: the first present in that order (the documentation of           *)
(* LoadFromEnvironment: flags, environment, configuration file, defaults;  *)
(* "default values from the default configuration take precedence over     *)
(* defaults set via flags unless they are empty").                         *)
(* EnvName: upper case of the prefix and of the keys joined by "_".        *)
(* Validation: loading succeeds iff no level of the structure is invalid;  *)
(* otherwise the error is 'invalid' and names the offending field.         *)
(*                                                                         *)
(* TLC enumerates the scenarios (subject fields x present sources x        *)
(* invalidated field x prefix spelling) with the expected winner and the   *)
(* expected environment names; the harness materialises them with real     *)
(* viper sessions, flag sets, environment variables and files.             *)
(***************************************************************************)
EXTENDS Naturals, Sequences, FiniteSets, TLC, Json

Order == <<"flagset", "env", "file", "def", "flagdef">>
Sources == {Order[i] : i \in 1..Len(Order)}

\* leaf fields of the harness's structure (path of keys; kind)
Fields == << [path |-> <<"title">>, kind |-> "string"],
             [path |-> <<"count">>, kind |-> "int"],
             [path |-> <<"mid", "name">>, kind |-> "string"],
             [path |-> <<"mid", "inner", "host">>, kind |-> "string"],
             [path |-> <<"mid", "inner", "port">>, kind |-> "int"],
             [path |-> <<"mid", "inner", "period">>, kind |-> "duration"],
             [path |-> <<"mid", "inner", "ratio">>, kind |-> "float"],
             [path |-> <<"mid", "inner_u", "host">>, kind |-> "string"],
             [path |-> <<"mid", "inner_u", "port">>, kind |-> "int"],
             [path |-> <<"direct_leaf", "host">>, kind |-> "string"],
             [path |-> <<"direct_leaf", "port">>, kind |-> "int"],
             [path |-> <<"direct_leaf", "period">>, kind |-> "duration"],
             \* key spellings with a dash (kept as it is in the environment name) and with a digit
             [path |-> <<"log-level">>, kind |-> "string"],
             [path |-> <<"mid", "inner", "max-conn">>, kind |-> "int"],
             [path |-> <<"direct_leaf", "retry_2nd">>, kind |-> "int"],
             [path |-> <<"mid", "inner", "secure">>, kind |-> "bool"] >>      \* two-valued: never a subject of the precedence scenarios
NF == Len(Fields)
NS == NF - 1
\* fields whose emptiness invalidates their level (required by the level's Validate)
Required == {<<"title">>, <<"mid", "name">>, <<"mid", "inner", "host">>, <<"direct_leaf", "port">>}
Prefixes == {"app", "App", "MY_APP", "my_app2", "my-app"}

CONSTANT SkipUnsetSections   \* FALSE: as coded.  TRUE (sensitivity): a nested section left entirely unset is not validated
VARIABLES f1, s1, f2, s2, invalid, prefix, unsetSection,
          zeroDefaults,   \* the supplied defaults structure sets nothing at all (every field zero): the file supplies what validation requires
          foreign,    \* an environment variable carrying the field's name WITHOUT the prefix is set as well (and a flag is bound under that short name): not a source
          flagForm    \* how the first subject's flag is bound: alone, or as the first / the second of two alternative flags (BindFlagsToEnv); the flag that is set is that one
vars == <<f1, s1, f2, s2, invalid, prefix, unsetSection, zeroDefaults, foreign, flagForm>>
\* required fields that are the only required field of their section: the section can be left entirely unset (every field zero) and
\* the offending field is still that one
InSection(path, inv) == LET n == Len(inv) - 1 IN Len(path) > n /\ SubSeq(path, 1, n) = SubSeq(inv, 1, n)
SoleRequired == {<<"mid", "inner", "host">>, <<"direct_leaf", "port">>}

NonEmptySubsets == (SUBSET Sources) \ {{}}
\* for the second subject a few representative source sets
SecondSets == {{"file"}, {"env", "file"}, {"flagdef", "file"}, {"flagset", "env", "file", "def", "flagdef"}, {"def", "flagdef"}, {"flagset", "def"}}

Init == /\ f1 \in 1..NS /\ s1 \in NonEmptySubsets
        /\ \/ f2 = 0 /\ s2 = {} /\ invalid \in {<<>>} \cup Required
           \/ f2 \in (f1 + 1)..NS /\ s2 \in SecondSets /\ invalid = <<>>
        /\ prefix \in Prefixes
        \* the invalidated field is emptied alone, or together with its whole section (no field of it set by any source)
        /\ unsetSection \in BOOLEAN /\ (unsetSection => (invalid \in SoleRequired /\ ~InSection(Fields[f1].path, invalid)))
        /\ foreign \in BOOLEAN /\ (foreign => (f2 = 0 /\ invalid = <<>> /\ "flagset" \notin s1 /\ "env" \notin s1))
        /\ flagForm \in {"single", "first", "second"} /\ (flagForm # "single" => ("flagset" \in s1 /\ f2 = 0 /\ invalid = <<>>))
        /\ zeroDefaults \in BOOLEAN /\ (zeroDefaults => (f2 = 0 /\ invalid = <<>> /\ "def" \notin s1 /\ flagForm = "single" /\ ~foreign))
        \* the scenario space is kept tractable: the prefix varies with the first field only
        /\ prefix = (CHOOSE p \in Prefixes : TRUE) \/ (f2 = 0 /\ invalid = <<>>)
Next == UNCHANGED vars
Spec == Init /\ [][Next]_vars

First(S) == Order[CHOOSE i \in 1..Len(Order) : Order[i] \in S /\ \A j \in 1..(i - 1) : Order[j] \notin S]
Winner(S) == First(S)

\* ---- environment names ----------------------------------------------------------------------------
Lower == <<"a","b","c","d","e","f","g","h","i","j","k","l","m","n","o","p","q","r","s","t","u","v","w","x","y","z">>
Upper == <<"A","B","C","D","E","F","G","H","I","J","K","L","M","N","O","P","Q","R","S","T","U","V","W","X","Y","Z">>
UpC(c) == IF \E i \in 1..26 : Lower[i] = c THEN Upper[CHOOSE i \in 1..26 : Lower[i] = c] ELSE c
RECURSIVE Up(_)
Up(s) == IF s = "" THEN "" ELSE UpC(SubSeq(s, 1, 1)) \o Up(SubSeq(s, 2, Len(s)))
RECURSIVE JoinUp(_)
JoinUp(p) == IF Len(p) = 1 THEN Up(p[1]) ELSE Up(p[1]) \o "_" \o JoinUp(Tail(p))
EnvName(pfx, path) == Up(pfx) \o "_" \o JoinUp(path)
AllEnvNames == {EnvName(prefix, Fields[i].path) : i \in 1..NF}

\* ---- properties of the rule itself -----------------------------------------------------------------------
WinnerIsPresent == Winner(s1) \in s1
ExplicitFlagWins == "flagset" \in s1 => Winner(s1) = "flagset"
FileBeatsDefaults == ("file" \in s1 /\ "flagset" \notin s1 /\ "env" \notin s1) => Winner(s1) = "file"
EnvNamesDistinct == Cardinality(AllEnvNames) = NF

\* validation reaches every nesting level: an invalidated field makes loading fail, whatever else its section holds
Rejected == invalid # <<>> /\ ~(SkipUnsetSections /\ unsetSection)
EveryLevelValidated == invalid # <<>> => Rejected
InvalidNames == IF invalid = <<>> THEN <<>> ELSE invalid
Scenario == [prefix |-> prefix,
             subjects |-> (IF f2 = 0 THEN <<[path |-> Fields[f1].path, kind |-> Fields[f1].kind, sources |-> s1, winner |-> Winner(s1), env |-> EnvName(prefix, Fields[f1].path)]>>
                           ELSE <<[path |-> Fields[f1].path, kind |-> Fields[f1].kind, sources |-> s1, winner |-> Winner(s1), env |-> EnvName(prefix, Fields[f1].path)],
                                  [path |-> Fields[f2].path, kind |-> Fields[f2].kind, sources |-> s2, winner |-> Winner(s2), env |-> EnvName(prefix, Fields[f2].path)]>>),
             invalid |-> InvalidNames, unsetSection |-> unsetSection, flagForm |-> flagForm, foreign |-> foreign, zeroDefaults |-> zeroDefaults,
             envNames |-> AllEnvNames]
Emit == PrintT(<<"BEHAVIOUR", ToJson(Scenario)>>)
=============================================================================
