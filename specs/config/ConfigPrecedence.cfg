SPECIFICATION Spec
INVARIANTS WinnerIsPresent ExplicitFlagWins FileBeatsDefaults EnvNamesDistinct Emit
