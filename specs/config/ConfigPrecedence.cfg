SPECIFICATION Spec
CONSTANT SkipUnsetSections = FALSE
INVARIANTS EveryLevelValidated WinnerIsPresent ExplicitFlagWins FileBeatsDefaults EnvNamesDistinct Emit
