SPECIFICATION Spec
CONSTANT SharedBacking = TRUE
CONSTANT MaxOps = 5
INVARIANTS Delivery
