------------------------------ MODULE LogSink ------------------------------
(***************************************************************************)
(* C13 - loggers are goroutine-safe and lose nothing.                      *)
(*                                                                         *)
(* Producers log messages on the output or the error stream of one logger. *)
(* The logger is a tree: a front (direct, or a ring buffer of capacity     *)
(* Ring drained by one consumer) in front of Members sinks.  Each sink is  *)
(* a sequence of messages guarded by a lock whose mode is a constant of    *)
(* the implementation:                                                     *)
(*   "exclusive"  append is one atomic step                                *)
(*   "shared"     the output and the error side hold the lock in shared    *)
(*                mode (string logger as it was coded: two log.Logger      *)
(*                objects, each with its own mutex, writing to one writer  *)
(*                under a read lock): an append is two steps - read the    *)
(*                length, store at that length - and another producer's    *)
(*                append in between is overwritten                         *)
(* The ring follows the diode used by the asynchronous loggers: a push     *)
(* never blocks; when the ring is full the oldest entry is overwritten and *)
(* counted; the consumer reports the count (the dropped-messages logger)   *)
(* before it delivers the next entry.                                      *)
(*                                                                         *)
(* Properties at quiescence (producers done, ring drained):                *)
(*   ExactlyOnceIntact  every sink holds every message sent, once          *)
(*                      (without a ring)                                   *)
(*   EveryMember        all members hold the same messages                 *)
(*   DropsAccounted     sent = delivered + reported dropped, nothing twice *)
(***************************************************************************)
EXTENDS Naturals, Sequences, FiniteSets, TLC

CONSTANTS Producers, MsgsPer, LockMode, Ring, Members

Streams == {"o", "e"}
Msg == [p : Producers, n : 1..MsgsPer]

VARIABLES next,      \* per producer: index of the next message to send
          phase,     \* per producer: "idle" | "appending" (between the two steps of a shared-mode append)
          at,        \* per producer: <<member, length read>> of the append in progress
          sinks,     \* per member: sequence of messages
          ring, missed, reported

vars == <<next, phase, at, sinks, ring, missed, reported>>

Init == /\ next = [p \in Producers |-> 1] /\ phase = [p \in Producers |-> "idle"] /\ at = [p \in Producers |-> <<0, 0>>]
        /\ sinks = [m \in 1..Members |-> <<>>] /\ ring = <<>> /\ missed = 0 /\ reported = 0

Current(p) == [p |-> p, n |-> next[p]]

\* ---- direct delivery (no ring): the producer writes to every member in turn --------------------------------
\* exclusive: all members in one step (the composite holds its own lock around the fan-out)
LogExclusive(p) ==
    /\ Ring = 0 /\ LockMode = "exclusive" /\ phase[p] = "idle" /\ next[p] <= MsgsPer
    /\ sinks' = [m \in 1..Members |-> Append(sinks[m], Current(p))]
    /\ next' = [next EXCEPT ![p] = @ + 1]
    /\ UNCHANGED <<phase, at, ring, missed, reported>>

\* shared: read the length of member 1's buffer ...
LogSharedBegin(p) ==
    /\ Ring = 0 /\ LockMode = "shared" /\ phase[p] = "idle" /\ next[p] <= MsgsPer
    /\ phase' = [phase EXCEPT ![p] = "appending"]
    /\ at' = [at EXCEPT ![p] = <<1, Len(sinks[1])>>]
    /\ UNCHANGED <<next, sinks, ring, missed, reported>>
\* ... and store at that position, dropping whatever was appended meanwhile
LogSharedEnd(p) ==
    /\ phase[p] = "appending"
    /\ LET m == at[p][1] IN
       /\ sinks' = [sinks EXCEPT ![m] = Append(SubSeq(sinks[m], 1, at[p][2]), Current(p))]
       /\ IF m < Members
          THEN at' = [at EXCEPT ![p] = <<m + 1, Len(sinks[m + 1])>>] /\ UNCHANGED <<phase, next>>
          ELSE phase' = [phase EXCEPT ![p] = "idle"] /\ next' = [next EXCEPT ![p] = @ + 1] /\ UNCHANGED at
    /\ UNCHANGED <<ring, missed, reported>>

\* ---- ring-buffered delivery -------------------------------------------------------------------------------
Push(p) ==
    /\ Ring > 0 /\ next[p] <= MsgsPer
    /\ IF Len(ring) = Ring
       THEN ring' = Append(Tail(ring), Current(p)) /\ missed' = missed + 1
       ELSE ring' = Append(ring, Current(p)) /\ UNCHANGED missed
    /\ next' = [next EXCEPT ![p] = @ + 1]
    /\ UNCHANGED <<phase, at, sinks, reported>>

\* the consumer: reports what was overwritten, then hands the oldest entry to every member
Consume ==
    /\ Ring > 0 /\ ring # <<>>
    /\ reported' = reported + missed /\ missed' = 0
    /\ sinks' = [m \in 1..Members |-> Append(sinks[m], Head(ring))]
    /\ ring' = Tail(ring)
    /\ UNCHANGED <<next, phase, at>>

Next == \/ \E p \in Producers : LogExclusive(p) \/ LogSharedBegin(p) \/ LogSharedEnd(p) \/ Push(p)
        \/ Consume
Spec == Init /\ [][Next]_vars

\* ---- properties ----------------------------------------------------------------------------------------------
Quiescent == /\ \A p \in Producers : next[p] = MsgsPer + 1 /\ phase[p] = "idle"
             /\ ring = <<>>
Count(s, x) == Cardinality({i \in 1..Len(s) : s[i] = x})
ExactlyOnceIntact == (Quiescent /\ Ring = 0) => \A m \in 1..Members : \A x \in Msg : Count(sinks[m], x) = 1
EveryMember == Quiescent => \A m \in 1..Members : sinks[m] = sinks[1]
NeverTwice == \A m \in 1..Members : \A x \in Msg : Count(sinks[m], x) <= 1
DropsAccounted == (Quiescent /\ Ring > 0) => Cardinality(Msg) = Len(sinks[1]) + reported + missed
\* a loss is never silent: whatever is not (yet) delivered is in the ring, still to be sent, or counted
NoSilentLoss == Ring > 0 =>
    Cardinality({x \in Msg : x.n < next[x.p]}) = Len(sinks[1]) + Len(ring) + missed + reported
=============================================================================
