------------------------- MODULE LogCompositeTrace -------------------------
(***************************************************************************)
(* C13 - judging replays of LogComposite.tla's behaviours on the real      *)
(* composite loggers: per event the operations, the content LogComposite   *)
(* (SharedBacking = FALSE) expects in every sink and the message numbers   *)
(* parsed back from every real sink.                                       *)
(***************************************************************************)
EXTENDS Naturals, Sequences, FiniteSets, TLC, Json
Trace == ndJsonDeserialize("trace.ndjson")
VARIABLES l
Ev == Trace[l]
ToSet(s) == {s[i] : i \in 1..Len(s)}
Verdict(v) == PrintT(<<"VERDICT", ToJson([id |-> l, viol |-> v])>>)

SinkVerdict(s) ==
    LET exp == Ev.expected[s] got == Ev.got[s] IN
    (IF ToSet(exp) \ ToSet(got) # {} THEN {"member-misses-messages-of-its-composite"} ELSE {})
    \cup (IF ToSet(got) \ ToSet(exp) # {} THEN {"sink-receives-messages-of-a-composite-it-does-not-belong-to"} ELSE {})
    \cup (IF ToSet(got) = ToSet(exp) /\ got # exp THEN {"messages-duplicated-or-out-of-order"} ELSE {})

Replay ==
    /\ l <= Len(Trace) /\ Ev.op = "Composites"
    /\ Verdict((IF Ev.problem # "" THEN {"composite-call-failed"} ELSE {})
               \cup UNION {SinkVerdict(s) : s \in 1..Len(Ev.expected)})
    /\ l' = l + 1
TraceSpec == l = 1 /\ [][Replay]_l
TraceAccepted == LET n == TLCGet("stats").diameter - 1 IN PrintT(<<"TRACE_MATCHED", n>>) /\ n = Len(Trace)
=============================================================================
