SPECIFICATION Spec
CONSTANT SharedBacking = FALSE
CONSTANT MaxOps = 7
INVARIANTS Delivery Emit
