SPECIFICATION Spec
CONSTANTS Producers = {1, 2}
  MsgsPer = 2
  LockMode = "shared"
  Ring = 0
  Members = 1
INVARIANTS ExactlyOnceIntact
CHECK_DEADLOCK FALSE
