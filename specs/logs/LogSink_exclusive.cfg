SPECIFICATION Spec
CONSTANTS Producers = {1, 2, 3}
  MsgsPer = 2
  LockMode = "exclusive"
  Ring = 0
  Members = 2
INVARIANTS ExactlyOnceIntact EveryMember NeverTwice
CHECK_DEADLOCK FALSE
