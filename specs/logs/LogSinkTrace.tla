---------------------------- MODULE LogSinkTrace ----------------------------
(***************************************************************************)
(* C13 - judging recorded runs of the real loggers against the rules of    *)
(* LogSink.tla.  One Run event per (logger kind, round): what every sink   *)
(* held once the producers had joined and the logger was closed (expected  *)
(* / exactly once / missing / duplicated / corrupt lines / unwanted), the  *)
(* drops the ring-buffered writers reported; one Race event per logger     *)
(* kind: reports of the runtime race detector whose stack is in utils/logs.*)
(***************************************************************************)
EXTENDS Naturals, Sequences, FiniteSets, TLC, Json
Trace == ndJsonDeserialize("trace.ndjson")
VARIABLES l
Ev == Trace[l]
Verdict(v) == PrintT(<<"VERDICT", ToJson([id |-> l, viol |-> v])>>)

RECURSIVE Sum(_, _)
Sum(s, i) == IF i > Len(s) THEN 0 ELSE s[i].missing + Sum(s, i + 1)
Missing == Sum(Ev.sinks, 1)

SinkVerdict(s) ==
    (IF s.dup > 0 THEN {"message-delivered-twice"} ELSE {})
    \cup (IF s.corrupt > 0 THEN {"message-damaged-or-interleaved"} ELSE {})
    \cup (IF s.unwanted > 0 THEN {"message-on-the-wrong-stream"} ELSE {})
    \cup (IF Ev.class = "lossless" /\ s.missing > 0 THEN {"message-lost"} ELSE {})
    \cup (IF s.once + s.missing + s.dup # s.expected THEN {"harness-accounting"} ELSE {})

Run ==
    /\ l <= Len(Trace) /\ Ev.op = "Run"
    /\ Verdict(
         UNION {SinkVerdict(Ev.sinks[i]) : i \in 1..Len(Ev.sinks)}
         \* LogSink!DropsAccounted: sent = delivered + reported dropped
         \cup (IF Ev.class = "ring" /\ Missing > Ev.dropsReported THEN {"ring-loss-not-reported"} ELSE {})
         \cup (IF Ev.class = "ring" /\ Missing < Ev.dropsReported THEN {"ring-drop-count-overstated"} ELSE {})
         \cup (IF Ev.malformedDropReports > 0 THEN {"ring-drop-report-malformed"} ELSE {})
         \cup (IF Ev.class # "ring" /\ Ev.dropsReported > 0 THEN {"drops-reported-by-lossless-logger"} ELSE {}))
    /\ l' = l + 1

Race ==
    /\ l <= Len(Trace) /\ Ev.op = "Race"
    /\ Verdict(IF Ev.inLogs > 0 THEN {"data-race"} ELSE {})
    /\ l' = l + 1

TraceSpec == l = 1 /\ [][Run \/ Race]_l
TraceAccepted == LET n == TLCGet("stats").diameter - 1 IN PrintT(<<"TRACE_MATCHED", n>>) /\ n = Len(Trace)
=============================================================================
