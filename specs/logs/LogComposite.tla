---------------------------- MODULE LogComposite ----------------------------
(***************************************************************************)
(* C13 - "composite loggers deliver every message to every member": the    *)
(* membership side.  Several composite loggers are built from ONE list of  *)
(* initial members handed over by the caller (a slice with spare capacity, *)
(* spread into the constructor); members are appended to a composite       *)
(* later; messages are logged through either composite.                    *)
(*                                                                         *)
(* Intended (and as coded: the constructor copies the list): every         *)
(* composite owns its member list.  The constant SharedBacking = TRUE      *)
(* describes the other implementation: the composites keep the caller's    *)
(* slice, so their lists are windows onto ONE backing array and an append  *)
(* through one composite writes the slot another composite will write (or  *)
(* already reads).                                                         *)
(*                                                                         *)
(*   Delivery  every sink holds exactly the messages logged through a      *)
(*             composite it was a member of at the time, in order          *)
(* must hold with SharedBacking = FALSE and be violated with TRUE.         *)
(* Behaviours (sequences of Log / Append over two composites) are emitted  *)
(* with the expected content of every sink; the harness replays them on    *)
(* NewCombinedLoggers / NewMultipleLoggers.                                *)
(***************************************************************************)
EXTENDS Naturals, Sequences, FiniteSets, TLC, Json

CONSTANTS SharedBacking, MaxOps

Composites == {1, 2}
Initial == <<1, 2>>          \* sinks given to both constructors
Late == {3, 4, 5}            \* sinks appended later
SinkIds == {1, 2} \cup Late
Cap == 6                     \* capacity of the caller's slice: never exhausted here

VARIABLES lists,    \* per composite: its own member list (SharedBacking = FALSE)
          backing,  \* the caller's array (SharedBacking = TRUE)
          len,      \* per composite: length of its window onto the array
          sinks,    \* per sink: the message numbers received, in order
          owed,     \* per sink: what it must hold (ghost: the intended semantics)
          member,   \* ghost: per sink, the composites it has been appended to / given to
          ops, nmsg

vars == <<lists, backing, len, sinks, owed, member, ops, nmsg>>

Init == /\ lists = [c \in Composites |-> Initial]
        /\ backing = [i \in 1..Cap |-> IF i <= Len(Initial) THEN Initial[i] ELSE 0]
        /\ len = [c \in Composites |-> Len(Initial)]
        /\ sinks = [s \in SinkIds |-> <<>>] /\ owed = [s \in SinkIds |-> <<>>]
        /\ member = [s \in SinkIds |-> IF s \in {1, 2} THEN Composites ELSE {}]
        /\ ops = <<>> /\ nmsg = 0

Members(c) == IF SharedBacking THEN {backing[i] : i \in 1..len[c]} ELSE {lists[c][i] : i \in 1..Len(lists[c])}

Log(c) ==
    /\ Len(ops) < MaxOps
    /\ nmsg' = nmsg + 1
    /\ sinks' = [s \in SinkIds |-> IF s \in Members(c) THEN Append(sinks[s], nmsg') ELSE sinks[s]]
    /\ owed' = [s \in SinkIds |-> IF c \in member[s] THEN Append(owed[s], nmsg') ELSE owed[s]]
    /\ ops' = Append(ops, [op |-> "log", c |-> c, s |-> 0])
    /\ UNCHANGED <<lists, backing, len, member>>

AppendMember(c, s) ==
    /\ Len(ops) < MaxOps /\ member[s] = {} /\ len[c] < Cap
    /\ \A t \in Late : t < s => member[t] # {}          \* symmetry: late sinks are taken in order
    /\ lists' = [lists EXCEPT ![c] = Append(@, s)]
    /\ backing' = [backing EXCEPT ![len[c] + 1] = s]
    /\ len' = [len EXCEPT ![c] = @ + 1]
    /\ member' = [member EXCEPT ![s] = {c}]
    /\ ops' = Append(ops, [op |-> "append", c |-> c, s |-> s])
    /\ UNCHANGED <<sinks, owed, nmsg>>

Next == \E c \in Composites : Log(c) \/ \E s \in Late : AppendMember(c, s)
Spec == Init /\ [][Next]_vars

Delivery == \A s \in SinkIds : sinks[s] = owed[s]

\* emission: complete behaviours that contain an append and a later message
Interesting == \E i, j \in 1..Len(ops) : i < j /\ ops[i].op = "append" /\ ops[j].op = "log"
Emit == (Len(ops) = MaxOps /\ Interesting) =>
           PrintT(<<"BEHAVIOUR", ToJson([ops |-> ops, expected |-> [s \in SinkIds |-> owed[s]]])>>)
=============================================================================
