SPECIFICATION Spec
CONSTANTS Producers = {1, 2, 3}
  MsgsPer = 2
  LockMode = "exclusive"
  Ring = 2
  Members = 2
INVARIANTS DropsAccounted EveryMember NeverTwice NoSilentLoss
CHECK_DEADLOCK FALSE
