---------------------------- MODULE ClosableTrace ----------------------------
(***************************************************************************)
(* C07 - judging recorded programs of calls around Close() on the zip and  *)
(* tar views against ClosableFs.tla: the trace specification re-runs the   *)
(* open/closed state machine over the recorded steps (one event per step,  *)
(* with the result of every concrete method of the step's class) and       *)
(* evaluates the expected outcome of ClosableFs on each result.            *)
(***************************************************************************)
EXTENDS Naturals, Sequences, FiniteSets, TLC, Json
Trace == ndJsonDeserialize("trace.ndjson")
VARIABLES l, closed, cur
Ev == Trace[l]
Verdict(v) == PrintT(<<"VERDICT", ToJson([id |-> l, viol |-> v])>>)

\* state before this step: a new (program, view) starts open
Fresh == cur # <<Ev.id, Ev.view>>
WasClosed == IF Fresh THEN FALSE ELSE closed

Bad(r, tag) == {tag \o ":" \o r.m}
Judge(r) ==
    IF r.kind = "blocked" THEN Bad(r, "call-does-not-return")
    ELSE IF r.kind = "panic" THEN Bad(r, "call-panics")
    ELSE IF WasClosed
         THEN (IF r.ok THEN Bad(r, "closed-view-still-serves")
               ELSE IF r.direct /\ r.kind # "condition" THEN Bad(r, "closed-view-accessor-wrong-error-kind") ELSE {})
    ELSE IF Ev.class = "read" THEN (IF ~r.ok THEN Bad(r, "open-view-read-call-fails") ELSE {})
    ELSE (IF r.ok THEN Bad(r, "mutating-call-accepted") ELSE {})

Step ==
    /\ l <= Len(Trace) /\ Ev.op = "Step"
    /\ Verdict(
         (IF Ev.class = "close" THEN (IF ~Ev.closeOk THEN {"close-fails"} ELSE {})
          ELSE UNION {Judge(Ev.results[i]) : i \in 1..Len(Ev.results)})
         \cup (IF Ev.changed THEN {"view-content-changed"} ELSE {})
         \cup (IF Ev.outside THEN {"archive-or-sandbox-changed"} ELSE {}))
    /\ closed' = (WasClosed \/ Ev.class = "close")
    /\ cur' = <<Ev.id, Ev.view>>
    /\ l' = l + 1
TraceSpec == l = 1 /\ closed = FALSE /\ cur = <<0, "">> /\ [][Step]_<<l, closed, cur>>
TraceAccepted == LET n == TLCGet("stats").diameter - 1 IN PrintT(<<"TRACE_MATCHED", n>>) /\ n = Len(Trace)
=============================================================================
