--------------------------- MODULE ZipLimitsTrace ---------------------------
(* C03 - judging recorded extractions under limits: the tree measured on disk, the write high-water mark of every
   file, and the result kind, against the limits and the WouldExceed / ShortData verdicts of ZipLimits.tla. *)
EXTENDS Integers, Sequences, FiniteSets, TLC, Json
Trace == ndJsonDeserialize("trace.ndjson")
VARIABLES l
Ev == Trace[l]
Limits ==
    /\ l <= Len(Trace) /\ Ev.ev = "Limits"
    /\ PrintT(<<"VERDICT", ToJson([id |-> l, viol |->
         (IF Ev.result = "blocked" THEN {"extraction-does-not-terminate"} ELSE {})
         \cup (IF Ev.result = "" /\ (Ev.disk.total > Ev.maxTotal \/ Ev.disk.count > Ev.maxCount \/ Ev.disk.maxFile > Ev.maxFile
                                    \/ (Ev.maxDepth >= 0 /\ Ev.disk.maxDepth > Ev.maxDepth))
               THEN {"success-beyond-limits"} ELSE {})
         \cup (IF Ev.wouldExceed /\ Ev.result = "" THEN {"over-limit-archive-accepted"} ELSE {})
         \cup (IF Ev.wouldExceed /\ ~Ev.shortData /\ Ev.result \notin {"", "toolarge", "blocked"} THEN {"over-limit-refused-with-another-kind"} ELSE {})
         \cup (IF Ev.shortData /\ Ev.result = "" THEN {"contradictory-header-accepted"} ELSE {})
         \cup (IF \E i \in 1..Len(Ev.writes) : Ev.writes[i].high > Ev.maxFile THEN {"file-written-beyond-per-file-limit"} ELSE {})
         \cup (IF \E i \in 1..Len(Ev.writes) : Ev.writes[i].declared >= 0 /\ Ev.writes[i].high > Ev.writes[i].declared THEN {"file-written-beyond-declared-size"} ELSE {})])>>)
    /\ l' = l + 1
TraceSpec == l = 1 /\ [][Limits]_l
TraceAccepted == LET n == TLCGet("stats").diameter - 1 IN PrintT(<<"TRACE_MATCHED", n>>) /\ n = Len(Trace)
=============================================================================
