------------------------------ MODULE ZipLinks ------------------------------
(***************************************************************************)
(* C02 - archives that carry symbolic-link entries.                        *)
(*                                                                         *)
(* An archive holds a chain of n link entries and then a file:             *)
(*    a/l1 -> t1,  a/l1/l2 -> t2,  ...,  a/l1/.../ln/pwned                 *)
(* Every NAME is lexically inside the destination.  If an extraction       *)
(* restored the links, later entries would be created THROUGH the earlier  *)
(* ones: the real location of entry i+1 is the target of link i.  This     *)
(* module computes where the file would really land (RealFile) and whether *)
(* that is outside the destination (EscapesIfRestored) although each link  *)
(* target, taken alone and lexically, may be inside (EveryTargetLooksFine).*)
(* The statement holds whatever the extraction does with link entries: the *)
(* replay only demands that nothing outside the destination changes.       *)
(***************************************************************************)
EXTENDS Paths, FiniteSets, TLC, Json

Targets == {<<"..">>, <<"..", "..">>, <<".">>, <<"sub">>, <<"..", "sub">>, <<"ABS">>}    \* ABS: an absolute path outside the destination
VARIABLES chain
vars == <<chain>>
Init == chain \in UNION {[1..n -> Targets] : n \in 1..3}
Next == UNCHANGED vars
Spec == Init /\ [][Next]_vars

Dest == [abs |-> TRUE, comps |-> <<"R", "dest">>]
Outside == [abs |-> TRUE, comps |-> <<"R", "outside">>]
Dir0 == [abs |-> TRUE, comps |-> <<"R", "dest", "a">>]

\* real directory in which link i+1 (or the file) is created: the target of link i, resolved from where link i really is
RECURSIVE Loc(_)
Loc(i) == IF i = 0 THEN Dir0
          ELSE IF chain[i] = <<"ABS">> THEN Outside
          ELSE Clean(Join(Loc(i - 1), [abs |-> FALSE, comps |-> chain[i]]))
RealFile == Join(Loc(Len(chain)), [abs |-> FALSE, comps |-> <<"pwned">>])
EscapesIfRestored == ~Inside(RealFile, Dest)

\* lexical position of link i and of its target
LexDir(i) == [abs |-> TRUE, comps |-> <<"R", "dest", "a">> \o [k \in 1..i |-> "l"]]
LexTarget(i) == IF chain[i] = <<"ABS">> THEN Outside ELSE Clean(Join(LexDir(i - 1), [abs |-> FALSE, comps |-> chain[i]]))
EveryTargetLooksFine == \A i \in 1..Len(chain) : Inside(LexTarget(i), Dest)
\* the interesting scenarios exist: every link passes a lexical check and the file still lands outside
LexicalChecksAreNotEnough == ~(EveryTargetLooksFine /\ EscapesIfRestored)

Scenario == [kind |-> "linkchain", chain |-> chain, escapesIfRestored |-> EscapesIfRestored, everyTargetLooksFine |-> EveryTargetLooksFine]
Emit == PrintT(<<"BEHAVIOUR", ToJson(Scenario)>>)
=============================================================================
