SPECIFICATION Spec
CONSTANT Thorough = FALSE
INVARIANTS WellDefined Emit
CHECK_DEADLOCK FALSE
