---------------------------- MODULE ZipSlipTrace ----------------------------
(***************************************************************************)
(* C02 - judging recorded extractions.  Per extraction: Begin (destination *)
(* and entry name, split on the separator by the harness - nothing else),  *)
(* Mutate (every mutating backend call with its path, split), End (result  *)
(* kind and the sandbox entries outside the destination that changed).     *)
(* Whether a name escapes and whether a mutated path is inside the         *)
(* destination is decided here with the lexical algebra of Paths.tla.      *)
(***************************************************************************)
EXTENDS Paths, FiniteSets, TLC, Json
Trace == ndJsonDeserialize("trace.ndjson")
VARIABLES l, dest, escapes, viol, id
vars == <<l, dest, escapes, viol, id>>
Ev == Trace[l]
Consume == l <= Len(Trace) /\ l' = l + 1

AbsOf(isAbs, comps, cwd) == IF isAbs THEN [abs |-> TRUE, comps |-> comps] ELSE [abs |-> TRUE, comps |-> cwd \o comps]
\* a component that becomes ".." when the extraction converts the name to UTF-8 (see ZipSlip.tla)
Eff(c) == IF c = "E.." THEN ".." ELSE c
Converted(p) == [abs |-> p.abs, comps |-> [i \in 1..Len(p.comps) |-> Eff(p.comps[i])]]
NestedName(e) == IF e.kind = "nested" THEN SubSeq(e.name, 1, Len(e.name) - 1) \o <<e.stem>> ELSE e.name

TraceInit == l = 1 /\ dest = [abs |-> TRUE, comps |-> <<>>] /\ escapes = FALSE /\ viol = {} /\ id = 0

Begin == /\ Consume /\ Ev.ev = "Begin"
         /\ LET d == AbsOf(Ev.destAbs, Ev.dest, Ev.cwd)
                target == Converted(Clean(Join(d, [abs |-> FALSE, comps |-> Ev.name])))    \* cleaned as named in the archive, then converted
                nestedRoot == Join(Dir(Clean(target)), [abs |-> FALSE, comps |-> <<Ev.stem>>])
            IN /\ dest' = d
               /\ escapes' = (~Inside(target, d) \/ (Ev.kind = "nested" /\ ~Inside(nestedRoot, d)))
         /\ viol' = {} /\ id' = Ev.id

Mutate == /\ Consume /\ Ev.ev = "Mutate"
          /\ LET p == AbsOf(Ev.pathAbs, Ev.path, <<>>) IN
             viol' = viol \cup (IF Ev.pathAbs /\ ~Inside(p, dest) THEN {"mutation-outside-destination"} ELSE {})
          /\ UNCHANGED <<dest, escapes, id>>

End == /\ Consume /\ Ev.ev = "End"
       /\ PrintT(<<"VERDICT", ToJson([id |-> id, escapes |-> escapes,
                   viol |-> viol \cup (IF Ev.outside # <<>> THEN {"entry-outside-destination-changed"} ELSE {})
                                 \cup (IF escapes /\ Ev.result # "malicious" THEN {"escaping-entry-not-refused-as-malicious"} ELSE {})
                                 \cup (IF Ev.result = "blocked" THEN {"extraction-does-not-terminate"} ELSE {})])>>)
       /\ UNCHANGED <<dest, escapes, viol, id>>

TraceSpec == TraceInit /\ [][Begin \/ Mutate \/ End]_vars
TraceAccepted == LET n == TLCGet("stats").diameter - 1 IN PrintT(<<"TRACE_MATCHED", n>>) /\ n = Len(Trace)
=============================================================================
