SPECIFICATION Spec
INVARIANTS CleanIdempotent InsideReflexive Emit
CHECK_DEADLOCK FALSE
