SPECIFICATION Spec
CONSTANT StemTwice = FALSE
INVARIANTS CleanIdempotent InsideReflexive NestedRootBesideArchive Emit
CHECK_DEADLOCK FALSE
