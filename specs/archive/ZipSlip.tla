------------------------------- MODULE ZipSlip -------------------------------
(***************************************************************************)
(* C02 - Unzip never writes outside the destination.                       *)
(*                                                                         *)
(* An archive entry has a name = sequence of components over a colliding   *)
(* alphabet ("..", ".", "", legal names, legal names that CONTAIN dots),   *)
(* possibly with a leading separator, and a kind (file, directory, nested  *)
(* archive with a stem that may itself be "..", "." or empty).  The        *)
(* destination is absolute or relative, with or without trailing           *)
(* separator.  Extraction of an entry mutates the path Join(dest, name);   *)
(* a nested archive is then extracted into Dir(that path)/stem.  The       *)
(* statement: every mutated path lies inside the destination, and an entry *)
(* that would resolve outside makes the call fail as 'malicious'.          *)
(***************************************************************************)
EXTENDS Paths, FiniteSets, TLC, Json

Alphabet == {"..", ".", "", "A", "B", "...", "A..B", "destZ", "E.."}    \* destZ: a sibling whose name merely starts like the destination
\* "E..": a component that is not ".." in the archive but BECOMES ".." on the way to the backend (the extraction converts names that
\* are not valid UTF-8 from their detected character set: escape sequences of ISO-2022-JP vanish in the conversion).  What counts
\* is where the entry really lands: Eff gives the component as the backend sees it.
Eff(c) == IF c = "E.." THEN ".." ELSE c
PlainNames == {"A", "B", "...", "A..B", "destZ"}
Stems == {"S", "..", ".", "", "A..B"}
DestShapes == {"abs", "rel", "trailing", "dot", "dotdot", "dotdot2"}
Kinds == {"file", "dir", "nested"}
\* extension of a nested archive: plain, or compound ("<stem>.tar.gz", "<stem>.TAR.zip").  The directory a nested archive is
\* unpacked into is its file name without the LAST extension: "..tar.gz" unpacks into "...tar", an ordinary name.
Exts == {"zip", "tar.gz", "TAR.zip"}

CONSTANT StemTwice     \* FALSE: as coded.  TRUE (sensitivity): a ".tar" left over is stripped as well
VARIABLES comps, leadingSep, kind, stem, destShape, ext
vars == <<comps, leadingSep, kind, stem, destShape, ext>>

Names == UNION {[1..n -> Alphabet] : n \in 1..3}
Init == /\ comps \in Names /\ leadingSep \in BOOLEAN /\ kind \in Kinds /\ destShape \in DestShapes
        /\ stem \in (IF kind = "nested" THEN Stems ELSE {"S"})
        /\ ext \in (IF kind = "nested" /\ stem \in {"S", ".."} THEN Exts ELSE {"zip"})
        \* a converted name: only the path of a FILE entry is converted (directories are created under their raw name); its last
        \* component is an ordinary name (it carries the bytes that force the conversion)
        /\ ((\E i \in 1..Len(comps) : comps[i] = "E..") => (kind = "file" /\ comps[Len(comps)] \in PlainNames))
Next == UNCHANGED vars
Spec == Init /\ [][Next]_vars

\* the destination as the harness materialises it (sandbox root R; the working directory is R/cwd)
Dest == CASE destShape = "abs" -> [abs |-> TRUE, comps |-> <<"R", "dest">>]
          [] destShape = "trailing" -> [abs |-> TRUE, comps |-> <<"R", "dest", "">>]
          [] destShape = "rel" -> [abs |-> FALSE, comps |-> <<"reldest">>]
          [] destShape = "dot" -> [abs |-> FALSE, comps |-> <<".">>]                \* the working directory itself
          [] destShape = "dotdot" -> [abs |-> FALSE, comps |-> <<"..">>]            \* relative destinations made only of parent references
          [] destShape = "dotdot2" -> [abs |-> FALSE, comps |-> <<"..", "..">>]
\* the name of the directory a nested archive "<stem>.<ext>" is unpacked into
RootName == IF ext = "zip" \/ StemTwice THEN stem ELSE stem \o (IF ext = "tar.gz" THEN ".tar" ELSE ".TAR")
\* for a nested archive the entry name gets one more component: the archive's file name.  With the plain extension the stem
\* stands for it (the entry is judged like its unpacking directory: "...zip" is refused like ".."); with a compound extension
\* the file name is an ordinary name whatever the stem
EntryComps == IF kind = "nested" THEN Append(comps, IF ext = "zip" THEN stem ELSE "nestedfile") ELSE comps
\* the joined path is cleaned with the names as they are in the archive, and only then converted
Converted(p) == [abs |-> p.abs, comps |-> [i \in 1..Len(p.comps) |-> Eff(p.comps[i])]]
Target == Converted(Clean(Join(Dest, [abs |-> FALSE, comps |-> EntryComps])))
\* (a relative destination: what remains in front of the target after the destination's own components must not be a parent reference)
Beyond(p, d) == LET cp == Clean(p) cd == Clean(d) IN Len(cp.comps) > Len(cd.comps) /\ cp.comps[Len(cd.comps) + 1] = ".."
\* (judged on the joined path as cleaned - before the conversion: a component that only the conversion turns into ".." is not a
\* parent reference of the cleaned path)
RawTarget == Clean(Join(Dest, [abs |-> FALSE, comps |-> EntryComps]))
EntryEscapes == ~Inside(Target, Dest) \/ Beyond(RawTarget, Dest)
\* a nested archive "<stem>.zip" at path P is unpacked into Dir(P)/<stem>; its content lands beneath that
NestedRoot == Join(Dir(Clean(Join(Dest, [abs |-> FALSE, comps |-> comps \o <<"X">>]))), [abs |-> FALSE, comps |-> <<RootName>>])
NestedEscapes == kind = "nested" /\ ~Inside(NestedRoot, Dest)
Escapes == EntryEscapes \/ NestedEscapes

\* sanity of the algebra
CleanIdempotent == Clean(Clean(Target)) = Clean(Target)
InsideReflexive == Inside(Dest, Dest)
\* the unpacking directory of a nested archive never leaves the directory that holds the archive
NestedRootBesideArchive == (kind = "nested" /\ ext # "zip") => RootName \notin {"..", ".", ""}
Scenario == [comps |-> comps, leadingSep |-> leadingSep, kind |-> kind, stem |-> stem, ext |-> ext, rootName |-> RootName, destShape |-> destShape,
             escapes |-> Escapes, target |-> Clean(Target).comps]
Emit == PrintT(<<"BEHAVIOUR", ToJson(Scenario)>>)
=============================================================================
