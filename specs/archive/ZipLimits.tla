------------------------------ MODULE ZipLimits ------------------------------
(***************************************************************************)
(* C03 - Unzip resource limits.                                            *)
(*                                                                         *)
(* An archive is a sequence of entries; an entry sits under 0..2           *)
(* directories, declares a size and carries an actual amount of data       *)
(* (lying headers), and may itself be an archive (nested, to depth 2 here; *)
(* deeper nesting and fan-out come from the recorded direction) or a       *)
(* non-zip file with a zip name, or a chain of explicit directory entries  *)
(* with nothing in them.  Limits: per-file size, total size, file  *)
(* count, depth (negative = disabled), recursive or not.  Sizes are in     *)
(* abstract units (the harness scales them; real sizes are never smaller). *)
(* The specification computes the tree a full extraction would leave and   *)
(* from it WouldExceed; the statement then is                              *)
(*   success  => what is on disk is within every limit                     *)
(*   WouldExceed => refused as 'too large' (any error if headers lie)      *)
(*   no file is ever longer than min(per-file limit, its declared size)    *)
(***************************************************************************)
EXTENDS Integers, Sequences, FiniteSets, TLC, Json

Big == 1000000
Overflow == Big + 1      \* stands for a declared size >= 2^63

\* inner archives (lists of [dirs, declared, actual]) used by nested entries
Inner == [ tiny  |-> << [dirs |-> 0, declared |-> 1, actual |-> 1] >>,
           two   |-> << [dirs |-> 0, declared |-> 1, actual |-> 1], [dirs |-> 1, declared |-> 2, actual |-> 2] >>,
           bomb  |-> << [dirs |-> 0, declared |-> 3, actual |-> 3], [dirs |-> 0, declared |-> 3, actual |-> 3], [dirs |-> 0, declared |-> 3, actual |-> 3] >>,
           deep  |-> << [dirs |-> 2, declared |-> 1, actual |-> 1] >> ]

\* entry templates: kind "file" | "nested" (inner, optionally nested once more) | "fakezip"
Templates == { [kind |-> "file", dirs |-> d, declared |-> s, actual |-> s, inner |-> "none", again |-> FALSE] : d \in 0..2, s \in {0, 1, 3} }
       \cup  { [kind |-> "file", dirs |-> 0, declared |-> 2, actual |-> 1, inner |-> "none", again |-> FALSE],      \* header declares more than there is
               [kind |-> "file", dirs |-> 1, declared |-> 1, actual |-> 3, inner |-> "none", again |-> FALSE],      \* header declares less than there is
               [kind |-> "fakezip", dirs |-> 0, declared |-> 1, actual |-> 1, inner |-> "none", again |-> FALSE],
               \* ... and a bigger one (compressible: the archive that carries it stays below one unit): a file like any other, whatever its name
               [kind |-> "fakezip", dirs |-> 0, declared |-> 3, actual |-> 3, inner |-> "none", again |-> FALSE],
               \* a zip64 header declaring 2^63 bytes or more (beyond every limit, negative once read as a signed size) over a small stream
               [kind |-> "file", dirs |-> 0, declared |-> Overflow, actual |-> 3, inner |-> "none", again |-> FALSE] }
       \* a nested archive whose first entry (three units) is sound and whose second entry is damaged (local header signature): extracted
       \* recursively it cannot be completed - the extraction reports an error, whatever it has written by then; not recursively it is a small file
       \cup  { [kind |-> "nestedbroken", dirs |-> 0, declared |-> 0, actual |-> 0, inner |-> "none", again |-> FALSE] }
       \* the same name twice: a one-unit entry first, then the three-unit entry that replaces it - three units are what stays on disk
       \cup  { [kind |-> "repeat", dirs |-> 0, declared |-> 3, actual |-> 3, inner |-> "none", again |-> FALSE] }
       \* explicit directory entries and nothing in them: "q0/", "q0/q1/", ... (each an item of the tree at the depth of its path)
       \cup  { [kind |-> "dirchain", dirs |-> d, declared |-> 0, actual |-> 0, inner |-> "none", again |-> FALSE] : d \in {1, 3} }
       \cup  { [kind |-> "nested", dirs |-> d, declared |-> 0, actual |-> 0, inner |-> i, again |-> a] : d \in 0..1, i \in DOMAIN Inner, a \in BOOLEAN }

CONSTANT Thorough   \* FALSE: a covering subset of archives and limit configurations (quick tier)

LimitValues == {0, 1, 2, 3, Big}
VARIABLES archive, maxFile, maxTotal, maxCount, maxDepth, recursive
vars == <<archive, maxFile, maxTotal, maxCount, maxDepth, recursive>>
Core == {t \in Templates : (t.kind = "file" /\ t.dirs = 1) \/ t.kind = "fakezip" \/ t.kind = "dirchain" \/ t.kind = "repeat" \/ t.kind = "nestedbroken" \/ t.declared = Overflow \/ (t.kind = "nested" /\ t.dirs = 0 /\ ~t.again /\ t.inner \in {"two", "bomb"})
                            \/ (t.kind = "nested" /\ t.dirs = 1 /\ t.again /\ t.inner = "deep")}
Archives == {<<t>> : t \in Templates} \cup {<<t, u>> : t \in (IF Thorough THEN Templates ELSE Core), u \in (IF Thorough THEN Templates ELSE Core)}
\* each limit independently tiny / exact / off by one / huge; at most two (quick: one) limits away from "huge" at a time
Tight(f, t, c, d) == (IF f # Big THEN 1 ELSE 0) + (IF t # Big THEN 1 ELSE 0) + (IF c # Big THEN 1 ELSE 0) + (IF d # -1 THEN 1 ELSE 0)
Init == /\ archive \in Archives /\ maxFile \in LimitValues /\ maxTotal \in {1, 2, 3, 6, Big} /\ maxCount \in LimitValues
        /\ maxDepth \in {-1, 0, 1, 2, 4} /\ recursive \in BOOLEAN
        /\ Tight(maxFile, maxTotal, maxCount, maxDepth) <= (IF Thorough THEN 2 ELSE 1)
        \* "number of files": whether a directory entry counts is left open by the statement (the library counts it, but only checks the
        \* count after the next file): archives with explicit directory entries are judged on the other limits
        /\ ((\E k \in 1..Len(archive) : archive[k].kind = "dirchain") => maxCount = Big)
Next == UNCHANGED vars
Spec == Init /\ [][Next]_vars

\* what a full extraction leaves: a sequence of [size, depth] (size as declared: more is never written)
InnerFiles(i, base, again) ==
    [k \in 1..Len(Inner[i]) |-> [size |-> Inner[i][k].declared, depth |-> base + Inner[i][k].dirs]]
    \o (IF again THEN << [size |-> 1, depth |-> base + 1] >> ELSE <<>>)     \* a second level: one more archive "again.zip" holding one file of size 1
EntryFiles(e) ==
    IF e.kind = "nested" /\ recursive
    THEN InnerFiles(e.inner, e.dirs + 1, e.again)                       \* unpacked into <dirs>/<stem>/ ; the nested archive itself is removed
    ELSE IF e.kind = "dirchain" THEN [k \in 1..e.dirs |-> [size |-> 0, depth |-> k - 1]]
    ELSE << [size |-> e.declared, depth |-> e.dirs] >>
RECURSIVE AllFiles(_)
AllFiles(a) == IF a = <<>> THEN <<>> ELSE EntryFiles(Head(a)) \o AllFiles(Tail(a))
Files == AllFiles(archive)
RECURSIVE Sum(_)
Sum(s) == IF s = <<>> THEN 0 ELSE Head(s).size + Sum(Tail(s))

WouldExceed == \/ \E k \in 1..Len(Files) : Files[k].size > maxFile
               \/ Sum(Files) > maxTotal
               \/ Len(Files) > maxCount
               \/ (maxDepth >= 0 /\ \E k \in 1..Len(Files) : Files[k].depth > maxDepth)
\* an entry with less data than its header declares cannot be extracted; the statement asks for an error
ShortData == \/ \E k \in 1..Len(archive) : archive[k].actual < archive[k].declared
             \/ (recursive /\ \E k \in 1..Len(archive) : archive[k].kind = "nestedbroken")

WellDefined == Len(Files) >= 1
Scenario == [archive |-> archive, maxFile |-> maxFile, maxTotal |-> maxTotal, maxCount |-> maxCount, maxDepth |-> maxDepth, recursive |-> recursive,
             wouldExceed |-> WouldExceed, shortData |-> ShortData, files |-> Files]
Emit == PrintT(<<"BEHAVIOUR", ToJson(Scenario)>>)
=============================================================================
