---- MODULE Resource_TTrace_1790524734 ----
EXTENDS Sequences, TLCExt, Toolbox, Resource, Naturals, TLC

_expression ==
    LET Resource_TEExpression == INSTANCE Resource_TEExpression
    IN Resource_TEExpression!expression
----

_trace ==
    LET Resource_TETrace == INSTANCE Resource_TETrace
    IN Resource_TETrace!trace
----

_inv ==
    ~(
        TLCGet("level") = Len(_TETrace)
        /\
        ref = (FALSE)
        /\
        hist = (<<[fails |-> 0, op |-> "New"], [calls |-> 1, c |-> "p", op |-> "Close", err |-> FALSE, closedAfter |-> TRUE], [calls |-> 2, c |-> "q", op |-> "Close", err |-> FALSE, closedAfter |-> TRUE]>>)
        /\
        pc = ([p |-> "idle", q |-> "idle"])
        /\
        succ = (2)
        /\
        calls = (2)
        /\
        closed = (TRUE)
        /\
        fails = (0)
    )
----

_init ==
    /\ fails = _TETrace[1].fails
    /\ pc = _TETrace[1].pc
    /\ ref = _TETrace[1].ref
    /\ hist = _TETrace[1].hist
    /\ closed = _TETrace[1].closed
    /\ succ = _TETrace[1].succ
    /\ calls = _TETrace[1].calls
----

_next ==
    /\ \E i,j \in DOMAIN _TETrace:
        /\ \/ /\ j = i + 1
              /\ i = TLCGet("level")
        /\ fails  = _TETrace[i].fails
        /\ fails' = _TETrace[j].fails
        /\ pc  = _TETrace[i].pc
        /\ pc' = _TETrace[j].pc
        /\ ref  = _TETrace[i].ref
        /\ ref' = _TETrace[j].ref
        /\ hist  = _TETrace[i].hist
        /\ hist' = _TETrace[j].hist
        /\ closed  = _TETrace[i].closed
        /\ closed' = _TETrace[j].closed
        /\ succ  = _TETrace[i].succ
        /\ succ' = _TETrace[j].succ
        /\ calls  = _TETrace[i].calls
        /\ calls' = _TETrace[j].calls

\* Uncomment the ASSUME below to write the states of the error trace
\* to the given file in Json format. Note that you can pass any tuple
\* to `JsonSerialize`. For example, a sub-sequence of _TETrace.
    \* ASSUME
    \*     LET J == INSTANCE Json
    \*         IN J!JsonSerialize("Resource_TTrace_1790524734.json", _TETrace)

=============================================================================

 Note that you can extract this module `Resource_TEExpression`
  to a dedicated file to reuse `expression` (the module in the 
  dedicated `Resource_TEExpression.tla` file takes precedence 
  over the module `Resource_TEExpression` below).

---- MODULE Resource_TEExpression ----
EXTENDS Sequences, TLCExt, Toolbox, Resource, Naturals, TLC

expression == 
    [
        \* To hide variables of the `Resource` spec from the error trace,
        \* remove the variables below.  The trace will be written in the order
        \* of the fields of this record.
        fails |-> fails
        ,pc |-> pc
        ,ref |-> ref
        ,hist |-> hist
        ,closed |-> closed
        ,succ |-> succ
        ,calls |-> calls
        
        \* Put additional constant-, state-, and action-level expressions here:
        \* ,_stateNumber |-> _TEPosition
        \* ,_failsUnchanged |-> fails = fails'
        
        \* Format the `fails` variable as Json value.
        \* ,_failsJson |->
        \*     LET J == INSTANCE Json
        \*     IN J!ToJson(fails)
        
        \* Lastly, you may build expressions over arbitrary sets of states by
        \* leveraging the _TETrace operator.  For example, this is how to
        \* count the number of times a spec variable changed up to the current
        \* state in the trace.
        \* ,_failsModCount |->
        \*     LET F[s \in DOMAIN _TETrace] ==
        \*         IF s = 1 THEN 0
        \*         ELSE IF _TETrace[s].fails # _TETrace[s-1].fails
        \*             THEN 1 + F[s-1] ELSE F[s-1]
        \*     IN F[_TEPosition - 1]
    ]

=============================================================================



Parsing and semantic processing can take forever if the trace below is long.
 In this case, it is advised to uncomment the module below to deserialize the
 trace from a generated binary file.

\*
\*---- MODULE Resource_TETrace ----
\*EXTENDS IOUtils, Resource, TLC
\*
\*trace == IODeserialize("Resource_TTrace_1790524734.bin", TRUE)
\*
\*=============================================================================
\*

---- MODULE Resource_TETrace ----
EXTENDS Resource, TLC

trace == 
    <<
    ([ref |-> TRUE,hist |-> <<[fails |-> 0, op |-> "New"]>>,pc |-> [p |-> "idle", q |-> "idle"],succ |-> 0,calls |-> 0,closed |-> FALSE,fails |-> 0]),
    ([ref |-> TRUE,hist |-> <<[fails |-> 0, op |-> "New"]>>,pc |-> [p |-> "checked", q |-> "idle"],succ |-> 0,calls |-> 0,closed |-> FALSE,fails |-> 0]),
    ([ref |-> TRUE,hist |-> <<[fails |-> 0, op |-> "New"]>>,pc |-> [p |-> "checked", q |-> "checked"],succ |-> 0,calls |-> 0,closed |-> FALSE,fails |-> 0]),
    ([ref |-> FALSE,hist |-> <<[fails |-> 0, op |-> "New"], [calls |-> 1, c |-> "p", op |-> "Close", err |-> FALSE, closedAfter |-> TRUE]>>,pc |-> [p |-> "idle", q |-> "checked"],succ |-> 1,calls |-> 1,closed |-> TRUE,fails |-> 0]),
    ([ref |-> FALSE,hist |-> <<[fails |-> 0, op |-> "New"], [calls |-> 1, c |-> "p", op |-> "Close", err |-> FALSE, closedAfter |-> TRUE], [calls |-> 2, c |-> "q", op |-> "Close", err |-> FALSE, closedAfter |-> TRUE]>>,pc |-> [p |-> "idle", q |-> "idle"],succ |-> 2,calls |-> 2,closed |-> TRUE,fails |-> 0])
    >>
----


=============================================================================

---- CONFIG Resource_TTrace_1790524734 ----
CONSTANTS
    Closers = { "p" , "q" }
    MaxFails = 2
    Locked = FALSE
    MaxSteps = 5

INVARIANT
    _inv

CHECK_DEADLOCK
    \* CHECK_DEADLOCK off because of PROPERTY or INVARIANT above.
    FALSE

INIT
    _init

NEXT
    _next

CONSTANT
    _TETrace <- _trace

ALIAS
    _expression
=============================================================================
\* Generated on Sun Sep 27 15:58:55 UTC 2026