SPECIFICATION Spec
CONSTANT StemTwice = TRUE
INVARIANTS NestedRootBesideArchive
CHECK_DEADLOCK FALSE
