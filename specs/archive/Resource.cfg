SPECIFICATION Spec
CONSTANTS Closers = {"p", "q"}
          MaxFails = 2
          Locked = TRUE
          MaxSteps = 5
INVARIANTS TypeOK UnderlyingClosedAtMostOnce ClosedIffUnderlyingClosed Emit
PROPERTIES NoCallOnceClosed ClosedIsStable FailuresKeepItOpen
CHECK_DEADLOCK FALSE
