----------------------------- MODULE ClosableFs -----------------------------
(***************************************************************************)
(* C07 - the read-only, closable filesystem over an archive.               *)
(*                                                                         *)
(* State: open | closed, and the (immutable) content of the view.  A       *)
(* program is a sequence of at most MaxLen steps; a step is a CLASS of     *)
(* calls - the harness expands it to every concrete method of the FS       *)
(* interface in that class (methods.go) - or Close:                        *)
(*   read    needs the archive, changes nothing                            *)
(*   mutate  would change the tree                                         *)
(* Expected outcome of every call of a step:                               *)
(*   open,   read    succeeds                                              *)
(*   open,   mutate  refused (an error), content unchanged                 *)
(*   closed, any     fails; a direct accessor with 'failed condition'      *)
(*   Close           succeeds, also when repeated                          *)
(* and the content of the view and of the sandbox never changes.           *)
(***************************************************************************)
EXTENDS Naturals, Sequences, TLC, Json

CONSTANT MaxLen
Classes == {"read", "mutate", "close"}

VARIABLES closed, prog, expect
vars == <<closed, prog, expect>>

Init == closed = FALSE /\ prog = <<>> /\ expect = <<>>

Outcome(c) == IF c = "close" THEN "closes"
              ELSE IF closed THEN "fails-closed"
              ELSE IF c = "read" THEN "succeeds" ELSE "refused"

Step(c) == /\ Len(prog) < MaxLen
           /\ prog' = Append(prog, c)
           /\ expect' = Append(expect, Outcome(c))
           /\ closed' = (closed \/ c = "close")
Next == \E c \in Classes : Step(c)
Spec == Init /\ [][Next]_vars

\* once closed nothing is served any more, whatever follows
ClosedIsFinal == \A i \in 1..Len(prog) : \A j \in (i + 1)..Len(prog) :
                    prog[i] = "close" /\ prog[j] # "close" => expect[j] = "fails-closed"
NeverMutates == \A i \in 1..Len(expect) : expect[i] \in {"closes", "fails-closed", "succeeds", "refused"}

Emit == prog # <<>> => PrintT(<<"BEHAVIOUR", ToJson([steps |-> prog, expect |-> expect])>>)
=============================================================================
