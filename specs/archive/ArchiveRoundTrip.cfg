SPECIFICATION Spec
CONSTANT DirEntries = TRUE
CONSTANT Truncates = TRUE
INVARIANTS RoundTrip ListIsCreated ViewIsTree DistinctSiblings Emit
