SPECIFICATION Spec
CONSTANT DirEntries = TRUE
INVARIANTS RoundTrip ListIsCreated ViewIsTree DistinctSiblings Emit
