SPECIFICATION Spec
INVARIANTS Emit
