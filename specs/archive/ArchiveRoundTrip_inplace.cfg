SPECIFICATION Spec
CONSTANT DirEntries = TRUE
CONSTANT Truncates = FALSE
INVARIANTS RoundTrip
