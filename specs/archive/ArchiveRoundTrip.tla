------------------------- MODULE ArchiveRoundTrip -------------------------
(***************************************************************************)
(* C07 - archives are faithful.                                            *)
(*                                                                         *)
(* A tree is a set of nodes <<path, kind, size>>; a path is a sequence of  *)
(* NAME CLASSES (the harness maps each class to a real name: plain,        *)
(* ".hidden", "a..b", "sp ace", unicode, shell meta characters, 200        *)
(* characters, trailing dot, embedded newline, leading dash, a name with   *)
(* an archive extension).  Zip writes one entry per directory (name with a *)
(* trailing "/") and per file, named relative to the source, the source    *)
(* itself excluded; Unzip creates every entry (missing parents implicitly) *)
(* and returns the list of what it created.  The views (read-only zip and  *)
(* tar filesystems) list what the archive holds.                           *)
(*                                                                         *)
(* Checked here: RoundTrip (Unzip(Zip(t)) = t), ListIsCreated, for every   *)
(* scenario of the enumeration; the sensitivity configuration             *)
(* (DirEntries = FALSE: directories are not given entries of their own)    *)
(* must violate RoundTrip - empty directories get lost; so must the one    *)
(* where the destination is overwritten in place (Truncates = FALSE).      *)
(* The scenarios are emitted for the harness, which materialises them,     *)
(* runs the real Zip / Unzip / NewZipFileSystem / NewTarFileSystem and     *)
(* records dumps judged by ArchiveTrace.tla.                               *)
(***************************************************************************)
EXTENDS Naturals, Sequences, FiniteSets, TLC, Json

CONSTANT DirEntries,     \* TRUE: as coded (a header per directory)
         Truncates       \* TRUE: as coded (the destination is created anew: what a file of that name held before is gone)

NameClasses == <<"plain", "dot", "dotdot", "space", "uni", "meta", "long", "trail", "nl", "dash", "zipext">>
Sizes == {0, 1, 4096, 32767, 32768, 32769, 3000001}
MtClasses == {"even", "odd", "subsec", "old"}
\* what the destination path of Zip holds beforehand: nothing, an empty file, or an older and LONGER archive (of the
\* tree OlderTree).  A zip reader finds the central directory from the END of the file, so bytes left over from a longer
\* predecessor would make it read the predecessor's directory.
Priors == {"absent", "empty", "longer"}
OlderTree == {[path |-> <<"plain">>, kind |-> "file", size |-> 5000000], [path |-> <<"uni">>, kind |-> "dir", size |-> 0]}

\* shapes: positions (sequences of indices 1..3) with kinds
Shapes == [ empty   |-> {},
            file    |-> {<<<<1>>, "file">>},
            dir     |-> {<<<<1>>, "dir">>},
            nested  |-> {<<<<1>>, "dir">>, <<<<1, 2>>, "file">>},
            deep    |-> {<<<<1>>, "dir">>, <<<<1, 1>>, "dir">>, <<<<1, 1, 1>>, "file">>, <<<<1, 2>>, "dir">>, <<<<2>>, "file">>, <<<<1, 1, 3>>, "dir">>},
            flat    |-> {<<<<1>>, "file">>, <<<<2>>, "file">>, <<<<3>>, "dir">>} ]

VARIABLES shape, first, stride, size, mt, prior
vars == <<shape, first, stride, size, mt, prior>>

N == Len(NameClasses)
Init == /\ shape \in DOMAIN Shapes /\ first \in 1..N /\ stride \in 1..3 /\ size \in Sizes /\ mt \in MtClasses
        \* the scenario space is kept tractable: the state of the destination varies with one time class only
        /\ prior \in Priors /\ (prior = "absent" \/ mt = "even")
Next == UNCHANGED vars
Spec == Init /\ [][Next]_vars

\* the name class given to index i (1..3): three distinct classes, rotating through the pool
NameOf(i) == NameClasses[((first - 1 + (i - 1) * stride) % N) + 1]
PathOf(pos) == [k \in 1..Len(pos) |-> NameOf(pos[k])]
\* the first file (in position order) gets the scenario's size, the others small distinct sizes
FilePositions == {n[1] : n \in {m \in Shapes[shape] : m[2] = "file"}}
SizeOf(pos) == IF pos = (CHOOSE p \in FilePositions : \A q \in FilePositions : Len(p) >= Len(q)) THEN size ELSE Len(pos) + 16

Tree == {[path |-> PathOf(n[1]), kind |-> n[2], size |-> (IF n[2] = "file" THEN SizeOf(n[1]) ELSE 0)] : n \in Shapes[shape]}

\* ---- the archive -------------------------------------------------------------------------------
\* entry = [comps, dirMark, size]: the name is the components joined by "/" plus "/" for a directory
ZipEntries(t) == {[comps |-> n.path, dirMark |-> n.kind = "dir", size |-> n.size] : n \in {m \in t : DirEntries \/ m.kind = "file"}}

Prefixes(p) == {SubSeq(p, 1, k) : k \in 1..(Len(p) - 1)}
\* extraction: every entry, plus the parents created on the way
Unzip(es) ==
    LET explicit == {[path |-> e.comps, kind |-> (IF e.dirMark THEN "dir" ELSE "file"), size |-> e.size] : e \in es}
        implicit == {[path |-> q, kind |-> "dir", size |-> 0] : q \in UNION {Prefixes(e.comps) : e \in es}}
    IN explicit \cup {d \in implicit : \A x \in explicit : x.path # d.path}
ReturnedList(es) == {e.comps : e \in es}
View(es) == Unzip(es)

\* what a reader of the destination file sees after Zip
Archive == IF prior = "longer" /\ ~Truncates THEN ZipEntries(OlderTree) ELSE ZipEntries(Tree)

RoundTrip == Unzip(Archive) = Tree
ListIsCreated == ReturnedList(Archive) = {n.path : n \in Tree}
ViewIsTree == View(Archive) = Tree
DistinctSiblings == \A a, b \in Tree : a.path = b.path => a = b

Scenario == [shape |-> shape, mt |-> mt, prior |-> prior, nodes |-> Tree]
Emit == PrintT(<<"BEHAVIOUR", ToJson(Scenario)>>)
=============================================================================
