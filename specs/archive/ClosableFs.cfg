SPECIFICATION Spec
CONSTANT MaxLen = 4
INVARIANTS ClosedIsFinal NeverMutates Emit
CHECK_DEADLOCK FALSE
