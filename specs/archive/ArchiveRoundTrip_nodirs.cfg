SPECIFICATION Spec
CONSTANT DirEntries = FALSE
CONSTANT Truncates = TRUE
INVARIANTS RoundTrip
