SPECIFICATION Spec
CONSTANT DirEntries = FALSE
INVARIANTS RoundTrip
