SPECIFICATION Spec
CONSTANTS Closers = {"p", "q"}
          MaxFails = 2
          Locked = FALSE
          MaxSteps = 5
INVARIANTS UnderlyingClosedAtMostOnce
CHECK_DEADLOCK FALSE
