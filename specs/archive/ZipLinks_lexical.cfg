SPECIFICATION Spec
INVARIANTS LexicalChecksAreNotEnough
