---------------------------- MODULE ResourceTrace ----------------------------
(***************************************************************************)
(* Growth: judging runs of the real resource.CloseableResource - the       *)
(* sequential histories of Resource.tla (every answer recomputed here from *)
(* the operations and the number of scripted failures alone) and rounds of *)
(* N goroutines closing at once (only the totals are determined).          *)
(* Outside the listed properties: every signature is an observation.       *)
(***************************************************************************)
EXTENDS Naturals, Sequences, FiniteSets, TLC, Json
Trace == ndJsonDeserialize("trace.ndjson")
VARIABLES l
Ev == Trace[l]
Verdict(v) == PrintT(<<"VERDICT", ToJson([id |-> l, viol |-> v])>>)
Min(a, b) == IF a < b THEN a ELSE b

\* state after the first i steps: [ref, closed, fails, calls]
RECURSIVE After(_, _, _)
After(f0, steps, i) ==
    IF i = 0 THEN [ref |-> TRUE, closed |-> FALSE, fails |-> f0, calls |-> 0, err |-> FALSE]
    ELSE LET s == After(f0, steps, i - 1) IN
         IF steps[i].op = "IsClosed" THEN [s EXCEPT !.err = FALSE]
         ELSE IF ~s.ref THEN [s EXCEPT !.closed = TRUE, !.err = FALSE]
         ELSE IF s.fails > 0 THEN [s EXCEPT !.fails = s.fails - 1, !.calls = s.calls + 1, !.err = TRUE]
         ELSE [s EXCEPT !.ref = FALSE, !.closed = TRUE, !.calls = s.calls + 1, !.err = FALSE]
StepVerdict(i) ==
    LET want == After(Ev.fails, Ev.steps, i)  g == Ev.got[i] IN
    (IF g.err # want.err THEN {"observation:resource-close-result-wrong"} ELSE {})
    \cup (IF g.closedAfter # want.closed THEN {"observation:resource-isclosed-wrong"} ELSE {})
    \cup (IF g.calls > want.calls THEN {"observation:underlying-closer-called-more-than-modelled"} ELSE {})
    \cup (IF g.calls < want.calls THEN {"observation:underlying-closer-not-called"} ELSE {})
SeqVerdict == IF Len(Ev.got) # Len(Ev.steps) THEN {"observation:resource-history-not-run"}
              ELSE UNION {StepVerdict(i) : i \in 1..Len(Ev.steps)}
                   \cup (IF Ev.succ > 1 THEN {"observation:underlying-closed-twice"} ELSE {})
ConcVerdict ==
    (IF Ev.succ > 1 THEN {"observation:underlying-closed-twice"} ELSE {})
    \cup (IF Ev.calls # Min(Ev.n, Ev.fails + 1) THEN {"observation:concurrent-close-underlying-calls-wrong"} ELSE {})
    \cup (IF Ev.errs # Min(Ev.n, Ev.fails) THEN {"observation:concurrent-close-results-wrong"} ELSE {})
    \cup (IF Ev.closedAtEnd # (Ev.n > Ev.fails) THEN {"observation:resource-isclosed-wrong"} ELSE {})
Run == /\ l <= Len(Trace)
       /\ Verdict(IF Ev.op = "ResourceSeq" THEN SeqVerdict ELSE ConcVerdict)
       /\ l' = l + 1
TraceSpec == l = 1 /\ [][Run]_l
TraceAccepted == LET n == TLCGet("stats").diameter - 1 IN PrintT(<<"TRACE_MATCHED", n>>) /\ n = Len(Trace)
=============================================================================
