SPECIFICATION Spec
CONSTANT Thorough = TRUE
INVARIANTS WellDefined Emit
CHECK_DEADLOCK FALSE
