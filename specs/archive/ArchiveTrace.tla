---------------------------- MODULE ArchiveTrace ----------------------------
(***************************************************************************)
(* C07 - judging recorded round trips.  One event per (tree, backend): the *)
(* model's tree (path|kind|size in name classes), the measured source      *)
(* before and after, the measured extraction (without / with limits), the  *)
(* returned lists, the dumps of the zip and the tar view.  All as sets of  *)
(* strings; mtime projections carry whole seconds when the sub-second part *)
(* is zero, "sec.nanos" otherwise - the source's are truncated to the      *)
(* archive precision (1 s) by the harness, the extraction's are not.       *)
(***************************************************************************)
EXTENDS Naturals, Sequences, FiniteSets, TLC, Json
Trace == ndJsonDeserialize("trace.ndjson")
VARIABLES l
Ev == Trace[l]
ToSet(s) == {s[i] : i \in 1..Len(s)}
Verdict(v) == PrintT(<<"VERDICT", ToJson([id |-> l, viol |-> v])>>)
NoRepeat(s) == Cardinality(ToSet(s)) = Len(s)

Extraction(err, c, t, list, paths, which) ==
    (IF err # "" THEN {which \o "-failed"} ELSE
        (IF ToSet(c) # ToSet(Ev.srcC) THEN {which \o "-differs-from-source"} ELSE {})
        \cup (IF ToSet(c) = ToSet(Ev.srcC) /\ ToSet(t) # ToSet(Ev.srcT) THEN {which \o "-modification-time-not-preserved"} ELSE {})
        \cup (IF ~NoRepeat(list) THEN {which \o "-list-repeats-an-entry"} ELSE {})
        \cup (IF ToSet(list) # ToSet(paths) THEN {which \o "-list-is-not-what-was-created"} ELSE {}))

RoundTrip ==
    /\ l <= Len(Trace) /\ Ev.op = "RoundTrip"
    /\ Verdict(
         (IF Ev.hasModel /\ ToSet(Ev.model) # ToSet(Ev.srcS) THEN {"harness-materialisation-differs-from-model"} ELSE {})
         \cup (IF Ev.zipErr # "" THEN {"zip-failed"} ELSE
                 (IF ToSet(Ev.srcAfterC) # ToSet(Ev.srcC) THEN {"zip-changed-its-source"} ELSE {})
                 \cup Extraction(Ev.unzipErr, Ev.extC, Ev.extT, Ev.list, Ev.extP, "unzip")
                 \cup Extraction(Ev.unzipLimitsErr, Ev.ext2C, Ev.ext2T, Ev.list2, Ev.ext2P, "unzip-with-limits")
                 \* recursive limits: the trees hold no real archive, a name with an archive extension is a name like any other
                 \cup Extraction(Ev.unzipRecursiveErr, Ev.ext3C, Ev.ext3T, Ev.list3, Ev.ext3P, "unzip-with-recursive-limits")
                 \cup (IF Ev.listOut # <<>> THEN {"list-names-path-outside-destination"} ELSE {})
                 \cup (IF Ev.zipViewErr # "" THEN {"zip-view-not-opened"} ELSE
                         (IF ToSet(Ev.zipViewC) # ToSet(Ev.srcC) THEN {"zip-view-differs-from-source"} ELSE {})
                         \* an archive without any entry: the causal signature of a known limitation of the zip view
                         \cup (IF Ev.zipViewProblems # <<>>
                               THEN (IF Ev.srcC = <<>> THEN {"zip-view-of-empty-archive-not-listable"} ELSE {"zip-view-call-failed"}) ELSE {})))
         \cup (IF Ev.tarViewErr # "" THEN {"tar-view-not-opened"} ELSE
                 (IF ToSet(Ev.tarViewC) # ToSet(Ev.srcC) THEN {"tar-view-differs-from-source"} ELSE {})
                 \cup (IF Ev.tarViewProblems # <<>> THEN {"tar-view-call-failed"} ELSE {}))
         \cup (IF Ev.handles # 0 THEN {"handle-left-open"} ELSE {}))
    /\ l' = l + 1
TraceSpec == l = 1 /\ [][RoundTrip]_l
TraceAccepted == LET n == TLCGet("stats").diameter - 1 IN PrintT(<<"TRACE_MATCHED", n>>) /\ n = Len(Trace)
=============================================================================
