------------------------------ MODULE Resource ------------------------------
(***************************************************************************)
(* Growth (beyond the listed properties): resource.CloseableResource - a   *)
(* wrapper that closes an underlying io.Closer at most once successfully,  *)
(* remembers that it did, and may be closed again (a failed close leaves   *)
(* it open and can be retried).  Several goroutines may close it at once:  *)
(* the wrapper's mutex is held across the underlying Close, which is what  *)
(* `Locked = TRUE` models as one atomic step per call; with FALSE the look *)
(* at the reference and the underlying call are separate steps (the        *)
(* sensitivity run: two callers both close the underlying resource).       *)
(***************************************************************************)
EXTENDS Naturals, Sequences, FiniteSets, TLC, Json
CONSTANTS Closers,      \* concurrent callers of Close
          MaxFails,     \* how many underlying closes may fail
          Locked,
          MaxSteps
VARIABLES ref,          \* the wrapper still holds the underlying closer
          closed,       \* what IsClosed answers
          fails,        \* underlying failures still to come
          succ,         \* successful underlying closes so far (must stay <= 1)
          calls,        \* underlying closes attempted
          pc,           \* per caller: "idle", "checked" (saw a reference, about to call: only when ~Locked)
          hist
vars == <<ref, closed, fails, succ, calls, pc, hist>>

Init == /\ ref = TRUE /\ closed = FALSE /\ fails \in 0..MaxFails /\ succ = 0 /\ calls = 0
        /\ pc = [c \in Closers |-> "idle"]
        /\ hist = <<[op |-> "New", fails |-> fails]>>

\* the underlying Close as the caller in c performs it
Underlying(c, op) ==
    /\ calls' = calls + 1
    /\ IF fails > 0
         THEN /\ fails' = fails - 1 /\ UNCHANGED <<ref, closed, succ>>
              /\ hist' = Append(hist, [op |-> op, c |-> c, err |-> TRUE, closedAfter |-> closed, calls |-> calls'])
         ELSE /\ fails' = fails /\ succ' = succ + 1 /\ ref' = FALSE /\ closed' = TRUE
              /\ hist' = Append(hist, [op |-> op, c |-> c, err |-> FALSE, closedAfter |-> TRUE, calls |-> calls'])

CloseAtomic(c) == /\ Locked /\ pc[c] = "idle"
                  /\ IF ref THEN Underlying(c, "Close")
                     ELSE /\ closed' = TRUE
                          /\ hist' = Append(hist, [op |-> "Close", c |-> c, err |-> FALSE, closedAfter |-> TRUE, calls |-> calls])
                          /\ UNCHANGED <<ref, fails, succ, calls>>
                  /\ UNCHANGED pc
Check(c) == /\ ~Locked /\ pc[c] = "idle"
            /\ IF ref THEN pc' = [pc EXCEPT ![c] = "checked"] /\ UNCHANGED <<closed, hist>>
               ELSE /\ closed' = TRUE /\ UNCHANGED pc
                    /\ hist' = Append(hist, [op |-> "Close", c |-> c, err |-> FALSE, closedAfter |-> TRUE, calls |-> calls])
            /\ UNCHANGED <<ref, fails, succ, calls>>
Call(c) == /\ ~Locked /\ pc[c] = "checked" /\ Underlying(c, "Close") /\ pc' = [pc EXCEPT ![c] = "idle"]
IsClosed(c) == /\ pc[c] = "idle"
               /\ hist' = Append(hist, [op |-> "IsClosed", c |-> c, err |-> FALSE, closedAfter |-> closed, calls |-> calls])
               /\ UNCHANGED <<ref, closed, fails, succ, calls, pc>>

Next == /\ Len(hist) <= MaxSteps
        /\ \E c \in Closers : CloseAtomic(c) \/ Check(c) \/ Call(c) \/ IsClosed(c)
Spec == Init /\ [][Next]_vars

TypeOK == ref \in BOOLEAN /\ closed \in BOOLEAN /\ succ \in Nat /\ calls \in Nat
UnderlyingClosedAtMostOnce == succ <= 1
ClosedIffUnderlyingClosed == closed <=> succ >= 1
NoCallOnceClosed == [][closed => calls' = calls]_vars
ClosedIsStable == [][closed => closed']_vars
FailuresKeepItOpen == [][(calls' = calls + 1 /\ succ' = succ) => (closed' = closed /\ ref' = ref)]_vars
Emit == Len(hist) = MaxSteps + 1 => PrintT(<<"BEHAVIOUR", ToJson([fails |-> hist[1].fails, steps |-> SubSeq(hist, 2, Len(hist))])>>)
=============================================================================
