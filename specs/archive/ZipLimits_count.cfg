SPECIFICATION Spec
CONSTANT Thorough = FALSE
INVARIANTS WellDefined
CHECK_DEADLOCK FALSE
