// Package c12 binds specs/conc/{TimeoutRunner,CtxRunner,Parallelise,CancelStore}.tla to
// utils/parallelisation.
package c12

import (
	"bytes"
	"context"
	"errors"
	"fmt"
	"math/rand"
	"reflect"
	"runtime"
	"sort"
	"sync"
	"sync/atomic"
	"time"

	"github.com/ARM-software/golang-utils/utils/commonerrors"
	"github.com/ARM-software/golang-utils/utils/parallelisation"

	"verifharness/internal/hk"
)

func init() {
	hk.Register("c12", "replay-timeout", replayTimeout)
	hk.Register("c12", "replay-ctx", replayCtx)
	hk.Register("c12", "replay-parallelise", replayParallelise)
	hk.Register("c12", "sweep-timeout", sweepTimeout)
	hk.Register("c12", "record-store", recordStore)
	hk.Register("c12", "record-parallelise", recordParallelise)
}

var errOwn = errors.New("the action's own error")
var errStopped = errors.New("the action was told to stop")

const step = 25 * time.Millisecond // spacing between scripted instants
const watchdog = 3 * time.Second

func ctxKind(err error) string {
	switch {
	case err == nil:
		return "nil"
	case errors.Is(err, errOwn):
		return "error"
	case errors.Is(err, errStopped):
		return "stopped"
	case commonerrors.Any(err, commonerrors.ErrTimeout, context.DeadlineExceeded):
		return "timeout"
	case commonerrors.Any(err, commonerrors.ErrCancelled, context.Canceled):
		return "cancelled"
	}
	return "other:" + err.Error()
}

// ---------------------------------------------------------------------------------------------
// RunActionWithTimeout

type timeoutBehaviour struct {
	Listen  string   `json:"listen"`
	StopCap int      `json:"stopCap"`
	Steps   []string `json:"steps"`
	Ret     string   `json:"ret"`
	SawStop bool     `json:"sawStop"`
}

func index(steps []string, name string) int {
	for i, s := range steps {
		if s == name {
			return i
		}
	}
	return -1
}

type timeoutObs struct {
	Returned    bool
	Ret         string
	SawStop     bool
	ActionEnded bool  // the action goroutine had finished when the runner returned
	EndOffsetUs int64 // completion instant of the action relative to the deadline (microseconds)
	LatencyUs   int64 // worst oversleep of a reference goroutine during the run (scheduling latency probe)
}

// runTimeout runs the real RunActionWithTimeout with an action that finishes on its own `finishAfter`
// after the start unless it receives the stop signal, to which it listens from `listenFrom` on (<0: never).
func runTimeout(timeout, finishAfter, listenFrom time.Duration, busy int) timeoutObs {
	var o timeoutObs
	var sawStop, ended atomic.Bool
	var endAt atomic.Int64
	stopBusy := make(chan struct{})
	for i := 0; i < busy; i++ {
		go func() {
			x := 0
			for {
				select {
				case <-stopBusy:
					return
				default:
					x++
				}
			}
		}()
	}
	defer close(stopBusy)
	var worst atomic.Int64
	probeDone := make(chan struct{})
	go func() { // scheduling latency reference, measured in the same window
		for {
			select {
			case <-probeDone:
				return
			default:
			}
			t0 := time.Now()
			time.Sleep(200 * time.Microsecond)
			if over := int64(time.Since(t0)) - int64(200*time.Microsecond); over > worst.Load() {
				worst.Store(over)
			}
		}
	}()
	defer close(probeDone)
	var start time.Time
	action := func(stop chan bool) error {
		defer func() { endAt.Store(int64(time.Since(start))); ended.Store(true) }()
		finish := time.NewTimer(finishAfter)
		defer finish.Stop()
		if listenFrom < 0 {
			<-finish.C
			return errOwn
		}
		if listenFrom > 0 {
			deaf := time.NewTimer(listenFrom)
			select {
			case <-finish.C:
				deaf.Stop()
				return errOwn
			case <-deaf.C:
			}
		}
		select {
		case <-finish.C:
			return errOwn
		case <-stop:
			sawStop.Store(true)
			return errStopped
		}
	}
	done := make(chan error, 1)
	go func() {
		start = time.Now() // the runner's own start: its deadline is start+timeout
		done <- parallelisation.RunActionWithTimeout(action, timeout)
	}()
	select {
	case err := <-done:
		o.Returned = true
		o.ActionEnded = ended.Load()
		switch k := ctxKind(err); k {
		case "error":
			o.Ret = "own"
		default:
			o.Ret = k
		}
	case <-time.After(watchdog + finishAfter):
	}
	o.SawStop = sawStop.Load()
	o.EndOffsetUs = (endAt.Load() - int64(timeout)) / 1000
	o.LatencyUs = worst.Load() / 1000
	return o
}

func replayTimeout(a *hk.Args) error {
	bs, err := hk.ReadNDJSON[timeoutBehaviour](a.In)
	if err != nil {
		return err
	}
	w, err := hk.NewWriter(a.Out)
	if err != nil {
		return err
	}
	defer w.Close()
	var wg sync.WaitGroup
	sem := make(chan struct{}, 8)
	for i := range bs {
		wg.Add(1)
		sem <- struct{}{}
		go func(i int) {
			defer wg.Done()
			defer func() { <-sem }()
			attempt := func() hk.Result {
				b := &bs[i]
				res := hk.Result{ID: i, Status: "ok", Variant: "timeout-runner/" + b.Listen, Nontriv: true}
				tf, af, ts := index(b.Steps, "TimerFires"), index(b.Steps, "ActionSends"), index(b.Steps, "ActionTakesStop")
				if ts >= 0 {
					af = -1
				}
				timeout := 2 * step
				var finishAfter, listenFrom time.Duration
				switch b.Listen {
				case "always":
					listenFrom = 0
				case "late":
					listenFrom = 3 * step
				default:
					listenFrom = -1
				}
				switch {
				case af >= 0 && (tf < 0 || af < tf): // the action finishes on its own before the deadline
					finishAfter = step
					if b.Listen == "late" && index(b.Steps, "ActionProgress") >= 0 && index(b.Steps, "ActionProgress") < af {
						listenFrom = step / 2
					}
				case ts >= 0: // deadline first, then the action takes the stop signal
					finishAfter = 40 * step
				default: // deadline first, the action finishes later on its own without taking the signal
					finishAfter = 4 * step
					if b.Listen != "never" {
						listenFrom = 40 * step // it never gets to listen before finishing
					}
				}
				o := runTimeout(timeout, finishAfter, listenFrom, 0)
				fail := func(sig, d string) {
					res.Status, res.Sig, res.Detail, res.Scenario = "violation", sig, d, b
				}
				// was the scripted order (action end vs deadline) really realised? On a loaded machine the action may start
				// later than the spacing of the script allows for: such a run says nothing about the behaviour it replays
				finishFirst := af >= 0 && (tf < 0 || af < tf)
				marginUs := int64(step / 3 / time.Microsecond)
				if o.Returned && o.LatencyUs > marginUs {
					// timers and goroutines were served later than the spacing of the script tolerates (the runner's own deadline timer too)
					res.Status, res.Detail = "skip", fmt.Sprintf("scripted instants not realisable under load (scheduling latency %dus)", o.LatencyUs)
					return res
				}
				if o.Returned && o.ActionEnded && ((finishFirst && o.EndOffsetUs > -marginUs) || (!finishFirst && !o.SawStop && o.EndOffsetUs < marginUs)) {
					res.Status, res.Detail = "skip", fmt.Sprintf("scripted order not realised under load (action end offset %dus)", o.EndOffsetUs)
					return res
				}
				switch {
				case !o.Returned:
					fail("runner-never-returns", fmt.Sprintf("RunActionWithTimeout(%v) did not return; action listen=%s finishes after %v, listens from %v; model steps %v", timeout, b.Listen, finishAfter, listenFrom, b.Steps))
				case o.Ret != b.Ret:
					fail("runner-wrong-result", fmt.Sprintf("returned %q, model %q (listen=%s, action end offset %dus)", o.Ret, b.Ret, b.Listen, o.EndOffsetUs))
				case !o.ActionEnded:
					fail("runner-returned-before-action-ended", "the runner returned while the action goroutine was still running")
				case ts >= 0 && !o.SawStop:
					fail("stop-signal-not-delivered", "deadline passed but the listening action never received the stop signal")
				}
				return res
			}
			res := attempt()
			for try := 0; try < 2 && res.Status == "violation" && res.Sig == "runner-wrong-result"; try++ {
				res = attempt() // confirmed before it is reported (see replayCtx)
			}
			w.Write(res)
		}(i)
	}
	wg.Wait()
	return nil
}

type sweepEvent struct {
	Op       string `json:"op"`
	Listen   string `json:"listen"`
	Order    string `json:"order"` // finish-first | timer-first | either  (from measured instants, with a margin)
	Ret      string `json:"ret"`
	SawStop  bool   `json:"sawStop"`
	Ended    bool   `json:"ended"`
	OffsetUs int64  `json:"offset_us"`
	Busy     int    `json:"busy"`
	LatUs    int64  `json:"latency_us"`
}

// sweepTimeout sweeps the completion instant of the action across the deadline.
func sweepTimeout(a *hk.Args) error {
	w, err := hk.NewWriter(a.Out)
	if err != nil {
		return err
	}
	defer w.Close()
	stepUs := 50
	busies := []int{0, 4}
	if a.Tier == "thorough" {
		stepUs = 2
		busies = []int{0, 1, 4, 16}
	}
	timeout := 8 * time.Millisecond
	const baseMarginUs = 4000 // scheduling margin: inside it either order is accepted; widened by the measured latency
	var mu sync.Mutex
	var wg sync.WaitGroup
	sem := make(chan struct{}, 2)
	for _, busy := range busies {
		for off := -2000; off <= 2000; off += stepUs {
			for _, listen := range []string{"always", "never"} {
				wg.Add(1)
				sem <- struct{}{}
				go func(off, busy int, listen string) {
					defer wg.Done()
					defer func() { <-sem }()
					lf := time.Duration(0)
					if listen == "never" {
						lf = -1
					}
					o := runTimeout(timeout, timeout+time.Duration(off)*time.Microsecond, lf, busy)
					ev := sweepEvent{Op: "Run", Listen: listen, Ret: o.Ret, SawStop: o.SawStop, Ended: o.ActionEnded, OffsetUs: o.EndOffsetUs, Busy: busy, LatUs: o.LatencyUs}
					if !o.Returned {
						ev.Ret = "blocked"
					}
					marginUs := baseMarginUs + 4*o.LatencyUs
					switch {
					case o.SawStop:
						ev.Order = "timer-first" // the signal is only sent after the deadline
					case o.EndOffsetUs < -marginUs:
						ev.Order = "finish-first"
					default:
						// the action ending after the deadline says nothing about when the runner's timer was served: no order is claimed
						ev.Order = "either"
					}
					mu.Lock()
					w.Write(ev)
					mu.Unlock()
				}(off, busy, listen)
			}
		}
	}
	wg.Wait()
	// clearly-before and clearly-after instants
	for _, off := range []int{-7000, -6000, 8000, 15000} {
		for _, listen := range []string{"always", "never"} {
			lf := time.Duration(0)
			if listen == "never" {
				lf = -1
			}
			o := runTimeout(timeout, timeout+time.Duration(off)*time.Microsecond, lf, 0)
			ev := sweepEvent{Op: "Run", Listen: listen, Ret: o.Ret, SawStop: o.SawStop, Ended: o.ActionEnded, OffsetUs: o.EndOffsetUs, LatUs: o.LatencyUs}
			if !o.Returned {
				ev.Ret = "blocked"
			}
			marginUs := baseMarginUs + 4*o.LatencyUs
			switch {
			case o.SawStop:
				ev.Order = "timer-first"
			case o.EndOffsetUs < -marginUs:
				ev.Order = "finish-first"
			default:
				ev.Order = "either"
			}
			w.Write(ev)
		}
	}
	return nil
}

// ---------------------------------------------------------------------------------------------
// RunActionWithTimeoutAndContext / ...AndCancelStore

type ctxBehaviour struct {
	Outcome       string   `json:"outcome"`
	Watches       bool     `json:"watches"`
	Quiet         bool     `json:"quiet"`          // the action returns nil, not the context's error, when it sees its context done
	StoreCancel   bool     `json:"storeCancelled"` // another goroutine cancels the caller's store while the runner waits
	Deferred      bool     `json:"deferred"`
	Steps         []string `json:"steps"`
	Ret           string   `json:"ret"`
	ParentDone    bool     `json:"parentDone"`
	TimerFired    bool     `json:"timerFired"`
	ActionCtxDone bool     `json:"actionCtxDone"`
	Ran           bool     `json:"ran"`
}

func replayCtx(a *hk.Args) error {
	bs, err := hk.ReadNDJSON[ctxBehaviour](a.In)
	if err != nil {
		return err
	}
	w, err := hk.NewWriter(a.Out)
	if err != nil {
		return err
	}
	defer w.Close()
	var wg sync.WaitGroup
	sem := make(chan struct{}, 8)
	for i := range bs {
		wg.Add(1)
		sem <- struct{}{}
		go func(i int) {
			defer wg.Done()
			defer func() { <-sem }()
			// a result that differs from the model's is confirmed before it is reported: a single stalled thread (the runner's own
			// deadline timer served tens of milliseconds late) is not a property of the library and does not repeat; a defect does
			res := runCtx(i, &bs[i])
			for try := 0; try < 2 && res.Status == "violation" && res.Sig == "runner-wrong-result"; try++ {
				res = runCtx(i, &bs[i])
			}
			w.Write(res)
		}(i)
	}
	wg.Wait()
	return nil
}

func runCtx(id int, b *ctxBehaviour) hk.Result {
	res := hk.Result{ID: id, Status: "ok", Nontriv: true, Variant: fmt.Sprintf("ctx-runner deferred=%v outcome=%s watches=%v", b.Deferred, b.Outcome, b.Watches)}
	fail := func(sig, d string) hk.Result {
		res.Status, res.Sig, res.Detail, res.Scenario = "violation", sig, d, b
		return res
	}
	// scripted instants from the order of the timed steps of the behaviour
	rc, pc, tf := index(b.Steps, "RunnerChecks"), index(b.Steps, "ParentCancels"), index(b.Steps, "TimerFires")
	sc := index(b.Steps, "StoreCancels")
	af := index(b.Steps, "ActionSends")
	if index(b.Steps, "ActionFinishes") < 0 {
		af = -1 // the action ended because it saw its context, not on its own
	}
	type timed struct {
		name string
		idx  int
	}
	var ts []timed
	for _, t := range []timed{{"parent", pc}, {"timer", tf}, {"finish", af}, {"store", sc}} {
		if t.idx >= 0 && !(t.name == "parent" && pc < rc) {
			ts = append(ts, t)
		}
	}
	sort.Slice(ts, func(i, j int) bool { return ts[i].idx < ts[j].idx })
	far := 60 * step
	at := map[string]time.Duration{"parent": far, "timer": far, "finish": far, "store": far}
	for k, t := range ts {
		at[t.name] = time.Duration(k+1) * step
	}
	parent, parentCancel := context.WithCancel(context.Background())
	defer parentCancel()
	// the instants at which the scripted events really happened (nanoseconds since the runner was called; 0 = not yet)
	var parentAt, actionStartAt atomic.Int64
	var t0 time.Time
	cancelParent := func() {
		parentAt.Store(int64(time.Since(t0)) + 1)
		parentCancel()
	}
	preCancelled := (pc >= 0 && pc < rc) || (pc < 0 && b.ParentDone)
	if preCancelled {
		parentCancel()
	}
	var ran, ended atomic.Bool
	var actionCtx atomic.Value
	action := func(ctx context.Context) error {
		ran.Store(true)
		actionStartAt.Store(int64(time.Since(t0)) + 1)
		actionCtx.Store(ctx)
		defer ended.Store(true)
		finish := time.NewTimer(at["finish"])
		defer finish.Stop()
		if !b.Watches {
			<-finish.C
		} else {
			select {
			case <-finish.C:
			case <-ctx.Done():
				if b.Quiet {
					return nil
				}
				return ctx.Err()
			}
		}
		if b.Outcome == "error" {
			return errOwn
		}
		return nil
	}
	done := make(chan error, 1)
	store := parallelisation.NewCancelFunctionsStore()
	var storeAt atomic.Int64
	// scheduling latency over the run: the runner's own deadline timer is served no better than this reference
	var worstLat atomic.Int64
	probeDone := make(chan struct{})
	go func() {
		for {
			select {
			case <-probeDone:
				return
			default:
			}
			p0 := time.Now()
			time.Sleep(200 * time.Microsecond)
			if over := int64(time.Since(p0)) - int64(200*time.Microsecond); over > worstLat.Load() {
				worstLat.Store(over)
			}
		}
	}()
	defer close(probeDone)
	go func() {
		// every scripted instant is counted from here, in this goroutine, right before the call
		t0 = time.Now()
		if !preCancelled && pc >= 0 {
			tm := time.AfterFunc(at["parent"], cancelParent)
			defer tm.Stop()
		}
		if sc >= 0 {
			tm := time.AfterFunc(at["store"], func() {
				storeAt.Store(int64(time.Since(t0)) + 1)
				store.Cancel()
			})
			defer tm.Stop()
		}
		if b.Deferred {
			done <- parallelisation.RunActionWithTimeoutAndContext(parent, at["timer"], action)
		} else {
			done <- parallelisation.RunActionWithTimeoutAndCancelStore(parent, at["timer"], store, action)
		}
	}()
	var rerr error
	select {
	case rerr = <-done:
	case <-time.After(watchdog + at["finish"]):
		if at["finish"] == far && !b.Watches {
			res.Status, res.Detail = "skip", "non-watching action that never finishes: outside the statement"
			return res
		}
		return fail("runner-never-returns", fmt.Sprintf("context runner did not return; steps %v", b.Steps))
	}
	if lat := time.Duration(worstLat.Load()); lat > step/3 {
		res.Status, res.Detail = "skip", fmt.Sprintf("scripted instants not realisable under load (scheduling latency %v)", lat)
		return res
	}
	// did the scripted order of the timed events really happen? (a loaded machine can delay a timer or the start of the
	// action by more than the spacing of the script: then this run says nothing about the behaviour it was meant to replay)
	{
		real := map[string]time.Duration{}
		if tf >= 0 {
			real["timer"] = at["timer"]
		}
		if v := parentAt.Load(); v > 0 {
			real["parent"] = time.Duration(v - 1)
		} else if !preCancelled && pc >= 0 {
			real["parent"] = far
		}
		if af >= 0 {
			if v := actionStartAt.Load(); v > 0 {
				real["finish"] = time.Duration(v-1) + at["finish"]
			}
		}
		if sc >= 0 {
			if v := storeAt.Load(); v > 0 {
				real["store"] = time.Duration(v - 1)
			} else {
				real["store"] = far
			}
		}
		for i := 0; i+1 < len(ts); i++ {
			x, okx := real[ts[i].name]
			y, oky := real[ts[i+1].name]
			if okx && oky && y-x < step/3 {
				res.Status, res.Detail = "skip", fmt.Sprintf("scripted order %s < %s not realised under load (%v vs %v)", ts[i].name, ts[i+1].name, x, y)
				return res
			}
		}
	}
	got := ctxKind(rerr)
	want := b.Ret
	norm := func(s string) string {
		if s == "ctxerr" {
			return "cancelled"
		}
		return s
	}
	if b.Ran != ran.Load() {
		if !b.Ran {
			return fail("action-run-on-done-context", "the action was started although the context was already done at the call")
		}
		return fail("action-not-run", "the action was never started")
	}
	if norm(got) != norm(want) {
		return fail("runner-wrong-result", fmt.Sprintf("returned %q, model %q; steps %v", got, want, b.Steps))
	}
	if ran.Load() && !ended.Load() {
		return fail("runner-returned-before-action-ended", "the runner returned while the action goroutine was still running")
	}
	if ran.Load() && b.ActionCtxDone {
		c := actionCtx.Load().(context.Context)
		// cancellation propagates synchronously through the context tree
		if c.Err() == nil {
			return fail("action-context-not-cancelled", fmt.Sprintf("the context handed to the action is still live after the runner returned %q (deferred=%v)", got, b.Deferred))
		}
	}
	if !b.Deferred && ran.Load() {
		store.Cancel()
		if c := actionCtx.Load().(context.Context); c.Err() == nil {
			return fail("store-cancel-does-not-reach-action-context", "store.Cancel() after the run left the action's context live")
		}
	}
	return res
}

// ---------------------------------------------------------------------------------------------
// Parallelise

type parBehaviour struct {
	N     int   `json:"n"`
	Fails []int `json:"fails"`
}

type parObs struct {
	Invoked  []int  `json:"invoked"`
	Ret      string `json:"ret"`
	ErrArg   int    `json:"errArg"`
	Results  []int  `json:"results"`
	Leaked   bool   `json:"leaked"`
	Returned bool   `json:"returned"`
}

type argErr struct{ arg int }

func (e *argErr) Error() string { return fmt.Sprintf("invocation %d failed", e.arg) }

func runParallelise(n int, fails map[int]bool, rng *rand.Rand, keep bool) parObs {
	o := parObs{Invoked: make([]int, n)}
	var mu sync.Mutex
	var wg sync.WaitGroup
	wg.Add(n)
	args := make([]int, n)
	delays := make([]time.Duration, n)
	for i := range args {
		args[i] = i + 1
		delays[i] = time.Duration(rng.Intn(300)) * time.Microsecond
	}
	action := func(arg interface{}) (interface{}, error) {
		defer wg.Done()
		a := arg.(int)
		time.Sleep(delays[a-1])
		mu.Lock()
		o.Invoked[a-1]++
		mu.Unlock()
		if fails[a] {
			return nil, &argErr{a}
		}
		return a * 10, nil
	}
	var rt reflect.Type
	if keep {
		rt = reflect.TypeOf([]int{})
	}
	type out struct {
		r   interface{}
		err error
	}
	done := make(chan out, 1)
	go func() {
		r, err := parallelisation.Parallelise(args, action, rt)
		done <- out{r, err}
	}()
	select {
	case x := <-done:
		o.Returned = true
		if x.err != nil {
			o.Ret = "error"
			var ae *argErr
			if errors.As(x.err, &ae) {
				o.ErrArg = ae.arg
			} else {
				o.ErrArg = -1
			}
		} else {
			o.Ret = "ok"
			if keep {
				if rs, ok := x.r.([]int); ok {
					o.Results = append(o.Results, rs...)
					sort.Ints(o.Results)
				}
			}
		}
	case <-time.After(watchdog):
	}
	fin := make(chan struct{})
	go func() { wg.Wait(); close(fin) }()
	select {
	case <-fin:
	case <-time.After(watchdog):
		o.Leaked = true
	}
	if !o.Leaked {
		// an invocation that has finished may still be stuck handing its result over: goroutines of Parallelise left behind
		for t := time.Now(); time.Since(t) < 500*time.Millisecond; time.Sleep(10 * time.Millisecond) {
			buf := make([]byte, 8<<20)
			buf = buf[:runtime.Stack(buf, true)]
			if !bytes.Contains(buf, []byte("parallelisation.Parallelise.func")) {
				break
			}
			if time.Since(t) > 450*time.Millisecond {
				o.Leaked = true
			}
		}
	}
	mu.Lock()
	o.Invoked = append([]int{}, o.Invoked...)
	mu.Unlock()
	return o
}

func judgeParallelise(n int, fails map[int]bool, o parObs, keep bool) (sig, detail string) {
	if !o.Returned {
		return "parallelise-never-returns", "Parallelise did not return"
	}
	if o.Leaked {
		return "parallelise-goroutine-blocked", "an invocation never finished (blocked goroutine)"
	}
	for i, c := range o.Invoked {
		if c != 1 {
			return "parallelise-not-once-per-argument", fmt.Sprintf("argument %d invoked %d times", i+1, c)
		}
	}
	if len(fails) == 0 {
		if o.Ret != "ok" {
			return "parallelise-spurious-error", "error returned although no invocation failed"
		}
		if keep {
			if len(o.Results) != n {
				return "parallelise-results-lost", fmt.Sprintf("%d results for %d arguments", len(o.Results), n)
			}
			for i, r := range o.Results {
				if r != (i+1)*10 {
					return "parallelise-results-wrong", fmt.Sprintf("results %v", o.Results)
				}
			}
		}
		return "", ""
	}
	if o.Ret != "error" {
		return "parallelise-error-swallowed", fmt.Sprintf("nil returned although invocations %v failed", keys(fails))
	}
	if !fails[o.ErrArg] {
		return "parallelise-foreign-error", fmt.Sprintf("returned error of invocation %d which did not fail", o.ErrArg)
	}
	return "", ""
}

func keys(m map[int]bool) []int {
	var k []int
	for x := range m {
		k = append(k, x)
	}
	sort.Ints(k)
	return k
}

func replayParallelise(a *hk.Args) error {
	bs, err := hk.ReadNDJSON[parBehaviour](a.In)
	if err != nil {
		return err
	}
	w, err := hk.NewWriter(a.Out)
	if err != nil {
		return err
	}
	defer w.Close()
	rng := rand.New(rand.NewSource(a.Seed))
	for i, b := range bs {
		fails := map[int]bool{}
		for _, f := range b.Fails {
			fails[f] = true
		}
		for _, keep := range []bool{true, false} {
			res := hk.Result{ID: i, Status: "ok", Nontriv: b.N > 1, Variant: fmt.Sprintf("parallelise keep=%v", keep)}
			o := runParallelise(b.N, fails, rng, keep)
			if sig, d := judgeParallelise(b.N, fails, o, keep); sig != "" {
				res.Status, res.Sig, res.Detail, res.Scenario = "violation", sig, d, b
			}
			w.Write(res)
		}
	}
	return nil
}

type parEvent struct {
	Op      string `json:"op"`
	N       int    `json:"n"`
	Fails   []int  `json:"fails"`
	Invoked []int  `json:"invoked"`
	Ret     string `json:"ret"`
	ErrArg  int    `json:"errArg"`
	NRes    int    `json:"nres"`
	Leaked  bool   `json:"leaked"`
}

func recordParallelise(a *hk.Args) error {
	w, err := hk.NewWriter(a.Out)
	if err != nil {
		return err
	}
	defer w.Close()
	rng := rand.New(rand.NewSource(a.Seed))
	n := a.N
	if n == 0 {
		n = 100
	}
	for t := 0; t < n; t++ {
		size := rng.Intn(40)
		fails := map[int]bool{}
		if rng.Intn(2) == 0 {
			for k := rng.Intn(4); k > 0 && size > 0; k-- {
				fails[1+rng.Intn(size)] = true
			}
		}
		o := runParallelise(size, fails, rng, true)
		ev := parEvent{Op: "Parallelise", N: size, Fails: keys(fails), Invoked: o.Invoked, Ret: o.Ret, ErrArg: o.ErrArg, NRes: len(o.Results), Leaked: o.Leaked}
		if ev.Fails == nil {
			ev.Fails = []int{}
		}
		if ev.Invoked == nil {
			ev.Invoked = []int{}
		}
		if !o.Returned {
			ev.Ret = "blocked"
		}
		w.Write(ev)
	}
	return nil
}

// ---------------------------------------------------------------------------------------------
// CancelFunctionStore histories

type storeEvent struct {
	Op      string `json:"op"` // New | RegStart | RegEnd | CancelStart | CancelEnd | LenStart | LenEnd
	ID      int    `json:"id"`
	Invoked []int  `json:"invoked"`
	N       int    `json:"n"`
}

func recordStore(a *hk.Args) error {
	w, err := hk.NewWriter(a.Out)
	if err != nil {
		return err
	}
	defer w.Close()
	rng := rand.New(rand.NewSource(a.Seed))
	rounds := a.N
	if rounds == 0 {
		rounds = 30
	}
	for r := 0; r < rounds; r++ {
		store := parallelisation.NewCancelFunctionsStore()
		var mu sync.Mutex // orders the event log: an event is appended while holding mu, start events before the call, end events after it
		log := func(e storeEvent) {
			mu.Lock()
			if e.Invoked == nil {
				e.Invoked = []int{}
			}
			w.Write(e)
			mu.Unlock()
		}
		log(storeEvent{Op: "New"})
		nreg := 2 + rng.Intn(10)
		ncan := 1 + rng.Intn(4)
		nlen := rng.Intn(3)
		// invoked[c] collects which registered functions canceller c triggered: each function records the
		// canceller currently running on this goroutine
		var wg sync.WaitGroup
		invoked := make([][]int, ncan)
		var imu sync.Mutex
		var active atomic.Int64 // id+1 of the canceller whose Cancel is executing functions; cancellers are serialised by cmu
		var cmu sync.Mutex
		for i := 0; i < nreg; i++ {
			wg.Add(1)
			id := i + 1
			d := time.Duration(rng.Intn(200)) * time.Microsecond
			go func() {
				defer wg.Done()
				time.Sleep(d)
				f := func() {
					c := int(active.Load())
					if c > 0 {
						imu.Lock()
						invoked[c-1] = append(invoked[c-1], id)
						imu.Unlock()
					}
				}
				log(storeEvent{Op: "RegStart", ID: id})
				store.RegisterCancelFunction(f)
				log(storeEvent{Op: "RegEnd", ID: id})
			}()
		}
		for c := 0; c < ncan; c++ {
			wg.Add(1)
			id := c + 1
			d := time.Duration(rng.Intn(250)) * time.Microsecond
			go func() {
				defer wg.Done()
				time.Sleep(d)
				cmu.Lock() // one Cancel at a time so that invocations can be attributed
				log(storeEvent{Op: "CancelStart", ID: id})
				active.Store(int64(id))
				store.Cancel()
				active.Store(0)
				imu.Lock()
				inv := append([]int{}, invoked[id-1]...)
				imu.Unlock()
				sort.Ints(inv)
				log(storeEvent{Op: "CancelEnd", ID: id, Invoked: inv})
				cmu.Unlock()
			}()
		}
		for k := 0; k < nlen; k++ {
			wg.Add(1)
			id := k + 1
			d := time.Duration(rng.Intn(250)) * time.Microsecond
			go func() {
				defer wg.Done()
				time.Sleep(d)
				log(storeEvent{Op: "LenStart", ID: id})
				n := store.Len()
				log(storeEvent{Op: "LenEnd", ID: id, N: n})
			}()
		}
		wg.Wait()
		runtime.Gosched()
	}
	return nil
}
