package c12

// Binding of specs/conc/ParallelCheck.tla (growth beyond the listed property): every scenario of the model is run on the
// real RunActionWithParallelCheck with one model instant = 15 ms; the instants at which the checks, the cancellation and
// the return really happened are recorded, and a run whose scripted instants were not realised (a loaded machine) is
// marked as such instead of being judged.  ParallelCheckTrace.tla compares the rest with the model's expectation.

import (
	"context"
	"sync"
	"sync/atomic"
	"time"

	"github.com/ARM-software/golang-utils/utils/parallelisation"

	"verifharness/internal/hk"
)

func init() {
	hk.Register("c12", "replay-parcheck", replayParCheck)
}

const pcUnit = 15 * time.Millisecond

type parCheckScenario struct {
	FailAt     int    `json:"failAt"`
	ParentAt   int    `json:"parentAt"`
	ActionLen  int    `json:"actionLen"`
	Watches    bool   `json:"watches"`
	Outcome    string `json:"outcome"`
	Ret        string `json:"ret"`
	RetAt      int    `json:"retAt"`
	Checks     int    `json:"checks"`
	CheckTimes []int  `json:"checkTimes"`
	Period     int    `json:"period"`
}

type parCheckEvent struct {
	Op          string           `json:"op"`
	ID          int              `json:"id"`
	Scenario    parCheckScenario `json:"scenario"`
	Returned    bool             `json:"returned"`
	Ret         string           `json:"ret"`
	RetAtMs     int              `json:"retAtMs"`
	Checks      int              `json:"checks"`       // checks begun before the return
	LateChecks  int              `json:"lateChecks"`   // checks begun after the function had returned (observed for three periods)
	DoneChecks  int              `json:"checksOnDone"` // checks begun with a context that was already done
	CheckMs     []int            `json:"checkMs"`
	CtxDone     bool             `json:"actionCtxDoneAfterReturn"`
	ActionRan   bool             `json:"actionRan"`
	ActionEnded bool             `json:"actionEndedBeforeReturn"`
	TimingOK    bool             `json:"timingOk"` // every scripted instant was realised within a third of a unit
}

func runParCheck(id int, sc parCheckScenario) parCheckEvent {
	ev := parCheckEvent{Op: "ParallelCheck", ID: id, Scenario: sc, CheckMs: []int{}, TimingOK: true}
	if ev.Scenario.CheckTimes == nil {
		ev.Scenario.CheckTimes = []int{}
	}
	parent, cancel := context.WithCancel(context.Background())
	defer cancel()
	if sc.ParentAt == -1 {
		cancel()
	}
	var mu sync.Mutex
	var t0 time.Time
	var returned atomic.Bool
	var actionCtx atomic.Value
	var ran, ended atomic.Bool
	nchecks := 0
	check := func(ctx context.Context) bool {
		mu.Lock()
		defer mu.Unlock()
		nchecks++
		at := time.Since(t0)
		if returned.Load() {
			ev.LateChecks++
		} else {
			ev.Checks++
			ev.CheckMs = append(ev.CheckMs, int(at/time.Millisecond))
			// the k-th check is due at (k-1) periods
			want := time.Duration((nchecks-1)*sc.Period) * pcUnit
			if d := at - want; d < -pcUnit/3 || d > pcUnit/3 {
				ev.TimingOK = false
			}
		}
		if ctx.Err() != nil {
			ev.DoneChecks++
		}
		return nchecks != sc.FailAt
	}
	action := func(ctx context.Context) error {
		ran.Store(true)
		actionCtx.Store(ctx)
		defer ended.Store(true)
		timer := time.NewTimer(time.Duration(sc.ActionLen)*pcUnit - time.Since(t0))
		defer timer.Stop()
		if sc.Watches {
			select {
			case <-timer.C:
			case <-ctx.Done():
				return ctx.Err()
			}
		} else {
			<-timer.C
		}
		if d := time.Since(t0) - time.Duration(sc.ActionLen)*pcUnit; d > pcUnit/3 {
			mu.Lock()
			ev.TimingOK = false
			mu.Unlock()
		}
		if sc.Outcome == "error" {
			return errOwn
		}
		return nil
	}
	// scheduling-latency probe: a run during which a 1 ms sleep overslept by more than a quarter of a unit is not judged on its instants
	probeStop := make(chan struct{})
	var worst atomic.Int64
	go func() {
		for {
			select {
			case <-probeStop:
				return
			default:
			}
			a := time.Now()
			time.Sleep(time.Millisecond)
			if d := int64(time.Since(a) - time.Millisecond); d > worst.Load() {
				worst.Store(d)
			}
		}
	}()
	t0 = time.Now()
	if sc.ParentAt > 0 {
		tm := time.AfterFunc(time.Duration(sc.ParentAt)*pcUnit, func() {
			if d := time.Since(t0) - time.Duration(sc.ParentAt)*pcUnit; d > pcUnit/3 {
				mu.Lock()
				ev.TimingOK = false
				mu.Unlock()
			}
			cancel()
		})
		defer tm.Stop()
	}
	done := make(chan error, 1)
	go func() {
		err := parallelisation.RunActionWithParallelCheck(parent, action, check, time.Duration(sc.Period)*pcUnit)
		returned.Store(true)
		done <- err
	}()
	select {
	case err := <-done:
		ev.Returned = true
		ev.Ret = ctxKind(err)
		ev.RetAtMs = int(time.Since(t0) / time.Millisecond)
	case <-time.After(watchdog):
		ev.Ret = "blocked"
	}
	close(probeStop)
	if time.Duration(worst.Load()) > pcUnit/4 {
		mu.Lock()
		ev.TimingOK = false
		mu.Unlock()
	}
	ev.ActionRan, ev.ActionEnded = ran.Load(), ended.Load()
	if c, ok := actionCtx.Load().(context.Context); ok {
		ev.CtxDone = c.Err() != nil
	} else {
		ev.CtxDone = true // the action never ran: nothing to leave live
	}
	// stray checks after the return
	time.Sleep(3 * time.Duration(sc.Period) * pcUnit)
	mu.Lock()
	defer mu.Unlock()
	if ev.Returned && sc.ParentAt != -1 {
		if d := time.Duration(ev.RetAtMs)*time.Millisecond - time.Duration(sc.RetAt)*pcUnit; d < -pcUnit/2 || d > pcUnit/2 {
			// the return instant is the model's only if the scripted instants were realised
			if !ev.TimingOK {
				ev.RetAtMs = -1
			}
		}
	}
	return ev
}

func replayParCheck(a *hk.Args) error {
	scs, err := hk.ReadNDJSON[parCheckScenario](a.In)
	if err != nil {
		return err
	}
	w, err := hk.NewWriter(a.Out)
	if err != nil {
		return err
	}
	defer w.Close()
	evs := make([]parCheckEvent, len(scs))
	var wg sync.WaitGroup
	sem := make(chan struct{}, 6)
	for i := range scs {
		wg.Add(1)
		sem <- struct{}{}
		go func(i int) {
			defer wg.Done()
			defer func() { <-sem }()
			evs[i] = runParCheck(i+1, scs[i])
		}(i)
	}
	wg.Wait()
	for _, e := range evs {
		w.Write(e)
	}
	return nil
}
