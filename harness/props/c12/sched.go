package c12

// Binding of specs/conc/Scheduler.tla (growth beyond the listed property): every scenario of the model is run on the real
// SafeScheduleAfter / SafeSchedule with one model instant = 15 ms; f records when it starts and ends and whether its
// context was already done.  SchedulerTrace.tla compares with the model: the calls before the cancellation must be the
// model's; calls that start after it are the named deviation of the code as it is (possible only when f is slower than
// the period).

import (
	"context"
	"sync"
	"sync/atomic"
	"time"

	"github.com/ARM-software/golang-utils/utils/parallelisation"

	"verifharness/internal/hk"
)

func init() {
	hk.Register("c12", "replay-sched", replaySched)
}

type schedScenario struct {
	Mode        string `json:"mode"`
	Dur         int    `json:"dur"`
	CancelAt    int    `json:"cancelAt"`
	First       int    `json:"first"`
	Period      int    `json:"period"`
	Horizon     int    `json:"horizon"`
	Calls       []int  `json:"calls"`
	AfterCancel int    `json:"afterCancel"`
}

type schedEvent struct {
	Op          string        `json:"op"`
	ID          int           `json:"id"`
	Scenario    schedScenario `json:"scenario"`
	StartsMs    []int         `json:"startsMs"`  // start of every call of f, since the scheduler was called
	Units       []int         `json:"units"`     // the same, rounded to model instants
	OffGrid     int           `json:"offGrid"`   // calls further than a third of an instant from a model instant
	Overlaps    int           `json:"overlaps"`  // calls begun while another was running
	LateCalls   int           `json:"lateCalls"` // calls begun with a context already done
	AfterStop   int           `json:"afterStop"` // calls begun later than two periods after the cancellation
	TimingOK    bool          `json:"timingOk"`
	CancelledMs int           `json:"cancelledMs"`
}

func runSched(id int, sc schedScenario) schedEvent {
	ev := schedEvent{Op: "Schedule", ID: id, Scenario: sc, StartsMs: []int{}, Units: []int{}, TimingOK: true}
	if ev.Scenario.Calls == nil {
		ev.Scenario.Calls = []int{}
	}
	ctx, cancel := context.WithCancel(context.Background())
	defer cancel()
	if sc.CancelAt == 0 {
		cancel()
	}
	var mu sync.Mutex
	var t0 time.Time
	var inside atomic.Int32
	var cancelledAt atomic.Int64
	f := func(c context.Context, _ time.Time) {
		at := time.Since(t0)
		if inside.Add(1) > 1 {
			mu.Lock()
			ev.Overlaps++
			mu.Unlock()
		}
		defer inside.Add(-1)
		mu.Lock()
		ev.StartsMs = append(ev.StartsMs, int(at/time.Millisecond))
		u := int((at + pcUnit/2) / pcUnit)
		ev.Units = append(ev.Units, u)
		if d := at - time.Duration(u)*pcUnit; d < -pcUnit/3 || d > pcUnit/3 {
			ev.OffGrid++
		}
		if c.Err() != nil {
			ev.LateCalls++
		}
		if ca := cancelledAt.Load(); ca != 0 && at > time.Duration(ca)+2*time.Duration(sc.Period)*pcUnit {
			ev.AfterStop++
		}
		mu.Unlock()
		time.Sleep(time.Duration(sc.Dur)*pcUnit - pcUnit/5) // a little less than the model's duration: the next instant is free again
	}
	probeStop := make(chan struct{})
	var worst atomic.Int64
	go func() {
		for {
			select {
			case <-probeStop:
				return
			default:
			}
			a := time.Now()
			time.Sleep(time.Millisecond)
			if d := int64(time.Since(a) - time.Millisecond); d > worst.Load() {
				worst.Store(d)
			}
		}
	}()
	period := time.Duration(sc.Period) * pcUnit
	t0 = time.Now()
	if sc.Mode == "after" {
		parallelisation.SafeScheduleAfter(ctx, time.Duration(sc.First)*pcUnit, f)
	} else {
		// the first execution is positioned on the wall-clock grid of the period: choose the offset that puts it `first` instants from now
		target := t0.Add(time.Duration(sc.First) * pcUnit)
		offset := target.Sub(target.Truncate(period))
		parallelisation.SafeSchedule(ctx, period, offset, f)
	}
	if sc.CancelAt > 0 && sc.CancelAt <= sc.Horizon {
		time.Sleep(time.Duration(sc.CancelAt)*pcUnit - time.Since(t0))
		cancelledAt.Store(int64(time.Since(t0)))
		ev.CancelledMs = int(time.Since(t0) / time.Millisecond)
		if d := time.Since(t0) - time.Duration(sc.CancelAt)*pcUnit; d > pcUnit/3 {
			ev.TimingOK = false
		}
		cancel()
	}
	time.Sleep(time.Duration(sc.Horizon)*pcUnit - time.Since(t0) + pcUnit/2)
	if sc.CancelAt > sc.Horizon {
		cancelledAt.Store(int64(time.Since(t0)))
		cancel()
	}
	// anything still scheduled shows up within the next periods
	time.Sleep(3 * period)
	close(probeStop)
	mu.Lock()
	defer mu.Unlock()
	if time.Duration(worst.Load()) > pcUnit/4 || ev.OffGrid > 0 {
		ev.TimingOK = false
	}
	return ev
}

func replaySched(a *hk.Args) error {
	scs, err := hk.ReadNDJSON[schedScenario](a.In)
	if err != nil {
		return err
	}
	w, err := hk.NewWriter(a.Out)
	if err != nil {
		return err
	}
	defer w.Close()
	evs := make([]schedEvent, len(scs))
	var wg sync.WaitGroup
	sem := make(chan struct{}, 6)
	for i := range scs {
		wg.Add(1)
		sem <- struct{}{}
		go func(i int) {
			defer wg.Done()
			defer func() { <-sem }()
			evs[i] = runSched(i+1, scs[i])
		}(i)
	}
	wg.Wait()
	for _, e := range evs {
		w.Write(e)
	}
	return nil
}
