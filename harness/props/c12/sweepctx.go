package c12

// sweep-ctx: the completion instant of the action swept across the deadline of RunActionWithTimeoutAndContext and
// RunActionWithTimeoutAndCancelStore at microsecond steps (the action spins to its instant), under busy goroutines.
// Each run is one CtxRun event for CtxRunnerTrace.tla; a run that has not returned after two seconds is "blocked".

import (
	"context"
	"sync"
	"sync/atomic"
	"time"

	"github.com/ARM-software/golang-utils/utils/parallelisation"

	"verifharness/internal/hk"
)

func init() {
	hk.Register("c12", "sweep-ctx", sweepCtx)
}

type ctxSweepEvent struct {
	Op       string `json:"op"`
	Runner   string `json:"runner"`
	Outcome  string `json:"outcome"`
	Watches  bool   `json:"watches"`
	Order    string `json:"order"`
	Ret      string `json:"ret"`
	Ended    bool   `json:"ended"`
	OffsetUs int64  `json:"offsetUs"` // measured completion instant of the action relative to the deadline
	Busy     int    `json:"busy"`
	LatUs    int64  `json:"latencyUs"`
}

func runCtxSweep(runner, outcome string, watches bool, timeout time.Duration, offUs int, busy int) ctxSweepEvent {
	ev := ctxSweepEvent{Op: "CtxRun", Runner: runner, Outcome: outcome, Watches: watches, Busy: busy}
	stopBusy := make(chan struct{})
	for i := 0; i < busy; i++ {
		go func() {
			x := 0
			for {
				select {
				case <-stopBusy:
					return
				default:
					x++
				}
			}
		}()
	}
	defer close(stopBusy)
	var worst atomic.Int64
	probeDone := make(chan struct{})
	go func() {
		for {
			select {
			case <-probeDone:
				return
			default:
			}
			t0 := time.Now()
			time.Sleep(200 * time.Microsecond)
			if over := int64(time.Since(t0)) - int64(200*time.Microsecond); over > worst.Load() {
				worst.Store(over)
			}
		}
	}()
	defer close(probeDone)
	var start time.Time
	var endAt atomic.Int64
	var ended atomic.Bool
	finishAt := timeout + time.Duration(offUs)*time.Microsecond
	action := func(ctx context.Context) error {
		defer func() { endAt.Store(int64(time.Since(start))); ended.Store(true) }()
		// sleep most of the way, spin the rest: the instant is hit to within a few microseconds
		if d := finishAt - 300*time.Microsecond; d > 0 {
			if watches {
				t := time.NewTimer(d)
				select {
				case <-t.C:
				case <-ctx.Done():
					t.Stop()
					return ctx.Err()
				}
			} else {
				time.Sleep(d)
			}
		}
		for time.Since(start) < finishAt {
			if watches && ctx.Err() != nil {
				return ctx.Err()
			}
		}
		if outcome == "error" {
			return errOwn
		}
		return nil
	}
	done := make(chan error, 1)
	start = time.Now()
	go func() {
		if runner == "context" {
			done <- parallelisation.RunActionWithTimeoutAndContext(context.Background(), timeout, action)
		} else {
			done <- parallelisation.RunActionWithTimeoutAndCancelStore(context.Background(), timeout, parallelisation.NewCancelFunctionsStore(), action)
		}
	}()
	select {
	case err := <-done:
		switch k := ctxKind(err); k {
		case "cancelled":
			ev.Ret = "ctxerr"
		default:
			ev.Ret = k
		}
	case <-time.After(2 * time.Second):
		ev.Ret = "blocked"
	}
	ev.Ended = ended.Load()
	ev.OffsetUs = (endAt.Load() - int64(timeout)) / 1000
	ev.LatUs = worst.Load() / 1000
	// the runner's deadline is a runtime timer: next to spinning goroutines it can be served many milliseconds late (timers run at
	// scheduling points of their processor) without the latency probe, which sits on another processor, noticing - with busy
	// goroutines no order is claimed; without them the margin is that of the RunActionWithTimeout sweep
	marginUs := int64(4000) + 4*ev.LatUs
	switch {
	case !ev.Ended || busy > 0:
		ev.Order = "either"
	case ev.OffsetUs < -marginUs:
		ev.Order = "finish-first"
	default:
		// an action that ended after the deadline says nothing about when the runner's own timer was served (a single stalled
		// thread has been seen to delay it by tens of milliseconds): only "the action ended well before the deadline" is claimed
		ev.Order = "either"
	}
	return ev
}

func sweepCtx(a *hk.Args) error {
	w, err := hk.NewWriter(a.Out)
	if err != nil {
		return err
	}
	defer w.Close()
	stepUs, reps := 4, 2
	busies := []int{0, 4}
	if a.Tier == "thorough" {
		stepUs, reps = 1, 4
		busies = []int{0, 1, 4, 16}
	}
	timeout := time.Millisecond
	var mu sync.Mutex
	var wg sync.WaitGroup
	sem := make(chan struct{}, 3)
	n := 0
	for _, busy := range busies {
		for r := 0; r < reps; r++ {
			for off := -120; off <= 120; off += stepUs {
				n++
				runner := []string{"context", "store"}[n%2]
				outcome := []string{"nil", "error"}[(n/2)%2]
				watches := (n/4)%3 == 0
				wg.Add(1)
				sem <- struct{}{}
				go func(off, busy int, runner, outcome string, watches bool) {
					defer wg.Done()
					defer func() { <-sem }()
					ev := runCtxSweep(runner, outcome, watches, timeout, off, busy)
					mu.Lock()
					w.Write(ev)
					mu.Unlock()
				}(off, busy, runner, outcome, watches)
			}
		}
	}
	wg.Wait()
	// clearly-before and clearly-after instants
	for _, off := range []int{-7000, -6000, 8000, 15000} {
		for _, outcome := range []string{"nil", "error"} {
			for _, watches := range []bool{false, true} {
				w.Write(runCtxSweep("context", outcome, watches, 8*time.Millisecond, off, 0))
				w.Write(runCtxSweep("store", outcome, watches, 8*time.Millisecond, off, 0))
			}
		}
	}
	return nil
}
