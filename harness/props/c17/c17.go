// Package c17 binds specs/lock/LockFileTimed.tla / LockTimedTrace.tla to RemoteLockFile's
// stale-lock detection:
//
//	deathpoints: (model time, gated) the holder is stopped after each of its backend calls during the
//	             acquisition and the first heartbeat cycles; observers must see "not stale" before two
//	             periods pass and "stale" afterwards, and ReleaseIfStale + acquire must then succeed.
//	realtime:    (real time, OS backend, record-only gate) holders keep the lock for many periods under
//	             I/O load while observers poll; every heartbeat write and poll is time-stamped.
package c17

import (
	"context"
	"fmt"
	"math/rand"
	"os"
	"path/filepath"
	"sort"
	"strings"
	"sync"
	"sync/atomic"
	"time"

	"github.com/ARM-software/golang-utils/utils/commonerrors"
	"github.com/ARM-software/golang-utils/utils/filesystem"

	"verifharness/internal/fsgate"
	"verifharness/internal/hk"
	"verifharness/props/c01"
)

func init() {
	hk.Register("c17", "deathpoints", deathpoints)
	hk.Register("c17", "realtime", realtime)
	hk.Register("c17", "takeoverhold", takeoverHold)
}

const period = 50 * time.Millisecond // lockHeartBeatPeriod of NewGenericRemoteLockFile

type dpEvent struct {
	Op           string `json:"op"`
	Backend      string `json:"backend"`
	K            int    `json:"k"`            // backend calls of the holder (and its heartbeat writer) performed before death
	DirExists    bool   `json:"dirExists"`    // the lock directory existed at death
	StaleBefore  bool   `json:"staleBefore"`  // IsStale() of an observer right after death, before two periods passed
	LockedBefore string `json:"lockedBefore"` // TryLock kind of an observer before two periods passed
	StaleAfter   bool   `json:"staleAfter"`   // IsStale() once two periods have passed
	ReleaseKind  string `json:"releaseKind"`  // ReleaseIfStale result kind
	AcquireKind  string `json:"acquireKind"`  // TryLock of a fresh contender afterwards
	LastOp       string `json:"lastOp"`
}

// deathpoints: holder A is advanced k backend calls (its own and its heartbeat writer's, in program
// order), then dies; observer B (no override) and C (override) look at the lock.
func deathpoints(a *hk.Args) error {
	w, err := hk.NewWriter(a.Out)
	if err != nil {
		return err
	}
	defer w.Close()
	for _, backend := range []string{"mem", "os"} {
		for k := 0; k <= 40; k++ {
			ev, more, err := oneDeathPoint(backend, k, a.Dir)
			if err != nil {
				return err
			}
			w.Write(ev)
			if !more {
				break
			}
		}
		for at := 1; at <= 9; at++ {
			ev, err := oneHbDeathPoint(backend, at, a.Dir)
			if err != nil {
				return err
			}
			w.Write(ev)
		}
	}
	return nil
}

func apiSync(w *c01.World, name, api string) string {
	// run an API call of `name` to completion with its backend calls released immediately
	w.Gate.SetGating(name, false)
	w.Gate.SetGating(name+".hb", false)
	if err := w.StartAPI(name, api); err != nil {
		return "driver:" + err.Error()
	}
	return w.WaitAPI(name, 5*time.Second)
}

func oneDeathPoint(backend string, k int, scratch string) (dpEvent, bool, error) {
	ev := dpEvent{Op: "DeathPoint", Backend: backend, K: k}
	w, err := c01.NewWorld(backend, []string{"A", "B", "C", "D"}, map[string]bool{"C": true}, scratch, k)
	if err != nil {
		return ev, false, err
	}
	defer w.Close()
	if err := w.StartAPI("A", "TryLock"); err != nil {
		return ev, false, err
	}
	// advance A (API goroutine first, then its heartbeat writer) by k backend calls
	done := 0
	more := true
	for done < k {
		key := "A"
		c, apiDone := w.Gate.WaitParked(key, w.Gate.FinishedCount(key)-boolInt(w.Busy("A") == ""), 300*time.Millisecond)
		if c == nil {
			_ = apiDone
			key = "A.hb"
			c, _ = w.Gate.WaitParked(key, 1<<30, 200*time.Millisecond)
		}
		if c == nil {
			more = false
			break
		}
		ev.LastOp = c.Ev.Op + " " + filepath.Base(c.Ev.Path)
		fin := w.Gate.FinishedCount(c.Key)
		w.Gate.Release(c, fsgate.Proceed)
		w.Gate.WaitParked(c.Key, fin, 120*time.Millisecond)
		done++
		if done > 24 {
			more = false
		}
	}
	w.Die("A")
	ev.DirExists = w.LockDirExists()
	// before two periods pass
	ev.StaleBefore = w.IsStaleSync("B")
	ev.LockedBefore = apiSync(w, "B", "TryLock")
	if ev.LockedBefore == "" { // B got a free lock (the holder died before creating it): give it back
		apiSync(w, "B", "Unlock")
	}
	// two periods pass without any sign of life
	w.Tick()
	ev.StaleAfter = w.IsStaleSync("B")
	ev.ReleaseKind = apiSync(w, "C", "ReleaseIfStale")
	ev.AcquireKind = apiSync(w, "D", "TryLock")
	return ev, more, nil
}

// oneHbDeathPoint: the holder acquires and its heartbeat writer runs freely until its at-th backend call - file-level calls
// (write, close) included - at which the holder dies: between the truncating open of the heartbeat file and the write of the
// beat, between the write and the close, ...
func oneHbDeathPoint(backend string, at int, scratch string) (dpEvent, error) {
	ev := dpEvent{Op: "DeathPoint", Backend: backend, K: 100 + at}
	w, err := c01.NewWorld(backend, []string{"A", "B", "C", "D"}, map[string]bool{"C": true}, scratch, 100+at)
	if err != nil {
		return ev, err
	}
	defer w.Close()
	w.Gate.SetFault("A.hb", fsgate.Fault{At: at, Action: fsgate.Crash})
	if r := apiSync(w, "A", "TryLock"); r != "" {
		return ev, fmt.Errorf("heartbeat death point %d: the holder could not acquire a free lock: %s", at, r)
	}
	for t := time.Now(); !w.Gate.IsDead("A.hb") && time.Since(t) < 3*time.Second; time.Sleep(time.Millisecond) {
	}
	if !w.Gate.IsDead("A.hb") {
		return ev, fmt.Errorf("heartbeat death point %d: the heartbeat writer never made its call number %d", at, at)
	}
	ev.LastOp = fmt.Sprintf("heartbeat writer stopped at its backend call %d", at)
	w.Gate.Kill("A")
	w.Die("A")
	ev.DirExists = w.LockDirExists()
	ev.StaleBefore = w.IsStaleSync("B")
	ev.LockedBefore = apiSync(w, "B", "TryLock")
	if ev.LockedBefore == "" {
		apiSync(w, "B", "Unlock")
	}
	w.Tick()
	ev.StaleAfter = w.IsStaleSync("B")
	ev.ReleaseKind = apiSync(w, "C", "ReleaseIfStale")
	ev.AcquireKind = apiSync(w, "D", "TryLock")
	return ev, nil
}

func boolInt(b bool) int {
	if b {
		return 1
	}
	return 0
}

// ---------------------------------------------------------------------------------------------
// real time

type rtEvent struct {
	Op       string `json:"op"`
	ID       int    `json:"id"`
	T        int64  `json:"t"`     // microseconds
	MTime    int64  `json:"mtime"` // microseconds: the time stamp written
	Kind     string `json:"kind"`  // poll kind
	Start    int64  `json:"start"`
	End      int64  `json:"end"`
	Judged   bool   `json:"judged"` // the poll judged the lock stale (IsStale true / ErrStaleLock / released / taken over)
	Result   string `json:"result"`
	CtlGap   int64  `json:"ctlGap"` // largest gap between control heartbeats overlapping the poll's look-back window
	LibGap   int64  `json:"libGap"`
	LastSign int64  `json:"lastSign"` // completion instant of the holder\'s newest sign of life that completed before the poll ended
	Period   int64  `json:"period"`
	Load     int    `json:"load"`
	Held     bool   `json:"held"`
	Silent   bool   `json:"silentAfterTakeover"` // Recover: the lock won by taking the dead holder's lock over gave no sign of life for four periods while it was held (and the control heartbeat did)
	Note     string `json:"note,omitempty"`
}

func us(d time.Duration) int64 { return int64(d / time.Microsecond) }

func realtime(a *hk.Args) error {
	w, err := hk.NewWriter(a.Out)
	if err != nil {
		return err
	}
	defer w.Close()
	rng := rand.New(rand.NewSource(a.Seed))
	rounds := a.N
	if rounds == 0 {
		rounds = 6
	}
	for id := 1; id <= rounds; id++ {
		hold := 6 + rng.Intn(20)
		if a.Tier == "thorough" && id%4 == 0 {
			hold = 100 + rng.Intn(200)
		}
		if id == 1 {
			hold = 80 + rng.Intn(40) // every run has a long hold: drift of the heartbeat shows only after many beats
		}
		load := []int{0, 2, 4}[rng.Intn(3)]
		if a.Tier == "thorough" {
			load = []int{0, 2, 4, 8, 16}[rng.Intn(5)]
		}
		observers := 1 + rng.Intn(4)
		if a.Tier == "thorough" {
			observers = 1 + rng.Intn(8)
		}
		dies := rng.Intn(3) != 0
		// every third round: one write of the live holder's heartbeat fails (a transient I/O error: no file descriptor left, a
		// hiccup of the shared filesystem); the holder lives on and so must its sign of life
		if id%3 == 1 && hold < 10 {
			hold = 10 + rng.Intn(10)
		}
		if id%3 == 0 && hold < 14 {
			hold = 14 + rng.Intn(10) // rounds in which the holder sweeps over its own lock: long enough for a stopped heartbeat to show
		}
		hiccup := id%3 == 2
		if hiccup && hold < 14 {
			hold = 14 + rng.Intn(10)
		}
		evs, err := oneRealtimeRound(id, a.Dir, hold, load, observers, dies, hiccup, rng.Int63())
		if err != nil {
			return err
		}
		for _, e := range evs {
			w.Write(e)
		}
	}
	w.Write(rtEvent{Op: "End"})
	return nil
}

func oneRealtimeRound(id int, scratch string, holdPeriods, load, observers int, dies, hiccup bool, seed int64) ([]rtEvent, error) {
	dir, err := os.MkdirTemp(scratch, "c17-")
	if err != nil {
		return nil, err
	}
	defer os.RemoveAll(dir)
	lockRoot := filepath.Join(dir, "locks")
	ctlDir := lockRoot // the control heartbeat lives in the same directory as the lock and the load files: same contention
	_ = os.MkdirAll(ctlDir, 0o755)
	_ = os.MkdirAll(lockRoot, 0o755)
	gate := fsgate.NewGate(nil, ".heartBeat")
	base := filesystem.NewExtendedOsFs()
	lockDir := filepath.Join(lockRoot, fmt.Sprintf("%v-%v", filesystem.LockFilePrefix, "rt"))
	hbFile := filepath.Join(lockDir, "rt.lock")
	mk := func(owner string, override bool) filesystem.ILock {
		vfs := filesystem.NewVirtualFileSystem(fsgate.New(base, owner, gate), filesystem.StandardFS, filesystem.IdentityPathConverterFunc).(*filesystem.VFS)
		return filesystem.NewGenericRemoteLockFile(vfs, "rt", lockRoot, override)
	}
	var mu sync.Mutex
	var evs []rtEvent
	emit := func(e rtEvent) { mu.Lock(); e.ID = id; evs = append(evs, e); mu.Unlock() }
	now := func() int64 { return us(time.Since(gate.T0)) }
	// signs of life observed at the backend boundary
	gate.OnEvent = func(e *fsgate.Event) {
		if !e.OK {
			return
		}
		p := filepath.Clean(e.Path)
		if strings.HasPrefix(e.Owner, "holder") && (p == lockDir || p == hbFile) {
			switch e.Op {
			case "Mkdir":
				emit(rtEvent{Op: "Sign", T: e.At / 1000, MTime: e.At / 1000, Note: "mkdir"})
			case "Chtimes":
				emit(rtEvent{Op: "Sign", T: e.At / 1000, MTime: e.MTime / 1000, Note: "chtimes " + filepath.Base(p)})
			}
		}
		if e.Owner == "control" && e.Op == "Chtimes" {
			emit(rtEvent{Op: "Ctl", T: e.At / 1000, MTime: e.MTime / 1000})
		}
	}
	emit(rtEvent{Op: "Start", Period: us(period), Load: load})
	holder := mk("holder", false)
	hctx, hcancel := context.WithCancel(context.Background())
	defer hcancel()
	stopAll := make(chan struct{})
	var wg sync.WaitGroup
	// control heartbeat: the same backend calls, the documented period, on a sibling file
	ctlFs := filesystem.NewVirtualFileSystem(fsgate.New(base, "control", gate), filesystem.StandardFS, filesystem.IdentityPathConverterFunc)
	wg.Add(1)
	go func() {
		defer wg.Done()
		f := filepath.Join(ctlDir, "control.lock")
		for {
			select {
			case <-stopAll:
				return
			default:
			}
			t := time.Now()
			_ = ctlFs.WriteFile(f, []byte(fmt.Sprintf("alive @ %v", t)), 0o775)
			_ = ctlFs.Chtimes(f, t, t)
			select {
			case <-stopAll:
				return
			case <-time.After(period - time.Millisecond):
			}
		}
	}()
	// I/O and CPU load
	for i := 0; i < load; i++ {
		wg.Add(1)
		go func(i int) {
			defer wg.Done()
			buf := make([]byte, 64<<10)
			f := filepath.Join(lockRoot, fmt.Sprintf("load-%d.bin", i))
			x := 0
			for {
				select {
				case <-stopAll:
					return
				default:
				}
				if i%2 == 0 {
					_ = os.WriteFile(f, buf, 0o644)
					time.Sleep(200 * time.Microsecond) // throttled so that most windows stay valid
				} else {
					for j := 0; j < 200000; j++ {
						x += j
					}
					time.Sleep(100 * time.Microsecond)
				}
			}
		}(i)
	}
	if err := holder.TryLock(hctx); err != nil {
		close(stopAll)
		wg.Wait()
		return nil, fmt.Errorf("holder could not acquire a free lock: %w", err)
	}
	emit(rtEvent{Op: "Acquired", T: now()})
	if hiccup {
		gate.FailNext(fsgate.FailWhen{Key: "holder.hb", Op: "OpenFile", Suffix: "rt.lock", NotBefore: gate.Count("holder.hb") + 6})
	}
	var holderGone atomic.Bool
	rng := rand.New(rand.NewSource(seed))
	var owg sync.WaitGroup
	obsStop := make(chan struct{})
	if id%3 == 1 {
		// observers with transient trouble: now and then the listing of the lock directory by the first observer fails (an I/O error,
		// no file descriptor left) although the directory itself can be examined
		owg.Add(1)
		go func() {
			defer owg.Done()
			for {
				select {
				case <-obsStop:
					return
				case <-time.After(period):
				}
				if holderGone.Load() {
					return // the trouble is over before the death: what is said about a dead holder's lock is said by observers that can read
				}
				gate.FailNext(fsgate.FailWhen{Key: "obs0", Op: "Open", Suffix: filepath.Base(lockDir)})
			}
		}()
	}
	if id%3 == 0 {
		// housekeeping by the holder itself: it runs IsStale / ReleaseIfStale over its own, live, lock object now and then
		owg.Add(1)
		go func() {
			defer owg.Done()
			for {
				select {
				case <-obsStop:
					return
				case <-time.After(period + period/2):
				}
				if holderGone.Load() {
					return
				}
				_ = holder.IsStale()
				_ = holder.ReleaseIfStale(context.Background())
			}
		}()
	}
	for o := 0; o < observers; o++ {
		owg.Add(1)
		seedO := rng.Int63()
		go func(o int) {
			defer owg.Done()
			r := rand.New(rand.NewSource(seedO))
			lk := mk(fmt.Sprintf("obs%d", o), o%2 == 1)
			for {
				select {
				case <-obsStop:
					return
				default:
				}
				kind := []string{"IsStale", "IsStale", "ReleaseIfStale", "TryLock"}[r.Intn(4)]
				if holderGone.Load() {
					kind = "IsStale" // after the death only detection is polled; recovery is done once, below
				}
				e := rtEvent{Op: "Poll", Kind: kind, Start: now()}
				n0 := gate.LogLen()
				switch kind {
				case "IsStale":
					e.Judged = lk.IsStale()
				case "ReleaseIfStale":
					_ = lk.ReleaseIfStale(context.Background())
					for _, g := range gate.Log()[n0:] {
						if g.Owner == fmt.Sprintf("obs%d", o) && g.Op == "Remove" {
							e.Judged = true
						}
					}
				case "TryLock":
					err := lk.TryLock(context.Background())
					e.Result = hk.Kind(err)
					if err == nil || commonerrors.Any(err, commonerrors.ErrStaleLock) {
						e.Judged = true
					}
					if err == nil {
						_ = lk.Unlock(context.Background())
					}
				}
				e.End = now()
				emit(e)
				time.Sleep(time.Duration(1+r.Intn(4)) * time.Millisecond)
			}
		}(o)
	}
	time.Sleep(time.Duration(holdPeriods) * period)
	if dies {
		hcancel() // the holder and its heartbeat writer stop; the lock directory stays behind
		holderGone.Store(true)
		gate.ClearFailNext()
		emit(rtEvent{Op: "Died", T: now()})
		time.Sleep(2*period + 120*time.Millisecond)
		close(obsStop)
		owg.Wait()
		rec := mk("recover", true)
		e := rtEvent{Op: "Recover", T: now()}
		e.Judged = rec.IsStale()
		// the ways of taking a dead holder's lock over, in rotation: an explicit ReleaseIfStale followed by each of the three
		// acquire calls, and the acquire of an overriding lock object (which releases the stale lock itself)
		var err error
		bounded, cancelB := context.WithTimeout(context.Background(), 3*time.Second)
		switch id % 4 {
		case 0:
			e.Note = "ReleaseIfStale+TryLock"
			_ = rec.ReleaseIfStale(context.Background())
			fresh := mk("fresh", false)
			if err = fresh.TryLock(bounded); err == nil {
				_ = fresh.Unlock(context.Background())
			}
		case 1:
			e.Note = "ReleaseIfStale+Lock"
			_ = rec.ReleaseIfStale(context.Background())
			fresh := mk("fresh", false)
			if err = fresh.Lock(bounded); err == nil {
				_ = fresh.Unlock(context.Background())
			}
		case 2:
			e.Note = "ReleaseIfStale+LockWithTimeout"
			_ = rec.ReleaseIfStale(context.Background())
			fresh := mk("fresh", false)
			if err = fresh.LockWithTimeout(context.Background(), 3*time.Second); err == nil {
				_ = fresh.Unlock(context.Background())
			}
		default:
			e.Note = "overriding LockWithTimeout"
			if err = rec.LockWithTimeout(context.Background(), 3*time.Second); err == nil {
				// the lock won by the take-over is a lock like any other: held, it stays alive
				stamp := func() int64 {
					newest := int64(0)
					for _, p := range []string{lockDir, hbFile} {
						if fi, serr := os.Stat(p); serr == nil && fi.ModTime().UnixNano() > newest {
							newest = fi.ModTime().UnixNano()
						}
					}
					return newest
				}
				time.Sleep(period)
				m1, t1 := stamp(), now()
				time.Sleep(4 * period)
				m2, t2 := stamp(), now()
				ctlBeats := 0
				mu.Lock()
				for _, x := range evs {
					if x.Op == "Ctl" && x.T > t1 && x.T < t2 {
						ctlBeats++
					}
				}
				mu.Unlock()
				e.Silent = m2 == m1 && ctlBeats >= 2
				_ = rec.Unlock(context.Background())
			}
		}
		cancelB()
		e.Result = hk.Kind(err)
		emit(e)
	} else {
		emit(rtEvent{Op: "Released", T: now()})
		holderGone.Store(true)
		_ = holder.Unlock(context.Background())
		close(obsStop)
		owg.Wait()
	}
	close(stopAll)
	wg.Wait()
	// order by time and attach to every poll the worst control / library heartbeat gaps over its look-back window
	mu.Lock()
	defer mu.Unlock()
	key := func(e rtEvent) int64 {
		if e.Op == "Poll" {
			return e.Start
		}
		return e.T
	}
	sort.SliceStable(evs, func(i, j int) bool { return key(evs[i]) < key(evs[j]) })
	var ctl, lib []int64
	for _, e := range evs {
		if e.Op == "Ctl" {
			ctl = append(ctl, e.T)
		}
		if e.Op == "Sign" {
			lib = append(lib, e.T)
		}
	}
	gapOver := func(ts []int64, from, to int64) int64 {
		prev := from
		var worst int64
		seen := false
		for _, t := range ts {
			if t < from-3*us(period) {
				continue
			}
			if t > to {
				break
			}
			if !seen {
				seen = true
				prev = t
				continue
			}
			if t-prev > worst {
				worst = t - prev
			}
			prev = t
		}
		if !seen {
			return to - from + 3*us(period)
		}
		if to-prev > worst {
			worst = to - prev
		}
		return worst
	}
	// heartbeat statistics over the time the holder was alive: beats expected, seen from the library and from the control
	var aliveFrom, aliveTo int64 = -1, -1
	for _, e := range evs {
		switch e.Op {
		case "Acquired":
			aliveFrom = e.T
		case "Died", "Released":
			aliveTo = e.T
		}
	}
	// the holder's heartbeat can only be counted while its lock is still its own: stop at the first release / takeover by an observer
	for _, e := range evs {
		if e.Op == "Poll" && e.Judged && (e.Kind == "ReleaseIfStale" || e.Kind == "TryLock") && aliveFrom >= 0 && e.Start > aliveFrom && (aliveTo < 0 || e.Start < aliveTo) {
			aliveTo = e.Start
			break
		}
	}
	if aliveFrom >= 0 && aliveTo > aliveFrom {
		count := func(ts []int64) int64 {
			var n int64
			for _, t := range ts {
				if t >= aliveFrom && t <= aliveTo {
					n++
				}
			}
			return n
		}
		evs = append(evs, rtEvent{Op: "Stats", ID: id, T: aliveTo, Start: aliveFrom, End: aliveTo, LibGap: count(lib), CtlGap: count(ctl), Period: us(period)})
	}
	for i := range evs {
		if evs[i].Op == "Poll" {
			evs[i].CtlGap = gapOver(ctl, evs[i].Start-3*us(period), evs[i].End)
			evs[i].LibGap = gapOver(lib, evs[i].Start-3*us(period), evs[i].End)
			for _, t := range lib {
				if t <= evs[i].End && t > evs[i].LastSign {
					evs[i].LastSign = t
				}
			}
		}
	}
	return evs, nil
}

// ---- take-over, then hold (real time) -------------------------------------------------------------------
//
// A dies holding the lock; once it is stale an overriding B takes it over (TryLock / Lock / LockWithTimeout in turn) and
// HOLDS it; four periods later an overriding C tries: B is alive and has never released, C must be refused.  A control
// heartbeat with the documented period runs meanwhile; a window in which it made fewer than three beats says nothing.

type takeoverEvent struct {
	Op       string `json:"op"`
	ID       int    `json:"id"`
	How      string `json:"how"`
	Acquired string `json:"acquiredB"` // result kind of B's acquisition ("" = success)
	ResultC  string `json:"resultC"`   // result kind of C's TryLock ("" = C holds the lock too)
	CtlBeats int    `json:"ctlBeats"`
	StaleB   bool   `json:"staleSeenByC"`
}

func takeoverHold(a *hk.Args) error {
	w, err := hk.NewWriter(a.Out)
	if err != nil {
		return err
	}
	defer w.Close()
	n := a.N
	if n == 0 {
		n = 3
	}
	for id := 1; id <= n; id++ {
		dir, err := os.MkdirTemp(a.Dir, "c17t-")
		if err != nil {
			return err
		}
		lockRoot := filepath.Join(dir, "locks")
		_ = os.MkdirAll(lockRoot, 0o755)
		mk := func(override bool) filesystem.ILock {
			vfs := filesystem.NewStandardFileSystem().(*filesystem.VFS)
			return filesystem.NewGenericRemoteLockFile(vfs, "rt", lockRoot, override)
		}
		ev := takeoverEvent{Op: "TakeoverHold", ID: id, How: []string{"TryLock", "Lock", "LockWithTimeout"}[id%3]}
		actx, acancel := context.WithCancel(context.Background())
		holderA := mk(false)
		if err := holderA.TryLock(actx); err != nil {
			acancel()
			_ = os.RemoveAll(dir)
			return fmt.Errorf("take-over round %d: A could not acquire a free lock: %w", id, err)
		}
		time.Sleep(2 * period)
		acancel() // A dies: its heartbeat stops, the lock directory stays
		time.Sleep(2*period + 80*time.Millisecond)
		// B goes through a recording wrapper: in every other round one write of its heartbeat fails once it holds the lock (a
		// transient I/O error) - it lives on, and so must its sign of life
		gate := fsgate.NewGate(nil, ".heartBeat")
		bfs := filesystem.NewVirtualFileSystem(fsgate.New(filesystem.NewExtendedOsFs(), "b", gate), filesystem.StandardFS, filesystem.IdentityPathConverterFunc).(*filesystem.VFS)
		b := filesystem.NewGenericRemoteLockFile(bfs, "rt", lockRoot, true)
		bctx, bcancel := context.WithTimeout(context.Background(), 3*time.Second)
		switch ev.How {
		case "TryLock":
			err = b.TryLock(bctx)
		case "Lock":
			err = b.Lock(bctx)
		default:
			err = b.LockWithTimeout(context.Background(), 3*time.Second)
		}
		ev.Acquired = hk.Kind(err)
		if err == nil && id%2 == 0 {
			gate.FailNext(fsgate.FailWhen{Key: "b.hb", Op: "OpenFile", Suffix: "rt.lock", NotBefore: gate.Count("b.hb") + 3})
			ev.How += " + one failed heartbeat write"
		}
		if err == nil {
			// control heartbeat over the window in which B holds
			stop := make(chan struct{})
			var beats atomic.Int32
			go func() {
				f := filepath.Join(lockRoot, "control.lock")
				for {
					select {
					case <-stop:
						return
					default:
					}
					t := time.Now()
					_ = os.WriteFile(f, []byte("alive"), 0o644)
					_ = os.Chtimes(f, t, t)
					beats.Add(1)
					select {
					case <-stop:
						return
					case <-time.After(period - time.Millisecond):
					}
				}
			}()
			time.Sleep(4 * period)
			c := mk(true)
			ev.StaleB = c.IsStale()
			cerr := c.TryLock(context.Background())
			ev.ResultC = hk.Kind(cerr)
			close(stop)
			ev.CtlBeats = int(beats.Load())
			if cerr == nil {
				_ = c.Unlock(context.Background())
			}
			_ = b.Unlock(context.Background())
		}
		bcancel()
		gate.Shutdown()
		w.Write(ev)
		_ = os.RemoveAll(dir)
	}
	return nil
}
