// Package c14 binds specs/data/{Retry,BackoffPolicy}.tla to utils/retry and utils/http.
package c14

import (
	"context"
	"errors"
	"fmt"
	"math"
	"math/big"
	"math/rand"
	"net/http"
	"net/http/httptest"
	"strconv"
	"sync/atomic"
	"time"

	"github.com/go-logr/logr"

	"github.com/ARM-software/golang-utils/utils/commonerrors"
	httputils "github.com/ARM-software/golang-utils/utils/http"
	"github.com/ARM-software/golang-utils/utils/retry"

	"verifharness/internal/hk"
)

func init() {
	hk.Register("c14", "replay-retry", replayRetry)
	hk.Register("c14", "classes", classes)
	hk.Register("c14", "record", record)
}

var errRetriable = errors.New("retriable failure")
var errFatal = errors.New("fatal failure")

type retryScenario struct {
	Attempts     int      `json:"attempts"`
	Enabled      bool     `json:"enabled"`
	Script       []string `json:"script"`
	CancelIn     int      `json:"cancelIn"`
	PreCancelled bool     `json:"preCancelled"`
	N            int      `json:"n"`
	Ret          string   `json:"ret"`
}

type retryObs struct {
	N         int
	Ret       string
	AfterDone int // invocations started while the context was already done
	AfterEnd  int // invocations started after a success or a fatal error
}

func runRetry(s *retryScenario, policy string, viaOnError bool) retryObs {
	ctx, cancel := context.WithCancel(context.Background())
	defer cancel()
	if s.PreCancelled {
		cancel()
	}
	cfg := &retry.RetryPolicyConfiguration{Enabled: s.Enabled, RetryMax: s.Attempts}
	switch policy {
	case "constant":
	case "constant-1ms":
		cfg.RetryWaitMin = time.Millisecond
	case "exponential":
		cfg.BackOffEnabled, cfg.RetryWaitMin, cfg.RetryWaitMax = true, 0, time.Millisecond
	case "linear":
		cfg.BackOffEnabled, cfg.LinearBackOffEnabled, cfg.RetryWaitMin, cfg.RetryWaitMax = true, true, 0, 0
	}
	var o retryObs
	ended := false
	fn := func() error {
		if ctx.Err() != nil && s.Enabled {
			o.AfterDone++
		}
		if ended {
			o.AfterEnd++
		}
		o.N++
		out := "retriable"
		if o.N <= len(s.Script) {
			out = s.Script[o.N-1]
		}
		if s.CancelIn == o.N {
			cancel()
		}
		switch out {
		case "ok":
			ended = true
			return nil
		case "fatal":
			ended = true
			return errFatal
		}
		return errRetriable
	}
	var err error
	done := make(chan struct{})
	go func() {
		defer close(done)
		if viaOnError {
			err = retry.RetryOnError(ctx, logr.Discard(), cfg, fn, "retrying", errRetriable)
		} else {
			err = retry.RetryIf(ctx, logr.Discard(), cfg, fn, "retrying", func(e error) bool { return errors.Is(e, errRetriable) })
		}
	}()
	select {
	case <-done:
	case <-time.After(20 * time.Second):
		o.Ret = "blocked"
		return o
	}
	switch {
	case err == nil:
		o.Ret = "nil"
	case errors.Is(err, errRetriable):
		o.Ret = "retriable"
	case errors.Is(err, errFatal):
		o.Ret = "fatal"
	case commonerrors.Any(err, commonerrors.ErrCancelled, commonerrors.ErrTimeout):
		o.Ret = "ctx"
	default:
		o.Ret = "other:" + err.Error()
	}
	if commonerrors.Any(err, context.Canceled, context.DeadlineExceeded) && !commonerrors.Any(err, commonerrors.ErrCancelled, commonerrors.ErrTimeout) {
		o.Ret = "rawctx"
	}
	return o
}

func replayRetry(a *hk.Args) error {
	ss, err := hk.ReadNDJSON[retryScenario](a.In)
	if err != nil {
		return err
	}
	w, err := hk.NewWriter(a.Out)
	if err != nil {
		return err
	}
	defer w.Close()
	rng := rand.New(rand.NewSource(a.Seed))
	policies := []string{"constant", "constant-1ms", "exponential", "linear"}
	for i := range ss {
		s := &ss[i]
		reps := 1
		if s.CancelIn > 0 && s.CancelIn <= s.Attempts {
			reps = 6 // a cancellation racing a zero delay is a coin toss per retry: repeat
		}
		for r := 0; r < reps; r++ {
			pol := policies[0]
			if r > 0 || rng.Intn(3) == 0 {
				pol = policies[rng.Intn(len(policies))]
			}
			if r < 3 {
				pol = "constant"
			}
			res := hk.Result{ID: i, Status: "ok", Variant: pol, Nontriv: s.Enabled && s.Attempts > 1}
			o := runRetry(s, pol, r%2 == 1)
			limit := 1
			if s.Enabled {
				limit = s.Attempts
			}
			someOK := false
			for k := 0; k < o.N && k < len(s.Script); k++ {
				if s.Script[k] == "ok" {
					someOK = true
				}
			}
			fail := func(sig, d string) {
				res.Status, res.Sig, res.Detail, res.Scenario = "violation", sig, d, s
			}
			switch {
			case o.Ret == "blocked":
				fail("retry-never-returns", "RetryIf did not return")
			case o.N > limit:
				fail("more-attempts-than-configured", fmt.Sprintf("%d invocations, %d configured (enabled=%v)", o.N, s.Attempts, s.Enabled))
			case o.N == 0 && !s.PreCancelled:
				fail("no-attempt", "the operation was never invoked")
			case o.AfterEnd > 0:
				fail("attempt-after-success-or-fatal", fmt.Sprintf("%d invocations after a success or a non-retriable error", o.AfterEnd))
			case o.AfterDone > 0:
				fail("attempt-after-context-done", fmt.Sprintf("%d invocations started after the context was done (script %v, cancel in %d)", o.AfterDone, s.Script, s.CancelIn))
			case (o.Ret == "nil") != someOK:
				fail("nil-iff-success-broken", fmt.Sprintf("returned %s, some attempt succeeded: %v", o.Ret, someOK))
			case o.Ret == "rawctx":
				fail("context-error-not-converted", "a raw context error was returned instead of the cancelled/timeout kind")
			case o.N != s.N || o.Ret != s.Ret:
				// the model is deterministic for the repaired code: a different (but property-conforming) outcome is drift
				ctxDone := s.PreCancelled || (s.CancelIn > 0 && s.CancelIn <= o.N)
				last := "none"
				if o.N > 0 && o.N <= len(s.Script) {
					last = s.Script[o.N-1]
				}
				if o.Ret != "nil" && !(o.Ret == "ctx" && ctxDone) && o.Ret != last {
					fail("wrong-final-error", fmt.Sprintf("returned %s after %d invocations (last outcome %s, context done %v)", o.Ret, o.N, last, ctxDone))
				} else {
					res.Status, res.Detail = "drift", fmt.Sprintf("model n=%d ret=%s, code n=%d ret=%s", s.N, s.Ret, o.N, o.Ret)
				}
			}
			w.Write(res)
		}
	}
	return nil
}

// ---------------------------------------------------------------------------------------------
// back-off policies

type class struct {
	Enabled bool   `json:"enabled"`
	Backoff bool   `json:"backoff"`
	Linear  bool   `json:"linear"`
	RA      bool   `json:"ra"`
	Status  int    `json:"status"`
	Header  string `json:"header"`
	Attempt string `json:"attempt"`
	Waits   string `json:"waits"`
}

type applyEvent struct {
	Op      string `json:"op"`
	Enabled bool   `json:"enabled"`
	Backoff bool   `json:"backoff"`
	Linear  bool   `json:"linear"`
	RA      bool   `json:"ra"`
	Status  int    `json:"status"`
	Header  string `json:"header"`
	Sign    int    `json:"sign"`
	CMin    int    `json:"cMin"`
	CMax    int    `json:"cMax"`
	CLo     int    `json:"cLo"`
	CHi     int    `json:"cHi"`
	LoRep   bool   `json:"loRep"`
	HiRep   bool   `json:"hiRep"`
	CRA     int    `json:"cRA"`
	RaRep   bool   `json:"raRep"`
	Stream  bool   `json:"stream"`
	CPrev   int    `json:"cPrev"`
	// readable
	Min, Max, Wait string
	N              int
	HeaderValue    string
}

var maxDur = big.NewInt(math.MaxInt64)

func cmpBig(a, b *big.Int) int { return a.Cmp(b) }

// observe calls the real policy and projects the result to order relations.
// sharedPolicy: when set, observe applies this policy object (a client keeps one for all its requests) instead of a fresh one.
var sharedPolicy interface {
	Apply(min, max time.Duration, attemptNum int, resp *http.Response) time.Duration
}

func observe(cfg *httputils.RetryPolicyConfiguration, min, max time.Duration, n int, status int, hclass, hvalue string, hasHeader bool, until time.Duration, prev *time.Duration) applyEvent {
	var resp *http.Response
	if status != 0 {
		resp = &http.Response{StatusCode: status, Header: http.Header{}}
		if hasHeader {
			resp.Header["Retry-After"] = []string{hvalue}
		}
	}
	var wait time.Duration
	t0 := time.Now()
	if sharedPolicy != nil {
		wait = sharedPolicy.Apply(min, max, n, resp)
	} else {
		wait = httputils.BackOffPolicyFactory(cfg).Apply(min, max, n, resp)
	}
	elapsed := time.Since(t0)
	ev := applyEvent{Op: "Apply", Enabled: cfg.Enabled, Backoff: cfg.BackOffEnabled, Linear: cfg.LinearBackOffEnabled, RA: !cfg.RetryAfterDisabled,
		Status: status, Header: hclass, Min: min.String(), Max: max.String(), Wait: wait.String(), N: n, HeaderValue: hvalue}
	wb := big.NewInt(int64(wait))
	ev.Sign = wb.Sign()
	ev.CMin = cmpBig(wb, big.NewInt(int64(min)))
	ev.CMax = cmpBig(wb, big.NewInt(int64(max)))
	lo := new(big.Int).Mul(big.NewInt(int64(n)+1), big.NewInt(int64(min)))
	hi := new(big.Int).Mul(big.NewInt(int64(n)+1), big.NewInt(int64(max)))
	ev.LoRep, ev.HiRep = lo.Cmp(maxDur) <= 0, hi.Cmp(maxDur) <= 0
	ev.CLo, ev.CHi = cmpBig(wb, lo), cmpBig(wb, hi)
	ev.RaRep = true
	switch hclass {
	case "negative", "zero", "small", "huge":
		secs, _ := new(big.Int).SetString(hvalue, 10)
		want := new(big.Int).Mul(secs, big.NewInt(int64(time.Second)))
		if want.Sign() < 0 {
			want.SetInt64(0)
		}
		ev.RaRep = want.Cmp(maxDur) <= 0
		ev.CRA = cmpBig(wb, want)
	case "datefar":
		ev.RaRep = false // further away than a duration can express: only the sign of the wait is judged
	case "datepast":
		ev.CRA = cmpBig(wb, big.NewInt(0))
	case "datefuture":
		// the wait must be the time until the date as seen at the call: until-elapsed-1s(rounding of HTTP dates) <= wait <= until
		ev.CRA = 0
		if wait > until+time.Second || wait < until-elapsed-2*time.Second {
			ev.CRA = cmpBig(wb, big.NewInt(int64(until)))
		}
	}
	if prev != nil {
		ev.Stream = true
		ev.CPrev = cmpBig(wb, big.NewInt(int64(*prev)))
	}
	return ev
}

func materialiseHeader(hclass string, rng *rand.Rand) (value string, has bool, until time.Duration) {
	switch hclass {
	case "absent":
		return "", false, 0
	case "empty":
		return "", true, 0
	case "negative":
		return strconv.Itoa(-1 - rng.Intn(1000)), true, 0
	case "zero":
		return "0", true, 0
	case "small":
		return strconv.Itoa(1 + rng.Intn(100000)), true, 0
	case "huge":
		v := []string{"9223372037", "9223372036854775807", "10000000000", "18446744074", "4611686018427387904"}
		return v[rng.Intn(len(v))], true, 0
	case "datepast":
		return time.Now().Add(-time.Duration(1+rng.Intn(100000)) * time.Second).UTC().Format(http.TimeFormat), true, 0
	case "datefar":
		y := []int{2300, 2400, 2500, 3000, 9999}[rng.Intn(5)]
		return time.Date(y, time.Month(1+rng.Intn(12)), 1+rng.Intn(28), rng.Intn(24), 0, 0, 0, time.UTC).Format(http.TimeFormat), true, 0
	case "datefuture":
		until = time.Duration(10+rng.Intn(100000)) * time.Second
		return time.Now().Add(until).UTC().Format(http.TimeFormat), true, until
	}
	return []string{"soon", "1.5", "12s", "0x10", "٣", "99999999999999999999999"}[rng.Intn(6)], true, 0
}

func materialiseWaits(wc string, rng *rand.Rand) (min, max time.Duration) {
	switch wc {
	case "zero":
		return 0, 0
	case "equal":
		d := time.Duration(1+rng.Intn(5000)) * time.Millisecond
		return d, d
	case "ms":
		min = time.Duration(1+rng.Intn(500)) * time.Millisecond
		return min, min + time.Duration(rng.Intn(30000))*time.Millisecond
	case "hours":
		min = time.Duration(1+rng.Intn(5)) * time.Hour
		return min, min + time.Duration(rng.Intn(48))*time.Hour
	}
	return 0, time.Duration(1+rng.Intn(60000)) * time.Millisecond
}

func materialiseAttempt(ac string, rng *rand.Rand) int {
	switch ac {
	case "0":
		return 0
	case "1":
		return 1
	case "small":
		return 2 + rng.Intn(7)
	case "big":
		return 1<<20 + rng.Intn(1<<30)
	}
	return math.MaxInt32
}

func classes(a *hk.Args) error {
	cs, err := hk.ReadNDJSON[class](a.In)
	if err != nil {
		return err
	}
	w, err := hk.NewWriter(a.Out)
	if err != nil {
		return err
	}
	defer w.Close()
	rng := rand.New(rand.NewSource(a.Seed))
	for _, c := range cs {
		cfg := &httputils.RetryPolicyConfiguration{Enabled: c.Enabled, BackOffEnabled: c.Backoff, LinearBackOffEnabled: c.Linear, RetryAfterDisabled: !c.RA, RetryMax: 4}
		min, max := materialiseWaits(c.Waits, rng)
		n := materialiseAttempt(c.Attempt, rng)
		hv, has, until := materialiseHeader(c.Header, rng)
		w.Write(observe(cfg, min, max, n, c.Status, c.Header, hv, has, until, nil))
	}
	return nil
}

// record: randomized configurations, attempt streams, nil responses, and the real retrying client
func record(a *hk.Args) error {
	w, err := hk.NewWriter(a.Out)
	if err != nil {
		return err
	}
	defer w.Close()
	rng := rand.New(rand.NewSource(a.Seed))
	n := a.N
	if n == 0 {
		n = 300
	}
	hclasses := []string{"absent", "negative", "zero", "small", "huge", "datepast", "datefuture", "datefar", "garbage", "empty"}
	wclasses := []string{"zero", "equal", "ms", "hours", "minzero"}
	for t := 0; t < n; t++ {
		cfg := &httputils.RetryPolicyConfiguration{Enabled: rng.Intn(4) != 0, BackOffEnabled: rng.Intn(3) != 0, LinearBackOffEnabled: rng.Intn(2) == 0,
			RetryAfterDisabled: rng.Intn(2) == 0, RetryMax: 1 + rng.Intn(8)}
		min, max := materialiseWaits(wclasses[rng.Intn(len(wclasses))], rng)
		status := []int{0, 200, 429, 500, 503}[rng.Intn(5)]
		hc := hclasses[rng.Intn(len(hclasses))]
		// a stream of increasing attempt numbers with a fixed response; every other stream goes through ONE policy object, as a
		// client's requests do, and its responses change from step to step (hint, no hint, another status): each wait is a
		// function of (min, max, attempt, response) alone
		mixed := t%2 == 1
		sharedPolicy = nil
		if mixed {
			sharedPolicy = httputils.BackOffPolicyFactory(cfg)
		}
		var prev *time.Duration
		attempt := 0
		for k := 0; k < 12; k++ {
			if mixed {
				status = []int{0, 200, 429, 500, 503, 429, 503}[rng.Intn(7)]
				hc = hclasses[rng.Intn(len(hclasses))]
				prev = nil
			}
			hv, has, until := materialiseHeader(hc, rng)
			ev := observe(cfg, min, max, attempt, status, hc, hv, has, until, prev)
			if status == 0 {
				ev.Status, ev.Header = 200, "absent"
			}
			w.Write(ev)
			if !mixed && !(cfg.Enabled && cfg.BackOffEnabled && cfg.LinearBackOffEnabled) { // linear waits are jittered: no ordering claim
				d, _ := time.ParseDuration(ev.Wait)
				prev = &d
			}
			switch {
			case k < 6:
				attempt++
			case k < 9:
				attempt = attempt*7 + rng.Intn(1000)
			default:
				attempt = attempt*911 + rng.Intn(100000)
				if attempt > math.MaxInt32 || attempt < 0 {
					attempt = math.MaxInt32
				}
			}
		}
	}
	sharedPolicy = nil
	// the real client against a local server (loopback only)
	clients := 6
	if a.Tier == "thorough" {
		clients = 40
	}
	for t := 0; t < clients; t++ {
		var hits atomic.Int64
		alwaysFails := rng.Intn(3) != 0
		okAfter := int64(1 + rng.Intn(4))
		status := []int{429, 503, 500}[rng.Intn(3)]
		srv := httptest.NewServer(http.HandlerFunc(func(rw http.ResponseWriter, r *http.Request) {
			h := hits.Add(1)
			if !alwaysFails && h > okAfter {
				rw.WriteHeader(200)
				return
			}
			if rng.Intn(2) == 0 {
				rw.Header().Set("Retry-After", "0")
			}
			rw.WriteHeader(status)
		}))
		cfg := httputils.DefaultHTTPClientConfiguration()
		pol := httputils.RetryPolicyConfiguration{Enabled: true, RetryMax: 1 + rng.Intn(5), RetryWaitMin: time.Millisecond, RetryWaitMax: 3 * time.Millisecond,
			BackOffEnabled: rng.Intn(2) == 0, LinearBackOffEnabled: false, RetryAfterDisabled: rng.Intn(2) == 0}
		cfg.RetryPolicy = pol
		client := httputils.NewConfigurableRetryableClient(cfg)
		resp, _ := client.Get(srv.URL)
		if resp != nil && resp.Body != nil {
			_ = resp.Body.Close()
		}
		_ = client.Close()
		srv.Close()
		w.Write(map[string]any{"op": "Client", "requests": hits.Load(), "maxRetries": pol.RetryMax, "alwaysFails": alwaysFails, "policyEnabled": true, "status": status})
	}
	return nil
}
