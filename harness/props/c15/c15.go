// Package c15 binds specs/config/ConfigPrecedence.tla to utils/config: every scenario of the model (subject fields, the
// sources holding a value for each, an invalidated field, a prefix spelling) is materialised with a real viper session, a
// pflag set bound with BindFlagToEnv, process environment variables, a YAML or JSON file and a default structure; the
// loaded structure is projected back to "which source does this field's value come from" for ConfigTrace.tla.
package c15

import (
	"encoding/json"
	"fmt"
	"math/rand"
	"os"
	"path/filepath"
	"reflect"
	"sort"
	"strings"
	"time"

	validation "github.com/go-ozzo/ozzo-validation/v4"
	"github.com/spf13/pflag"
	"github.com/spf13/viper"

	"github.com/ARM-software/golang-utils/utils/config"

	"verifharness/internal/hk"
)

func init() {
	hk.Register("c15", "replay", replay)
}

// ---- the structure of the model ----------------------------------------------------------------------

type Leaf struct {
	Host   string        `mapstructure:"host"`
	Port   int           `mapstructure:"port"`
	Period time.Duration `mapstructure:"period"`
	Ratio  float64       `mapstructure:"ratio"`
	Secure bool          `mapstructure:"secure"`
	MaxCon int           `mapstructure:"max-conn"`
}

type LeafU struct {
	Host string `mapstructure:"host"`
	Port int    `mapstructure:"port"`
}

type DirectLeaf struct {
	Host   string        `mapstructure:"host"`
	Port   int           `mapstructure:"port"`
	Period time.Duration `mapstructure:"period"`
	Retry  int           `mapstructure:"retry_2nd"`
}

type Mid struct {
	Name   string `mapstructure:"name"`
	Inner  Leaf   `mapstructure:"inner"`
	InnerU LeafU  `mapstructure:"inner_u"`
}

type Top struct {
	Title  string     `mapstructure:"title"`
	Count  int        `mapstructure:"count"`
	Mid    Mid        `mapstructure:"mid"`
	Direct DirectLeaf `mapstructure:"direct_leaf"`
	Level  string     `mapstructure:"log-level"`
}

func (c *Leaf) Validate() error {
	return validation.ValidateStruct(c, validation.Field(&c.Host, validation.Required))
}
func (c *LeafU) Validate() error { return nil }
func (c *DirectLeaf) Validate() error {
	return validation.ValidateStruct(c, validation.Field(&c.Port, validation.Required))
}
func (c *Mid) Validate() error {
	validation.ErrorTag = "mapstructure"
	if err := config.ValidateEmbedded(c); err != nil {
		return err
	}
	return validation.ValidateStruct(c, validation.Field(&c.Name, validation.Required))
}
func (c *Top) Validate() error {
	validation.ErrorTag = "mapstructure"
	if err := config.ValidateEmbedded(c); err != nil {
		return err
	}
	return validation.ValidateStruct(c, validation.Field(&c.Title, validation.Required))
}

// field access by path of mapstructure keys
func fieldByPath(v reflect.Value, path []string) reflect.Value {
	for _, key := range path {
		t := v.Type()
		found := false
		for i := 0; i < t.NumField(); i++ {
			if t.Field(i).Tag.Get("mapstructure") == key {
				v = v.Field(i)
				found = true
				break
			}
		}
		if !found {
			panic("no field " + strings.Join(path, "."))
		}
	}
	return v
}

var sourceIndex = map[string]int{"flagset": 1, "env": 2, "file": 3, "def": 4, "flagdef": 5, "foreign": 6}

// valueOf gives the (distinct, non-empty) value source src holds for the field number fi of kind kind.
func valueOf(kind, src string, fi int) any {
	k := sourceIndex[src]
	switch kind {
	case "string":
		return fmt.Sprintf("%s-value-%d", src, fi)
	case "int":
		return 1000*k + fi + 1
	case "duration":
		return time.Duration(k)*time.Minute + time.Duration(fi+1)*time.Second
	case "float":
		return float64(k) + float64(fi+1)/100
	}
	panic(kind)
}

func textOf(v any) string {
	switch x := v.(type) {
	case time.Duration:
		return x.String()
	default:
		return fmt.Sprint(v)
	}
}

func setField(v reflect.Value, val any) { v.Set(reflect.ValueOf(val)) }

type subject struct {
	Path    []string `json:"path"`
	Kind    string   `json:"kind"`
	Sources []string `json:"sources"`
	Winner  string   `json:"winner"`
	Env     string   `json:"env"`
}

type scenario struct {
	Prefix   string    `json:"prefix"`
	Subjects []subject `json:"subjects"`
	Invalid  []string  `json:"invalid"`
	Unset    bool      `json:"unsetSection"`
	ZeroDef  bool      `json:"zeroDefaults"` // the defaults structure sets nothing; the file supplies the required fields
	Foreign  bool      `json:"foreign"`  // an un-prefixed environment variable of the first subject's name is set too: it is nobody's source
	FlagForm string    `json:"flagForm"` // single | first | second: the first subject's flag alone, or one of two alternative flags bound together // the whole section of the invalidated field is left unset (every field zero)
	EnvNames []string  `json:"envNames"`
}

type subjectResult struct {
	Path       []string `json:"path"`
	Sources    []string `json:"sources"`
	Winner     string   `json:"winner"`
	LoadedFrom string   `json:"loadedFrom"`
	Loaded     string   `json:"loaded"`
}

type loadEvent struct {
	Op         string          `json:"op"`
	ID         int             `json:"id"`
	Prefix     string          `json:"prefix"`
	Format     string          `json:"format"`
	Subjects   []subjectResult `json:"subjects"`
	Invalid    []string        `json:"invalid"`
	Unset      bool            `json:"unsetSection"`
	FlagForm   string          `json:"flagForm"`
	Err        string          `json:"err"`
	NamesField bool            `json:"namesField"`
	Msg        string          `json:"msg"`
}

func validDefaults() *Top {
	return &Top{Title: "default title", Count: 1, Mid: Mid{Name: "default name", Inner: Leaf{Host: "default-host", Port: 80, Period: time.Second, Ratio: 0.5, MaxCon: 10},
		InnerU: LeafU{Host: "u-host", Port: 81}}, Direct: DirectLeaf{Host: "direct-host", Port: 82, Period: time.Minute, Retry: 3}, Level: "info"}
}

func has(list []string, x string) bool {
	for _, y := range list {
		if y == x {
			return true
		}
	}
	return false
}

func nested(m map[string]any, path []string, v any) {
	for _, k := range path[:len(path)-1] {
		sub, ok := m[k].(map[string]any)
		if !ok {
			sub = map[string]any{}
			m[k] = sub
		}
		m = sub
	}
	m[path[len(path)-1]] = v
}

func yamlOf(m map[string]any, indent string) string {
	keys := make([]string, 0, len(m))
	for k := range m {
		keys = append(keys, k)
	}
	sort.Strings(keys)
	var sb strings.Builder
	for _, k := range keys {
		if sub, ok := m[k].(map[string]any); ok {
			sb.WriteString(fmt.Sprintf("%s%s:\n%s", indent, k, yamlOf(sub, indent+"  ")))
		} else if s, ok := m[k].(string); ok {
			sb.WriteString(fmt.Sprintf("%s%s: %q\n", indent, k, s))
		} else {
			sb.WriteString(fmt.Sprintf("%s%s: %v\n", indent, k, m[k]))
		}
	}
	return sb.String()
}

func loadOne(id int, sc scenario, dir string, rng *rand.Rand) (loadEvent, error) {
	ev := loadEvent{Op: "Load", ID: id, Prefix: sc.Prefix, Subjects: []subjectResult{}, Invalid: []string{}, FlagForm: sc.FlagForm}
	defaults := validDefaults()
	if sc.ZeroDef {
		defaults = &Top{}
	}
	session := viper.New()
	flags := pflag.NewFlagSet("c15", pflag.ContinueOnError)
	fileMap := map[string]any{}
	var envSet []string
	defer func() {
		for _, n := range envSet {
			_ = os.Unsetenv(n)
		}
	}()
	subjectPaths := map[string]bool{}
	for i, s := range sc.Subjects {
		subjectPaths[strings.Join(s.Path, ".")] = true
		dv := fieldByPath(reflect.ValueOf(defaults).Elem(), s.Path)
		if has(s.Sources, "def") {
			setField(dv, valueOf(s.Kind, "def", i))
		} else {
			dv.Set(reflect.Zero(dv.Type()))
		}
		if has(s.Sources, "file") {
			fv := valueOf(s.Kind, "file", i)
			if d, ok := fv.(time.Duration); ok {
				nested(fileMap, s.Path, d.String())
			} else {
				nested(fileMap, s.Path, fv)
			}
		}
		if has(s.Sources, "env") {
			if err := os.Setenv(s.Env, textOf(valueOf(s.Kind, "env", i))); err != nil {
				return ev, err
			}
			envSet = append(envSet, s.Env)
		}
		foreignHere := sc.Foreign && i == 0
		if foreignHere {
			short := s.Env[len(sc.Prefix)+1:]
			if err := os.Setenv(short, textOf(valueOf(s.Kind, "foreign", i))); err != nil {
				return ev, err
			}
			envSet = append(envSet, short)
		}
		// a bound flag: needed when it is set or has a default; otherwise bound (with an empty default) every other time
		if has(s.Sources, "flagset") || has(s.Sources, "flagdef") || foreignHere || rng.Intn(2) == 0 {
			name := fmt.Sprintf("flag%d", i)
			var def any
			if has(s.Sources, "flagdef") {
				def = valueOf(s.Kind, "flagdef", i)
			}
			switch s.Kind {
			case "string":
				d, _ := def.(string)
				flags.String(name, d, "")
			case "int":
				d, _ := def.(int)
				flags.Int(name, d, "")
			case "duration":
				d, _ := def.(time.Duration)
				flags.Duration(name, d, "")
			case "float":
				d, _ := def.(float64)
				flags.Float64(name, d, "")
			}
			if has(s.Sources, "flagset") {
				if err := flags.Set(name, textOf(valueOf(s.Kind, "flagset", i))); err != nil {
					return ev, err
				}
			}
			envVar := s.Env
			if foreignHere || rng.Intn(2) == 0 { // the name may be given without the prefix
				envVar = s.Env[len(sc.Prefix)+1:]
			}
			if i == 0 && (sc.FlagForm == "first" || sc.FlagForm == "second") {
				// two alternative flags bound to the field: the one that carries the value is the first or the second of the set
				other := name + "other"
				switch s.Kind {
				case "string":
					flags.String(other, "", "")
				case "int":
					flags.Int(other, 0, "")
				case "duration":
					flags.Duration(other, 0, "")
				case "float":
					flags.Float64(other, 0, "")
				}
				pair := []*pflag.Flag{flags.Lookup(name), flags.Lookup(other)}
				if sc.FlagForm == "second" {
					pair[0], pair[1] = pair[1], pair[0]
				}
				if err := config.BindFlagsToEnv(session, sc.Prefix, envVar, pair...); err != nil {
					return ev, err
				}
			} else if err := config.BindFlagToEnv(session, sc.Prefix, envVar, flags.Lookup(name)); err != nil {
				return ev, err
			}
		}
	}
	if sc.ZeroDef {
		// what validation requires comes from the file (unless it is the subject itself and has its own sources)
		for _, req := range []struct {
			path []string
			v    any
		}{{[]string{"title"}, "file title"}, {[]string{"mid", "name"}, "file name"}, {[]string{"mid", "inner", "host"}, "file-host"}, {[]string{"direct_leaf", "port"}, 8082}} {
			if !subjectPaths[strings.Join(req.path, ".")] {
				nested(fileMap, req.path, req.v)
			}
		}
	}
	if len(sc.Invalid) > 0 && !subjectPaths[strings.Join(sc.Invalid, ".")] {
		ev.Invalid = sc.Invalid
		v := fieldByPath(reflect.ValueOf(defaults).Elem(), sc.Invalid)
		v.Set(reflect.Zero(v.Type()))
		if sc.Unset {
			section := fieldByPath(reflect.ValueOf(defaults).Elem(), sc.Invalid[:len(sc.Invalid)-1])
			section.Set(reflect.Zero(section.Type()))
			ev.Unset = true
		}
	}
	file := ""
	if len(fileMap) > 0 || rng.Intn(3) == 0 {
		if rng.Intn(2) == 0 {
			ev.Format = "yaml"
			file = filepath.Join(dir, fmt.Sprintf("c15-%d.yaml", id))
			if err := os.WriteFile(file, []byte(yamlOf(fileMap, "")), 0o644); err != nil {
				return ev, err
			}
		} else {
			ev.Format = "json"
			file = filepath.Join(dir, fmt.Sprintf("c15-%d.json", id))
			b, _ := json.Marshal(fileMap)
			if err := os.WriteFile(file, b, 0o644); err != nil {
				return ev, err
			}
		}
		defer os.Remove(file)
	}
	loaded := &Top{}
	err := config.LoadFromEnvironment(session, sc.Prefix, loaded, defaults, file)
	ev.Err = hk.Kind(err)
	if err != nil {
		ev.Msg = err.Error()
		if len(ev.Invalid) > 0 {
			last := ev.Invalid[len(ev.Invalid)-1]
			ev.NamesField = strings.Contains(strings.ToLower(ev.Msg), strings.ToLower(last))
		}
	}
	for i, s := range sc.Subjects {
		got := fieldByPath(reflect.ValueOf(loaded).Elem(), s.Path).Interface()
		r := subjectResult{Path: s.Path, Sources: s.Sources, Winner: s.Winner, LoadedFrom: "none", Loaded: textOf(got)}
		for src := range sourceIndex {
			if reflect.DeepEqual(got, valueOf(s.Kind, src, i)) {
				r.LoadedFrom = src
			}
		}
		ev.Subjects = append(ev.Subjects, r)
	}
	return ev, nil
}

// ---- environment names ----------------------------------------------------------------------------------

type envEvent struct {
	Op          string   `json:"op"`
	Prefix      string   `json:"prefix"`
	Reported    []string `json:"reported"`
	Model       []string `json:"model"`
	NotHonoured []string `json:"notHonoured"`
	WrongField  []string `json:"wrongField"`
}

func leaves(v reflect.Value, prefix []string, out map[string]string) {
	t := v.Type()
	for i := 0; i < t.NumField(); i++ {
		key := t.Field(i).Tag.Get("mapstructure")
		p := append(append([]string{}, prefix...), key)
		if t.Field(i).Type.Kind() == reflect.Struct {
			leaves(v.Field(i), p, out)
		} else {
			out[strings.Join(p, ".")] = textOf(v.Field(i).Interface())
		}
	}
}

func envNames(sc scenario) (envEvent, error) {
	ev := envEvent{Op: "EnvNames", Prefix: sc.Prefix, Model: sc.EnvNames, Reported: []string{}, NotHonoured: []string{}, WrongField: []string{}}
	reported, err := config.DetermineConfigurationEnvironmentVariables(sc.Prefix, validDefaults())
	if err != nil {
		return ev, err
	}
	base := map[string]string{}
	leaves(reflect.ValueOf(validDefaults()).Elem(), nil, base)
	for name := range reported {
		ev.Reported = append(ev.Reported, name)
	}
	sort.Strings(ev.Reported)
	for _, name := range ev.Reported {
		changed := ""
		for _, val := range []string{"7", "7s", "true"} { // "7" suits strings and numbers, "7s" durations, "true" the boolean
			_ = os.Setenv(name, val)
			loaded := &Top{}
			err := config.LoadFromEnvironment(viper.New(), sc.Prefix, loaded, validDefaults(), "")
			_ = os.Unsetenv(name)
			if err != nil {
				continue
			}
			now := map[string]string{}
			leaves(reflect.ValueOf(loaded).Elem(), nil, now)
			for k, v := range now {
				if v != base[k] {
					changed = k
				}
			}
			if changed != "" {
				break
			}
		}
		if changed == "" {
			ev.NotHonoured = append(ev.NotHonoured, name)
			continue
		}
		expected := strings.ToUpper(sc.Prefix + "_" + strings.ReplaceAll(changed, ".", "_"))
		if expected != name {
			ev.WrongField = append(ev.WrongField, name+"->"+changed)
		}
	}
	return ev, nil
}

func replay(a *hk.Args) error {
	scs, err := hk.ReadNDJSON[scenario](a.In)
	if err != nil {
		return err
	}
	w, err := hk.NewWriter(a.Out)
	if err != nil {
		return err
	}
	defer w.Close()
	os.Clearenv()
	rng := rand.New(rand.NewSource(a.Seed))
	seenPrefix := map[string]bool{}
	for i, sc := range scs {
		ev, err := loadOne(i+1, sc, a.Dir, rng)
		if err != nil {
			return err
		}
		w.Write(ev)
		if !seenPrefix[sc.Prefix] {
			seenPrefix[sc.Prefix] = true
			ee, err := envNames(sc)
			if err != nil {
				return err
			}
			w.Write(ee)
		}
	}
	return nil
}
