// Package c16 binds specs/cache/SharedCache.tla to utils/sharedcache: real mutable / immutable cache
// repositories, one VFS per client over one shared backend behind the fsgate.
//
//	sweep:      Store(v2) over an entry holding v1 is interrupted at EVERY backend call k - by an injected
//	            error, or by the death of the client (its heartbeat included) - then the entry is
//	            stale-cleaned and another client fetches.
//	interleave: Store / Fetch / CleanEntry of 2..3 clients run concurrently under seeded random schedules
//	            at single-backend-call granularity.
//
// The observations are judged by SharedCacheTrace.tla.
package c16

import (
	"archive/zip"
	"bytes"
	"context"
	"fmt"
	"math/rand"
	"os"
	"path/filepath"
	"sort"
	"strings"
	"sync"
	"time"

	"github.com/spf13/afero"

	"github.com/ARM-software/golang-utils/utils/filesystem"
	"github.com/ARM-software/golang-utils/utils/sharedcache"

	"verifharness/internal/fsgate"
	"verifharness/internal/hk"
)

func init() {
	hk.Register("c16", "sweep", sweep)
	hk.Register("c16", "interleave", interleave)
	hk.Register("c16", "handoff", handoff)
	hk.Register("c16", "cleansweep", cleansweep)
	hk.Register("c16", "locktimeout", locktimeout)
	hk.Register("c16", "lateheartbeat", lateHeartbeat)
}

const key = "entry"

type world struct {
	gate    *fsgate.Gate
	base    afero.Fs
	backend string
	kind    string
	root    string
	tmp     string
	clients map[string]*client
}

type client struct {
	name string
	fs   filesystem.FS
	repo sharedcache.ISharedCacheRepository
	dest string
}

// a stored version may itself hold an archive: it must come back as the file it is
func embeddedArchive(v int) []byte {
	var b bytes.Buffer
	w := zip.NewWriter(&b)
	f, _ := w.Create("lib/dep.txt")
	_, _ = f.Write([]byte(fmt.Sprintf("dependency of version %d", v)))
	_ = w.Close()
	return b.Bytes()
}

func versionFiles(v int) map[string][]byte {
	big := bytes.Repeat([]byte{byte('A' + v)}, 40000+v)
	return map[string][]byte{
		"vendor/deps.zip":                embeddedArchive(v),
		"a.txt":                          []byte(fmt.Sprintf("version %d: a", v)),
		"sub/b.txt":                      []byte(fmt.Sprintf("version %d: b", v)),
		"sub/deep/c.bin":                 big,
		fmt.Sprintf("only-in-%d.txt", v): []byte("x"),
	}
}

func newWorld(backend, kind string, names []string, scratch string) (*world, error) {
	w := &world{backend: backend, kind: kind, clients: map[string]*client{}}
	w.gate = fsgate.NewGate([]string{").Store", ").Fetch", ").CleanEntry"}, ".heartBeat")
	fstype := filesystem.InMemoryFS
	if backend == "os" {
		dir, err := os.MkdirTemp(scratch, "c16-")
		if err != nil {
			return nil, err
		}
		w.tmp, w.root, w.base = dir, dir, filesystem.NewExtendedOsFs()
		fstype = filesystem.StandardFS
	} else {
		w.base, w.root = afero.NewMemMapFs(), "/c16"
	}
	_ = w.base.MkdirAll(filepath.Join(w.root, "remote"), 0o755)
	_ = w.base.MkdirAll(os.TempDir(), 0o777) // the cache packs in the filesystem's temp directory
	for v := 1; v <= 3; v++ {
		for rel, content := range versionFiles(v) {
			p := filepath.Join(w.root, fmt.Sprintf("src%d", v), rel)
			_ = w.base.MkdirAll(filepath.Dir(p), 0o755)
			if err := afero.WriteFile(w.base, p, content, 0o644); err != nil {
				return nil, err
			}
		}
	}
	for _, n := range names {
		vfs := filesystem.NewVirtualFileSystem(fsgate.New(w.base, n, w.gate), fstype, filesystem.IdentityPathConverterFunc)
		cfg := &sharedcache.Configuration{RemoteStoragePath: filepath.Join(w.root, "remote"), Timeout: 400 * time.Millisecond}
		var repo sharedcache.ISharedCacheRepository
		var err error
		if kind == "mutable" {
			repo, err = sharedcache.NewSharedMutableCacheRepository(cfg, vfs)
		} else {
			repo, err = sharedcache.NewSharedImmutableCacheRepository(cfg, vfs)
		}
		if err != nil {
			return nil, err
		}
		w.clients[n] = &client{name: n, fs: vfs, repo: repo, dest: filepath.Join(w.root, "dest-"+n)}
	}
	return w, nil
}

func (w *world) close() {
	w.gate.Shutdown()
	time.Sleep(time.Millisecond)
	if w.tmp != "" {
		_ = os.RemoveAll(w.tmp)
	}
}

func (w *world) src(v int) string { return filepath.Join(w.root, fmt.Sprintf("src%d", v)) }

// classify compares what is installed in dest with the stored versions (read on the backend itself).
func (w *world) classify(dest string) string {
	got := map[string][]byte{}
	_ = afero.Walk(w.base, dest, func(p string, info os.FileInfo, err error) error {
		if err != nil || info == nil || info.IsDir() {
			return nil
		}
		rel, _ := filepath.Rel(dest, p)
		b, _ := afero.ReadFile(w.base, p)
		got[filepath.ToSlash(rel)] = b
		return nil
	})
	if len(got) == 0 {
		return "empty"
	}
	for v := 1; v <= 3; v++ {
		want := versionFiles(v)
		if len(want) != len(got) {
			continue
		}
		same := true
		for rel, c := range want {
			if !bytes.Equal(got[rel], c) {
				same = false
				break
			}
		}
		if same {
			return fmt.Sprintf("v%d", v)
		}
	}
	// partial = a strict subset of one version; mixed = anything else
	for v := 1; v <= 3; v++ {
		want := versionFiles(v)
		sub := true
		for rel, c := range got {
			if wc, ok := want[rel]; !ok || !bytes.Equal(wc, c) {
				sub = false
				break
			}
		}
		if sub {
			return "partial"
		}
	}
	return "mixed"
}

// call runs f under a watchdog; "blocked" when it does not return (a crashed client never returns).
func call(f func() error, d time.Duration) string {
	ch := make(chan error, 1)
	go func() {
		defer func() {
			if r := recover(); r != nil {
				ch <- fmt.Errorf("backend panic: %v", r)
			}
		}()
		ch <- f()
	}()
	select {
	case err := <-ch:
		return hk.Kind(err)
	case <-time.After(d):
		return "blocked"
	}
}

func (w *world) lockPaths() (dir, hb string) {
	id := fmt.Sprintf("SharedMutableCache-%v", key)
	dir = filepath.Join(w.root, "remote", key, fmt.Sprintf("%v-%v", filesystem.LockFilePrefix, id))
	return dir, filepath.Join(dir, id+".lock")
}

// zombieLock: the entry's lock directory exists now although its last creation was not an acquisition - it was re-created by a
// heart-beat write that was already on its way when the release removed the directory (the in-memory backend creates missing
// parent directories; on the OS backend such a write fails).  Established from the recorded backend calls, not guessed.
func (w *world) zombieLock() bool {
	if w.backend != "mem" || w.kind != "mutable" {
		return false
	}
	dir, hb := w.lockPaths()
	exists, implicit := false, false
	for _, g := range w.gate.Log() {
		if !g.OK {
			continue
		}
		p := filepath.Clean(g.Path)
		switch {
		case (g.Op == "Mkdir" || g.Op == "MkdirAll") && p == dir:
			exists, implicit = true, false
		case (g.Op == "Remove" || g.Op == "RemoveAll") && p == dir:
			exists, implicit = false, false
		case g.Mut && p == hb && strings.HasSuffix(g.Owner, ".hb") && g.Op != "Remove" && g.Op != "RemoveAll" && g.Op != "Chtimes":
			if !exists {
				exists, implicit = true, true
			}
		}
	}
	if !exists || !implicit {
		return false
	}
	fi, err := w.base.Stat(dir)
	return err == nil && fi.IsDir()
}

type sweepEvent struct {
	Op      string `json:"op"`
	Cache   string `json:"cache"`
	Backend string `json:"backend"`
	K       int    `json:"k"`
	Of      int    `json:"of"`
	Mode    string `json:"mode"`
	Store   string `json:"store"` // result kind of the interrupted Store ("" = success)
	Clean   string `json:"clean"`
	Fetch   string `json:"fetch"`      // result kind of the later Fetch
	Match   string `json:"match"`      // what the Fetch installed: v1 | v2 | empty | partial | mixed
	Again   string `json:"storeAgain"` // after all that: result kind of a Store of v1 AGAIN (the content the entry held before) by the other client ...
	Fetch2  string `json:"fetchAgain"` // ... and of the Fetch that follows it
	Match2  string `json:"matchAgain"`
	FaultOp string `json:"faultOp"`
	Zombie  bool   `json:"zombie"` // see zombieLock
}

func sweep(a *hk.Args) error {
	out, err := hk.NewWriter(a.Out)
	if err != nil {
		return err
	}
	defer out.Close()
	rng := rand.New(rand.NewSource(a.Seed))
	ctx := context.Background()
	for _, kind := range []string{"mutable", "immutable"} {
		for _, backend := range []string{"mem", "os"} {
			// dry run: how many backend calls does Store(v2) over v1 take?
			w, err := newWorld(backend, kind, []string{"A", "B"}, a.Dir)
			if err != nil {
				return err
			}
			if r := call(func() error { return w.clients["A"].repo.Store(ctx, key, w.src(1)) }, 10*time.Second); r != "" {
				w.close()
				return fmt.Errorf("%s/%s: baseline Store(v1) failed: %s", kind, backend, r)
			}
			before := w.gate.Count("A")
			n0 := w.gate.LogLen()
			_ = call(func() error { return w.clients["A"].repo.Store(ctx, key, w.src(2)) }, 10*time.Second)
			total := w.gate.Count("A") - before
			// calls on the side files and on the package itself are always swept, whatever the stride
			always := map[int]bool{}
			idx := 0
			for _, g := range w.gate.Log()[n0:] {
				if g.Owner != "A" {
					continue
				}
				idx++
				if strings.HasSuffix(g.Path, ".hash") || (g.Mut && strings.Contains(g.Path, "remote")) {
					always[idx] = true
				}
			}
			w.close()
			stride := 1
			if a.Tier != "thorough" && total > 120 {
				stride = total/120 + 1
			}
			off := 0
			if stride > 1 {
				off = rng.Intn(stride)
			}
			for k := 1; k <= total; k++ {
				if (k-1-off)%stride != 0 && !always[k] {
					continue
				}
				for _, mode := range []string{"fail", "crash"} {
					tt := time.Now()
					ev, err := oneSweep(kind, backend, k, total, mode, a.Dir)
					if os.Getenv("VERIF_TIMING") != "" {
						fmt.Fprintf(os.Stderr, "  iteration total %v\n", time.Since(tt))
					}
					if err != nil {
						return err
					}
					out.Write(ev)
					out.Flush()
				}
			}
		}
	}
	return nil
}

func oneSweep(kind, backend string, k, total int, mode, scratch string) (sweepEvent, error) {
	ctx := context.Background()
	t0 := time.Now()
	ev := sweepEvent{Op: "Sweep", Cache: kind, Backend: backend, K: k, Of: total, Mode: mode}
	w, err := newWorld(backend, kind, []string{"A", "B"}, scratch)
	if err != nil {
		return ev, err
	}
	defer w.close()
	if r := call(func() error { return w.clients["A"].repo.Store(ctx, key, w.src(1)) }, 10*time.Second); r != "" {
		return ev, fmt.Errorf("baseline Store(v1) failed: %s", r)
	}
	act := fsgate.Fail
	if mode == "crash" {
		act = fsgate.Crash
	}
	n0 := w.gate.LogLen()
	w.gate.SetFault("A", fsgate.Fault{At: w.gate.Count("A") + k, Action: act})
	storeDone := make(chan string, 1)
	go func() {
		storeDone <- call(func() error { return w.clients["A"].repo.Store(ctx, key, w.src(2)) }, 1500*time.Millisecond)
	}()
	for ev.Store = "pending"; ev.Store == "pending"; {
		select {
		case r := <-storeDone:
			ev.Store = r
		case <-time.After(200 * time.Microsecond):
			if mode == "crash" && w.gate.IsDead("A") {
				ev.Store = "crashed"
			}
		}
	}
	if mode == "crash" {
		w.gate.Kill("A")
	}
	for _, g := range w.gate.Log()[n0:] {
		if g.Owner == "A" && (g.Err == fsgate.ErrInjected.Error() || g.Err == "crashed") {
			ev.FaultOp = g.Op + " " + filepath.Base(g.Path)
			break
		}
	}
	if mode == "crash" && kind == "mutable" {
		// the dead client's lock goes stale (two heartbeat periods without refresh), then it is cleaned
		d, hb := w.lockPaths()
		w.gate.MarkStale(d, true)
		w.gate.MarkStale(hb, true)
	}
	if ev.Store == "blocked" {
		// only a broken backend makes a Store with an injected *error* hang (afero MemMapFs panics inside Remove with its
		// directory lock held, and the deferred Unlock of the cache then waits for that lock): the scenario is void
		ev.Clean, ev.Fetch, ev.Match = "void", "void", "void"
		return ev, nil
	}
	t1 := time.Now()
	ev.Clean = call(func() error { return w.clients["B"].repo.CleanEntry(ctx, key) }, 3*time.Second)
	t2 := time.Now()
	ev.Fetch = call(func() error { return w.clients["B"].repo.Fetch(ctx, key, w.clients["B"].dest) }, 5*time.Second)
	t3 := time.Now()
	ev.Match = w.classify(w.clients["B"].dest)
	if ev.Match != "void" {
		// the content the entry held before the interrupted Store is stored again: a Store like any other
		ev.Again = call(func() error { return w.clients["B"].repo.Store(ctx, key, w.src(1)) }, 10*time.Second)
		_ = w.base.RemoveAll(w.clients["B"].dest)
		ev.Fetch2 = call(func() error { return w.clients["B"].repo.Fetch(ctx, key, w.clients["B"].dest) }, 5*time.Second)
		ev.Match2 = w.classify(w.clients["B"].dest)
	}
	ev.Zombie = w.zombieLock()
	if os.Getenv("VERIF_TIMING") != "" {
		fmt.Fprintf(os.Stderr, "k=%d %s: setup+store %v clean %v fetch %v\n", k, mode, t1.Sub(t0), t2.Sub(t1), t3.Sub(t2))
	}
	return ev, nil
}

// ---------------------------------------------------------------------------------------------

type ilEvent struct {
	Op      string   `json:"op"`
	ID      int      `json:"id"`
	C       string   `json:"c"`
	V       int      `json:"v"`
	Result  string   `json:"result"`
	Match   string   `json:"match"`
	Cache   string   `json:"cache"`
	Backend string   `json:"backend"`
	Seq     int      `json:"seq"`
	Quiet   bool     `json:"quiet"`  // no other call was in flight between this call's start and end
	Zombie  bool     `json:"zombie"` // Fetched / FinalFetch: see zombieLock
	Passed  []string `json:"passed,omitempty"`
}

// interleave: random gated schedules of concurrent Store / Fetch / CleanEntry.
func interleave(a *hk.Args) error {
	out, err := hk.NewWriter(a.Out)
	if err != nil {
		return err
	}
	defer out.Close()
	rng := rand.New(rand.NewSource(a.Seed))
	n := a.N
	if n == 0 {
		n = 24
	}
	for id := 1; id <= n; id++ {
		kind := []string{"mutable", "immutable"}[rng.Intn(2)]
		backend := []string{"mem", "os"}[rng.Intn(2)]
		names := []string{"A", "B", "C"}[:2+rng.Intn(2)]
		w, err := newWorld(backend, kind, names, a.Dir)
		if err != nil {
			return err
		}
		out.Write(ilEvent{Op: "Begin", ID: id, Cache: kind, Backend: backend})
		ctx := context.Background()
		if r := call(func() error { return w.clients["A"].repo.Store(ctx, key, w.src(1)) }, 10*time.Second); r != "" {
			w.close()
			return fmt.Errorf("baseline Store(v1) failed: %s", r)
		}
		out.Write(ilEvent{Op: "Stored", ID: id, C: "A", V: 1, Result: "", Quiet: true})
		var mu sync.Mutex
		// the order of the critical sections of the lock-based cache: every successful creation of the entry's lock directory by a
		// client that is inside Store is reported (the trace specification orders overlapping Stores by it)
		lockDir, _ := w.lockPaths()
		storingNow := map[string]bool{}
		var smu sync.Mutex
		w.gate.OnEvent = func(g *fsgate.Event) {
			if g.Op == "Mkdir" && g.OK && filepath.Clean(g.Path) == lockDir {
				smu.Lock()
				in := storingNow[g.Owner]
				smu.Unlock()
				if in {
					out.Write(ilEvent{Op: "LockAcquired", ID: id, C: g.Owner})
				}
			}
		}
		// one run in three: a backend call of one of the Stores fails (an I/O error at a random point of it)
		faulty := rng.Intn(3) == 0
		inflight := map[string]bool{}
		overlapped := map[string]bool{}
		type done struct {
			c, api, res string
			v           int
		}
		doneCh := make(chan done, 8)
		start := func(c string, api string, v int) {
			mu.Lock()
			for o := range inflight {
				overlapped[o] = true
				overlapped[c] = true
			}
			inflight[c] = true
			mu.Unlock()
			if api == "Store" {
				smu.Lock()
				storingNow[c] = true
				smu.Unlock()
				out.Write(ilEvent{Op: "StoreBegin", ID: id, C: c, V: v})
				if faulty {
					faulty = false
					w.gate.SetFault(c, fsgate.Fault{At: w.gate.Count(c) + 1 + rng.Intn(60), Action: fsgate.Fail})
				}
			}
			if api == "Fetch" {
				out.Write(ilEvent{Op: "FetchBegin", ID: id, C: c})
			}
			cl := w.clients[c]
			go func() {
				var err error
				switch api {
				case "Store":
					err = cl.repo.Store(ctx, key, w.src(v))
				case "Fetch":
					err = cl.repo.Fetch(ctx, key, cl.dest)
				case "Clean":
					err = cl.repo.CleanEntry(ctx, key)
				}
				if api == "Store" {
					smu.Lock()
					storingNow[c] = false
					smu.Unlock()
				}
				doneCh <- done{c, api, hk.Kind(err), v}
			}()
		}
		for _, c := range names {
			w.gate.SetGating(c, true)
			w.gate.SetGating(c+".hb", false) // heartbeats run free: the lock stays fresh (ages are frozen anyway)
		}
		ops := 3 + rng.Intn(4)
		nextV := 2
		steps := 0
		for (ops > 0 || len(inflight) > 0) && steps < 6000 {
			steps++
			// finished calls
			select {
			case d := <-doneCh:
				mu.Lock()
				delete(inflight, d.c)
				quiet := !overlapped[d.c]
				delete(overlapped, d.c)
				mu.Unlock()
				switch d.api {
				case "Store":
					out.Write(ilEvent{Op: "Stored", ID: id, C: d.c, V: d.v, Result: d.res, Quiet: quiet})
				case "Fetch":
					out.Write(ilEvent{Op: "Fetched", ID: id, C: d.c, Result: d.res, Match: w.classify(w.clients[d.c].dest), Quiet: quiet, Zombie: quiet && w.zombieLock()})
				}
				continue
			default:
			}
			// start a new call on an idle client
			mu.Lock()
			var idle []string
			for _, c := range names {
				if !inflight[c] {
					idle = append(idle, c)
				}
			}
			mu.Unlock()
			sort.Strings(idle)
			if ops > 0 && len(idle) > 0 && rng.Intn(4) == 0 {
				c := idle[rng.Intn(len(idle))]
				switch r := rng.Intn(10); {
				case r < 4 && nextV <= 3:
					start(c, "Store", nextV)
					nextV++
				case r < 9:
					start(c, "Fetch", 0)
				default:
					start(c, "Clean", 0)
				}
				ops--
				continue
			}
			// step one parked backend call
			var parked []*fsgate.Call
			for _, c := range names {
				if p := w.gate.Peek(c); p != nil {
					parked = append(parked, p)
				}
			}
			if len(parked) == 0 {
				time.Sleep(200 * time.Microsecond)
				continue
			}
			w.gate.Release(parked[rng.Intn(len(parked))], fsgate.Proceed)
		}
		for _, c := range names {
			w.gate.SetGating(c, false)
		}
		// drain
		deadline := time.After(5 * time.Second)
		for len(inflight) > 0 {
			for _, c := range names {
				if p := w.gate.Peek(c); p != nil {
					w.gate.Release(p, fsgate.Proceed)
				}
			}
			select {
			case d := <-doneCh:
				mu.Lock()
				delete(inflight, d.c)
				mu.Unlock()
				if d.api == "Store" {
					out.Write(ilEvent{Op: "Stored", ID: id, C: d.c, V: d.v, Result: d.res})
				}
				if d.api == "Fetch" {
					out.Write(ilEvent{Op: "Fetched", ID: id, C: d.c, Result: d.res, Match: w.classify(w.clients[d.c].dest)})
				}
			case <-deadline:
				inflight = map[string]bool{}
			case <-time.After(time.Millisecond):
			}
		}
		// quiescent epilogue: a final Fetch must return the last successfully stored version
		res := call(func() error { return w.clients["A"].repo.Fetch(ctx, key, w.clients["A"].dest) }, 5*time.Second)
		out.Write(ilEvent{Op: "FinalFetch", ID: id, C: "A", Result: res, Match: w.classify(w.clients["A"].dest), Quiet: true, Zombie: w.zombieLock()})
		w.close()
	}
	out.Write(ilEvent{Op: "End"})
	return nil
}

var _ = strings.TrimSpace

// ---- hand-over sweep: a failing Store and the Store that gets the lock next ---------------------------------------
//
// Lock-based cache.  Store(v2) of client A is made to fail at backend call k; as soon as A has given the entry's lock
// back (its removal of the lock directory), whatever A still wants to do on the filesystem is held back, client B
// runs a complete Store(v3), and only then A is let go.  The critical section of A came first: B's version must be
// what a Fetch returns afterwards (SharedCacheTrace.tla orders the two Stores by their LockAcquired events).

func handoff(a *hk.Args) error {
	out, err := hk.NewWriter(a.Out)
	if err != nil {
		return err
	}
	defer out.Close()
	rng := rand.New(rand.NewSource(a.Seed))
	ctx := context.Background()
	id := 200000
	for _, backend := range []string{"mem", "os"} {
		// dry run: the backend calls of Store(v2) over v1
		w, err := newWorld(backend, "mutable", []string{"A", "B"}, a.Dir)
		if err != nil {
			return err
		}
		if r := call(func() error { return w.clients["A"].repo.Store(ctx, key, w.src(1)) }, 10*time.Second); r != "" {
			w.close()
			return fmt.Errorf("mutable/%s: baseline Store(v1) failed: %s", backend, r)
		}
		before := w.gate.Count("A")
		n0 := w.gate.LogLen()
		_ = call(func() error { return w.clients["A"].repo.Store(ctx, key, w.src(2)) }, 10*time.Second)
		total := w.gate.Count("A") - before
		always := map[int]bool{}
		idx := 0
		for _, g := range w.gate.Log()[n0:] {
			if g.Owner != "A" {
				continue
			}
			idx++
			if g.Mut && strings.Contains(g.Path, "remote") {
				always[idx] = true
			}
		}
		w.close()
		stride := 1
		if a.Tier != "thorough" && total > 40 {
			stride = total/40 + 1
		}
		off := 0
		if stride > 1 {
			off = rng.Intn(stride)
		}
		for k := 1; k <= total; k++ {
			if (k-1-off)%stride != 0 && !always[k] {
				continue
			}
			id++
			if err := oneHandoff(id, backend, k, a.Dir, out); err != nil {
				return err
			}
			out.Flush()
		}
	}
	out.Write(ilEvent{Op: "End"})
	return nil
}

func oneHandoff(id int, backend string, k int, scratch string, out *hk.Writer) error {
	ctx := context.Background()
	w, err := newWorld(backend, "mutable", []string{"A", "B"}, scratch)
	if err != nil {
		return err
	}
	defer w.close()
	out.Write(ilEvent{Op: "Begin", ID: id, Cache: "mutable", Backend: backend, Seq: k})
	if r := call(func() error { return w.clients["A"].repo.Store(ctx, key, w.src(1)) }, 10*time.Second); r != "" {
		return fmt.Errorf("baseline Store(v1) failed: %s", r)
	}
	out.Write(ilEvent{Op: "Stored", ID: id, C: "A", V: 1, Result: "", Quiet: true})
	lockDir, _ := w.lockPaths()
	var smu sync.Mutex
	storingNow := map[string]bool{}
	released := make(chan struct{}, 1)
	w.gate.OnEvent = func(g *fsgate.Event) {
		if filepath.Clean(g.Path) != lockDir || !g.OK {
			return
		}
		smu.Lock()
		in := storingNow[g.Owner]
		smu.Unlock()
		if !in {
			return
		}
		switch g.Op {
		case "Mkdir":
			out.Write(ilEvent{Op: "LockAcquired", ID: id, C: g.Owner})
		case "Remove", "RemoveAll":
			if g.Owner == "A" {
				// A gave the lock back: from here on its backend calls wait
				w.gate.SetGating("A", true)
				select {
				case released <- struct{}{}:
				default:
				}
			}
		}
	}
	w.gate.SetGating("A", false)
	w.gate.SetGating("B", false)
	w.gate.SetGating("A.hb", false)
	w.gate.SetGating("B.hb", false)
	w.gate.SetFault("A", fsgate.Fault{At: w.gate.Count("A") + k, Action: fsgate.Fail})
	smu.Lock()
	storingNow["A"] = true
	smu.Unlock()
	out.Write(ilEvent{Op: "StoreBegin", ID: id, C: "A", V: 2})
	aDone := make(chan string, 1)
	go func() {
		aDone <- call(func() error { return w.clients["A"].repo.Store(ctx, key, w.src(2)) }, 8*time.Second)
	}()
	aRes, aFinished := "", false
	select {
	case aRes = <-aDone:
		aFinished = true
	case <-released:
		// give A the time to come to rest: either it returns or it parks at its next backend call
		for t := time.Now(); time.Since(t) < 300*time.Millisecond; time.Sleep(time.Millisecond) {
			if w.gate.Peek("A") != nil {
				break
			}
			select {
			case aRes = <-aDone:
				aFinished = true
			default:
			}
			if aFinished {
				break
			}
		}
	case <-time.After(9 * time.Second):
		return fmt.Errorf("hand-over scenario %d: Store(v2) with a fault at call %d neither returned nor released the lock", id, k)
	}
	if aFinished {
		smu.Lock()
		storingNow["A"] = false
		smu.Unlock()
		out.Write(ilEvent{Op: "Stored", ID: id, C: "A", V: 2, Result: aRes})
	}
	// B: a complete Store
	smu.Lock()
	storingNow["B"] = true
	smu.Unlock()
	out.Write(ilEvent{Op: "StoreBegin", ID: id, C: "B", V: 3})
	bRes := call(func() error { return w.clients["B"].repo.Store(ctx, key, w.src(3)) }, 8*time.Second)
	smu.Lock()
	storingNow["B"] = false
	smu.Unlock()
	out.Write(ilEvent{Op: "Stored", ID: id, C: "B", V: 3, Result: bRes})
	if !aFinished {
		// now A may finish what it had left
		w.gate.SetGating("A", false)
		for t := time.Now(); time.Since(t) < 8*time.Second; {
			if p := w.gate.Peek("A"); p != nil {
				w.gate.Release(p, fsgate.Proceed)
			}
			select {
			case aRes = <-aDone:
				aFinished = true
			case <-time.After(time.Millisecond):
			}
			if aFinished {
				break
			}
		}
		smu.Lock()
		storingNow["A"] = false
		smu.Unlock()
		if !aFinished {
			aRes = "blocked"
		}
		out.Write(ilEvent{Op: "Stored", ID: id, C: "A", V: 2, Result: aRes})
	}
	res := call(func() error { return w.clients["B"].repo.Fetch(ctx, key, w.clients["B"].dest) }, 5*time.Second)
	out.Write(ilEvent{Op: "FinalFetch", ID: id, C: "B", Result: res, Match: w.classify(w.clients["B"].dest), Quiet: true, Zombie: w.zombieLock()})
	return nil
}

// ---- clean sweep: CleanEntry of the immutable cache against a Store that completes in the middle of it ---------------
//
// Two complete versions are stored; client A's CleanEntry is stopped before its k-th backend call, client B runs a
// complete Store(v3), A goes on.  Whatever A decided before B's Store, the version B stored must be what a Fetch returns.

func cleansweep(a *hk.Args) error {
	out, err := hk.NewWriter(a.Out)
	if err != nil {
		return err
	}
	defer out.Close()
	ctx := context.Background()
	id := 300000
	for _, backend := range []string{"mem", "os"} {
		// dry run: how many backend calls does CleanEntry take over two versions?
		w, err := newWorld(backend, "immutable", []string{"A", "B"}, a.Dir)
		if err != nil {
			return err
		}
		for v := 1; v <= 2; v++ {
			if r := call(func() error { return w.clients["A"].repo.Store(ctx, key, w.src(v)) }, 10*time.Second); r != "" {
				w.close()
				return fmt.Errorf("immutable/%s: baseline Store(v%d) failed: %s", backend, v, r)
			}
			time.Sleep(15 * time.Millisecond) // the packages are ordered by their modification times
		}
		before := w.gate.Count("A")
		_ = call(func() error { return w.clients["A"].repo.CleanEntry(ctx, key) }, 10*time.Second)
		total := w.gate.Count("A") - before
		w.close()
		for k := 1; k <= total; k++ {
			id++
			if err := oneCleanSweep(id, backend, k, a.Dir, out); err != nil {
				return err
			}
			out.Flush()
		}
	}
	out.Write(ilEvent{Op: "End"})
	return nil
}

func oneCleanSweep(id int, backend string, k int, scratch string, out *hk.Writer) error {
	ctx := context.Background()
	w, err := newWorld(backend, "immutable", []string{"A", "B"}, scratch)
	if err != nil {
		return err
	}
	defer w.close()
	out.Write(ilEvent{Op: "Begin", ID: id, Cache: "immutable", Backend: backend, Seq: k})
	for v := 1; v <= 2; v++ {
		if v > 1 {
			out.Write(ilEvent{Op: "StoreBegin", ID: id, C: "A", V: v})
		}
		if r := call(func() error { return w.clients["A"].repo.Store(ctx, key, w.src(v)) }, 10*time.Second); r != "" {
			return fmt.Errorf("baseline Store(v%d) failed: %s", v, r)
		}
		out.Write(ilEvent{Op: "Stored", ID: id, C: "A", V: v, Result: "", Quiet: true})
		time.Sleep(15 * time.Millisecond)
	}
	// A's CleanEntry, stopped before its k-th backend call
	w.gate.SetGating("A", true)
	w.gate.SetGating("B", false)
	aDone := make(chan string, 1)
	go func() {
		aDone <- call(func() error { return w.clients["A"].repo.CleanEntry(ctx, key) }, 15*time.Second)
	}()
	finished := false
	for step := 1; step < k && !finished; step++ {
		deadline := time.Now().Add(3 * time.Second)
		for w.gate.Peek("A") == nil && time.Now().Before(deadline) && !finished {
			select {
			case <-aDone:
				finished = true
			case <-time.After(200 * time.Microsecond):
			}
		}
		if p := w.gate.Peek("A"); p != nil {
			w.gate.Release(p, fsgate.Proceed)
		}
	}
	if !finished {
		// wait until A is parked at its k-th call (or has finished)
		deadline := time.Now().Add(3 * time.Second)
		for w.gate.Peek("A") == nil && time.Now().Before(deadline) && !finished {
			select {
			case <-aDone:
				finished = true
			case <-time.After(200 * time.Microsecond):
			}
		}
	}
	// B: a complete Store in the middle of it
	out.Write(ilEvent{Op: "StoreBegin", ID: id, C: "B", V: 3})
	bRes := call(func() error { return w.clients["B"].repo.Store(ctx, key, w.src(3)) }, 10*time.Second)
	out.Write(ilEvent{Op: "Stored", ID: id, C: "B", V: 3, Result: bRes, Quiet: true})
	// A goes on
	w.gate.SetGating("A", false)
	for t := time.Now(); !finished && time.Since(t) < 10*time.Second; {
		if p := w.gate.Peek("A"); p != nil {
			w.gate.Release(p, fsgate.Proceed)
		}
		select {
		case <-aDone:
			finished = true
		case <-time.After(200 * time.Microsecond):
		}
	}
	res := call(func() error { return w.clients["B"].repo.Fetch(ctx, key, w.clients["B"].dest) }, 5*time.Second)
	out.Write(ilEvent{Op: "FinalFetch", ID: id, C: "B", Result: res, Match: w.classify(w.clients["B"].dest), Quiet: true, Zombie: w.zombieLock()})
	return nil
}

// ---- lock time-out: a client that gives up waiting for the entry's lock must leave the holder's lock alone -----------
//
// Lock-based cache, three clients.  A's Store(v2) is stopped inside its transfer (it holds the entry's lock); B's Fetch
// waits for the lock and times out; then C runs a Store(v3) (it can only get the lock if B's time-out broke it), A is
// let go, and a final Fetch is made.  SharedCacheTrace.tla orders the Stores by their critical sections.

func locktimeout(a *hk.Args) error {
	out, err := hk.NewWriter(a.Out)
	if err != nil {
		return err
	}
	defer out.Close()
	id := 400000
	for _, backend := range []string{"mem", "os"} {
		for _, depth := range []int{1, 4, 12} { // how many backend calls into its critical section A is stopped
			id++
			if err := oneLockTimeout(id, backend, depth, a.Dir, out); err != nil {
				return err
			}
			out.Flush()
		}
	}
	out.Write(ilEvent{Op: "End"})
	return nil
}

func oneLockTimeout(id int, backend string, depth int, scratch string, out *hk.Writer) error {
	ctx := context.Background()
	w, err := newWorld(backend, "mutable", []string{"A", "B", "C"}, scratch)
	if err != nil {
		return err
	}
	defer w.close()
	out.Write(ilEvent{Op: "Begin", ID: id, Cache: "mutable", Backend: backend, Seq: depth})
	if r := call(func() error { return w.clients["A"].repo.Store(ctx, key, w.src(1)) }, 10*time.Second); r != "" {
		return fmt.Errorf("baseline Store(v1) failed: %s", r)
	}
	out.Write(ilEvent{Op: "Stored", ID: id, C: "A", V: 1, Result: "", Quiet: true})
	lockDir, _ := w.lockPaths()
	var smu sync.Mutex
	storingNow := map[string]bool{}
	acquired := make(chan string, 8)
	w.gate.OnEvent = func(g *fsgate.Event) {
		if g.Op == "Mkdir" && g.OK && filepath.Clean(g.Path) == lockDir {
			smu.Lock()
			in := storingNow[g.Owner]
			smu.Unlock()
			if in {
				out.Write(ilEvent{Op: "LockAcquired", ID: id, C: g.Owner})
				select {
				case acquired <- g.Owner:
				default:
				}
			}
		}
	}
	for _, c := range []string{"A", "B", "C"} {
		w.gate.SetGating(c, false)
		w.gate.SetGating(c+".hb", false)
	}
	// A: Store(v2), stopped `depth` backend calls after it has the lock
	w.gate.SetGating("A", true)
	smu.Lock()
	storingNow["A"] = true
	smu.Unlock()
	out.Write(ilEvent{Op: "StoreBegin", ID: id, C: "A", V: 2})
	aDone := make(chan string, 1)
	go func() {
		aDone <- call(func() error { return w.clients["A"].repo.Store(ctx, key, w.src(2)) }, 20*time.Second)
	}()
	inside, after, aFinished, aRes := false, 0, false, ""
	for t := time.Now(); time.Since(t) < 10*time.Second && !aFinished; {
		select {
		case <-acquired:
			inside = true
		case aRes = <-aDone:
			aFinished = true
		default:
		}
		if inside && after >= depth {
			break
		}
		if p := w.gate.Peek("A"); p != nil {
			w.gate.Release(p, fsgate.Proceed)
			if inside {
				after++
			}
		} else {
			time.Sleep(200 * time.Microsecond)
		}
	}
	if aFinished || !inside {
		return fmt.Errorf("lock time-out scenario %d: Store(v2) was not stopped inside its critical section (finished=%v inside=%v %s)", id, aFinished, inside, aRes)
	}
	// B: a Fetch that has to wait for the lock and gives up (the repository's lock time-out is 400 ms)
	out.Write(ilEvent{Op: "FetchBegin", ID: id, C: "B"})
	bRes := call(func() error { return w.clients["B"].repo.Fetch(ctx, key, w.clients["B"].dest) }, 10*time.Second)
	out.Write(ilEvent{Op: "Fetched", ID: id, C: "B", Result: bRes, Match: w.classify(w.clients["B"].dest)})
	// C: a Store while A is still inside
	smu.Lock()
	storingNow["C"] = true
	smu.Unlock()
	out.Write(ilEvent{Op: "StoreBegin", ID: id, C: "C", V: 3})
	cRes := call(func() error { return w.clients["C"].repo.Store(ctx, key, w.src(3)) }, 10*time.Second)
	smu.Lock()
	storingNow["C"] = false
	smu.Unlock()
	out.Write(ilEvent{Op: "Stored", ID: id, C: "C", V: 3, Result: cRes})
	// A goes on
	w.gate.SetGating("A", false)
	for t := time.Now(); !aFinished && time.Since(t) < 15*time.Second; {
		if p := w.gate.Peek("A"); p != nil {
			w.gate.Release(p, fsgate.Proceed)
		}
		select {
		case aRes = <-aDone:
			aFinished = true
		case <-time.After(200 * time.Microsecond):
		}
	}
	smu.Lock()
	storingNow["A"] = false
	smu.Unlock()
	if !aFinished {
		aRes = "blocked"
	}
	out.Write(ilEvent{Op: "Stored", ID: id, C: "A", V: 2, Result: aRes})
	res := call(func() error { return w.clients["C"].repo.Fetch(ctx, key, w.clients["C"].dest) }, 5*time.Second)
	out.Write(ilEvent{Op: "FinalFetch", ID: id, C: "C", Result: res, Match: w.classify(w.clients["C"].dest), Quiet: true, Zombie: w.zombieLock()})
	return nil
}

// ---- late heart beat: the lock's heart beat is not waited for by Unlock --------------------------------------------------
//
// Lock-based cache, two clients.  The heart beat of A's lock is held at its first backend call (it has passed its context
// test); A's Store(v1) completes - the release cancels the heart beat and removes the lock directory - and only then is the
// held heart-beat write let go.  On the OS backend the write fails (no such directory); the in-memory backend re-creates the
// directory.  Then B fetches.  (ids 500001: mem, 500002: os)

func lateHeartbeat(a *hk.Args) error {
	out, err := hk.NewWriter(a.Out)
	if err != nil {
		return err
	}
	defer out.Close()
	ctx := context.Background()
	id := 500000
	for _, backend := range []string{"mem", "os"} {
		id++
		// the directed schedule is realised when the heart beat is found held at a backend call once the Store is over; a heart beat
		// that had not reached its first call by then (it ends at its context test) is tried again
		for attempt := 1; attempt <= 8; attempt++ {
			w, err := newWorld(backend, "mutable", []string{"A", "B"}, a.Dir)
			if err != nil {
				return err
			}
			for _, c := range []string{"A", "B"} {
				w.gate.SetGating(c, false)
				w.gate.SetGating(c+".hb", false)
			}
			w.gate.SetGating("A.hb", true)
			// (the first Store of an entry is reported without a StoreBegin, as everywhere)
			res := call(func() error { return w.clients["A"].repo.Store(ctx, key, w.src(1)) }, 20*time.Second)
			held := w.gate.Peek("A.hb") != nil
			w.gate.SetGating("A.hb", false)
			if !held && attempt < 8 {
				w.close()
				continue
			}
			out.Write(ilEvent{Op: "Begin", ID: id, Cache: "mutable", Backend: backend, Seq: attempt})
			out.Write(ilEvent{Op: "Stored", ID: id, C: "A", V: 1, Result: res, Quiet: true})
			for i := 0; i < 50; i++ {
				if p := w.gate.Peek("A.hb"); p != nil {
					w.gate.Release(p, fsgate.Proceed)
					continue
				}
				time.Sleep(2 * time.Millisecond)
			}
			out.Write(ilEvent{Op: "FetchBegin", ID: id, C: "B"})
			fres := call(func() error { return w.clients["B"].repo.Fetch(ctx, key, w.clients["B"].dest) }, 10*time.Second)
			out.Write(ilEvent{Op: "FinalFetch", ID: id, C: "B", Result: fres, Match: w.classify(w.clients["B"].dest), Quiet: true, Zombie: w.zombieLock(), Seq: map[bool]int{true: 1, false: 0}[held]})
			w.close()
			out.Flush()
			break
		}
	}
	out.Write(ilEvent{Op: "End"})
	return nil
}
