package c05

// Binding of specs/proc/Supervisor.tla: the real supervisor runs scripted commands (the harness re-executed: exit 0,
// exit 1 = a failure that is not halting, exit 3 = the halting error, or a small process tree that sleeps until it is
// interrupted), hooks record what happens and may fail as scripted, the context is cancelled at a scripted place.
// SupervisorTrace.tla re-runs the loop over the recorded events.

import (
	"context"
	"encoding/json"
	"errors"
	"fmt"
	"os"
	"path/filepath"
	"sync"
	"sync/atomic"
	"time"

	"github.com/ARM-software/golang-utils/utils/subprocess"
	"github.com/ARM-software/golang-utils/utils/subprocess/supervisor"

	"verifharness/internal/hk"
)

func init() {
	hk.Register("c05", "supervisor", supervisorReplay)
	hk.Register("c05", "exit", exitChild)
}

// exitChild: "vh c05 exit -x code=N -x sleep=ms"
func exitChild(a *hk.Args) error {
	ms := 30
	fmt.Sscan(a.Extra["sleep"], &ms)
	code := 0
	fmt.Sscan(a.Extra["code"], &code)
	time.Sleep(time.Duration(ms) * time.Millisecond)
	os.Exit(code)
	return nil
}

type supScenario struct {
	Script   []string `json:"script"`
	HookFail []any    `json:"hookFail"` // [iteration, hook]
	// where the context is cancelled: 0 = never, k = while the command of iteration k runs (a sleeping tree)
	CancelAt int `json:"cancelAt"`
	// the model's expectation
	Log    [][]any `json:"log"`
	Ret    string  `json:"ret"`
	Leaked []int   `json:"leaked"`
}

type supEvent struct {
	Op        string   `json:"op"`
	ID        int      `json:"id"`
	Script    []string `json:"script"`
	FailIter  int      `json:"failIter"`
	FailHook  string   `json:"failHook"`
	CancelAt  int      `json:"cancelAt"`
	Events    [][]any  `json:"events"` // [name, iteration] in the order observed
	Ret       string   `json:"ret"`    // nil | context | halting | unexpected | other:...
	Returned  bool     `json:"returned"`
	LatencyMs int      `json:"latencyMs"` // from the cancellation to the return (cancelled runs)
	Alive     []int    `json:"alive"`     // iterations whose command (or a descendant in its group) is alive 300 ms after the return
	ExpLog    [][]any  `json:"expectedLog"`
	ExpRet    string   `json:"expectedRet"`
	ExpLeaked []int    `json:"expectedLeaked"`
	Names     [][]any  `json:"names"`     // observed [hook or start, iteration] within the script, outcome suffixes removed
	StopKinds [][]any  `json:"stopKinds"` // [iteration, "ok" | "failed"] as handed to postStop
}

func runSupervisor(id int, sc supScenario, scratch string) (supEvent, error) {
	ev := supEvent{Op: "Supervise", ID: id, Script: sc.Script, CancelAt: sc.CancelAt, Events: [][]any{}, Alive: []int{}, FailHook: "none",
		ExpLog: sc.Log, ExpRet: sc.Ret, ExpLeaked: sc.Leaked, Names: [][]any{}, StopKinds: [][]any{}}
	if ev.ExpLog == nil {
		ev.ExpLog = [][]any{}
	}
	if ev.ExpLeaked == nil {
		ev.ExpLeaked = []int{}
	}
	if len(sc.HookFail) == 2 {
		if f, ok := sc.HookFail[0].(float64); ok {
			ev.FailIter = int(f)
		}
		ev.FailHook, _ = sc.HookFail[1].(string)
	}
	dir, err := os.MkdirTemp(scratch, "c05s-")
	if err != nil {
		return ev, err
	}
	defer os.RemoveAll(dir)
	self, _ := os.Executable()
	var mu sync.Mutex
	record := func(name string, i int) {
		mu.Lock()
		ev.Events = append(ev.Events, []any{name, i})
		mu.Unlock()
	}
	var iter atomic.Int32 // iteration in progress (1-based); advanced by preStart
	ctx, cancel := context.WithCancel(context.Background())
	defer cancel()
	var cancelledAt atomic.Int64
	errHook := errors.New("scripted hook failure")
	fails := func(h string) bool { return ev.FailHook == h && int(iter.Load()) == ev.FailIter }
	var pidDirs []string
	newCommand := func(c context.Context) (*subprocess.Subprocess, error) {
		i := int(iter.Load())
		if fails("newCommand") {
			return nil, errHook
		}
		record("start", i)
		if i == sc.CancelAt {
			// a small tree that sleeps until it is interrupted: a descendant in the group which keeps the output pipes
			d := filepath.Join(dir, fmt.Sprintf("tree-%d", i))
			_ = os.MkdirAll(d, 0o755)
			pidDirs = append(pidDirs, d)
			root := nodeSpec{ID: 0, PidDir: d, Holds: true, Children: []nodeSpec{{ID: 1, Holds: true}}}
			b, _ := json.Marshal(root)
			f := filepath.Join(d, "spec-0.json")
			_ = os.WriteFile(f, b, 0o644)
			go func() {
				// cancel once the tree is up
				for t := time.Now(); time.Since(t) < 5*time.Second; time.Sleep(5 * time.Millisecond) {
					if _, _, ok := readPid(d, 1); ok {
						break
					}
				}
				if ev.FailHook == "postStart" && ev.FailIter == i {
					return // the run is over before the supervisor gets to wait for this command (model: no Cancel enabled)
				}
				time.Sleep(30 * time.Millisecond) // let the supervisor reach its wait
				cancelledAt.Store(time.Now().UnixNano())
				cancel()
			}()
			return subprocess.New(c, quiet{}, "", "", "", self, "c05", "node", "--in", f)
		}
		code := map[string]int{"ok": 0, "fail": 1, "halt": 3}[sc.Script[(i-1)%len(sc.Script)]]
		return subprocess.New(c, quiet{}, "", "", "", self, "c05", "exit", "-x", fmt.Sprintf("code=%d", code), "-x", "sleep=20")
	}
	sup := supervisor.NewSupervisor(newCommand,
		supervisor.WithPreStart(func(context.Context) error {
			i := int(iter.Add(1))
			record("preStart", i)
			if i > len(sc.Script) {
				// the script is over: end the run (recorded as such)
				record("scriptEnd", i)
				cancel()
				return context.Canceled
			}
			if fails("preStart") {
				return errHook
			}
			return nil
		}),
		supervisor.WithPostStart(func(context.Context) error {
			record("postStart", int(iter.Load()))
			if fails("postStart") {
				return errHook
			}
			return nil
		}),
		supervisor.WithPostStop(func(_ context.Context, perr error) error {
			kind := "ok"
			if perr != nil {
				kind = "failed"
			}
			record("postStop:"+kind, int(iter.Load()))
			if fails("postStop") {
				return errHook
			}
			return nil
		}),
		supervisor.WithHaltingErrors(errors.New("exit status 3")),
	)
	done := make(chan error, 1)
	go func() { done <- sup.Run(ctx) }()
	var rerr error
	select {
	case rerr = <-done:
		ev.Returned = true
	case <-time.After(20 * time.Second):
		cancel()
		select {
		case rerr = <-done:
		case <-time.After(10 * time.Second):
		}
	}
	if c := cancelledAt.Load(); c != 0 {
		ev.LatencyMs = int((time.Now().UnixNano() - c) / 1e6)
	}
	switch {
	case rerr == nil:
		ev.Ret = "nil"
	case errors.Is(rerr, errHook) || hk.Kind(rerr) == "unexpected":
		ev.Ret = "unexpected"
	case hk.Kind(rerr) == "cancelled" || hk.Kind(rerr) == "timeout" || errors.Is(rerr, context.Canceled):
		ev.Ret = "context"
	default:
		if len(rerr.Error()) >= 13 && rerr.Error()[:13] == "exit status 3" {
			ev.Ret = "halting"
		} else {
			ev.Ret = "other:" + rerr.Error()
		}
	}
	time.Sleep(300 * time.Millisecond)
	for _, d := range pidDirs {
		still := false
		for _, n := range []int{0, 1} {
			if pid, _, ok := readPid(d, n); ok && alive(pid) {
				still = true
				_ = killPid(pid)
			}
		}
		if still {
			ev.Alive = append(ev.Alive, sc.CancelAt)
		}
	}
	mu.Lock()
	for _, e := range ev.Events {
		name, _ := e[0].(string)
		i, _ := e[1].(int)
		if i > len(sc.Script) || name == "scriptEnd" {
			continue
		}
		if len(name) > 9 && name[:9] == "postStop:" {
			ev.StopKinds = append(ev.StopKinds, []any{i, name[9:]})
			name = "postStop"
		}
		ev.Names = append(ev.Names, []any{name, i})
	}
	mu.Unlock()
	cancel()
	return ev, nil
}

func killPid(pid int) error {
	p, err := os.FindProcess(pid)
	if err != nil {
		return err
	}
	return p.Kill()
}

func supervisorReplay(a *hk.Args) error {
	scs, err := hk.ReadNDJSON[supScenario](a.In)
	if err != nil {
		return err
	}
	w, err := hk.NewWriter(a.Out)
	if err != nil {
		return err
	}
	defer w.Close()
	evs := make([]supEvent, len(scs))
	errs := make([]error, len(scs))
	var wg sync.WaitGroup
	sem := make(chan struct{}, 8)
	for i := range scs {
		wg.Add(1)
		sem <- struct{}{}
		go func(i int) {
			defer wg.Done()
			defer func() { <-sem }()
			evs[i], errs[i] = runSupervisor(i+1, scs[i], a.Dir)
		}(i)
	}
	wg.Wait()
	for i := range evs {
		if errs[i] != nil {
			return errs[i]
		}
		w.Write(evs[i])
	}
	return nil
}
