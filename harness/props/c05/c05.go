// Package c05 binds specs/proc/ProcTree.tla to utils/subprocess: every scenario of the model becomes a real process
// tree - the harness binary re-executed as "vh c05 node" for the direct child and each descendant, which leave the
// group, ignore SIGTERM, keep or drop the inherited output pipes and exit early as scripted, and record their pids -
// started through Execute / Start and stopped through the context, Cancel() or Stop(). What survives after the call
// returned, how long it took and IsOn() are recorded for ProcTreeTrace.tla.
package c05

import (
	"context"
	"encoding/json"
	"fmt"
	"os"
	"os/exec"
	"os/signal"
	"path/filepath"
	"sort"
	"strconv"
	"strings"
	"sync"
	"syscall"
	"time"

	"github.com/ARM-software/golang-utils/utils/subprocess"
	commandUtils "github.com/ARM-software/golang-utils/utils/subprocess/command"

	"verifharness/internal/hk"
)

func init() {
	hk.Register("c05", "replay", replay)
	hk.Register("c05", "node", node)
}

// ---- a node of the tree ----------------------------------------------------------------------------

type nodeSpec struct {
	ID         int        `json:"id"`
	LeaveGroup bool       `json:"leaveGroup"`
	IgnTerm    bool       `json:"ignTerm"`
	Holds      bool       `json:"holds"`
	ExitEarly  bool       `json:"exitEarly"`
	FirstRun   bool       `json:"firstRunExits"` // the first time this command is run it exits at once (0): the earlier, completed, run of a re-used object
	PidDir     string     `json:"pidDir"`
	Children   []nodeSpec `json:"children"`
}

func node(a *hk.Args) error {
	b, err := os.ReadFile(a.In)
	if err != nil {
		return err
	}
	var sp nodeSpec
	if err := json.Unmarshal(b, &sp); err != nil {
		return err
	}
	if sp.FirstRun {
		marker := filepath.Join(sp.PidDir, "ran-once")
		if _, err := os.Stat(marker); err != nil {
			_ = os.WriteFile(marker, []byte("x"), 0o644)
			os.Exit(0)
		}
	}
	if sp.LeaveGroup {
		_, _ = syscall.Setsid()
	}
	if sp.IgnTerm {
		signal.Ignore(syscall.SIGTERM)
	}
	if !sp.Holds {
		// give the inherited output pipes up
		if null, err := os.OpenFile(os.DevNull, os.O_WRONLY, 0); err == nil {
			_ = syscall.Dup2(int(null.Fd()), 1)
			_ = syscall.Dup2(int(null.Fd()), 2)
		}
	}
	self, _ := os.Executable()
	for _, c := range sp.Children {
		c.PidDir = sp.PidDir
		f := filepath.Join(sp.PidDir, fmt.Sprintf("spec-%d.json", c.ID))
		cb, _ := json.Marshal(c)
		_ = os.WriteFile(f, cb, 0o644)
		cmd := exec.Command(self, "c05", "node", "--in", f)
		cmd.Stdout, cmd.Stderr = os.Stdout, os.Stderr
		if err := cmd.Start(); err != nil {
			_ = os.WriteFile(filepath.Join(sp.PidDir, fmt.Sprintf("err-%d", c.ID)), []byte(err.Error()), 0o644)
		}
	}
	pgid, _ := syscall.Getpgid(os.Getpid())
	_ = os.WriteFile(filepath.Join(sp.PidDir, fmt.Sprintf("pid-%d.tmp", sp.ID)), []byte(fmt.Sprintf("%d %d", os.Getpid(), pgid)), 0o644)
	_ = os.Rename(filepath.Join(sp.PidDir, fmt.Sprintf("pid-%d.tmp", sp.ID)), filepath.Join(sp.PidDir, fmt.Sprintf("pid-%d", sp.ID)))
	if sp.ExitEarly {
		// once the children have recorded themselves
		for t := time.Now(); time.Since(t) < 10*time.Second; time.Sleep(5 * time.Millisecond) {
			all := true
			for _, c := range sp.Children {
				if _, err := os.Stat(filepath.Join(sp.PidDir, fmt.Sprintf("pid-%d", c.ID))); err != nil {
					all = false
				}
			}
			if all {
				break
			}
		}
		os.Exit(0)
	}
	time.Sleep(120 * time.Second)
	return nil
}

// ---- scenarios --------------------------------------------------------------------------------------

type scenario struct {
	Parent    []int  `json:"parent"` // indexed by descendant - 1
	InGroup   []bool `json:"inGroup"`
	IgnTerm   []bool `json:"ignTerm"`
	Holds     []bool `json:"holds"`
	RootExits bool   `json:"rootExits"`
	StartMode string `json:"startMode"`
	StopMode  string `json:"stopMode"`
	RootIgn   bool   `json:"rootIgnTerm"` // the direct child ignores SIGTERM
	Reused    bool   `json:"reused"`      // the Subprocess object has been started and stopped once before
	Launcher  string `json:"launcher"`    // direct | translated (through a command translator: env, which execs the command)
	Desc      []int  `json:"desc"`
}

type treeEvent struct {
	Op          string `json:"op"`
	ID          int    `json:"id"`
	StartMode   string `json:"startMode"`
	StopMode    string `json:"stopMode"`
	Launcher    string `json:"launcher"`
	RootExits   bool   `json:"rootExits"`
	Spawned     []int  `json:"spawned"`   // descendants that recorded a pid
	InGroup     []int  `json:"inGroup"`   // of those, the ones measured to be in the direct child's process group
	Returned    bool   `json:"returned"`  // the call returned (or IsOn became false) within the bound
	LatencyMs   int    `json:"latencyMs"` // from the stop request
	BoundMs     int    `json:"boundMs"`
	Survivors   []int  `json:"survivors"`   // descendants (0 = the direct child) alive 300 ms after the return
	SurvivorsIn []int  `json:"survivorsIn"` // of those, in the group
	IsOn        bool   `json:"isOn"`
	IsOnAtRet   bool   `json:"isOnAtReturn"` // IsOn() asked by the caller the moment Execute() / Stop() returned
	Result      string `json:"result"`
	SetupOK     bool   `json:"setupOk"`
	Note        string `json:"note,omitempty"`
	Scenario    string `json:"scenario"`
}

func alive(pid int) bool {
	b, err := os.ReadFile(fmt.Sprintf("/proc/%d/stat", pid))
	if err != nil {
		return false
	}
	s := string(b)
	i := strings.LastIndex(s, ")")
	if i < 0 || i+2 >= len(s) {
		return false
	}
	state := s[i+2]
	return state != 'Z' && state != 'X'
}

func readPid(dir string, id int) (pid, pgid int, ok bool) {
	b, err := os.ReadFile(filepath.Join(dir, fmt.Sprintf("pid-%d", id)))
	if err != nil {
		return 0, 0, false
	}
	parts := strings.Fields(string(b))
	if len(parts) != 2 {
		return 0, 0, false
	}
	pid, _ = strconv.Atoi(parts[0])
	pgid, _ = strconv.Atoi(parts[1])
	return pid, pgid, true
}

type quiet struct{}

func (quiet) Close() error                 { return nil }
func (quiet) Check() error                 { return nil }
func (quiet) SetLogSource(string) error    { return nil }
func (quiet) SetLoggerSource(string) error { return nil }
func (quiet) Log(...interface{})           {}
func (quiet) LogError(...interface{})      {}

const boundMs = 12000

// deadlineAfter: stop mode "deadline" - the time limit of the context, counted from the creation of the subprocess object
const deadlineAfter = 900 * time.Millisecond

func runTree(id int, sc scenario, scratch string) (treeEvent, error) {
	b, _ := json.Marshal(sc)
	ev := treeEvent{Op: "Tree", ID: id, StartMode: sc.StartMode, StopMode: sc.StopMode, Launcher: sc.Launcher, RootExits: sc.RootExits, BoundMs: boundMs,
		Spawned: []int{}, InGroup: []int{}, Survivors: []int{}, SurvivorsIn: []int{}, Scenario: string(b)}
	dir, err := os.MkdirTemp(scratch, "c05-")
	if err != nil {
		return ev, err
	}
	defer os.RemoveAll(dir)
	// the tree
	var build func(id int) nodeSpec
	build = func(id int) nodeSpec {
		n := nodeSpec{ID: id, PidDir: dir, Holds: true}
		if id > 0 {
			n.LeaveGroup, n.IgnTerm, n.Holds = !sc.InGroup[id-1], sc.IgnTerm[id-1], sc.Holds[id-1]
			// leaving the group is inherited in the model: a child of a process that left follows its parent's session anyway
			if p := sc.Parent[id-1]; p > 0 && !sc.InGroup[p-1] {
				n.LeaveGroup = false
			}
		} else {
			n.ExitEarly = sc.RootExits
			n.IgnTerm = sc.RootIgn
			n.FirstRun = sc.Reused
		}
		for _, d := range sc.Desc {
			if sc.Parent[d-1] == id {
				n.Children = append(n.Children, build(d))
			}
		}
		return n
	}
	root := build(0)
	rb, _ := json.Marshal(root)
	specFile := filepath.Join(dir, "spec-0.json")
	if err := os.WriteFile(specFile, rb, 0o644); err != nil {
		return ev, err
	}
	self, _ := os.Executable()
	ctx, cancel := context.WithCancel(context.Background())
	defer cancel()
	var expiry time.Time
	if sc.StopMode == "deadline" { // the context ends by itself, by its time limit
		expiry = time.Now().Add(deadlineAfter)
		if sc.Reused {
			expiry = expiry.Add(deadlineAfter)
		}
		ctx, cancel = context.WithDeadline(context.Background(), expiry)
		defer cancel()
	}
	var p *subprocess.Subprocess
	if sc.Launcher == "translated" {
		p = new(subprocess.Subprocess)
		err = p.SetupAs(ctx, quiet{}, "", "", "", commandUtils.NewCommandAsDifferentUser("env"), self, "c05", "node", "--in", specFile)
	} else {
		p, err = subprocess.New(ctx, quiet{}, "", "", "", self, "c05", "node", "--in", specFile)
	}
	if err != nil {
		return ev, err
	}
	// whatever happens, nothing of the tree outlives this function
	defer func() {
		for _, d := range append([]int{0}, sc.Desc...) {
			if pid, _, ok := readPid(dir, d); ok && pid > 1 {
				_ = syscall.Kill(pid, syscall.SIGKILL)
			}
		}
	}()
	if sc.Reused {
		// an earlier, completed, run of the same object: the first time the command is run it exits at once
		first := make(chan error, 1)
		go func() { first <- p.Execute() }()
		select {
		case err := <-first:
			if err != nil {
				ev.Note = "the first (short) run of the re-used object failed: " + err.Error()
				return ev, nil
			}
		case <-time.After(15 * time.Second):
			ev.Note = "the first (short) run of the re-used object did not end"
			return ev, nil
		}
		time.Sleep(20 * time.Millisecond)
	}
	done := make(chan error, 1)
	if sc.StartMode == "execute" {
		go func() { done <- p.Execute() }()
	} else {
		if err := p.Start(); err != nil {
			ev.Note = "Start failed: " + err.Error()
			return ev, nil
		}
	}
	// wait for the whole tree to have recorded itself
	deadline := time.Now().Add(10 * time.Second)
	for {
		n := 0
		for _, d := range append([]int{0}, sc.Desc...) {
			if _, _, ok := readPid(dir, d); ok {
				n++
			}
		}
		if n == len(sc.Desc)+1 {
			ev.SetupOK = true
			break
		}
		if time.Now().After(deadline) {
			ev.Note = fmt.Sprintf("only %d of %d processes recorded themselves", n, len(sc.Desc)+1)
			break
		}
		time.Sleep(5 * time.Millisecond)
	}
	rootPid, rootPgid, _ := readPid(dir, 0)
	if sc.RootExits { // let the direct child go first
		for t := time.Now(); alive(rootPid) && time.Since(t) < 5*time.Second; {
			time.Sleep(5 * time.Millisecond)
		}
		time.Sleep(20 * time.Millisecond)
	}
	for _, d := range sc.Desc {
		if _, pgid, ok := readPid(dir, d); ok {
			ev.Spawned = append(ev.Spawned, d)
			if pgid == rootPgid {
				ev.InGroup = append(ev.InGroup, d)
			}
		}
	}
	// the stop request
	if sc.StopMode == "deadline" {
		if !ev.SetupOK || time.Until(expiry) < 20*time.Millisecond {
			ev.SetupOK = false
			ev.Note = "the time limit of the context passed before the tree was up"
			return ev, nil
		}
		time.Sleep(time.Until(expiry) - time.Millisecond)
	}
	t0 := time.Now()
	returned := make(chan struct{})
	go func() {
		defer close(returned)
		switch sc.StopMode {
		case "ctx":
			cancel()
		case "deadline":
			<-ctx.Done()
		case "cancel":
			p.Cancel()
		case "stop":
			_ = p.Stop()
		}
		if sc.StartMode == "execute" {
			err := <-done
			ev.IsOnAtRet = p.IsOn()
			if err == nil {
				ev.Result = "nil"
			} else {
				ev.Result = hk.Kind(err)
			}
			return
		}
		for p.IsOn() && time.Since(t0) < boundMs*time.Millisecond {
			time.Sleep(2 * time.Millisecond)
		}
	}()
	select {
	case <-returned:
		ev.Returned = !(sc.StartMode == "start" && p.IsOn())
	case <-time.After(boundMs * time.Millisecond):
	}
	ev.LatencyMs = int(time.Since(t0) / time.Millisecond)
	time.Sleep(300 * time.Millisecond)
	ev.IsOn = p.IsOn()
	for _, d := range append([]int{0}, sc.Desc...) {
		pid, pgid, ok := readPid(dir, d)
		if ok && alive(pid) {
			ev.Survivors = append(ev.Survivors, d)
			if pgid == rootPgid {
				ev.SurvivorsIn = append(ev.SurvivorsIn, d)
			}
		}
	}
	sort.Ints(ev.Survivors)
	return ev, nil
}

func replay(a *hk.Args) error {
	scs, err := hk.ReadNDJSON[scenario](a.In)
	if err != nil {
		return err
	}
	w, err := hk.NewWriter(a.Out)
	if err != nil {
		return err
	}
	defer w.Close()
	evs := make([]treeEvent, len(scs))
	errs := make([]error, len(scs))
	var wg sync.WaitGroup
	sem := make(chan struct{}, 16)
	for i := range scs {
		wg.Add(1)
		sem <- struct{}{}
		go func(i int) {
			defer wg.Done()
			defer func() { <-sem }()
			evs[i], errs[i] = runTree(i+1, scs[i], a.Dir)
		}(i)
	}
	wg.Wait()
	for i := range evs {
		if errs[i] != nil {
			return errs[i]
		}
		w.Write(evs[i])
	}
	return nil
}
