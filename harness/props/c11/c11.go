// Package c11 binds specs/data/ErrorKinds.tla to utils/commonerrors and the error converters.
package c11

import (
	"bufio"
	"context"
	"encoding/json"
	"errors"
	"fmt"
	"io"
	"math/rand"
	"os"
	"os/exec"
	"sort"
	"strings"
	"syscall"

	"github.com/shirou/gopsutil/v4/process"
	"github.com/spf13/afero"

	"github.com/ARM-software/golang-utils/utils/commonerrors"
	"github.com/ARM-software/golang-utils/utils/filesystem"
	"github.com/ARM-software/golang-utils/utils/proc"
	"github.com/ARM-software/golang-utils/utils/safeio"

	"verifharness/internal/hk"
)

func init() {
	hk.Register("c11", "replay", replay)
	hk.Register("c11", "record", record)
	hk.Register("c11", "child", child)
}

type layer struct {
	Ctor string `json:"ctor"`
	Kind string `json:"kind"`
	Msg  string `json:"msg"`
}

type scenario struct {
	Layers   []layer `json:"layers"`
	Kind     string  `json:"kind"`
	Text     string  `json:"text"`
	Ser      string  `json:"ser"`
	RtKind   string  `json:"rtKind"`
	RtReason string  `json:"rtReason"`
}

// build constructs the error chain with the real constructors; `variant` chooses between the plain and
// the formatting constructors (New/Newf/Errorf, WrapError/WrapErrorf, ...).
func build(layers []layer, variant int) error {
	var err error
	for i, l := range layers {
		f := (variant+i)%2 == 1
		switch l.Ctor {
		case "plain":
			err = errors.New(l.Msg)
		case "rawcancel":
			err = context.Canceled
		case "rawdeadline":
			err = context.DeadlineExceeded
		case "New":
			switch (variant + i) % 3 {
			case 0:
				err = commonerrors.New(hk.KindError(l.Kind), l.Msg)
			case 1:
				err = commonerrors.Newf(hk.KindError(l.Kind), "%v", l.Msg)
			default:
				err = commonerrors.Errorf(hk.KindError(l.Kind), "%v", l.Msg)
			}
		case "WrapError":
			if f {
				err = commonerrors.WrapErrorf(hk.KindError(l.Kind), err, "%v", l.Msg)
			} else {
				err = commonerrors.WrapError(hk.KindError(l.Kind), err, l.Msg)
			}
		case "WrapIfNotCommonError":
			if f {
				err = commonerrors.WrapIfNotCommonErrorf(hk.KindError(l.Kind), err, "%v", l.Msg)
			} else {
				err = commonerrors.WrapIfNotCommonError(hk.KindError(l.Kind), err, l.Msg)
			}
		case "NewOnError":
			if f {
				err = commonerrors.Newf(err, "%v", l.Msg)
			} else {
				err = commonerrors.New(err, l.Msg)
			}
		}
	}
	return err
}

// kindsOf lists every one of the 30 kinds the error is recognised as.
func kindsOf(err error) []string {
	var ks []string
	if err == nil {
		return ks
	}
	for _, k := range hk.KindNames() {
		if commonerrors.Any(err, hk.KindError(k)) {
			ks = append(ks, k)
		}
	}
	return ks
}

func stripColonSpace(s string) string {
	parts := strings.Split(s, ":")
	for i := range parts {
		parts[i] = strings.TrimSpace(parts[i])
	}
	return strings.Join(parts, ":")
}

func has(ks []string, k string) bool {
	for _, x := range ks {
		if x == k {
			return true
		}
	}
	return false
}

type childReq struct {
	ID   int    `json:"id"`
	Text string `json:"text"`
}
type childResp struct {
	ID     int      `json:"id"`
	Kinds  []string `json:"kinds"`
	Reason string   `json:"reason"`
	Err    string   `json:"err"`
	Nil    bool     `json:"nil"`
}

// child: the other side of a process boundary - deserialise each text and report kinds and reason.
func child(a *hk.Args) error {
	r := bufio.NewReaderSize(os.Stdin, 1<<20)
	w := bufio.NewWriter(os.Stdout)
	defer w.Flush()
	for {
		line, err := r.ReadBytes('\n')
		if len(line) > 1 {
			var q childReq
			if e := json.Unmarshal(line, &q); e != nil {
				return e
			}
			b, _ := json.Marshal(deserialise(q.ID, q.Text))
			w.Write(b)
			w.WriteByte('\n')
		}
		if err == io.EOF {
			return nil
		}
		if err != nil {
			return err
		}
	}
}

func deserialise(id int, text string) childResp {
	resp := childResp{ID: id}
	de, derr := commonerrors.DeserialiseError([]byte(text))
	if derr != nil {
		resp.Err = derr.Error()
		return resp
	}
	if de == nil {
		resp.Nil = true
		return resp
	}
	resp.Kinds = kindsOf(de)
	resp.Reason, _ = commonerrors.GetErrorReason(de)
	return resp
}

func throughChild(reqs []childReq) (map[int]childResp, error) {
	self, err := os.Executable()
	if err != nil {
		return nil, err
	}
	cmd := exec.Command(self, "c11", "child")
	stdin, _ := cmd.StdinPipe()
	stdout, _ := cmd.StdoutPipe()
	cmd.Stderr = os.Stderr
	if err := cmd.Start(); err != nil {
		return nil, err
	}
	go func() {
		w := bufio.NewWriter(stdin)
		for _, q := range reqs {
			b, _ := json.Marshal(q)
			w.Write(b)
			w.WriteByte('\n')
		}
		w.Flush()
		stdin.Close()
	}()
	out := map[int]childResp{}
	sc := bufio.NewScanner(stdout)
	sc.Buffer(make([]byte, 1<<20), 1<<24)
	for sc.Scan() {
		var r childResp
		if e := json.Unmarshal(sc.Bytes(), &r); e != nil {
			return nil, e
		}
		out[r.ID] = r
	}
	if err := cmd.Wait(); err != nil {
		return nil, err
	}
	return out, nil
}

type built struct {
	s       *scenario
	id      int
	variant int
	err     error
	ser     string
	res     hk.Result
	dead    bool
}

func replay(a *hk.Args) error {
	ss, err := hk.ReadNDJSON[scenario](a.In)
	if err != nil {
		return err
	}
	w, err := hk.NewWriter(a.Out)
	if err != nil {
		return err
	}
	defer w.Close()
	var items []*built
	var reqs []childReq
	for i := range ss {
		s := &ss[i]
		for variant := 0; variant < 2; variant++ {
			b := &built{s: s, id: len(items), variant: variant}
			b.res = hk.Result{ID: i, Status: "ok", Variant: fmt.Sprintf("variant%d", variant), Nontriv: len(s.Layers) > 1}
			fail := func(sig, d string) {
				b.res.Status, b.res.Sig, b.res.Detail, b.res.Scenario = "violation", sig, d, s
				b.dead = true
			}
			b.err = build(s.Layers, variant)
			items = append(items, b)
			ks := kindsOf(b.err)
			common := hk.KindError(s.Kind) != nil
			ctxCause := s.Layers[0].Ctor == "rawcancel" || s.Layers[0].Ctor == "rawdeadline" || s.Layers[0].Kind == "cancelled" || s.Layers[0].Kind == "timeout"
			switch {
			case common && !has(ks, s.Kind):
				fail("kind-not-recognised", fmt.Sprintf("built as %q but Any() recognises %v; text %q", s.Kind, ks, b.err.Error()))
			case common && len(ks) != 1:
				fail("kind-ambiguous", fmt.Sprintf("built as %q but recognised as %v", s.Kind, ks))
			case ctxCause && len(s.Layers) > 1 && !(has(ks, "cancelled") || has(ks, "timeout")):
				fail("context-cause-reclassified", fmt.Sprintf("a cancellation/deadline cause ended up as %v", ks))
			}
			if b.dead || !common {
				continue
			}
			if b.err.Error() != s.Text {
				b.res.Status, b.res.Detail = "drift", fmt.Sprintf("text %q, model %q", b.err.Error(), s.Text)
			}
			ser, serr := commonerrors.SerialiseError(b.err)
			if serr != nil {
				fail("serialise-failed", serr.Error())
				continue
			}
			b.ser = string(ser)
			if b.ser != s.Ser && b.res.Status == "ok" {
				b.res.Status, b.res.Detail = "drift", fmt.Sprintf("serialised %q, model %q", b.ser, s.Ser)
			}
			// in-process round trip
			r := deserialise(b.id, b.ser)
			judgeRoundTrip(b, r, "in-process")
			if !b.dead {
				reqs = append(reqs, childReq{ID: b.id, Text: b.ser})
			}
		}
	}
	resps, err := throughChild(reqs)
	if err != nil {
		return fmt.Errorf("child process: %w", err)
	}
	for _, b := range items {
		if r, ok := resps[b.id]; ok && !b.dead {
			judgeRoundTrip(b, r, "child-process")
		}
		w.Write(b.res)
	}
	return nil
}

func judgeRoundTrip(b *built, r childResp, where string) {
	s := b.s
	fail := func(sig, d string) {
		b.res.Status, b.res.Sig, b.res.Detail, b.res.Scenario = "violation", sig, where+": "+d, s
		b.dead = true
	}
	switch {
	case r.Err != "" || r.Nil:
		fail("deserialise-failed", fmt.Sprintf("text %q -> error %q nil=%v", b.ser, r.Err, r.Nil))
	case !has(r.Kinds, s.Kind):
		fail("kind-lost-in-serialisation", fmt.Sprintf("%q serialised as %q came back as %v", s.Kind, b.ser, r.Kinds))
	case len(r.Kinds) != 1:
		fail("kind-ambiguous-after-serialisation", fmt.Sprintf("%q came back as %v", s.Kind, r.Kinds))
	case len(s.Layers) == 1:
		want, _ := commonerrors.GetErrorReason(b.err)
		if stripColonSpace(r.Reason) != stripColonSpace(want) {
			fail("reason-changed", fmt.Sprintf("reason %q became %q", want, r.Reason))
		}
	}
}

// ---------------------------------------------------------------------------------------------
// record: random messages, chains, joins, and the converter table

type event struct {
	Op       string   `json:"op"`
	KindIn   string   `json:"kindIn,omitempty"`
	KindsIn  []string `json:"kindsIn"`
	KindsOut []string `json:"kindsOut"`
	KindsMid []string `json:"kindsMid"`
	ReasonEq bool     `json:"reasonEq"`
	Single   bool     `json:"single"`
	CtxCause bool     `json:"ctxCause"`
	Conv     string   `json:"conv,omitempty"`
	Cond     string   `json:"cond,omitempty"`
	Nil      bool     `json:"nil"`
	Text     string   `json:"text"`
}

func randMsg(rng *rand.Rand) string {
	words := []string{"boom", "not found", "timeout", "Invalid", "x", "ünï ✓", "日本", "a:b", "c: d", " e ", "already exists", "%v", "100%", "\t", "[]{}", "cancelled", "end of file", "unknown"}
	n := rng.Intn(5)
	var parts []string
	for i := 0; i < n; i++ {
		parts = append(parts, words[rng.Intn(len(words))])
	}
	sep := []string{" ", ": ", ":", " : ", ""}[rng.Intn(5)]
	return strings.Join(parts, sep)
}

func randChain(rng *rand.Rand, depth int) ([]layer, string, bool) {
	names := hk.KindNames()
	var ls []layer
	kind := ""
	ctx := false
	switch rng.Intn(8) {
	case 0:
		ls = append(ls, layer{Ctor: "rawcancel", Kind: "rawcancel"})
		kind, ctx = "rawcancel", true
	case 1:
		ls = append(ls, layer{Ctor: "rawdeadline", Kind: "rawdeadline"})
		kind, ctx = "rawdeadline", true
	case 2:
		ls = append(ls, layer{Ctor: "plain", Kind: "plain", Msg: "plain failure " + randMsg(rng)})
		kind = "plain"
	default:
		k := names[rng.Intn(len(names))]
		ls = append(ls, layer{Ctor: "New", Kind: k, Msg: randMsg(rng)})
		kind = k
		ctx = k == "cancelled" || k == "timeout"
	}
	for d := 0; d < depth; d++ {
		k := names[rng.Intn(len(names))]
		m := randMsg(rng)
		common := hk.KindError(kind) != nil
		convKind := kind
		if kind == "rawcancel" {
			convKind = "cancelled"
		} else if kind == "rawdeadline" {
			convKind = "timeout"
		}
		isCtx := convKind == "cancelled" || convKind == "timeout"
		switch c := rng.Intn(3); {
		case c == 0:
			ls = append(ls, layer{Ctor: "WrapError", Kind: k, Msg: m})
			if isCtx {
				kind = convKind
			} else {
				kind = k
			}
		case c == 1:
			ls = append(ls, layer{Ctor: "WrapIfNotCommonError", Kind: k, Msg: m})
			switch {
			case isCtx:
				kind = convKind
			case k == "cancelled" || k == "timeout":
				kind = k
			case common:
			default:
				kind = k
			}
		default:
			if kind == "plain" {
				ls = append(ls, layer{Ctor: "WrapError", Kind: k, Msg: m})
				kind = k
			} else {
				ls = append(ls, layer{Ctor: "NewOnError", Kind: "unknown", Msg: m})
				kind = convKind
			}
		}
	}
	return ls, kind, ctx
}

// backendTimeout: an error of a custom backend that says "time-out" the way net errors do.
type backendTimeout struct{}

func (backendTimeout) Error() string   { return "backend did not answer" }
func (backendTimeout) Timeout() bool   { return true }
func (backendTimeout) Temporary() bool { return true }

type condition struct {
	conv string
	name string
	err  error
}

func conditions() []condition {
	pe := func(e error) error { return &os.PathError{Op: "open", Path: "/x", Err: e} }
	w := func(e error) error { return fmt.Errorf("while doing something: %w", e) }
	var cs []condition
	add := func(conv, name string, e error) {
		cs = append(cs, condition{conv, name, e})
		if e != nil {
			cs = append(cs, condition{conv, name, w(e)})
		}
	}
	// conditions as the backend hands them over (no further wrapping by a caller in between)
	bare := func(conv, name string, e error) { cs = append(cs, condition{conv, name, e}) }
	add("fs", "nil", nil)
	add("fs", "ctx-cancelled", context.Canceled)
	add("fs", "ctx-deadline", context.DeadlineExceeded)
	add("fs", "deadline", os.ErrDeadlineExceeded)
	add("fs", "deadline", errors.New("read tcp: i/o timeout"))
	// time-outs a backend reports only through the Timeout() method of its error (a hung network mount)
	bare("fs", "deadline", syscall.ETIMEDOUT)
	bare("fs", "deadline", pe(syscall.ETIMEDOUT))
	bare("fs", "deadline", &os.SyscallError{Syscall: "read", Err: syscall.ETIMEDOUT})
	bare("fs", "deadline", &os.LinkError{Op: "rename", Old: "/x", New: "/y", Err: syscall.ETIMEDOUT})
	bare("fs", "deadline", backendTimeout{})
	add("fs", "exists", syscall.EEXIST)
	add("fs", "closed-or-denied", syscall.EPERM)
	add("fs", "closed-or-denied", &os.LinkError{Op: "rename", Old: "/x", New: "/y", Err: syscall.EACCES})
	add("fs", "missing", syscall.ENOENT)
	add("fs", "missing", &os.SyscallError{Syscall: "stat", Err: syscall.ENOENT})
	add("fs", "exists", os.ErrExist)
	add("fs", "exists", afero.ErrFileExists)
	add("fs", "exists", afero.ErrDestinationExists)
	add("fs", "exists", pe(syscall.EEXIST))
	add("fs", "closed-or-denied", os.ErrPermission)
	add("fs", "closed-or-denied", os.ErrClosed)
	add("fs", "closed-or-denied", afero.ErrFileClosed)
	add("fs", "closed-or-denied", io.ErrClosedPipe)
	add("fs", "closed-or-denied", pe(syscall.EACCES))
	add("fs", "closed-or-denied", pe(syscall.EBADF))
	add("fs", "closed-or-denied", filesystem.ErrPathNotExist)
	add("fs", "missing", os.ErrNotExist)
	add("fs", "missing", afero.ErrFileNotFound)
	add("fs", "missing", pe(syscall.ENOENT))
	add("fs", "no-deadline", os.ErrNoDeadline)
	add("fs", "invalid", os.ErrInvalid)
	add("fs", "out-of-range", afero.ErrOutOfRange)
	add("fs", "too-large", afero.ErrTooLarge)
	add("fs", "not-implemented", filesystem.ErrChownNotImplemented)
	add("fs", "not-implemented", filesystem.ErrLinkNotImplemented)
	add("fs", "unexpected-eof", io.ErrUnexpectedEOF)
	add("io", "nil", nil)
	add("io", "ctx-cancelled", context.Canceled)
	add("io", "ctx-deadline", context.DeadlineExceeded)
	add("io", "eof", io.EOF)
	add("io", "eof", io.ErrUnexpectedEOF)
	add("io", "eof", commonerrors.ErrEOF)
	add("proc", "nil", nil)
	add("proc", "ctx-cancelled", context.Canceled)
	add("proc", "ctx-deadline", context.DeadlineExceeded)
	// a cancellation / deadline that also carries a process condition stays what it is, whichever way round the two are chained
	for _, cond := range []error{syscall.ESRCH, exec.ErrWaitDelay, exec.ErrNotFound, process.ErrorNotPermitted, process.ErrorProcessNotRunning, errors.New("signal: killed"), errors.New("not implemented yet")} {
		add("proc", "ctx-cancelled", fmt.Errorf("command interrupted: %w: %w", context.Canceled, cond))
		add("proc", "ctx-cancelled", fmt.Errorf("command failed: %w (%w)", cond, context.Canceled))
		add("proc", "ctx-deadline", errors.Join(cond, context.DeadlineExceeded))
	}
	add("proc", "no-such-process", syscall.ESRCH)
	add("proc", "wait-delay", exec.ErrWaitDelay)
	add("proc", "executable-missing", exec.ErrNotFound)
	add("proc", "executable-missing", exec.ErrDot)
	add("proc", "not-permitted", process.ErrorNotPermitted)
	add("proc", "not-running", process.ErrorProcessNotRunning)
	add("proc", "access-denied", errors.New("OpenProcess: Access is denied."))
	add("proc", "not-implemented", errors.New("not implemented yet"))
	add("ctx", "ctx-cancelled", context.Canceled)
	add("ctx", "ctx-deadline", context.DeadlineExceeded)
	return cs
}

func convert(conv string, err error) error {
	switch conv {
	case "fs":
		return filesystem.ConvertFileSystemError(err)
	case "io":
		return safeio.ConvertIOError(err)
	case "proc":
		return proc.ConvertProcessError(err)
	}
	return commonerrors.ConvertContextError(err)
}

func record(a *hk.Args) error {
	w, err := hk.NewWriter(a.Out)
	if err != nil {
		return err
	}
	defer w.Close()
	rng := rand.New(rand.NewSource(a.Seed))
	n := a.N
	if n == 0 {
		n = 400
	}
	nz := func(s []string) []string {
		if s == nil {
			return []string{}
		}
		return s
	}
	var reqs []childReq
	var pending []event
	for t := 0; t < n; t++ {
		if rng.Intn(3) == 0 { // join of 1..4 errors
			k := 1 + rng.Intn(4)
			var errs []error
			var kinds []string
			for i := 0; i < k; i++ {
				ls, kind, _ := randChain(rng, rng.Intn(3))
				if hk.KindError(kind) == nil {
					ls = append(ls, layer{Ctor: "WrapError", Kind: "unexpected", Msg: "wrapped"})
					if kind == "rawcancel" {
						kind = "cancelled"
					} else if kind == "rawdeadline" {
						kind = "timeout"
					} else {
						kind = "unexpected"
					}
				}
				for j := range ls { // joined errors are separated by newlines: keep messages single-line
					ls[j].Msg = strings.ReplaceAll(ls[j].Msg, "\n", " ")
				}
				errs = append(errs, build(ls, rng.Intn(2)))
				if !has(kinds, kind) {
					kinds = append(kinds, kind)
				}
			}
			sort.Strings(kinds)
			je := errors.Join(errs...)
			ser, serr := commonerrors.SerialiseError(je)
			ev := event{Op: "Join", KindsIn: kinds, KindsMid: nz(kindsOf(je)), Text: je.Error()}
			if serr != nil {
				ev.Op = "SerialiseFailed"
			}
			pending = append(pending, ev)
			reqs = append(reqs, childReq{ID: len(pending) - 1, Text: string(ser)})
			continue
		}
		depth := rng.Intn(5)
		ls, kind, ctx := randChain(rng, depth)
		e := build(ls, rng.Intn(2))
		ev := event{Op: "RoundTrip", KindIn: kind, KindsIn: []string{kind}, KindsMid: nz(kindsOf(e)), Single: len(ls) == 1, CtxCause: ctx && len(ls) > 1, Text: e.Error()}
		if hk.KindError(kind) == nil { // not a common error: only the wrapping rules apply
			ev.Op = "Built"
			ev.KindsOut = []string{}
			w.Write(ev)
			continue
		}
		ser, serr := commonerrors.SerialiseError(e)
		if serr != nil {
			ev.Op = "SerialiseFailed"
		}
		pending = append(pending, ev)
		reqs = append(reqs, childReq{ID: len(pending) - 1, Text: string(ser)})
	}
	resps, err := throughChild(reqs)
	if err != nil {
		return fmt.Errorf("child process: %w", err)
	}
	for i, ev := range pending {
		r := resps[i]
		ev.KindsOut = nz(r.Kinds)
		ev.Nil = r.Nil || r.Err != ""
		if ev.Op == "RoundTrip" && ev.Single {
			// reason of the original, as the library itself defines it
			de, _ := commonerrors.DeserialiseError([]byte(ev.Text))
			want := ""
			if de != nil {
				want, _ = commonerrors.GetErrorReason(de)
			}
			idx := strings.Index(ev.Text, ":")
			if idx >= 0 {
				want = ev.Text[idx+1:]
			}
			ev.ReasonEq = stripColonSpace(strings.TrimSpace(r.Reason)) == stripColonSpace(strings.TrimSpace(want))
		} else {
			ev.ReasonEq = true
		}
		w.Write(ev)
	}
	for _, c := range conditions() {
		out := convert(c.conv, c.err)
		w.Write(event{Op: "Convert", Conv: c.conv, Cond: c.name, KindsIn: []string{}, KindsMid: []string{}, KindsOut: nz(kindsOf(out)), Nil: out == nil, ReasonEq: true})
	}
	return nil
}
