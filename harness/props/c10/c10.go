// Package c10 binds specs/data/SafeCast*.tla to utils/safecast.
//
//	classes: input classes enumerated by TLC are materialised into concrete values of every source
//	         kind, converted to the ten targets by the real functions and logged as limb-encoded events.
//	sweep:   exhaustive 8/16-bit sources, boundary neighbourhoods of the wide sources, float neighbour
//	         chains, random values - same event format.
//
// Both files are validated by SafeCastTrace.tla (TLC decides out = Clamp(v) and monotonicity).
package c10

import (
	"fmt"
	"math"
	"math/big"
	"math/rand"
	"sort"

	"github.com/ARM-software/golang-utils/utils/safecast"

	"verifharness/internal/hk"
)

func init() {
	hk.Register("c10", "classes", classes)
	hk.Register("c10", "sweep", sweep)
}

type (
	MyInt     int
	MyInt8    int8
	MyUint16  uint16
	MyUint64  uint64
	MyFloat32 float32
	MyFloat64 float64
)

var targets = []string{"int", "int8", "int16", "int32", "int64", "uint", "uint8", "uint16", "uint32", "uint64"}

type event struct {
	Op string `json:"op"`
	S  string `json:"s"`
	T  string `json:"t"`
	N  bool   `json:"n"`
	H  bool   `json:"h"`
	A  int64  `json:"a"`
	B  int64  `json:"b"`
	C  int64  `json:"c"`
	On bool   `json:"on"`
	Oa int64  `json:"oa"`
	Ob int64  `json:"ob"`
	Oc int64  `json:"oc"`
	// human readable (ignored by the specification)
	V string `json:"v"`
	O string `json:"o"`
}

var (
	two24 = big.NewInt(1 << 24)
	two72 = new(big.Int).Lsh(big.NewInt(1), 72)
)

func limbs(x *big.Int) (neg, huge bool, a, b, c int64) {
	neg = x.Sign() < 0
	m := new(big.Int).Abs(x)
	if m.Cmp(two72) >= 0 {
		return neg, true, 0, 0, 0
	}
	r := new(big.Int)
	q := new(big.Int)
	q.DivMod(m, two24, r)
	c = r.Int64()
	q.DivMod(q, two24, r)
	b = r.Int64()
	a = q.Int64()
	return
}

// sample is one concrete input: exact truncated value (nil + inf sign for infinities) and the ten outputs.
type sample struct {
	exact *big.Int
	inf   int
	outs  [10]*big.Int // nil = panic
	show  string
}

func convAll[S safecast.IConvertable](v S) (outs [10]*big.Int) {
	call := func(i int, f func() *big.Int) {
		defer func() {
			if r := recover(); r != nil {
				outs[i] = nil
			}
		}()
		outs[i] = f()
	}
	s := func(x int64) *big.Int { return big.NewInt(x) }
	u := func(x uint64) *big.Int { return new(big.Int).SetUint64(x) }
	call(0, func() *big.Int { return s(int64(safecast.ToInt(v))) })
	call(1, func() *big.Int { return s(int64(safecast.ToInt8(v))) })
	call(2, func() *big.Int { return s(int64(safecast.ToInt16(v))) })
	call(3, func() *big.Int { return s(int64(safecast.ToInt32(v))) })
	call(4, func() *big.Int { return s(safecast.ToInt64(v)) })
	call(5, func() *big.Int { return u(uint64(safecast.ToUint(v))) })
	call(6, func() *big.Int { return u(uint64(safecast.ToUint8(v))) })
	call(7, func() *big.Int { return u(uint64(safecast.ToUint16(v))) })
	call(8, func() *big.Int { return u(uint64(safecast.ToUint32(v))) })
	call(9, func() *big.Int { return u(safecast.ToUint64(v)) })
	return
}

// source is one source kind: it turns candidate numbers into values of its Go type and converts them.
type source interface {
	Name() string
	IsFloat() bool
	// FromInt materialises an integer candidate (nil if not representable in the source type).
	FromInt(x *big.Int) *sample
	// FromFloat materialises the float nearest to x, moved nbr representable steps up or down.
	FromFloat(x *big.Float, nbr int) *sample
	Bits() int
	Signed() bool
}

type intSrc[S safecast.IInteger] struct {
	name   string
	bits   int
	signed bool
}

func (s intSrc[S]) Name() string                      { return s.name }
func (s intSrc[S]) IsFloat() bool                     { return false }
func (s intSrc[S]) Bits() int                         { return s.bits }
func (s intSrc[S]) Signed() bool                      { return s.signed }
func (s intSrc[S]) FromFloat(*big.Float, int) *sample { return nil }
func (s intSrc[S]) FromInt(x *big.Int) *sample {
	var v S
	if s.signed {
		if !x.IsInt64() {
			return nil
		}
		v = S(x.Int64())
		if big.NewInt(int64(v)).Cmp(x) != 0 {
			return nil
		}
	} else {
		if !x.IsUint64() {
			return nil
		}
		v = S(x.Uint64())
		if new(big.Int).SetUint64(uint64(v)).Cmp(x) != 0 {
			return nil
		}
	}
	return &sample{exact: new(big.Int).Set(x), outs: convAll(v), show: x.String()}
}

type floatSrc[S safecast.IFloat] struct {
	name string
	bits int
}

func (s floatSrc[S]) Name() string               { return s.name }
func (s floatSrc[S]) IsFloat() bool              { return true }
func (s floatSrc[S]) Bits() int                  { return s.bits }
func (s floatSrc[S]) Signed() bool               { return true }
func (s floatSrc[S]) FromInt(x *big.Int) *sample { return s.FromFloat(new(big.Float).SetInt(x), 0) }
func (s floatSrc[S]) FromFloat(x *big.Float, nbr int) *sample {
	var f64 float64
	if s.bits == 32 {
		f32, _ := x.Float32()
		for i := 0; i < nbr; i++ {
			f32 = math.Nextafter32(f32, float32(math.Inf(1)))
		}
		for i := 0; i > nbr; i-- {
			f32 = math.Nextafter32(f32, float32(math.Inf(-1)))
		}
		f64 = float64(f32)
	} else {
		f64, _ = x.Float64()
		for i := 0; i < nbr; i++ {
			f64 = math.Nextafter(f64, math.Inf(1))
		}
		for i := 0; i > nbr; i-- {
			f64 = math.Nextafter(f64, math.Inf(-1))
		}
	}
	return s.of(f64)
}

func (s floatSrc[S]) of(f64 float64) *sample {
	if math.IsNaN(f64) {
		return nil
	}
	v := S(f64)
	sm := &sample{outs: convAll(v), show: fmt.Sprintf("%g", f64)}
	if math.IsInf(f64, 0) {
		sm.inf = 1
		if f64 < 0 {
			sm.inf = -1
		}
		return sm
	}
	sm.exact, _ = new(big.Float).SetFloat64(f64).Int(nil) // truncation toward zero, exact
	return sm
}

var sources = []source{
	intSrc[int]{"int", 64, true}, intSrc[int8]{"int8", 8, true}, intSrc[int16]{"int16", 16, true},
	intSrc[int32]{"int32", 32, true}, intSrc[int64]{"int64", 64, true},
	intSrc[uint]{"uint", 64, false}, intSrc[uint8]{"uint8", 8, false}, intSrc[uint16]{"uint16", 16, false},
	intSrc[uint32]{"uint32", 32, false}, intSrc[uint64]{"uint64", 64, false},
	intSrc[MyInt]{"MyInt", 64, true}, intSrc[MyInt8]{"MyInt8", 8, true}, intSrc[MyUint16]{"MyUint16", 16, false},
	intSrc[MyUint64]{"MyUint64", 64, false},
	floatSrc[float32]{"float32", 32}, floatSrc[float64]{"float64", 64},
	floatSrc[MyFloat32]{"MyFloat32", 32}, floatSrc[MyFloat64]{"MyFloat64", 64},
}

func sourceByName(n string) source {
	for _, s := range sources {
		if s.Name() == n {
			return s
		}
	}
	return nil
}

// collector gathers samples per source and writes them sorted by input, one stream per (source, target).
type collector struct {
	by map[string][]*sample
}

func (c *collector) add(src string, s *sample) {
	if s != nil {
		c.by[src] = append(c.by[src], s)
	}
}

func cmpSample(a, b *sample) int {
	if a.inf != 0 || b.inf != 0 {
		switch {
		case a.inf == b.inf:
			return 0
		case a.inf < b.inf:
			return -1
		}
		return 1
	}
	return a.exact.Cmp(b.exact)
}

func (c *collector) flush(w *hk.Writer) {
	names := make([]string, 0, len(c.by))
	for n := range c.by {
		names = append(names, n)
	}
	sort.Strings(names)
	for _, n := range names {
		ss := c.by[n]
		sort.SliceStable(ss, func(i, j int) bool { return cmpSample(ss[i], ss[j]) < 0 })
		for ti, t := range targets {
			var last *sample
			for _, s := range ss {
				if last != nil && cmpSample(last, s) == 0 && last.show == s.show {
					continue // exact duplicate input
				}
				last = s
				ev := event{Op: "conv", S: n, T: t, V: s.show}
				if s.inf != 0 {
					ev.N, ev.H = s.inf < 0, true
				} else {
					ev.N, ev.H, ev.A, ev.B, ev.C = limbs(s.exact)
				}
				if s.outs[ti] == nil {
					ev.Op = "panic"
				} else {
					ev.On, _, ev.Oa, ev.Ob, ev.Oc = limbs(s.outs[ti])
					ev.O = s.outs[ti].String()
				}
				w.Write(ev)
			}
		}
	}
}

// ---------------------------------------------------------------------------------------------
// classes enumerated by TLC

type anchor struct {
	Kind string `json:"kind"`
	Of   string `json:"of"`
	E    int    `json:"e"`
}

type class struct {
	Src    string `json:"src"`
	Anchor anchor `json:"anchor"`
	D      int    `json:"d"`
	Frac   int    `json:"frac"`
	Nbr    int    `json:"nbr"`
}

func typeRange(t string) (min, max *big.Int) {
	bits := map[string]uint{"int": 64, "int8": 8, "int16": 16, "int32": 32, "int64": 64, "uint": 64, "uint8": 8, "uint16": 16, "uint32": 32, "uint64": 64}[t]
	one := big.NewInt(1)
	if t[0] == 'i' {
		max = new(big.Int).Sub(new(big.Int).Lsh(one, bits-1), one)
		min = new(big.Int).Neg(new(big.Int).Lsh(one, bits-1))
	} else {
		max = new(big.Int).Sub(new(big.Int).Lsh(one, bits), one)
		min = big.NewInt(0)
	}
	return
}

func (a anchor) value() (x *big.Int, f *big.Float) {
	switch a.Kind {
	case "max":
		_, x = typeRange(a.Of)
	case "min":
		x, _ = typeRange(a.Of)
	case "pow2":
		x = new(big.Int).Lsh(big.NewInt(1), uint(a.E))
	case "negpow2":
		x = new(big.Int).Neg(new(big.Int).Lsh(big.NewInt(1), uint(a.E)))
	case "inf":
		f = new(big.Float).SetInf(false)
	case "neginf":
		f = new(big.Float).SetInf(true)
	case "maxfloat":
		f = big.NewFloat(math.MaxFloat64)
	case "negmaxfloat":
		f = big.NewFloat(-math.MaxFloat64)
	}
	return
}

func classes(a *hk.Args) error {
	cs, err := hk.ReadNDJSON[class](a.In)
	if err != nil {
		return err
	}
	w, err := hk.NewWriter(a.Out)
	if err != nil {
		return err
	}
	defer w.Close()
	col := &collector{by: map[string][]*sample{}}
	for _, c := range cs {
		src := sourceByName(c.Src)
		if src == nil {
			return fmt.Errorf("unknown source kind %q", c.Src)
		}
		x, f := c.Anchor.value()
		if !src.IsFloat() {
			if x == nil {
				continue
			}
			col.add(c.Src, src.FromInt(new(big.Int).Add(x, big.NewInt(int64(c.D)))))
			continue
		}
		if f == nil {
			f = new(big.Float).SetPrec(200).SetInt(new(big.Int).Add(x, big.NewInt(int64(c.D))))
			f.Add(f, new(big.Float).SetFloat64(0.5*float64(c.Frac)))
		} else if c.D != 0 || c.Frac != 0 {
			continue
		}
		if c.Anchor.Kind == "maxfloat" && src.Bits() == 32 {
			f = big.NewFloat(math.MaxFloat32)
		}
		if c.Anchor.Kind == "negmaxfloat" && src.Bits() == 32 {
			f = big.NewFloat(-math.MaxFloat32)
		}
		col.add(c.Src, src.FromFloat(f, c.Nbr))
	}
	col.flush(w)
	return nil
}

// ---------------------------------------------------------------------------------------------
// sweeps beyond the TLC-enumerated classes

func sweep(a *hk.Args) error {
	w, err := hk.NewWriter(a.Out)
	if err != nil {
		return err
	}
	defer w.Close()
	rng := rand.New(rand.NewSource(a.Seed))
	thorough := a.Tier == "thorough"
	col := &collector{by: map[string][]*sample{}}
	part := a.Extra["part"]
	for _, src := range sources {
		if !src.IsFloat() && src.Bits() <= 16 {
			if part != "" && part != "small" {
				continue
			}
			// every value of the 8- and 16-bit sources (quick: 8-bit all, 16-bit strided + boundaries)
			lo, hi := int64(0), int64(1)<<src.Bits()-1
			if src.Signed() {
				lo, hi = -(int64(1) << (src.Bits() - 1)), int64(1)<<(src.Bits()-1)-1
			}
			for v := lo; v <= hi; v++ {
				if !thorough && src.Bits() == 16 && v%97 != 0 && v > lo+300 && v < hi-300 && (v < -300 || v > 300) &&
					!(v > 32767-300 && v < 32767+300) && !(v > 127-50 && v < 256+50) && !(v > -128-50 && v < -128+50) {
					continue
				}
				col.add(src.Name(), src.FromInt(big.NewInt(v)))
			}
			continue
		}
		if part != "" && part != "wide" {
			continue
		}
		radius := int64(64)
		chain := 8
		nrand := 200
		if thorough {
			radius, chain, nrand = 4096, 64, 5000
		}
		// neighbourhood of every range boundary of every target type, and of zero
		anchors := []*big.Int{big.NewInt(0)}
		for _, t := range targets {
			mn, mx := typeRange(t)
			anchors = append(anchors, mn, mx)
		}
		for _, an := range anchors {
			if src.IsFloat() {
				for n := -chain; n <= chain; n++ {
					col.add(src.Name(), src.FromFloat(new(big.Float).SetPrec(200).SetInt(an), n))
				}
				for d := int64(-8); d <= 8; d++ {
					for _, fr := range []float64{-0.75, -0.5, -0.25, 0, 0.25, 0.5, 0.75} {
						f := new(big.Float).SetPrec(200).SetInt(new(big.Int).Add(an, big.NewInt(d)))
						f.Add(f, big.NewFloat(fr))
						col.add(src.Name(), src.FromFloat(f, 0))
					}
				}
				continue
			}
			for d := -radius; d <= radius; d++ {
				col.add(src.Name(), src.FromInt(new(big.Int).Add(an, big.NewInt(d))))
			}
		}
		// powers of two and their neighbours
		for e := uint(0); e <= 80; e++ {
			for _, sign := range []int64{1, -1} {
				p := new(big.Int).Lsh(big.NewInt(1), e)
				p.Mul(p, big.NewInt(sign))
				for d := int64(-2); d <= 2; d++ {
					x := new(big.Int).Add(p, big.NewInt(d))
					if src.IsFloat() {
						for n := -2; n <= 2; n++ {
							col.add(src.Name(), src.FromFloat(new(big.Float).SetPrec(200).SetInt(x), n))
						}
					} else {
						col.add(src.Name(), src.FromInt(x))
					}
				}
			}
		}
		// random values
		for i := 0; i < nrand; i++ {
			if src.IsFloat() {
				var f float64
				switch rng.Intn(4) {
				case 0:
					f = math.Float64frombits(rng.Uint64())
				case 1:
					f = (rng.Float64() - 0.5) * math.Pow(2, float64(rng.Intn(70)))
				case 2:
					f = rng.NormFloat64() * 300
				default:
					f = float64(int64(rng.Uint64())) + rng.Float64()
				}
				if math.IsNaN(f) {
					continue
				}
				col.add(src.Name(), src.FromFloat(big.NewFloat(0).SetPrec(200).SetFloat64(clampInf(f)), 0))
				continue
			}
			x := new(big.Int).SetUint64(rng.Uint64() >> uint(rng.Intn(64)))
			if rng.Intn(2) == 0 {
				x.Neg(x)
			}
			col.add(src.Name(), src.FromInt(x))
		}
		if src.IsFloat() {
			col.add(src.Name(), src.FromFloat(new(big.Float).SetInf(false), 0))
			col.add(src.Name(), src.FromFloat(new(big.Float).SetInf(true), 0))
		}
	}
	col.flush(w)
	return nil
}

func clampInf(f float64) float64 { return f }
