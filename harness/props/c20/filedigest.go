package c20

// Binding of specs/io/FileDigest.tla: every history of the model (contents of equal or different length written to one
// path, the modification time moving on or put back, removal, hashing in between) is replayed on one filesystem object
// per backend with FS.FileHash; each digest is compared with the reference digest of the bytes the file holds then.

import (
	"bytes"
	"fmt"
	"os"
	"path/filepath"
	"time"

	"github.com/ARM-software/golang-utils/utils/filesystem"
	"github.com/ARM-software/golang-utils/utils/hashing"

	"verifharness/internal/hk"
)

func init() {
	hk.Register("c20", "filedigest", fileDigest)
}

type fdOp struct {
	Op     string `json:"op"`
	X      string `json:"x"`
	Keep   bool   `json:"keep"`
	Digest string `json:"digest"` // hash: the content the model has in the file
}

type fdBehaviour struct {
	Ops []fdOp `json:"ops"`
}

type fdHash struct {
	Step    int    `json:"step"`
	Content string `json:"content"` // per the model
	Same    bool   `json:"same"`    // the digest is the reference digest of that content
	Stale   bool   `json:"stale"`   // ... it is the reference digest of another content of the model
	Err     string `json:"err"`
}

type fdEvent struct {
	Op      string   `json:"op"`
	ID      int      `json:"id"`
	Backend string   `json:"backend"`
	Algo    string   `json:"algo"`
	Ops     []fdOp   `json:"ops"`
	Hashes  []fdHash `json:"hashes"`
	Problem string   `json:"problem"`
	Via     string   `json:"via"`
}

func fdContent(x string) []byte {
	switch x {
	case "a":
		return bytes.Repeat([]byte("first content. "), 300)
	case "b":
		return bytes.Repeat([]byte("other content! "), 300) // the same length as "a"
	default:
		return bytes.Repeat([]byte("a third and longer content; "), 300)
	}
}

var fdAlgos = []string{hashing.HashSha256, hashing.HashMd5, hashing.HashSha1, hashing.HashBlake2256, hashing.HashXXHash, hashing.HashMurmur}

func fdRun(id int, b fdBehaviour, backend, scratch string) fdEvent {
	ev := fdEvent{Op: "FileDigest", ID: id, Backend: backend, Algo: fdAlgos[id%len(fdAlgos)], Ops: b.Ops, Hashes: []fdHash{}}
	var fs filesystem.FS
	dir := "/c20fd"
	if backend == "os" {
		fs = filesystem.NewStandardFileSystem()
		dir = filepath.Join(scratch, fmt.Sprintf("fd-%d", id))
	} else {
		fs = filesystem.NewInMemoryFileSystem()
	}
	if err := fs.MkDir(dir); err != nil {
		ev.Problem = "mkdir: " + err.Error()
		return ev
	}
	defer func() { _ = fs.Rm(dir) }()
	p := filepath.Join(dir, "subject.bin")
	// every other history on the OS backend designates the file through a symbolic link: the bytes are those of the file
	hashPath := p
	if backend == "os" && id%2 == 0 {
		hashPath = filepath.Join(dir, "link-to-subject")
		if err := os.Symlink(p, hashPath); err != nil {
			ev.Problem = "symlink: " + err.Error()
			return ev
		}
		ev.Via = "link"
	}
	for i, o := range b.Ops {
		switch o.Op {
		case "write":
			var keepA, keepM = fileTimesOf(fs, p)
			if err := fs.WriteFile(p, fdContent(o.X), 0o600); err != nil {
				ev.Problem = fmt.Sprintf("step %d write: %v", i+1, err)
				return ev
			}
			if o.Keep {
				if err := fs.Chtimes(p, keepA, keepM); err != nil {
					ev.Problem = fmt.Sprintf("step %d chtimes: %v", i+1, err)
					return ev
				}
			}
		case "remove":
			if err := fs.Rm(p); err != nil {
				ev.Problem = fmt.Sprintf("step %d remove: %v", i+1, err)
				return ev
			}
		case "hash":
			h := fdHash{Step: i + 1, Content: o.Digest}
			d, err := fs.FileHash(ev.Algo, hashPath)
			if err != nil {
				h.Err = hk.Kind(err)
			} else {
				h.Same = d == reference(ev.Algo, fdContent(o.Digest))
				for _, other := range []string{"a", "b", "c"} {
					if other != o.Digest && d == reference(ev.Algo, fdContent(other)) {
						h.Stale = true
					}
				}
			}
			ev.Hashes = append(ev.Hashes, h)
		}
	}
	return ev
}

func fileDigest(a *hk.Args) error {
	bs, err := hk.ReadNDJSON[fdBehaviour](a.In)
	if err != nil {
		return err
	}
	w, err := hk.NewWriter(a.Out)
	if err != nil {
		return err
	}
	defer w.Close()
	for i, b := range bs {
		for _, backend := range []string{"mem", "os"} {
			w.Write(fdRun(i+1, b, backend, a.Dir))
		}
	}
	return nil
}

// fileTimesOf: access and modification time of p as the filesystem reports them (zero values when p does not exist).
func fileTimesOf(fs filesystem.FS, p string) (atime, mtime time.Time) {
	fi, err := fs.Stat(p)
	if err != nil {
		return
	}
	return fi.ModTime(), fi.ModTime()
}
