// Package c20 binds specs/io/Hasher.tla to utils/hashing and the filesystem file hashers.
package c20

import (
	"context"
	"crypto/md5"
	"crypto/sha1"
	"crypto/sha256"
	"encoding/hex"
	"errors"
	"fmt"
	"hash"
	"io"
	"math/rand"
	"os"
	"path/filepath"

	"github.com/OneOfOne/xxhash"
	"github.com/spaolacci/murmur3"
	"golang.org/x/crypto/blake2b"

	"github.com/ARM-software/golang-utils/utils/filesystem"
	"github.com/ARM-software/golang-utils/utils/hashing"

	"sync"
	"time"
	"verifharness/internal/hk"
)

func init() {
	hk.Register("c20", "replay", replay)
	hk.Register("c20", "record", record)
}

var algos = []string{hashing.HashMd5, hashing.HashSha1, hashing.HashSha256, hashing.HashBlake2256, hashing.HashXXHash, hashing.HashMurmur}

var errScripted = errors.New("scripted reader failure")

// reference computes the digest with a fresh instance of the standard implementation.
func reference(algo string, content []byte) string {
	var h hash.Hash
	switch algo {
	case hashing.HashMd5:
		h = md5.New()
	case hashing.HashSha1:
		h = sha1.New()
	case hashing.HashSha256:
		h = sha256.New()
	case hashing.HashBlake2256:
		h, _ = blake2b.New256(nil)
	case hashing.HashXXHash:
		h = xxhash.New64()
	case hashing.HashMurmur:
		h = murmur3.New64()
	}
	_, _ = h.Write(content)
	return hex.EncodeToString(h.Sum(nil))
}

// scriptReader delivers chunks one per Read (split further if the buffer is smaller) and then
// fails / cancels / ends as scripted after `k` chunks.
type scriptReader struct {
	chunks  [][]byte
	i       int
	off     int
	how     string // ok | fail | cancel
	k       int
	cancel  context.CancelFunc
	started int
	joinEOF bool // the last chunk is delivered together with io.EOF
	late    bool // the cancellation happens while the reader is inside Read: the chunk is handed over 8 ms later
}

func (r *scriptReader) Read(p []byte) (int, error) {
	r.started++
	if r.how == "fail" && r.i >= r.k && r.off == 0 {
		return 0, errScripted
	}
	if r.i >= len(r.chunks) {
		return 0, io.EOF
	}
	if r.late && r.how == "cancel" && r.i == r.k && r.off == 0 {
		r.cancel()
		time.Sleep(8 * time.Millisecond)
	}
	c := r.chunks[r.i]
	n := copy(p, c[r.off:])
	r.off += n
	if r.off >= len(c) {
		r.i++
		r.off = 0
		if r.how == "cancel" && r.i >= r.k {
			r.cancel()
		}
		if r.joinEOF && r.i >= len(r.chunks) && r.how == "ok" {
			return n, io.EOF
		}
	}
	return n, nil
}

type Calc struct {
	Content []string `json:"content"`
	Outcome string   `json:"outcome"`
	K       int      `json:"k"`
	Same    bool     `json:"same"`
	EOF     string   `json:"eof"`
	Late    bool     `json:"late"`
}

type Behaviour struct {
	Calcs []Calc `json:"calcs"`
}

// token materialisations: how many bytes a chunk token stands for
var scales = map[string]map[string]int{
	"tiny":  {"a": 1, "b": 1, "c": 2},
	"zero":  {"a": 3, "b": 0, "c": 5},         // zero-length reads in the middle of a stream
	"block": {"a": 32768, "b": 32769, "c": 1}, // around the 32 KiB copy buffer
	"big":   {"a": 70001, "b": 7, "c": 131072},
}

func chunkBytes(tok string, n int, salt byte) []byte {
	b := make([]byte, n)
	for i := range b {
		b[i] = tok[0] + byte(i%251) + salt
	}
	return b
}

func materialise(c Calc, scale string) (chunks [][]byte, all []byte) {
	for i, t := range c.Content {
		b := chunkBytes(t, scales[scale][t], byte(i))
		chunks = append(chunks, b)
		all = append(all, b...)
	}
	return
}

type fileShim struct {
	filesystem.File
	r *scriptReader
}

func (f *fileShim) Read(p []byte) (int, error) { return f.r.Read(p) }

func runHistory(id int, b *Behaviour, algo, scale, via string, dir string) hk.Result {
	res := hk.Result{ID: id, Status: "ok", Variant: algo + "/" + scale + "/" + via, Nontriv: len(b.Calcs) > 1}
	var hasher hashing.IHash
	var fhasher filesystem.IFileHash
	var fs filesystem.FS
	var err error
	switch via {
	case "reader", "reader-plain":
		hasher, err = hashing.NewHashingAlgorithm(algo)
	case "file-mem":
		fhasher, err = filesystem.NewFileHash(algo)
		fs = filesystem.NewInMemoryFileSystem()
		dir = "/c20"
	case "file-os":
		fhasher, err = filesystem.NewFileHash(algo)
		fs = filesystem.NewStandardFileSystem()
	}
	if err != nil {
		res.Status, res.Sig, res.Detail = "violation", "hasher-ctor", err.Error()
		return res
	}
	if fs != nil {
		dir = filepath.Join(dir, fmt.Sprintf("h%d-%s-%s", id, algo, scale))
		if err := fs.MkDir(dir); err != nil {
			res.Status, res.Detail = "skip", "cannot create dir: "+err.Error()
			return res
		}
		defer func() { _ = fs.Rm(dir) }()
	}
	for i, c := range b.Calcs {
		chunks, all := materialise(c, scale)
		ctx, cancel := context.WithCancel(context.Background())
		how := c.Outcome
		sr := &scriptReader{chunks: chunks, how: how, k: c.K, cancel: cancel, joinEOF: c.EOF == "joined", late: c.Late}
		if how == "cancel" && c.K == 0 && !c.Late {
			cancel()
		}
		var digest string
		var cerr error
		switch via {
		case "reader":
			digest, cerr = hasher.CalculateWithContext(ctx, sr)
		case "reader-plain":
			// the entry point without a context for the calculations that are not cancelled
			if how == "cancel" {
				digest, cerr = hasher.CalculateWithContext(ctx, sr)
			} else {
				digest, cerr = hasher.Calculate(sr)
			}
		default:
			p := filepath.Join(dir, fmt.Sprintf("f%d", i))
			if werr := fs.WriteFile(p, append([]byte{'x'}, all...), 0o600); werr != nil { // never empty
				cancel()
				res.Status, res.Detail = "skip", "cannot write file: "+werr.Error()
				return res
			}
			if how == "ok" && c.EOF != "joined" {
				// plain file hashing: the digest of the file's bytes
				all = append([]byte{'x'}, all...)
				digest, cerr = fhasher.CalculateFile(fs, p)
			} else {
				f, oerr := fs.GenericOpen(p)
				if oerr != nil {
					cancel()
					res.Status, res.Detail = "skip", "cannot open file: "+oerr.Error()
					return res
				}
				digest, cerr = fhasher.CalculateWithContext(ctx, &fileShim{File: f, r: sr})
				_ = f.Close()
			}
		}
		cancel()
		if c.Late {
			// whatever is still in flight gets the time to land before the next calculation starts
			time.Sleep(25 * time.Millisecond)
		}
		if cerr != nil {
			if how == "ok" {
				res.Status, res.Sig, res.Scenario = "violation", "ok-calculation-failed", b
				res.Detail = fmt.Sprintf("%s: calculation %d failed on a healthy reader: %v", res.Variant, i, cerr)
				return res
			}
			continue
		}
		// a digest was returned: it must be the reference digest of this call's content
		if want := reference(algo, all); digest != want {
			res.Status, res.Scenario = "violation", b
			res.Sig = "digest-depends-on-history"
			if i == 0 {
				res.Sig = "digest-differs-from-reference"
			}
			res.Detail = fmt.Sprintf("%s: calculation %d returned %s, reference digest of its %d bytes is %s", res.Variant, i, digest, len(all), want)
			return res
		}
		if how != "ok" && res.Status == "ok" {
			res.Status, res.Detail = "drift", fmt.Sprintf("calculation %d scripted to %s@%d returned a digest", i, how, c.K)
		}
	}
	return res
}

func replay(a *hk.Args) error {
	bs, err := hk.ReadNDJSON[Behaviour](a.In)
	if err != nil {
		return err
	}
	w, err := hk.NewWriter(a.Out)
	if err != nil {
		return err
	}
	defer w.Close()
	osdir := filepath.Join(a.Dir, "c20-os")
	_ = os.MkdirAll(osdir, 0o755)
	defer os.RemoveAll(osdir)
	scaleNames := []string{"tiny", "zero", "block", "big"}
	// histories are independent of one another (one hasher object each): a pool of workers runs them
	var wg sync.WaitGroup
	sem := make(chan struct{}, 12)
	for i := range bs {
		wg.Add(1)
		sem <- struct{}{}
		go func(i int) {
			defer wg.Done()
			defer func() { <-sem }()
			rng := rand.New(rand.NewSource(a.Seed + int64(i)))
			hasLate := false
			for _, c := range bs[i].Calcs {
				hasLate = hasLate || c.Late
			}
			for k, algo := range algos {
				if hasLate && k != i%len(algos) && k != (i+3)%len(algos) {
					continue // histories with late deliveries take real time: two algorithms each, in rotation
				}
				// every behaviour on every algorithm with the tiny scale; one further random scale; files on a sample
				w.Write(runHistory(i, &bs[i], algo, "tiny", "reader", osdir))
				if k == i%len(algos) {
					w.Write(runHistory(i, &bs[i], algo, "tiny", "reader-plain", osdir))
				}
				sc := scaleNames[1+rng.Intn(3)]
				if a.Tier == "thorough" || rng.Intn(4) == 0 {
					w.Write(runHistory(i, &bs[i], algo, sc, "reader", osdir))
				}
				if rng.Intn(12) == 0 {
					w.Write(runHistory(i, &bs[i], algo, sc, "file-mem", osdir))
				}
				if rng.Intn(24) == 0 {
					w.Write(runHistory(i, &bs[i], algo, "zero", "file-os", osdir))
				}
			}
		}(i)
	}
	wg.Wait()
	return nil
}

// record: long-lived hashers, contents 0..2^20 bytes, random chunkings and aborted calculations.
type event struct {
	Op      string `json:"op"`
	Algo    string `json:"algo"`
	Outcome string `json:"outcome"`
	K       int    `json:"k"`
	Len     int    `json:"len"`
	Chunks  int    `json:"chunks"`
	Same    bool   `json:"same"`
	Dirty   bool   `json:"dirty"`
}

func record(a *hk.Args) error {
	rng := rand.New(rand.NewSource(a.Seed))
	w, err := hk.NewWriter(a.Out)
	if err != nil {
		return err
	}
	defer w.Close()
	n := a.N
	if n == 0 {
		n = 20
	}
	for t := 0; t < n; t++ {
		algo := algos[rng.Intn(len(algos))]
		hasher, err := hashing.NewHashingAlgorithm(algo)
		if err != nil {
			return err
		}
		w.Write(event{Op: "New", Algo: algo})
		var residue []byte
		calcs := 2 + rng.Intn(8)
		for c := 0; c < calcs; c++ {
			size := 0
			switch rng.Intn(5) {
			case 0:
				size = rng.Intn(4)
			case 1:
				size = 32768 - 2 + rng.Intn(5)
			case 2:
				size = rng.Intn(1 << 20)
			default:
				size = rng.Intn(5000)
			}
			content := make([]byte, size)
			rng.Read(content)
			var chunks [][]byte
			for off := 0; off < size; {
				m := 1 + rng.Intn(1+size/(1+rng.Intn(8)))
				if rng.Intn(10) == 0 {
					chunks = append(chunks, []byte{})
				}
				if off+m > size {
					m = size - off
				}
				chunks = append(chunks, content[off:off+m])
				off += m
			}
			how := "ok"
			k := len(chunks)
			if r := rng.Intn(10); r < 2 {
				how = "fail"
				k = rng.Intn(len(chunks) + 1)
			} else if r < 4 {
				how = "cancel"
				k = rng.Intn(len(chunks) + 1)
			}
			ctx, cancel := context.WithCancel(context.Background())
			sr := &scriptReader{chunks: chunks, how: how, k: k, cancel: cancel, joinEOF: rng.Intn(3) == 0}
			if how == "cancel" && k == 0 {
				cancel()
			}
			digest, cerr := hasher.CalculateWithContext(ctx, sr)
			cancel()
			ev := event{Op: "Calc", Algo: algo, Outcome: how, K: k, Len: size, Chunks: len(chunks)}
			if cerr == nil {
				ev.Outcome = "ok"
				ev.Same = digest == reference(algo, content)
				ev.Dirty = digest == reference(algo, append(append([]byte{}, residue...), content...))
				residue = nil
			} else {
				if how == "ok" {
					ev.Outcome = "unexpected-error"
				}
				for i := 0; i < k && i < len(chunks); i++ {
					residue = append(residue, chunks[i]...)
				}
			}
			w.Write(ev)
		}
	}
	return nil
}
