// Package c02 binds specs/archive/ZipSlip.tla to Unzip*: real archives with hostile entry names are
// extracted on both backends; every mutating backend call (with its path) and a snapshot of everything
// outside the destination are judged by ZipSlipTrace.tla.
package c02

import (
	"archive/zip"
	"bytes"
	"context"
	"fmt"
	"math/rand"
	"os"
	"path/filepath"
	"strings"
	"time"

	"github.com/spf13/afero"
	"golang.org/x/text/encoding/unicode"

	"github.com/ARM-software/golang-utils/utils/charset"
	"github.com/ARM-software/golang-utils/utils/filesystem"

	"verifharness/internal/fsgate"
	"verifharness/internal/hk"
	"verifharness/internal/sandbox"
)

func init() {
	hk.Register("c02", "replay", replay)
	hk.Register("c02", "fuzz", fuzz)
}

type scenario struct {
	Comps      []string `json:"comps"`
	LeadingSep bool     `json:"leadingSep"`
	Kind       string   `json:"kind"`
	Stem       string   `json:"stem"`
	Ext        string   `json:"ext"`      // extension of a nested archive: zip | tar.gz | TAR.zip
	RootName   string   `json:"rootName"` // the directory the model has it unpacked into
	DestShape  string   `json:"destShape"`
	Escapes    bool     `json:"escapes"`
	// kind "linkchain" (ZipLinks.tla): targets of the chained symbolic-link entries
	Chain [][]string `json:"chain"`
}

type event struct {
	Ev         string   `json:"ev"`
	ID         int      `json:"id"`
	Backend    string   `json:"backend"`
	DestAbs    bool     `json:"destAbs"`
	Dest       []string `json:"dest"` // destination as given, split on the separator (absolute: from the filesystem root)
	Cwd        []string `json:"cwd"`  // working directory, for relative paths
	Name       []string `json:"name"` // entry name split on "/"
	LeadingSep bool     `json:"leadingSep"`
	Kind       string   `json:"kind"`
	Stem       string   `json:"stem"`
	Sep        string   `json:"sep"`
	Path       []string `json:"path"` // Mutate: the path handed to the backend, split
	PathAbs    bool     `json:"pathAbs"`
	Op         string   `json:"op"`
	Result     string   `json:"result"`
	Outside    []string `json:"outside"` // End: sandbox entries outside the destination that changed
	Raw        string   `json:"raw,omitempty"`
}

func nonNil(s []string) []string {
	if s == nil {
		return []string{}
	}
	return s
}

func split(p string) (abs bool, comps []string) {
	abs = strings.HasPrefix(p, "/")
	comps = strings.Split(strings.TrimPrefix(p, "/"), "/")
	if p == "/" || p == "" {
		comps = []string{}
	}
	return
}

func innerZip() []byte {
	var b bytes.Buffer
	w := zip.NewWriter(&b)
	f, _ := w.Create("inner.txt")
	_, _ = f.Write([]byte("nested content"))
	_ = w.Close()
	return b.Bytes()
}

func buildZip(name string, kind string) []byte {
	var b bytes.Buffer
	w := zip.NewWriter(&b)
	f0, _ := w.Create("first.txt")
	_, _ = f0.Write([]byte("harmless"))
	switch kind {
	case "dir":
		_, _ = w.CreateHeader(&zip.FileHeader{Name: name + "/", Method: zip.Store})
	case "nested":
		f, _ := w.CreateHeader(&zip.FileHeader{Name: name, Method: zip.Deflate})
		_, _ = f.Write(innerZip())
	default:
		f, _ := w.CreateHeader(&zip.FileHeader{Name: name, Method: zip.Deflate})
		_, _ = f.Write([]byte("payload"))
	}
	f1, _ := w.Create("last.txt")
	_, _ = f1.Write([]byte("harmless too"))
	_ = w.Close()
	return b.Bytes()
}

// buildLinkZip: a/l -> t1, a/l/l -> t2, ..., a/l/.../l/pwned - every name lexically inside the destination.
func buildLinkZip(chain [][]string, outsideAbs string) ([]byte, string) {
	var b bytes.Buffer
	w := zip.NewWriter(&b)
	f0, _ := w.Create("first.txt")
	_, _ = f0.Write([]byte("harmless"))
	_, _ = w.CreateHeader(&zip.FileHeader{Name: "a/", Method: zip.Store})
	_, _ = w.CreateHeader(&zip.FileHeader{Name: "a/sub/", Method: zip.Store})
	p := "a"
	for _, t := range chain {
		p += "/l"
		target := strings.Join(t, "/")
		if target == "ABS" {
			target = outsideAbs
		}
		h := &zip.FileHeader{Name: p, Method: zip.Store}
		h.SetMode(os.ModeSymlink | 0o777)
		f, _ := w.CreateHeader(h)
		_, _ = f.Write([]byte(target))
	}
	name := p + "/pwned"
	f, _ := w.CreateHeader(&zip.FileHeader{Name: name, Method: zip.Deflate})
	_, _ = f.Write([]byte("payload"))
	f1, _ := w.Create("last.txt")
	_, _ = f1.Write([]byte("harmless too"))
	_ = w.Close()
	return b.Bytes(), name
}

type runner struct {
	ext     string // extension of the nested archive of the scenario in hand ("" = zip)
	root    string // name of its unpacking directory according to the model ("" = the stem)
	chain   [][]string
	w       *hk.Writer
	scratch string
	osRoot  string
	cwd     string
	id      int
}

// one extraction on one backend
func (r *runner) run(backend string, nameComps []string, leadingSep bool, sep, kind, stem, destShape string, rawName string) error {
	r.id++
	var base afero.Fs
	var root string
	fstype := filesystem.InMemoryFS
	if backend == "os" {
		root = filepath.Join(r.osRoot, fmt.Sprintf("s%d", r.id))
		base, fstype = filesystem.NewExtendedOsFs(), filesystem.StandardFS
	} else {
		base, root = afero.NewMemMapFs(), "/R"
	}
	_ = base.MkdirAll(filepath.Join(root, "outside", "keep"), 0o755)
	_ = afero.WriteFile(base, filepath.Join(root, "outside", "keep", "precious.txt"), []byte("do not touch"), 0o644)
	_ = afero.WriteFile(base, filepath.Join(root, "A"), []byte("sibling named like an entry"), 0o644)
	name := rawName
	converted := false
	if name == "" {
		comps := append([]string{}, nameComps...)
		for i, c := range comps {
			if c == "E.." {
				// not ".." in the archive, ".." once the extraction has converted the name from ISO-2022-JP: the escape sequences vanish
				comps[i] = ".\x1b(J."
				converted = true
			}
		}
		if converted {
			// what makes the name invalid UTF-8 and the detection settle on ISO-2022-JP
			comps[len(comps)-1] += "\x1b(J\x1b(J\xff"
		}
		if kind == "nested" {
			ext := r.ext
			if ext == "" {
				ext = "zip"
			}
			comps = append(comps, stem+"."+ext)
		}
		name = strings.Join(comps, sep)
		if leadingSep {
			name = sep + name
		}
	}
	zipPath := filepath.Join(root, "archive.zip")
	data := []byte(nil)
	if kind == "linkchain" {
		data, name = buildLinkZip(r.chain, filepath.Join(root, "outside", "keep"))
	} else {
		data = buildZip(name, kind)
	}
	if err := afero.WriteFile(base, zipPath, data, 0o644); err != nil {
		return err
	}
	var dest string
	switch destShape {
	case "abs":
		dest = filepath.Join(root, "dest")
	case "trailing":
		dest = filepath.Join(root, "dest") + "/"
	case "rel":
		dest = fmt.Sprintf("reldest%d", r.id)
	case "dot":
		dest = "."
	case "dotdot":
		dest = ".."
	case "dotdot2":
		dest = "../.."
	}
	destAbs, destComps := split(dest)
	_, cwdComps := split(r.cwd)
	_, nm := split(strings.ReplaceAll(name, "\\", "/"))
	if sep == "/" {
		_, nm = split(strings.TrimPrefix(name, "/"))
	}
	if converted {
		nm = append([]string{}, nameComps...) // the model's tokens: the trace specification knows what "E.." becomes
		// does the conversion the extraction applies to this very path really turn the element into ".."? (it depends on which
		// character set the detection settles on for the whole path; if it does not, the element is just an odd name)
		full := filepath.Join(filepath.Clean(dest), name)
		becomes := false
		if enc, _, derr := charset.DetectTextEncoding([]byte(full)); derr == nil {
			if out, cerr := charset.IconvString(full, enc, unicode.UTF8); cerr == nil {
				becomes = !strings.Contains(out, "\x1b")
			}
		}
		if !becomes {
			for i := range nm {
				if nm[i] == "E.." {
					nm[i] = "oddname"
				}
			}
		}
	}
	if kind == "nested" && r.root != "" {
		stem = r.root // what the judge is given: the unpacking directory's name
	}
	r.w.Write(map[string]any{"ev": "Begin", "id": r.id, "backend": backend, "destAbs": destAbs, "dest": nonNil(destComps), "cwd": nonNil(cwdComps), "name": nonNil(nm),
		"leadingSep": strings.HasPrefix(name, "/"), "kind": kind, "stem": stem, "sep": sep, "raw": fmt.Sprintf("%q", name)})
	gate := fsgate.NewGate(nil, "")
	gate.OnEvent = func(g *fsgate.Event) {
		if !g.Mut || strings.HasPrefix(g.Op, "File.") {
			return
		}
		for _, p := range []string{g.Path, g.Path2} {
			if p == "" {
				continue
			}
			abs, comps := split(p)
			r.w.Write(map[string]any{"ev": "Mutate", "id": r.id, "op": g.Op, "path": nonNil(comps), "pathAbs": abs, "raw": fmt.Sprintf("%q", p)})
		}
	}
	fs := filesystem.NewVirtualFileSystem(fsgate.New(base, "op", gate), fstype, filesystem.IdentityPathConverterFunc)
	before := sandbox.Take(base, root)
	var osBefore sandbox.Snapshot
	if backend == "os" {
		osBefore = sandbox.Take(base, r.osRoot)
	}
	done := make(chan error, 1)
	go func() {
		var err error
		if kind == "nested" {
			_, err = fs.UnzipWithContextAndLimits(context.Background(), zipPath, dest, filesystem.NewLimits(1<<20, 1<<24, 1000, 50, true))
		} else {
			_, err = fs.Unzip(zipPath, dest)
		}
		done <- err
	}()
	res := "blocked"
	select {
	case err := <-done:
		res = hk.Kind(err)
	case <-time.After(20 * time.Second):
	}
	after := sandbox.Take(base, root)
	var outside []string
	destRel := "dest"
	for _, p := range sandbox.Diff(before, after, "") {
		if p == destRel || strings.HasPrefix(p, destRel+"/") || p == "." {
			continue
		}
		outside = append(outside, p)
	}
	if backend == "os" {
		// everything else in the sandbox, relative to its top: the destination region is where a relative destination
		// resolves from the working directory cwd/lvl1/lvl2
		own := fmt.Sprintf("s%d", r.id)
		region := ""
		switch destShape {
		case "rel":
			region = "cwd/lvl1/lvl2/" + dest
		case "dot":
			region = "cwd/lvl1/lvl2"
		case "dotdot":
			region = "cwd/lvl1"
		case "dotdot2":
			region = "cwd"
		}
		for _, p := range sandbox.Diff(osBefore, sandbox.Take(base, r.osRoot), "") {
			if p == "." || p == own || strings.HasPrefix(p, own+"/") {
				continue
			}
			if region != "" && (p == region || strings.HasPrefix(p, region+"/")) {
				continue
			}
			if region != "" && strings.HasPrefix(region, p+"/") && isDir(filepath.Join(r.osRoot, p)) {
				continue // an ancestor directory of the destination (its modification time changes)
			}
			outside = append(outside, "sandbox/"+p)
		}
	}
	if outside == nil {
		outside = []string{}
	}
	r.w.Write(map[string]any{"ev": "End", "id": r.id, "result": res, "outside": outside})
	if backend == "os" {
		_ = os.RemoveAll(root)
		if destShape == "rel" {
			_ = os.RemoveAll(filepath.Join(r.cwd, dest))
		}
		if destShape == "dot" { // what was extracted into the working directory goes
			ents, _ := os.ReadDir(r.cwd)
			for _, en := range ents {
				_ = os.RemoveAll(filepath.Join(r.cwd, en.Name()))
			}
		}
		if destShape == "dot" || destShape == "dotdot" || destShape == "dotdot2" {
			// restore the shared parents of the working directory
			for _, d := range []string{filepath.Join(r.osRoot, "cwd", "lvl1"), filepath.Join(r.osRoot, "cwd")} {
				ents, _ := os.ReadDir(d)
				for _, en := range ents {
					if en.Name() != "lvl1" && en.Name() != "lvl2" && en.Name() != "victim.txt" {
						_ = os.RemoveAll(filepath.Join(d, en.Name()))
					}
				}
			}
			_ = os.WriteFile(filepath.Join(r.osRoot, "cwd", "victim.txt"), []byte("precious"), 0o644)
			_ = os.WriteFile(filepath.Join(r.osRoot, "victim.txt"), []byte("precious"), 0o644)
		}
	}
	return nil
}

func isDir(p string) bool {
	st, err := os.Lstat(p)
	return err == nil && st.IsDir()
}

func newRunner(a *hk.Args) (*runner, func(), error) {
	w, err := hk.NewWriter(a.Out)
	if err != nil {
		return nil, nil, err
	}
	osRoot, err := os.MkdirTemp(a.Dir, "c02-")
	if err != nil {
		return nil, nil, err
	}
	cwd := filepath.Join(osRoot, "cwd", "lvl1", "lvl2")
	_ = os.MkdirAll(cwd, 0o755)
	_ = os.WriteFile(filepath.Join(osRoot, "cwd", "victim.txt"), []byte("precious"), 0o644)
	_ = os.WriteFile(filepath.Join(osRoot, "victim.txt"), []byte("precious"), 0o644)
	old, _ := os.Getwd()
	if err := os.Chdir(cwd); err != nil {
		return nil, nil, err
	}
	r := &runner{w: w, scratch: a.Dir, osRoot: osRoot, cwd: cwd}
	return r, func() { _ = os.Chdir(old); _ = w.Close(); _ = os.RemoveAll(osRoot) }, nil
}

func replay(a *hk.Args) error {
	scs, err := hk.ReadNDJSON[scenario](a.In)
	if err != nil {
		return err
	}
	r, cleanup, err := newRunner(a)
	if err != nil {
		return err
	}
	defer cleanup()
	rng := rand.New(rand.NewSource(a.Seed))
	for _, sc := range scs {
		sep := "/"
		if rng.Intn(6) == 0 {
			sep = "//" // doubled separators
		}
		if sc.Kind == "linkchain" {
			r.chain = sc.Chain
			for _, shape := range []string{"abs", "rel"} {
				if err := r.run("os", nil, false, "/", "linkchain", "", shape, ""); err != nil {
					return err
				}
			}
			continue
		}
		r.ext, r.root = sc.Ext, sc.RootName
		if err := r.run("os", sc.Comps, sc.LeadingSep, sep, sc.Kind, sc.Stem, sc.DestShape, ""); err != nil {
			return err
		}
		if sc.DestShape == "abs" || sc.DestShape == "trailing" {
			if err := r.run("mem", sc.Comps, sc.LeadingSep, sep, sc.Kind, sc.Stem, sc.DestShape, ""); err != nil {
				return err
			}
		}
	}
	return nil
}

// fuzz: entry names over raw bytes (control characters, backslashes, bytes that are not valid UTF-8 in
// UTF-16 / Shift-JIS / EBCDIC looking shapes); the specification computes whether the name escapes.
func fuzz(a *hk.Args) error {
	r, cleanup, err := newRunner(a)
	if err != nil {
		return err
	}
	defer cleanup()
	rng := rand.New(rand.NewSource(a.Seed))
	n := a.N
	if n == 0 {
		n = 300
	}
	pieces := []string{"..", ".", "", "a", "b", "...", "a..b", "\\", "..\\", "\xff\xfe", "\xfe\xff", "\x82\xa0", "\x8f\xb0", "\xc3\x28", "\xa0\xa1", "\x00a"[1:], "\x01", "\x7f", " ", "é", "日本", "\x83\x5c", "\xff", "\xe4\xb8"}
	for i := 0; i < n; i++ {
		var comps []string
		nc := 1 + rng.Intn(4)
		for c := 0; c < nc; c++ {
			s := ""
			for k := 1 + rng.Intn(3); k > 0; k-- {
				s += pieces[rng.Intn(len(pieces))]
			}
			if rng.Intn(3) == 0 {
				s = pieces[rng.Intn(6)]
			}
			comps = append(comps, s)
		}
		name := strings.Join(comps, "/")
		if rng.Intn(5) == 0 {
			name = "/" + name
		}
		if rng.Intn(10) == 0 { // a name that is UTF-16 text as a whole
			name = "\xff\xfe" + strings.Join(strings.Split("../../x", ""), "\x00") + "\x00"
		}
		if strings.ContainsRune(name, 0) && rng.Intn(2) == 0 {
			name = strings.ReplaceAll(name, "\x00", "")
		}
		if name == "" || name == "/" {
			continue
		}
		shape := []string{"abs", "trailing", "rel", "dotdot", "dotdot2"}[rng.Intn(5)]
		kind := []string{"file", "file", "dir"}[rng.Intn(3)]
		if err := r.run("os", nil, false, "/", kind, "S", shape, name); err != nil {
			return err
		}
		if (shape == "abs" || shape == "trailing") && rng.Intn(2) == 0 {
			if err := r.run("mem", nil, false, "/", kind, "S", shape, name); err != nil {
				return err
			}
		}
	}
	return nil
}
