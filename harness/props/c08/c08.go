// Package c08 binds specs/fs/FsExclude.tla to the exclusion-aware operations of the filesystem package.
package c08

import (
	"archive/zip"
	"context"
	"os"
	"path/filepath"
	"regexp"
	"sort"
	"strings"
	"time"

	"github.com/spf13/afero"

	"github.com/ARM-software/golang-utils/utils/filesystem"

	"verifharness/internal/fsgate"
	"verifharness/internal/hk"
	"verifharness/internal/sandbox"
)

func init() { hk.Register("c08", "replay", replay) }

type node struct {
	Path []string
	Kind string
}

type scenario struct {
	Tree        string     `json:"tree"`
	Nodes       [][]any    `json:"nodes"`
	Patterns    []string   `json:"patterns"`
	Op          string     `json:"op"`
	MustSkip    [][]string `json:"mustSkip"`
	MustProcess [][]string `json:"mustProcess"`
	InvalidSets [][]string `json:"invalidSets"`
}

type event struct {
	Op          string   `json:"op"`
	Call        string   `json:"call"`
	Backend     string   `json:"backend"`
	Tree        string   `json:"tree"`
	Patterns    []string `json:"patterns"`
	Err         string   `json:"err"`
	Processed   []string `json:"processed"`
	MustSkip    []string `json:"mustSkip"`
	MustProcess []string `json:"mustProcess"`
	Invalid     bool     `json:"invalid"` // an invalid pattern was supplied
	Touched     []string `json:"touched"` // paths changed in the sandbox (invalid-pattern scenarios)
	Skipped     bool     `json:"skipped"` // precondition not met: the sandbox path itself contains a match
	Across      []string `json:"across"`  // entries whose slash-joined path contains a match although no single component does
}

func join(p []string) string { return strings.Join(p, "/") }

func nz(s []string) []string {
	if s == nil {
		return []string{}
	}
	sort.Strings(s)
	return s
}

func runOne(sc *scenario, backend, scratch string, patterns []string, invalid bool) (event, error) {
	ev := event{Op: "Exclude", Call: sc.Op, Backend: backend, Tree: sc.Tree, Patterns: patterns, Invalid: invalid}
	var base afero.Fs
	var root string
	fstype := filesystem.InMemoryFS
	if backend == "os" {
		dir, err := os.MkdirTemp(scratch, "c08-")
		if err != nil {
			return ev, err
		}
		defer os.RemoveAll(dir)
		base, root, fstype = filesystem.NewExtendedOsFs(), dir, filesystem.StandardFS
	} else {
		base, root = afero.NewMemMapFs(), "/c08"
	}
	src := filepath.Join(root, "in")
	_ = base.MkdirAll(src, 0o755)
	for _, n := range sc.Nodes {
		var comps []string
		for _, c := range n[0].([]any) {
			comps = append(comps, c.(string))
		}
		p := filepath.Join(src, filepath.FromSlash(join(comps)))
		if n[1].(string) == "dir" {
			_ = base.MkdirAll(p, 0o755)
		} else {
			_ = base.MkdirAll(filepath.Dir(p), 0o755)
			_ = afero.WriteFile(base, p, []byte("content "+join(comps)), 0o644)
		}
	}
	// precondition of the statement: the location of the tree contains no match
	if !invalid {
		for _, pat := range patterns {
			if re, err := regexp.Compile(pat); err == nil && (re.MatchString(src) || re.MatchString(filepath.Join(root, "out")) || re.MatchString(filepath.Join(root, "out.zip"))) {
				ev.Skipped = true
			}
		}
	}
	for _, p := range sc.MustSkip {
		ev.MustSkip = append(ev.MustSkip, join(p))
	}
	for _, p := range sc.MustProcess {
		ev.MustProcess = append(ev.MustProcess, join(p))
	}
	for _, p := range ev.MustProcess {
		for _, pat := range patterns {
			if re, err := regexp.Compile(pat); err == nil && re.MatchString("/"+p+"/") {
				ev.Across = append(ev.Across, p)
				break
			}
		}
	}
	ev.Across = nz(ev.Across)
	ev.MustSkip, ev.MustProcess, ev.Processed, ev.Touched = nz(ev.MustSkip), nz(ev.MustProcess), []string{}, []string{}
	if ev.Skipped {
		return ev, nil
	}
	gate := fsgate.NewGate(nil, "")
	fs := filesystem.NewVirtualFileSystem(fsgate.New(base, "op", gate), fstype, filesystem.IdentityPathConverterFunc)
	ctx := context.Background()
	before := sandbox.Take(base, root)
	rel := func(p string) string {
		r, err := filepath.Rel(src, p)
		if err != nil {
			return p
		}
		return filepath.ToSlash(r)
	}
	var processed []string
	var err error
	done := make(chan struct{})
	go func() {
		defer close(done)
		switch sc.Op {
		case "Walk":
			err = fs.WalkWithContextAndExclusionPatterns(ctx, src, func(p string, info os.FileInfo, e error) error {
				if e != nil {
					return e
				}
				if r := rel(p); r != "." {
					processed = append(processed, r)
				}
				return nil
			}, patterns...)
		case "Ls":
			processed, err = fs.LsWithExclusionPatterns(src, patterns...)
		case "LsRecursive":
			var l []string
			l, err = fs.LsRecursiveWithExclusionPatterns(ctx, src, true, patterns...)
			for _, p := range l {
				if r := rel(p); r != "." {
					processed = append(processed, r)
				}
			}
		case "ListDirTree":
			var l []string
			err = fs.ListDirTreeWithContextAndExclusionPatterns(ctx, src, &l, patterns...)
			for _, p := range l {
				processed = append(processed, rel(p))
			}
		case "SubDirectories":
			processed, err = fs.SubDirectoriesWithContextAndExclusionPatterns(ctx, src, patterns...)
		case "Copy":
			dst := filepath.Join(root, "out")
			err = fs.CopyWithContextAndExclusionPatterns(ctx, src, dst, patterns...)
			for _, p := range sandbox.Take(base, dst).Paths("") {
				if p != "." {
					processed = append(processed, p)
				}
			}
		case "Zip":
			dst := filepath.Join(root, "out.zip")
			err = fs.ZipWithContextAndLimitsAndExclusionPatterns(ctx, src, dst, filesystem.NoLimits(), patterns...)
			if err == nil {
				b, rerr := afero.ReadFile(base, dst)
				if rerr == nil {
					if zr, zerr := zip.NewReader(strings.NewReader(string(b)), int64(len(b))); zerr == nil {
						for _, f := range zr.File {
							processed = append(processed, strings.TrimSuffix(filepath.ToSlash(f.Name), "/"))
						}
					}
				}
			}
		case "Remove":
			err = fs.RemoveWithContextAndExclusionPatterns(ctx, src, patterns...)
		case "CleanDir":
			err = fs.CleanDirWithContextAndExclusionPatterns(ctx, src, patterns...)
		}
	}()
	select {
	case <-done:
	case <-time.After(20 * time.Second):
		ev.Err = "blocked"
		return ev, nil
	}
	ev.Err = hk.Kind(err)
	after := sandbox.Take(base, root)
	if sc.Op == "Remove" || sc.Op == "CleanDir" {
		for _, p := range before.Paths("in") {
			if _, ok := after[p]; !ok && p != "in" {
				processed = append(processed, strings.TrimPrefix(p, "in/"))
			}
		}
	}
	ev.Processed = nz(processed)
	if invalid {
		ev.Touched = nz(sandbox.Diff(before, after, ""))
	}
	return ev, nil
}

func replay(a *hk.Args) error {
	scs, err := hk.ReadNDJSON[scenario](a.In)
	if err != nil {
		return err
	}
	w, err := hk.NewWriter(a.Out)
	if err != nil {
		return err
	}
	defer w.Close()
	seenInvalid := map[string]bool{}
	for i := range scs {
		sc := &scs[i]
		pats := append([]string{}, sc.Patterns...)
		sort.Strings(pats)
		for _, backend := range []string{"mem", "os"} {
			ev, err := runOne(sc, backend, a.Dir, pats, false)
			if err != nil {
				return err
			}
			w.Write(ev)
			// the model's invalid pattern sets, once per (tree, operation, backend), in both orders
			k := sc.Tree + sc.Op + backend
			if !seenInvalid[k] {
				seenInvalid[k] = true
				for _, inv := range sc.InvalidSets {
					set := append([]string{}, inv...)
					sort.Strings(set)
					for rev := 0; rev < len(set); rev++ {
						if rev == 1 {
							set[0], set[len(set)-1] = set[len(set)-1], set[0]
						}
						ev, err := runOne(sc, backend, a.Dir, append(append([]string{}, set...), pats...), true)
						if err != nil {
							return err
						}
						w.Write(ev)
					}
				}
			}
		}
	}
	return nil
}
