package c07

// Binding of specs/archive/Resource.tla (growth: resource.CloseableResource, the wrapper the closable views hand their
// underlying files to): the sequential histories of the model run on the real wrapper over a scripted io.Closer, and rounds
// of N goroutines closing at once; ResourceTrace.tla recomputes every answer.

import (
	"errors"
	"sync"
	"sync/atomic"
	"time"

	"github.com/ARM-software/golang-utils/utils/resource"

	"verifharness/internal/hk"
)

func init() {
	hk.Register("c07", "resource", resourceRun)
}

type scriptedCloser struct {
	fails atomic.Int64 // failures still to come
	calls atomic.Int64
	succ  atomic.Int64
	inUse atomic.Int64
	both  atomic.Bool // two calls overlapped
	slow  time.Duration
}

func (s *scriptedCloser) Close() error {
	if s.inUse.Add(1) > 1 {
		s.both.Store(true)
	}
	defer s.inUse.Add(-1)
	s.calls.Add(1)
	if s.slow > 0 {
		time.Sleep(s.slow)
	}
	if s.fails.Add(-1) >= 0 {
		return errors.New("scripted failure of the underlying closer")
	}
	s.fails.Store(0)
	s.succ.Add(1)
	return nil
}

type resStep struct {
	Op string `json:"op"`
	C  string `json:"c"`
}

type resScenario struct {
	Fails int       `json:"fails"`
	Steps []resStep `json:"steps"`
	N     int       `json:"n"` // > 0: a concurrent round
}

type resGot struct {
	Err         bool `json:"err"`
	ClosedAfter bool `json:"closedAfter"`
	Calls       int  `json:"calls"`
}

type resEvent struct {
	Op          string    `json:"op"`
	Fails       int       `json:"fails"`
	Steps       []resStep `json:"steps"`
	Got         []resGot  `json:"got"`
	Succ        int       `json:"succ"`
	N           int       `json:"n"`
	Calls       int       `json:"calls"`
	Errs        int       `json:"errs"`
	ClosedAtEnd bool      `json:"closedAtEnd"`
	Overlap     bool      `json:"overlap"`
}

func resourceRun(a *hk.Args) error {
	scs, err := hk.ReadNDJSON[resScenario](a.In)
	if err != nil {
		return err
	}
	w, err := hk.NewWriter(a.Out)
	if err != nil {
		return err
	}
	defer w.Close()
	for _, sc := range scs {
		u := &scriptedCloser{}
		u.fails.Store(int64(sc.Fails))
		r := resource.NewCloseableResource(u, "scripted")
		if sc.N == 0 {
			ev := resEvent{Op: "ResourceSeq", Fails: sc.Fails, Steps: sc.Steps, Got: []resGot{}}
			for _, st := range sc.Steps {
				g := resGot{}
				if st.Op == "Close" {
					g.Err = r.Close() != nil
				}
				g.ClosedAfter = r.IsClosed()
				g.Calls = int(u.calls.Load())
				ev.Got = append(ev.Got, g)
			}
			ev.Succ = int(u.succ.Load())
			w.Write(ev)
			continue
		}
		u.slow = 200 * time.Microsecond
		ev := resEvent{Op: "ResourceConc", Fails: sc.Fails, N: sc.N, Steps: []resStep{}, Got: []resGot{}}
		var wg sync.WaitGroup
		var errs atomic.Int64
		start := make(chan struct{})
		for i := 0; i < sc.N; i++ {
			wg.Add(1)
			go func() {
				defer wg.Done()
				<-start
				if r.Close() != nil {
					errs.Add(1)
				}
				_ = r.IsClosed()
			}()
		}
		close(start)
		wg.Wait()
		ev.Calls, ev.Succ, ev.Errs, ev.ClosedAtEnd, ev.Overlap = int(u.calls.Load()), int(u.succ.Load()), int(errs.Load()), r.IsClosed(), u.both.Load()
		w.Write(ev)
	}
	return nil
}
