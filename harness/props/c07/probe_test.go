package c07

import (
	"archive/tar"
	"archive/zip"
	"bytes"
	"fmt"
	"os"
	"testing"
	"time"

	"github.com/ARM-software/golang-utils/utils/filesystem"
)

func TestProbe(t *testing.T) {
	dir := t.TempDir()
	var zb bytes.Buffer
	zw := zip.NewWriter(&zb)
	_, _ = zw.Create("d/")
	w, _ := zw.Create("d/f.txt")
	_, _ = w.Write([]byte("hello"))
	_, _ = zw.Create("e/")
	_ = zw.Close()
	_ = os.WriteFile(dir+"/a.zip", zb.Bytes(), 0o644)
	var tb bytes.Buffer
	tw := tar.NewWriter(&tb)
	_ = tw.WriteHeader(&tar.Header{Name: "d/", Typeflag: tar.TypeDir, Mode: 0o755, ModTime: time.Now()})
	_ = tw.WriteHeader(&tar.Header{Name: "d/f.txt", Typeflag: tar.TypeReg, Mode: 0o644, Size: 5, ModTime: time.Now()})
	_, _ = tw.Write([]byte("hello"))
	_ = tw.WriteHeader(&tar.Header{Name: "e/", Typeflag: tar.TypeDir, Mode: 0o755, ModTime: time.Now()})
	_ = tw.Close()
	_ = os.WriteFile(dir+"/a.tar", tb.Bytes(), 0o644)
	std := filesystem.NewStandardFileSystem()
	for _, kind := range []string{"zip", "tar"} {
		var v filesystem.ICloseableFS
		var f filesystem.File
		var err error
		if kind == "zip" {
			v, f, err = filesystem.NewZipFileSystem(std, dir+"/a.zip", filesystem.NoLimits())
		} else {
			v, f, err = filesystem.NewTarFileSystem(std, dir+"/a.tar", filesystem.NoLimits())
		}
		fmt.Println(kind, "open:", err, f != nil)
		for _, root := range []string{"/", ".", "", "d", "/d", "d/", "/d/f.txt", "d/f.txt"} {
			names, err := v.Ls(root)
			st, serr := v.Stat(root)
			fmt.Printf("  Ls(%q) = %v, %v ; Stat err=%v isdir=%v\n", root, names, err, serr, st != nil && st.IsDir())
		}
		var l []string
		fmt.Println("  walk:", v.Walk("/", func(p string, i os.FileInfo, e error) error { l = append(l, p); return e }), l)
		l = nil
		fmt.Println("  tree:", v.ListDirTree("/", &l), l)
		b, err := v.ReadFile("/d/f.txt")
		fmt.Println("  read:", string(b), err)
		fmt.Println("  write:", v.WriteFile("/d/new.txt", []byte("x"), 0o644))
		fmt.Println("  close:", v.Close())
		_, err = v.Ls("/")
		fmt.Println("  ls after close:", err)
		fmt.Println("  exists after close:", v.Exists("/d"))
		fmt.Println("  close again:", v.Close())
	}
}
