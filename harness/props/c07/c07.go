// Package c07 binds specs/archive/ArchiveRoundTrip.tla and specs/archive/ClosableFs.tla to the real code: trees of
// the model are materialised on both backends, zipped with Zip, extracted with Unzip (with and without limits), opened
// through the read-only zip and tar filesystems; the dumps (path, kind, size, content hash, modification time) are
// judged by ArchiveTrace.tla. Programs of calls around Close() are run on both views, each abstract call class expanded
// to every concrete method of the FS interface (methods.go), and judged by ClosableTrace.tla.
package c07

import (
	"archive/tar"
	"bytes"
	"context"
	"crypto/sha256"
	"encoding/hex"
	"fmt"
	"math/rand"
	"os"
	"path"
	"path/filepath"
	"sort"
	"strings"
	"time"

	"github.com/spf13/afero"

	"github.com/ARM-software/golang-utils/utils/filesystem"

	"verifharness/internal/fsgate"
	"verifharness/internal/hk"
)

func init() {
	hk.Register("c07", "replay", replay)
	hk.Register("c07", "fuzz", fuzz)
	hk.Register("c07", "closeseq", closeseq)
	hk.Register("c07", "methods", methods)
}

// name classes of the model -> real names
var realName = map[string]string{
	"plain":  "plain",
	"dot":    ".hidden",
	"dotdot": "a..b",
	"space":  "sp ace",
	"uni":    "ünï-ço-日本",
	"meta":   "m&$(x);'q*?[",
	"long":   strings.Repeat("L", 200),
	"trail":  "trail.",
	"nl":     "new\nline",
	"dash":   "-rf",
	"zipext": "inner.zip", // a name with an archive extension (a directory, or a file that is no archive)
}

var tokenOf = func() map[string]string {
	m := map[string]string{}
	for k, v := range realName {
		m[v] = k
	}
	return m
}()

func toToken(rel string) string {
	if rel == "" || rel == "." {
		return "."
	}
	comps := strings.Split(rel, "/")
	for i, c := range comps {
		if t, ok := tokenOf[c]; ok {
			comps[i] = t
		} else {
			comps[i] = "raw:" + hex.EncodeToString([]byte(c))
		}
	}
	return strings.Join(comps, "/")
}

type mnode struct {
	Path []string `json:"path"`
	Kind string   `json:"kind"`
	Size int      `json:"size"`
}

type scenario struct {
	Shape string  `json:"shape"`
	Nodes []mnode `json:"nodes"`
	Mt    string  `json:"mt"`
	Prior string  `json:"prior"` // what the destination of Zip holds beforehand: absent | empty | longer
}

// a measured entry
type rec struct {
	rel   string // slash separated, real names
	kind  string
	size  int64
	hash  string
	mtime time.Time
	extra string
}

func (r rec) pp() string  { return toToken(r.rel) }
func (r rec) pk() string  { return toToken(r.rel) + "|" + r.kind }
func (r rec) pc() string  { return fmt.Sprintf("%s|%s|%d|%s", toToken(r.rel), r.kind, r.size, r.hash) }
func (r rec) ptm() string { return fmt.Sprintf("%s|%s", toToken(r.rel), stamp(r.mtime)) }

func stamp(t time.Time) string {
	if t.Nanosecond() == 0 {
		return fmt.Sprint(t.Unix())
	}
	return fmt.Sprintf("%d.%09d", t.Unix(), t.Nanosecond())
}

func content(rel string, size int) []byte {
	h := sha256.Sum256([]byte(rel))
	rng := rand.New(rand.NewSource(int64(h[0])<<8 | int64(h[1])))
	b := make([]byte, size)
	// half compressible, half not
	for i := range b {
		if i%2 == 0 {
			b[i] = byte('a' + i%7)
		} else {
			b[i] = byte(rng.Intn(256))
		}
	}
	return b
}

func hashOf(b []byte) string {
	h := sha256.Sum256(b)
	return hex.EncodeToString(h[:8])
}

// dump walks dir on base (no library code involved) and returns the entries below it.
func dump(base afero.Fs, dir string) []rec {
	var out []rec
	var walk func(p string)
	walk = func(p string) {
		d, err := base.Open(p)
		if err != nil {
			return
		}
		names, _ := d.Readdirnames(-1)
		_ = d.Close()
		sort.Strings(names)
		for _, n := range names {
			full := filepath.Join(p, n)
			var fi os.FileInfo
			if l, ok := base.(afero.Lstater); ok {
				fi, _, err = l.LstatIfPossible(full)
			} else {
				fi, err = base.Stat(full)
			}
			if err != nil {
				continue
			}
			rel, _ := filepath.Rel(dir, full)
			r := rec{rel: filepath.ToSlash(rel), mtime: fi.ModTime()}
			switch {
			case fi.Mode()&os.ModeSymlink != 0:
				r.kind = "link"
			case fi.IsDir():
				r.kind, r.hash = "dir", "-"
			default:
				b, _ := afero.ReadFile(base, full)
				r.kind, r.size, r.hash = "file", int64(len(b)), hashOf(b)
			}
			out = append(out, r)
			if r.kind == "dir" {
				walk(full)
			}
		}
	}
	walk(dir)
	return out
}

// viewDump walks an archive view through the library's direct accessors (Stat, Ls, ReadFile).
func viewDump(v filesystem.FS) (out []rec, problems []string) {
	var walk func(p string)
	walk = func(p string) {
		names, err := v.Ls(p)
		if err != nil {
			problems = append(problems, fmt.Sprintf("Ls(%s): %s", toToken(strings.TrimPrefix(p, "/")), hk.Kind(err)))
			return
		}
		sort.Strings(names)
		for _, n := range names {
			full := path.Join(p, n)
			fi, err := v.Stat(full)
			if err != nil {
				problems = append(problems, fmt.Sprintf("Stat(%s): %s", toToken(strings.TrimPrefix(full, "/")), hk.Kind(err)))
				continue
			}
			r := rec{rel: strings.TrimPrefix(full, "/"), mtime: fi.ModTime()}
			if fi.IsDir() {
				r.kind, r.hash = "dir", "-"
			} else {
				b, err := v.ReadFile(full)
				// reading nothing is the 'empty' error kind throughout the library (safeio): not a fault of the view
				if err != nil && !(fi.Size() == 0 && hk.Kind(err) == "empty") {
					problems = append(problems, fmt.Sprintf("ReadFile(%s): %s", toToken(r.rel), hk.Kind(err)))
				}
				r.kind, r.size, r.hash = "file", fi.Size(), hashOf(b)
				if int64(len(b)) != fi.Size() {
					problems = append(problems, fmt.Sprintf("size(%s): Stat says %d, ReadFile returned %d bytes", toToken(r.rel), fi.Size(), len(b)))
				}
			}
			out = append(out, r)
			if r.kind == "dir" {
				walk(full)
			}
		}
	}
	walk("/")
	// the composite listings must agree with the direct accessors
	var tree []string
	if err := v.ListDirTree("/", &tree); err != nil {
		problems = append(problems, "ListDirTree: "+hk.Kind(err))
	} else if len(tree) != len(out) {
		problems = append(problems, fmt.Sprintf("ListDirTree lists %d entries, the accessors %d", len(tree), len(out)))
	}
	n := 0
	if err := v.Walk("/", func(p string, _ os.FileInfo, err error) error { n++; return err }); err != nil {
		problems = append(problems, "Walk: "+hk.Kind(err))
	} else if n != len(out)+1 {
		problems = append(problems, fmt.Sprintf("Walk visits %d entries, the accessors list %d", n-1, len(out)))
	}
	return
}

func proj(rs []rec, f func(rec) string) []string {
	out := []string{}
	for _, r := range rs {
		out = append(out, f(r))
	}
	sort.Strings(out)
	return out
}

type rtEvent struct {
	Op      string   `json:"op"`
	ID      int      `json:"id"`
	Backend string   `json:"backend"`
	Shape   string   `json:"shape"`
	Mt      string   `json:"mt"`
	Prior   string   `json:"prior"`
	Model   []string `json:"model"` // path|kind|size from the scenario (empty for fuzzed trees)
	HasM    bool     `json:"hasModel"`
	SrcK    []string `json:"srcK"` // measured source: path|kind
	SrcS    []string `json:"srcS"` // path|kind|size (as the model states it: size 0 for directories)
	SrcC    []string `json:"srcC"` // path|kind|size|hash
	SrcT    []string `json:"srcT"` // path|mtime truncated to the archive precision (1 s)
	SrcC2   []string `json:"srcAfterC"`
	ZipErr  string   `json:"zipErr"`
	UnzErr  string   `json:"unzipErr"`
	ExtP    []string `json:"extP"` // paths created by the extraction
	Ext2P   []string `json:"ext2P"`
	ExtC    []string `json:"extC"`
	ExtT    []string `json:"extT"`
	List    []string `json:"list"`    // returned paths relative to the destination (token form), as returned (with repeats)
	ListOut []string `json:"listOut"` // returned paths that are not inside the destination
	Unz2Err string   `json:"unzipLimitsErr"`
	Ext2C   []string `json:"ext2C"`
	Ext2T   []string `json:"ext2T"`
	List2   []string `json:"list2"`
	Unz3Err string   `json:"unzipRecursiveErr"` // extraction with the default (recursive) limits: the trees hold no real archive
	Ext3P   []string `json:"ext3P"`
	Ext3C   []string `json:"ext3C"`
	Ext3T   []string `json:"ext3T"`
	List3   []string `json:"list3"`
	ZvErr   string   `json:"zipViewErr"`
	ZvC     []string `json:"zipViewC"`
	ZvProb  []string `json:"zipViewProblems"`
	TvErr   string   `json:"tarViewErr"`
	TvC     []string `json:"tarViewC"`
	TvProb  []string `json:"tarViewProblems"`
	Handles int      `json:"handles"`
}

func backendFs(backend, scratch string) (afero.Fs, string, func(), error) {
	if backend == "os" {
		d, err := os.MkdirTemp(scratch, "c07-")
		if err != nil {
			return nil, "", nil, err
		}
		return filesystem.NewExtendedOsFs(), d, func() { _ = os.RemoveAll(d) }, nil
	}
	return afero.NewMemMapFs(), "/c07", func() {}, nil
}

func baseTime(mt string) time.Time {
	switch mt {
	case "even":
		return time.Unix(1700000000, 0)
	case "odd":
		return time.Unix(1700000001, 0)
	case "subsec":
		return time.Unix(1700000002, 987654321)
	case "old":
		return time.Unix(631152001, 0) // 1990
	}
	return time.Unix(1700000000, 0)
}

type tnode struct {
	rel  string // real names, slash separated
	dir  bool
	data []byte
	mt   time.Time
}

// materialise writes the tree under src; modification times are set deepest first so that they stick.
func materialise(base afero.Fs, src string, nodes []tnode) {
	_ = base.MkdirAll(src, 0o755)
	sort.Slice(nodes, func(i, j int) bool { return nodes[i].rel < nodes[j].rel })
	for _, n := range nodes {
		p := filepath.Join(src, filepath.FromSlash(n.rel))
		if n.dir {
			_ = base.MkdirAll(p, 0o755)
		} else {
			_ = base.MkdirAll(filepath.Dir(p), 0o755)
			_ = afero.WriteFile(base, p, n.data, 0o644)
		}
	}
	for i := len(nodes) - 1; i >= 0; i-- {
		p := filepath.Join(src, filepath.FromSlash(nodes[i].rel))
		_ = base.Chtimes(p, nodes[i].mt, nodes[i].mt)
	}
}

func writeTar(base afero.Fs, dest string, src string, rs []rec) error {
	var buf bytes.Buffer
	tw := tar.NewWriter(&buf)
	for _, r := range rs {
		h := &tar.Header{Name: r.rel, ModTime: r.mtime, Format: tar.FormatPAX}
		if r.kind == "dir" {
			h.Name += "/"
			h.Typeflag, h.Mode = tar.TypeDir, 0o755
			if err := tw.WriteHeader(h); err != nil {
				return err
			}
			continue
		}
		b, err := afero.ReadFile(base, filepath.Join(src, filepath.FromSlash(r.rel)))
		if err != nil {
			return err
		}
		h.Typeflag, h.Mode, h.Size = tar.TypeReg, 0o644, int64(len(b))
		if err := tw.WriteHeader(h); err != nil {
			return err
		}
		if _, err := tw.Write(b); err != nil {
			return err
		}
	}
	if err := tw.Close(); err != nil {
		return err
	}
	return afero.WriteFile(base, dest, buf.Bytes(), 0o644)
}

func relList(list []string, dest string) (in, out []string) {
	in, out = []string{}, []string{}
	for _, p := range list {
		rel, err := filepath.Rel(dest, p)
		if err != nil || rel == ".." || strings.HasPrefix(rel, "../") {
			out = append(out, p)
			continue
		}
		in = append(in, toToken(filepath.ToSlash(rel)))
	}
	sort.Strings(in)
	return
}

func truncated(rs []rec) []rec {
	out := make([]rec, len(rs))
	for i, r := range rs {
		r.mtime = time.Unix(r.mtime.Unix(), 0)
		out[i] = r
	}
	return out
}

func roundTrip(id int, backend, scratch string, nodes []tnode, ev rtEvent) (rtEvent, error) {
	ev.Op, ev.ID, ev.Backend = "RoundTrip", id, backend
	base, root, cleanup, err := backendFs(backend, scratch)
	if err != nil {
		return ev, err
	}
	defer cleanup()
	src := filepath.Join(root, "src")
	materialise(base, src, nodes)
	gate := fsgate.NewGate(nil, "")
	gfs := fsgate.New(base, "op", gate)
	fstype := filesystem.InMemoryFS
	if backend == "os" {
		fstype = filesystem.StandardFS
	}
	fs := filesystem.NewVirtualFileSystem(gfs, fstype, filesystem.IdentityPathConverterFunc)
	before := dump(base, src)
	ev.SrcK, ev.SrcC, ev.SrcT = proj(before, rec.pk), proj(before, rec.pc), proj(truncated(before), rec.ptm)
	ev.SrcS = proj(before, func(r rec) string { return fmt.Sprintf("%s|%s|%d", toToken(r.rel), r.kind, r.size) })
	zipPath := filepath.Join(root, "out.zip")
	switch ev.Prior {
	case "empty":
		if err := afero.WriteFile(base, zipPath, nil, 0o644); err != nil {
			return ev, err
		}
	case "longer":
		// an older archive of a bigger tree (incompressible content: the archive is longer than any the scenarios produce)
		older := filepath.Join(root, "older")
		materialise(base, older, []tnode{{rel: "plain", data: content("older", 5000000), mt: baseTime("even")}, {rel: "uni", dir: true, mt: baseTime("even")}})
		if err := fs.Zip(older, zipPath); err != nil {
			return ev, fmt.Errorf("harness: older archive: %w", err)
		}
		_ = base.RemoveAll(older)
	}
	ev.ZipErr = hk.Kind(fs.Zip(src, zipPath))
	ev.SrcC2 = proj(dump(base, src), rec.pc)
	// extraction, without and with limits
	dest := filepath.Join(root, "ext")
	list, err := fs.Unzip(zipPath, dest)
	ev.UnzErr = hk.Kind(err)
	ext := dump(base, dest)
	ev.ExtP, ev.ExtC, ev.ExtT = proj(ext, rec.pp), proj(ext, rec.pc), proj(ext, rec.ptm)
	ev.List, ev.ListOut = relList(list, dest)
	dest2 := filepath.Join(root, "ext2")
	list2, err := fs.UnzipWithContextAndLimits(context.Background(), zipPath, dest2, filesystem.NewLimits(1<<30, 1<<32, 100000, 64, false))
	ev.Unz2Err = hk.Kind(err)
	ext2 := dump(base, dest2)
	ev.Ext2P, ev.Ext2C, ev.Ext2T = proj(ext2, rec.pp), proj(ext2, rec.pc), proj(ext2, rec.ptm)
	ev.List2, _ = relList(list2, dest2)
	dest3 := filepath.Join(root, "ext3")
	list3, err := fs.UnzipWithContextAndLimits(context.Background(), zipPath, dest3, filesystem.DefaultLimits())
	ev.Unz3Err = hk.Kind(err)
	ext3 := dump(base, dest3)
	ev.Ext3P, ev.Ext3C, ev.Ext3T = proj(ext3, rec.pp), proj(ext3, rec.pc), proj(ext3, rec.ptm)
	ev.List3, _ = relList(list3, dest3)
	// read-only views
	ev.ZvC, ev.ZvProb, ev.TvC, ev.TvProb = []string{}, []string{}, []string{}, []string{}
	zv, zf, err := filesystem.NewZipFileSystem(fs, zipPath, filesystem.NoLimits())
	ev.ZvErr = hk.Kind(err)
	if err == nil {
		rs, probs := viewDump(zv)
		ev.ZvC = proj(rs, rec.pc)
		ev.ZvProb = append(ev.ZvProb, probs...)
		_ = zv.Close()
	}
	if zf != nil {
		_ = zf.Close()
	}
	tarPath := filepath.Join(root, "out.tar")
	if err := writeTar(base, tarPath, src, before); err != nil {
		ev.TvErr = "harness: " + err.Error()
	} else {
		tv, tf, err := filesystem.NewTarFileSystem(fs, tarPath, filesystem.NoLimits())
		ev.TvErr = hk.Kind(err)
		if err == nil {
			rs, probs := viewDump(tv)
			ev.TvC = proj(rs, rec.pc)
			ev.TvProb = append(ev.TvProb, probs...)
			_ = tv.Close()
		}
		if tf != nil {
			_ = tf.Close()
		}
	}
	ev.Handles = gfs.OpenHandles()
	return ev, nil
}

func replay(a *hk.Args) error {
	scs, err := hk.ReadNDJSON[scenario](a.In)
	if err != nil {
		return err
	}
	w, err := hk.NewWriter(a.Out)
	if err != nil {
		return err
	}
	defer w.Close()
	for i, sc := range scs {
		var nodes []tnode
		model := []string{}
		sort.Slice(sc.Nodes, func(x, y int) bool { return strings.Join(sc.Nodes[x].Path, "/") < strings.Join(sc.Nodes[y].Path, "/") })
		for k, n := range sc.Nodes {
			comps := make([]string, len(n.Path))
			for j, c := range n.Path {
				comps[j] = realName[c]
			}
			rel := strings.Join(comps, "/")
			mt := baseTime(sc.Mt).Add(time.Duration(2*k) * time.Second)
			tn := tnode{rel: rel, dir: n.Kind == "dir", mt: mt}
			if !tn.dir {
				tn.data = content(rel, n.Size)
			}
			nodes = append(nodes, tn)
			model = append(model, fmt.Sprintf("%s|%s|%d", strings.Join(n.Path, "/"), n.Kind, n.Size))
		}
		sort.Strings(model)
		for _, backend := range []string{"os", "mem"} {
			ev, err := roundTrip(i+1, backend, a.Dir, append([]tnode{}, nodes...), rtEvent{Shape: sc.Shape, Mt: sc.Mt, Prior: sc.Prior, Model: model, HasM: true})
			if err != nil {
				return err
			}
			w.Write(ev)
		}
	}
	return nil
}

// fuzz: larger seeded trees (<= 200 entries, depth <= 6, random legal names, random sizes and times).
func fuzz(a *hk.Args) error {
	w, err := hk.NewWriter(a.Out)
	if err != nil {
		return err
	}
	defer w.Close()
	rng := rand.New(rand.NewSource(a.Seed))
	n := a.N
	if n == 0 {
		n = 20
	}
	alphabet := []rune("abcXYZ019 ._-+=,;'&$()[]{}*?!#%^~@éßλ中🙂\t")
	randName := func() string {
		for {
			l := 1 + rng.Intn(12)
			if rng.Intn(20) == 0 {
				l = 100 + rng.Intn(120)
			}
			var sb strings.Builder
			for i := 0; i < l; i++ {
				sb.WriteRune(alphabet[rng.Intn(len(alphabet))])
			}
			s := sb.String()
			if s != "." && s != ".." && len(s) <= 250 {
				return s
			}
		}
	}
	for t := 0; t < n; t++ {
		count := 1 + rng.Intn(200)
		if a.Tier != "thorough" {
			count = 1 + rng.Intn(60)
		}
		dirs := []string{""}
		var nodes []tnode
		seen := map[string]bool{}
		for i := 0; i < count; i++ {
			parent := dirs[rng.Intn(len(dirs))]
			if strings.Count(parent, "/") >= 5 {
				parent = ""
			}
			rel := randName()
			if parent != "" {
				rel = parent + "/" + rel
			}
			if seen[strings.ToLower(rel)] {
				continue
			}
			seen[strings.ToLower(rel)] = true
			mt := time.Unix(1000000000+rng.Int63n(900000000), int64(rng.Intn(2))*rng.Int63n(1000000000))
			if rng.Intn(3) == 0 {
				nodes = append(nodes, tnode{rel: rel, dir: true, mt: mt})
				dirs = append(dirs, rel)
			} else {
				size := []int{0, 1, 17, 4096, 32768, 32769, 100000}[rng.Intn(7)]
				if rng.Intn(40) == 0 {
					size = 2<<20 + rng.Intn(1000)
				}
				nodes = append(nodes, tnode{rel: rel, data: content(rel, size), mt: mt})
			}
		}
		for _, backend := range []string{"os", "mem"} {
			ev, err := roundTrip(100000+t, backend, a.Dir, append([]tnode{}, nodes...), rtEvent{Shape: "fuzz", Mt: "random", Model: []string{}})
			if err != nil {
				return err
			}
			w.Write(ev)
		}
	}
	return nil
}

// ---- programs around Close() ---------------------------------------------------------------------

type program struct {
	Steps []string `json:"steps"` // "read" | "mutate" | "close"
}

type callResult struct {
	M      string `json:"m"`
	Direct bool   `json:"direct"`
	OK     bool   `json:"ok"`
	Kind   string `json:"kind"`
}

type stepEvent struct {
	Op      string       `json:"op"`
	ID      int          `json:"id"`
	View    string       `json:"view"`
	Step    int          `json:"step"`
	Class   string       `json:"class"`
	Results []callResult `json:"results"`
	Changed bool         `json:"changed"` // the view's content or the archive file differs from before the step
	Outside bool         `json:"outside"` // something else in the sandbox changed
	Blocked bool         `json:"blocked"`
	CloseOK bool         `json:"closeOk"`
}

func fixedTree() []tnode {
	mt := time.Unix(1700000000, 0)
	return []tnode{
		{rel: "d", dir: true, mt: mt}, {rel: "d/f.txt", data: []byte("hello world"), mt: mt}, {rel: "d/s", dir: true, mt: mt},
		{rel: "d/s/g.bin", data: content("g", 5000), mt: mt}, {rel: "e", dir: true, mt: mt}, {rel: "e/h.txt", data: []byte("h"), mt: mt},
		{rel: "inner.zip", data: innerZip(), mt: mt},
	}
}

func innerZip() []byte {
	base := afero.NewMemMapFs()
	materialise(base, "/z", []tnode{{rel: "x.txt", data: []byte("x"), mt: time.Unix(1700000000, 0)}})
	fs := filesystem.NewVirtualFileSystem(base, filesystem.InMemoryFS, filesystem.IdentityPathConverterFunc)
	_ = fs.Zip("/z", "/z.zip")
	b, _ := afero.ReadFile(base, "/z.zip")
	return b
}

func sandboxDigest(dir string) string {
	h := sha256.New()
	_ = filepath.Walk(dir, func(p string, info os.FileInfo, err error) error {
		if err != nil {
			return nil
		}
		fmt.Fprintf(h, "%s|%v|%d\n", p, info.Mode(), info.Size())
		if info.Mode().IsRegular() {
			b, _ := os.ReadFile(p)
			h.Write(b)
		}
		return nil
	})
	return hex.EncodeToString(h.Sum(nil)[:8])
}

func closeseq(a *hk.Args) error {
	progs, err := hk.ReadNDJSON[program](a.In)
	if err != nil {
		return err
	}
	w, err := hk.NewWriter(a.Out)
	if err != nil {
		return err
	}
	defer w.Close()
	root, err := os.MkdirTemp(a.Dir, "c07c-")
	if err != nil {
		return err
	}
	defer os.RemoveAll(root)
	base := filesystem.NewExtendedOsFs()
	std := filesystem.NewVirtualFileSystem(base, filesystem.StandardFS, filesystem.IdentityPathConverterFunc)
	src := filepath.Join(root, "src")
	materialise(base, src, fixedTree())
	zipPath, tarPath := filepath.Join(root, "a.zip"), filepath.Join(root, "a.tar")
	if err := std.Zip(src, zipPath); err != nil {
		return err
	}
	if err := writeTar(base, tarPath, src, dump(base, src)); err != nil {
		return err
	}
	all := calls()
	ctx := context.Background()
	for i, pr := range progs {
		for _, view := range []string{"zip", "tar"} {
			var v filesystem.ICloseableFS
			var f filesystem.File
			if view == "zip" {
				v, f, err = filesystem.NewZipFileSystem(std, zipPath, filesystem.NoLimits())
			} else {
				v, f, err = filesystem.NewTarFileSystem(std, tarPath, filesystem.NoLimits())
			}
			if err != nil {
				return fmt.Errorf("opening the %s view: %w", view, err)
			}
			closed := false
			for s, class := range pr.Steps {
				ev := stepEvent{Op: "Step", ID: i + 1, View: view, Step: s + 1, Class: class, Results: []callResult{}}
				digest := sandboxDigest(root)
				var viewBefore []string
				if !closed {
					rs, _ := viewDump(v)
					viewBefore = proj(rs, rec.pc)
				}
				if class == "close" {
					ev.CloseOK = v.Close() == nil
					closed = true
				} else {
					for _, c := range all {
						if c.class != class {
							continue
						}
						done := make(chan error, 1)
						go func() {
							defer func() {
								if r := recover(); r != nil {
									done <- fmt.Errorf("panic: %v", r)
								}
							}()
							done <- c.run(ctx, v)
						}()
						select {
						case err := <-done:
							k := hk.Kind(err)
							if err != nil && strings.HasPrefix(err.Error(), "panic: ") {
								k = "panic"
							}
							ev.Results = append(ev.Results, callResult{M: c.name, Direct: c.direct, OK: err == nil, Kind: k})
						case <-time.After(20 * time.Second):
							ev.Blocked = true
							ev.Results = append(ev.Results, callResult{M: c.name, Direct: c.direct, Kind: "blocked"})
						}
					}
				}
				if !closed {
					rs, _ := viewDump(v)
					ev.Changed = strings.Join(proj(rs, rec.pc), "\n") != strings.Join(viewBefore, "\n")
				}
				ev.Outside = sandboxDigest(root) != digest
				w.Write(ev)
			}
			_ = v.Close()
			if f != nil {
				_ = f.Close()
			}
		}
	}
	return nil
}

// methods prints what every call of the table answers on an open and on a closed view (diagnostic).
func methods(a *hk.Args) error {
	a.In = filepath.Join(a.Dir, "c07-methods-in.ndjson")
	_ = os.WriteFile(a.In, []byte(`{"steps":["read","mutate","close","read","mutate"]}`+"\n"), 0o644)
	return closeseq(a)
}
