package c07

import (
	"bytes"
	"context"
	"os"
	"time"

	"github.com/ARM-software/golang-utils/utils/filesystem"
)

// A call of the FS interface on an archive view whose tree holds at least the directory viewDir (non-empty), the file
// viewFile inside it, and nothing at viewNew*.
//
// class: "read"    - needs the archive and changes nothing: succeeds while open, fails once closed
//
//	"mutate"  - would change the tree: refused while open (nothing changes), fails once closed
//
// direct: the method is a direct accessor (it goes straight to the backend for the path it is given): once closed
// its error carries the 'failed condition' kind.
type call struct {
	name   string
	class  string
	direct bool
	run    func(ctx context.Context, v filesystem.FS) error
}

const (
	viewRoot = "/"
	viewDir  = "/d"
	viewFile = "/d/f.txt"
	viewSub  = "/d/s"
	viewNew  = "/d/new-entry"
	viewNew2 = "/brand/new/dir"
)

type falseResult struct{ what string }

func (f falseResult) Error() string { return f.what + " answered false" }

func closeIf(f interface{ Close() error }, err error) error {
	if err == nil && f != nil {
		_ = f.Close()
	}
	return err
}

func calls() []call {
	e := func(_ any, err error) error { return err }
	walkFn := func(string, os.FileInfo, error) error { return nil }
	now := time.Unix(1600000000, 0)
	return []call{
		// ---- read ----------------------------------------------------------------------------------
		{"Open", "read", true, func(ctx context.Context, v filesystem.FS) error { f, err := v.Open(viewFile); return closeIf(f, err) }},
		{"GenericOpen", "read", true, func(ctx context.Context, v filesystem.FS) error {
			f, err := v.GenericOpen(viewFile)
			return closeIf(f, err)
		}},
		{"OpenFile(read-only)", "read", true, func(ctx context.Context, v filesystem.FS) error {
			f, err := v.OpenFile(viewFile, os.O_RDONLY, 0o644)
			return closeIf(f, err)
		}},
		{"Stat", "read", true, func(ctx context.Context, v filesystem.FS) error { return e(v.Stat(viewFile)) }},
		{"Lstat", "read", true, func(ctx context.Context, v filesystem.FS) error { return e(v.Lstat(viewFile)) }},
		{"StatTimes", "read", true, func(ctx context.Context, v filesystem.FS) error { return e(v.StatTimes(viewFile)) }},
		{"Exists", "read", false, func(ctx context.Context, v filesystem.FS) error {
			if !v.Exists(viewFile) {
				return falseResult{"Exists"}
			}
			return nil
		}},
		{"IsFile", "read", true, func(ctx context.Context, v filesystem.FS) error { return e(v.IsFile(viewFile)) }},
		{"IsDir", "read", true, func(ctx context.Context, v filesystem.FS) error { return e(v.IsDir(viewDir)) }},
		{"IsLink", "read", true, func(ctx context.Context, v filesystem.FS) error { return e(v.IsLink(viewFile)) }},
		{"IsEmpty", "read", true, func(ctx context.Context, v filesystem.FS) error { return e(v.IsEmpty(viewDir)) }},
		{"Glob", "read", false, func(ctx context.Context, v filesystem.FS) error {
			l, err := v.Glob("/d/*.txt")
			if err == nil && len(l) == 0 {
				return falseResult{"Glob"}
			}
			return err
		}},
		{"FindAll", "read", false, func(ctx context.Context, v filesystem.FS) error {
			l, err := v.FindAll(viewRoot, ".txt")
			if err == nil && len(l) == 0 {
				return falseResult{"FindAll"}
			}
			return err
		}},
		{"Walk", "read", false, func(ctx context.Context, v filesystem.FS) error { return v.Walk(viewDir, walkFn) }},
		{"WalkWithContext", "read", false, func(ctx context.Context, v filesystem.FS) error { return v.WalkWithContext(ctx, viewDir, walkFn) }},
		{"WalkWithContextAndExclusionPatterns", "read", false, func(ctx context.Context, v filesystem.FS) error {
			return v.WalkWithContextAndExclusionPatterns(ctx, viewDir, walkFn, "nothing-matches")
		}},
		{"Ls", "read", true, func(ctx context.Context, v filesystem.FS) error { return e(v.Ls(viewDir)) }},
		{"LsWithExclusionPatterns", "read", true, func(ctx context.Context, v filesystem.FS) error {
			return e(v.LsWithExclusionPatterns(viewDir, "nothing-matches"))
		}},
		{"LsRecursive", "read", false, func(ctx context.Context, v filesystem.FS) error { return e(v.LsRecursive(ctx, viewDir, true)) }},
		{"LsRecursiveWithExclusionPatterns", "read", false, func(ctx context.Context, v filesystem.FS) error {
			return e(v.LsRecursiveWithExclusionPatterns(ctx, viewDir, true, "nothing-matches"))
		}},
		{"LsRecursiveWithExclusionPatternsAndLimits", "read", false, func(ctx context.Context, v filesystem.FS) error {
			return e(v.LsRecursiveWithExclusionPatternsAndLimits(ctx, viewDir, filesystem.NoLimits(), true, "nothing-matches"))
		}},
		{"Lls", "read", true, func(ctx context.Context, v filesystem.FS) error { return e(v.Lls(viewDir)) }},
		{"ReadFile", "read", true, func(ctx context.Context, v filesystem.FS) error { return e(v.ReadFile(viewFile)) }},
		{"ReadFileWithContext", "read", true, func(ctx context.Context, v filesystem.FS) error { return e(v.ReadFileWithContext(ctx, viewFile)) }},
		{"ReadFileWithLimits", "read", true, func(ctx context.Context, v filesystem.FS) error {
			return e(v.ReadFileWithLimits(viewFile, filesystem.NoLimits()))
		}},
		{"ReadFileWithContextAndLimits", "read", true, func(ctx context.Context, v filesystem.FS) error {
			return e(v.ReadFileWithContextAndLimits(ctx, viewFile, filesystem.NoLimits()))
		}},
		{"GetFileSize", "read", true, func(ctx context.Context, v filesystem.FS) error { return e(v.GetFileSize(viewFile)) }},
		{"SubDirectories", "read", false, func(ctx context.Context, v filesystem.FS) error { return e(v.SubDirectories(viewRoot)) }},
		{"SubDirectoriesWithContext", "read", false, func(ctx context.Context, v filesystem.FS) error { return e(v.SubDirectoriesWithContext(ctx, viewRoot)) }},
		{"SubDirectoriesWithContextAndExclusionPatterns", "read", false, func(ctx context.Context, v filesystem.FS) error {
			return e(v.SubDirectoriesWithContextAndExclusionPatterns(ctx, viewRoot, "nothing-matches"))
		}},
		{"ListDirTree", "read", false, func(ctx context.Context, v filesystem.FS) error { var l []string; return v.ListDirTree(viewDir, &l) }},
		{"ListDirTreeWithContext", "read", false, func(ctx context.Context, v filesystem.FS) error {
			var l []string
			return v.ListDirTreeWithContext(ctx, viewDir, &l)
		}},
		{"ListDirTreeWithContextAndExclusionPatterns", "read", false, func(ctx context.Context, v filesystem.FS) error {
			var l []string
			return v.ListDirTreeWithContextAndExclusionPatterns(ctx, viewDir, &l, "nothing-matches")
		}},
		{"FileHash", "read", false, func(ctx context.Context, v filesystem.FS) error { return e(v.FileHash("SHA256", viewFile)) }},
		{"FileHashWithContext", "read", false, func(ctx context.Context, v filesystem.FS) error {
			return e(v.FileHashWithContext(ctx, "SHA256", viewFile))
		}},
		// ---- mutate --------------------------------------------------------------------------------
		{"CreateFile", "mutate", true, func(ctx context.Context, v filesystem.FS) error {
			f, err := v.CreateFile(viewNew)
			return closeIf(f, err)
		}},
		{"OpenFile(create)", "mutate", true, func(ctx context.Context, v filesystem.FS) error {
			f, err := v.OpenFile(viewNew, os.O_WRONLY|os.O_CREATE|os.O_TRUNC, 0o644)
			return closeIf(f, err)
		}},
		{"OpenFile(append)", "mutate", true, func(ctx context.Context, v filesystem.FS) error {
			f, err := v.OpenFile(viewFile, os.O_WRONLY|os.O_APPEND, 0o644)
			if err == nil {
				_, err = f.Write([]byte("appended"))
				_ = f.Close()
			}
			return err
		}},
		{"CleanDir", "mutate", false, func(ctx context.Context, v filesystem.FS) error { return v.CleanDir(viewDir) }},
		{"CleanDirWithContext", "mutate", false, func(ctx context.Context, v filesystem.FS) error { return v.CleanDirWithContext(ctx, viewDir) }},
		{"CleanDirWithContextAndExclusionPatterns", "mutate", false, func(ctx context.Context, v filesystem.FS) error {
			return v.CleanDirWithContextAndExclusionPatterns(ctx, viewDir, "nothing-matches")
		}},
		{"Rm", "mutate", false, func(ctx context.Context, v filesystem.FS) error { return v.Rm(viewFile) }},
		{"RemoveWithContext", "mutate", false, func(ctx context.Context, v filesystem.FS) error { return v.RemoveWithContext(ctx, viewDir) }},
		{"RemoveWithContextAndExclusionPatterns", "mutate", false, func(ctx context.Context, v filesystem.FS) error {
			return v.RemoveWithContextAndExclusionPatterns(ctx, viewDir, "nothing-matches")
		}},
		{"RemoveWithPrivileges", "mutate", false, func(ctx context.Context, v filesystem.FS) error { return v.RemoveWithPrivileges(ctx, viewFile) }},
		{"MkDir", "mutate", true, func(ctx context.Context, v filesystem.FS) error { return v.MkDir(viewNew2) }},
		{"MkDirAll", "mutate", true, func(ctx context.Context, v filesystem.FS) error { return v.MkDirAll(viewNew2, 0o755) }},
		{"CopyToFile", "mutate", false, func(ctx context.Context, v filesystem.FS) error { return v.CopyToFile(viewFile, viewNew) }},
		{"CopyToFileWithContext", "mutate", false, func(ctx context.Context, v filesystem.FS) error {
			return v.CopyToFileWithContext(ctx, viewFile, viewNew)
		}},
		{"CopyToDirectory", "mutate", false, func(ctx context.Context, v filesystem.FS) error { return v.CopyToDirectory(viewFile, viewSub) }},
		{"CopyToDirectoryWithContext", "mutate", false, func(ctx context.Context, v filesystem.FS) error {
			return v.CopyToDirectoryWithContext(ctx, viewFile, viewSub)
		}},
		{"Copy", "mutate", false, func(ctx context.Context, v filesystem.FS) error { return v.Copy(viewFile, viewNew) }},
		{"CopyWithContext", "mutate", false, func(ctx context.Context, v filesystem.FS) error { return v.CopyWithContext(ctx, viewDir, viewNew2) }},
		{"CopyWithContextAndExclusionPatterns", "mutate", false, func(ctx context.Context, v filesystem.FS) error {
			return v.CopyWithContextAndExclusionPatterns(ctx, viewDir, viewNew2, "nothing-matches")
		}},
		{"Move", "mutate", false, func(ctx context.Context, v filesystem.FS) error { return v.Move(viewFile, viewNew) }},
		{"MoveWithContext", "mutate", false, func(ctx context.Context, v filesystem.FS) error { return v.MoveWithContext(ctx, viewDir, viewNew2) }},
		{"TempDir", "mutate", true, func(ctx context.Context, v filesystem.FS) error { return e(v.TempDir(viewDir, "tmp")) }},
		{"TempFile", "mutate", true, func(ctx context.Context, v filesystem.FS) error {
			f, err := v.TempFile(viewDir, "tmp*")
			return closeIf(f, err)
		}},
		{"TouchTempFile", "mutate", false, func(ctx context.Context, v filesystem.FS) error { return e(v.TouchTempFile(viewDir, "tmp*")) }},
		{"WriteFile", "mutate", true, func(ctx context.Context, v filesystem.FS) error { return v.WriteFile(viewNew, []byte("data"), 0o644) }},
		{"WriteFile(existing)", "mutate", true, func(ctx context.Context, v filesystem.FS) error {
			return v.WriteFile(viewFile, []byte("other data"), 0o644)
		}},
		{"WriteFileWithContext", "mutate", true, func(ctx context.Context, v filesystem.FS) error {
			return v.WriteFileWithContext(ctx, viewNew, []byte("data"), 0o644)
		}},
		{"WriteToFile", "mutate", true, func(ctx context.Context, v filesystem.FS) error {
			return e(v.WriteToFile(ctx, viewNew, bytes.NewReader([]byte("data")), 0o644))
		}},
		{"GarbageCollect", "read", false, func(ctx context.Context, v filesystem.FS) error { return v.GarbageCollect(viewDir, time.Nanosecond) }},
		{"GarbageCollectWithContext", "read", false, func(ctx context.Context, v filesystem.FS) error {
			return v.GarbageCollectWithContext(ctx, viewDir, time.Nanosecond)
		}},
		{"Chmod", "mutate", true, func(ctx context.Context, v filesystem.FS) error { return v.Chmod(viewFile, 0o600) }},
		{"ChmodRecursively", "mutate", false, func(ctx context.Context, v filesystem.FS) error { return v.ChmodRecursively(ctx, viewDir, 0o700) }},
		{"Chtimes", "mutate", true, func(ctx context.Context, v filesystem.FS) error { return v.Chtimes(viewFile, now, now) }},
		{"Chown", "mutate", true, func(ctx context.Context, v filesystem.FS) error { return v.Chown(viewFile, os.Getuid(), os.Getgid()) }},
		{"ChownRecursively", "mutate", false, func(ctx context.Context, v filesystem.FS) error {
			return v.ChownRecursively(ctx, viewDir, os.Getuid(), os.Getgid())
		}},
		{"Link", "mutate", true, func(ctx context.Context, v filesystem.FS) error { return v.Link(viewFile, viewNew) }},
		{"Symlink", "mutate", true, func(ctx context.Context, v filesystem.FS) error { return v.Symlink(viewFile, viewNew) }},
		{"Touch(new)", "mutate", true, func(ctx context.Context, v filesystem.FS) error { return v.Touch(viewNew) }},
		{"Touch(existing)", "mutate", true, func(ctx context.Context, v filesystem.FS) error { return v.Touch(viewFile) }},
		{"Zip", "mutate", false, func(ctx context.Context, v filesystem.FS) error { return v.Zip(viewDir, "/out.zip") }},
		{"ZipWithContext", "mutate", false, func(ctx context.Context, v filesystem.FS) error { return v.ZipWithContext(ctx, viewDir, "/out.zip") }},
		{"ZipWithContextAndLimits", "mutate", false, func(ctx context.Context, v filesystem.FS) error {
			return v.ZipWithContextAndLimits(ctx, viewDir, "/out.zip", filesystem.NoLimits())
		}},
		{"ZipWithContextAndLimitsAndExclusionPatterns", "mutate", false, func(ctx context.Context, v filesystem.FS) error {
			return v.ZipWithContextAndLimitsAndExclusionPatterns(ctx, viewDir, "/out.zip", filesystem.NoLimits(), "nothing-matches")
		}},
		{"Unzip", "mutate", false, func(ctx context.Context, v filesystem.FS) error { return e(v.Unzip("/inner.zip", viewNew2)) }},
		{"UnzipWithContext", "mutate", false, func(ctx context.Context, v filesystem.FS) error {
			return e(v.UnzipWithContext(ctx, "/inner.zip", viewNew2))
		}},
		{"UnzipWithContextAndLimits", "mutate", false, func(ctx context.Context, v filesystem.FS) error {
			return e(v.UnzipWithContextAndLimits(ctx, "/inner.zip", viewNew2, filesystem.NoLimits()))
		}},
		{"RemoteLockFile.TryLock", "mutate", false, func(ctx context.Context, v filesystem.FS) error {
			l := v.NewRemoteLockFile("lk", viewDir)
			err := l.TryLock(ctx)
			if err == nil {
				_ = l.Unlock(ctx)
			}
			return err
		}},
	}
}
