package c19

// Binding of specs/data/Collection.tla and CollectionSlices.tla (growth: the `collection` package the paginators live in):
// every history of one Conditions object and every scenario class of the slice helpers is run on the real package; what it
// answered is recorded as it is - CollectionTrace.tla recomputes every answer from CollectionOps.tla.

import (
	"verifharness/internal/hk"

	"github.com/ARM-software/golang-utils/utils/collection"
)

func init() {
	hk.Register("c19", "collection", collectionRun)
}

type colStep struct {
	Op  string `json:"op"`
	Arg []bool `json:"arg"`
}

type colScenario struct {
	Kind   string    `json:"kind"`
	Hist   []colStep `json:"hist"`
	Strict bool      `json:"strict"`
	Slice  []string  `json:"slice"`
	Vals   []string  `json:"vals"`
}

type colObserved struct {
	Any    bool   `json:"any"`
	All    bool   `json:"all"`
	Xor    bool   `json:"xor"`
	OneHot bool   `json:"onehot"`
	HasT   bool   `json:"hasT"`
	HasF   bool   `json:"hasF"`
	List   []bool `json:"list"`
}

type colGot struct {
	Ret   []bool      `json:"ret"`
	After colObserved `json:"after"`
}

type colEvent struct {
	Op          string    `json:"op"`
	Hist        []colStep `json:"hist"`
	Got         []colGot  `json:"got"`
	Strict      bool      `json:"strict"`
	Slice       []string  `json:"slice"`
	Vals        []string  `json:"vals"`
	FindPos     int       `json:"findPos"` // 1-based, 0 = not found
	Found       bool      `json:"found"`
	Find1Pos    int       `json:"find1Pos"`
	Find1Found  bool      `json:"find1Found"`
	Removed     []string  `json:"removed"`
	SliceAfter  []string  `json:"sliceAfter"`
	Unique      []string  `json:"unique"`
	AnyEmpty    bool      `json:"anyEmpty"`
	AllNotEmpty bool      `json:"allNotEmpty"`
}

func nzb(s []bool) []bool {
	if s == nil {
		return []bool{}
	}
	return append([]bool{}, s...)
}

func nzs(s []string) []string {
	if s == nil {
		return []string{}
	}
	return append([]string{}, s...)
}

// observeConditions asks the object everything it can answer; the reductions are asked through the methods AND the
// free functions (they must agree: the methods are defined through them).
func observeConditions(c *collection.Conditions) colObserved {
	o := colObserved{Any: c.Any(), All: c.All(), Xor: c.Xor(), OneHot: c.OneHot(), HasT: c.Contains(true), HasF: c.Contains(false), List: nzb(*c)}
	vals := []bool(*c)
	if collection.AnyTrue(vals...) != o.Any || collection.Or(vals...) != o.Any || c.Or() != o.Any {
		o.Any = !o.Any // disagreement between the spellings: reported as a wrong reduction
	}
	if collection.AllTrue(vals...) != o.All || collection.And(vals...) != o.All || c.And() != o.All {
		o.All = !o.All
	}
	if collection.Xor(vals...) != o.Xor {
		o.Xor = !o.Xor
	}
	if collection.OneHot(vals...) != o.OneHot {
		o.OneHot = !o.OneHot
	}
	return o
}

func runConditions(sc colScenario) colEvent {
	ev := colEvent{Op: "Conditions", Hist: sc.Hist, Got: []colGot{}, Slice: []string{}, Vals: []string{}, Removed: []string{}, SliceAfter: []string{}, Unique: []string{}}
	for i := range ev.Hist {
		ev.Hist[i].Arg = nzb(ev.Hist[i].Arg)
	}
	var c collection.Conditions
	for i, st := range sc.Hist {
		var ret collection.Conditions
		switch st.Op {
		case "New":
			if i != 0 {
				return ev
			}
			c = collection.NewConditionsFromValues(st.Arg...)
			ret = c
		case "Add":
			ret = c.Add(st.Arg...)
		case "Concat":
			other := collection.NewConditionsFromValues(st.Arg...)
			ret = c.Concat(&other)
		case "ConcatSelf":
			ret = c.Concat(&c)
		case "Negate":
			ret = c.Negate()
		default:
			return ev
		}
		ev.Got = append(ev.Got, colGot{Ret: nzb(ret), After: observeConditions(&c)})
	}
	return ev
}

func runSlices(sc colScenario) colEvent {
	ev := colEvent{Op: "Slices", Hist: []colStep{}, Got: []colGot{}, Strict: sc.Strict, Slice: nzs(sc.Slice), Vals: nzs(sc.Vals)}
	idx, found := collection.FindInSlice(sc.Strict, nzs(sc.Slice), nzs(sc.Vals)...)
	ev.FindPos, ev.Found = idx+1, found
	if len(sc.Vals) == 1 {
		s := nzs(sc.Slice)
		i1, f1 := collection.Find(&s, sc.Vals[0])
		ev.Find1Pos, ev.Find1Found = i1+1, f1
	}
	mine := nzs(sc.Slice)
	ev.Removed = nzs(collection.Remove(mine, nzs(sc.Vals)...))
	ev.SliceAfter = nzs(mine)
	ev.Unique = nzs(collection.UniqueEntries(nzs(sc.Slice)))
	ev.AnyEmpty = collection.AnyEmpty(sc.Strict, nzs(sc.Slice))
	ev.AllNotEmpty = collection.AllNotEmpty(sc.Strict, nzs(sc.Slice))
	return ev
}

func collectionRun(a *hk.Args) error {
	scs, err := hk.ReadNDJSON[colScenario](a.In)
	if err != nil {
		return err
	}
	w, err := hk.NewWriter(a.Out)
	if err != nil {
		return err
	}
	defer w.Close()
	for _, sc := range scs {
		if sc.Kind == "conditions" {
			w.Write(runConditions(sc))
		} else {
			w.Write(runSlices(sc))
		}
	}
	return nil
}
