// Package c19 binds specs/data/Paginator.tla to utils/collection/pagination.
//
//	replay: behaviours emitted by TLC (collection, call sequence, expected result of each call) are
//	        run against the real static, dynamic and stream paginators.
//	record: random larger collections and call mixes are run against the real paginators and the
//	        observed call results are written as a trace for PaginatorTrace.tla.
package c19

import (
	"context"
	"errors"
	"fmt"
	"math/rand"
	"sync"
	"time"

	"github.com/ARM-software/golang-utils/utils/collection/pagination"

	"sync/atomic"
	"verifharness/internal/hk"
)

func init() {
	hk.Register("c19", "replay", replay)
	hk.Register("c19", "record", record)
}

const (
	grace   = 120 * time.Millisecond
	backoff = time.Millisecond
)

var errScripted = errors.New("scripted page failure")

// ---------------------------------------------------------------------------------------------
// harness-side collections

type iter struct {
	items []int
	pos   int
}

func (i *iter) HasNext() bool { return i.pos < len(i.items) }
func (i *iter) GetNext() (interface{}, error) {
	if !i.HasNext() {
		return nil, errors.New("page iterator exhausted")
	}
	v := i.items[i.pos]
	i.pos++
	return v, nil
}

// page implements IStaticPage, IPage, IStaticPageStream and IStream.
type page struct {
	items           []int
	next            *page // reached by a "next" link
	future          *page // reached by a "future" link
	open            bool  // open-ended: claims a future for ever, the future is an empty open page
	failLink        bool  // obtaining the linked page fails
	iterFails       bool  // GetItemIterator fails (the other way a page can be unobtainable)
	reuse           bool  // the source re-uses its page object: the linked page is loaded INTO this object, which is handed back
	fetchCount      *int
	haltWhenFetched *func() // scenario: the paginator is halted while this page is being fetched (nil = never)
}

// delivered is called by the fetch paths right before the page is handed to the paginator.
func (p *page) delivered() *page {
	if p != nil && p.haltWhenFetched != nil && *p.haltWhenFetched != nil {
		h := *p.haltWhenFetched
		*p.haltWhenFetched = nil
		h()
	}
	return p
}

func (p *page) HasNext() bool   { return p.next != nil }
func (p *page) HasFuture() bool { return p.future != nil || p.open }
func (p *page) GetItemIterator() (pagination.IIterator, error) {
	if p.iterFails {
		return nil, errScripted
	}
	return &iter{items: p.items}, nil
}
func (p *page) GetItemCount() (int64, error) { return int64(len(p.items)), nil }
func (p *page) nextPage() (*page, error) {
	if p.next == nil {
		return nil, errors.New("no next page")
	}
	if p.failLink {
		return nil, errScripted
	}
	if p.reuse {
		t := *p.next
		t.reuse = true
		*p = t
		return p, nil
	}
	return p.next.delivered(), nil
}
func (p *page) futurePage() (*page, error) {
	if p.open {
		return &page{open: true}, nil
	}
	if p.future == nil {
		return nil, errors.New("no future page")
	}
	if p.failLink {
		return nil, errScripted
	}
	if p.reuse {
		t := *p.future
		t.reuse = true
		*p = t
		return p, nil
	}
	return p.future.delivered(), nil
}
func (p *page) GetNext(ctx context.Context) (pagination.IPage, error) {
	n, err := p.nextPage()
	if err != nil {
		return nil, err
	}
	return n, nil
}
func (p *page) GetFuture(ctx context.Context) (pagination.IStream, error) {
	n, err := p.futurePage()
	if err != nil {
		return nil, err
	}
	return n, nil
}

// Scenario is the abstract collection + call sequence of Paginator.tla.
type Scenario struct {
	Pages  []int    `json:"pages"`
	Links  []string `json:"links"`
	Open   bool     `json:"open"`
	FailAt int      `json:"failAt"`
	Stream bool     `json:"stream"`
	Calls  []Call   `json:"calls"`
	// the paginator is halted while page number HaltFetch is being fetched (0 = never)
	HaltFetch int `json:"haltFetch"`
}

type Call struct {
	Op   string `json:"op"`
	B    bool   `json:"b"`
	Item int    `json:"item"`
	Kind string `json:"kind"`
	Free bool   `json:"free"`
	Late bool   `json:"late"` // model: the grace period had elapsed before this call
}

// build materialises the collection. failMode: "fetch" (obtaining the page fails) or "iterator"
// (the page is obtained but cannot be iterated).
func build(s *Scenario, failMode string) (first *page, haltHook *func(), firstErr error) {
	pages := make([]*page, len(s.Pages))
	id := 1
	for i, n := range s.Pages {
		p := &page{}
		for j := 0; j < n; j++ {
			p.items = append(p.items, id)
			id++
		}
		pages[i] = p
	}
	for i := 0; i+1 < len(pages); i++ {
		if s.Links[i] == "future" {
			pages[i].future = pages[i+1]
		} else {
			pages[i].next = pages[i+1]
		}
	}
	pages[len(pages)-1].open = s.Open
	if s.HaltFetch == 0 && s.FailAt == 0 && !s.Open && (len(s.Pages)+len(s.Calls))%3 == 0 {
		// a source that keeps ONE page object and reloads it with the next batch (a third of the plain scenarios)
		for _, p := range pages {
			p.reuse = true
		}
	}
	if s.HaltFetch >= 2 && s.HaltFetch <= len(pages) {
		haltHook = new(func())
		pages[s.HaltFetch-1].haltWhenFetched = haltHook
	}
	if s.FailAt >= 1 {
		if failMode == "iterator" {
			pages[s.FailAt-1].iterFails = true
		} else if s.FailAt == 1 {
			return nil, nil, errScripted
		} else {
			pages[s.FailAt-2].failLink = true
		}
	}
	return pages[0], haltHook, nil
}

type generic interface {
	pagination.IGenericPaginator
}

type made struct {
	p      generic
	dry    func() error
	err    error
	isNil  bool
	cancel context.CancelFunc
	// set by the replay: what happens while the scripted page is being fetched
	haltHook *func()
}

// construct builds the real paginator of the given variant over the collection.
func construct(s *Scenario, variant, failMode string) made {
	first, hook, ferr := build(s, failMode)
	ctx, cancel := context.WithCancel(context.Background())
	m := made{cancel: cancel, haltHook: hook}
	switch variant {
	case "static":
		p, err := pagination.NewStaticPagePaginator(ctx,
			func(context.Context) (pagination.IStaticPage, error) {
				if ferr != nil {
					return nil, ferr
				}
				return first, nil
			},
			func(_ context.Context, cur pagination.IStaticPage) (pagination.IStaticPage, error) {
				n, err := cur.(*page).nextPage()
				if err != nil {
					return nil, err
				}
				return n, nil
			})
		m.err = err
		m.isNil = p == nil
		if p != nil {
			m.p = p
		}
	case "dynamic":
		p, err := pagination.NewCollectionPaginator(ctx, func(context.Context) (pagination.IPage, error) {
			if ferr != nil {
				return nil, ferr
			}
			return first, nil
		})
		m.err = err
		m.isNil = p == nil
		if p != nil {
			m.p = p
		}
	case "stream-static":
		p, err := pagination.NewStaticPageStreamPaginator(ctx, grace, backoff,
			func(context.Context) (pagination.IStaticPageStream, error) {
				if ferr != nil {
					return nil, ferr
				}
				return first, nil
			},
			func(_ context.Context, cur pagination.IStaticPage) (pagination.IStaticPage, error) {
				n, err := cur.(*page).nextPage()
				if err != nil {
					return nil, err
				}
				return n, nil
			},
			func(_ context.Context, cur pagination.IStaticPageStream) (pagination.IStaticPageStream, error) {
				n, err := cur.(*page).futurePage()
				if err != nil {
					return nil, err
				}
				return n, nil
			})
		m.err = err
		m.isNil = p == nil
		if p != nil {
			m.p = p
			m.dry = p.DryUp
		}
	case "stream-dynamic":
		p, err := pagination.NewStreamPaginator(ctx, grace, backoff, func(context.Context) (pagination.IStream, error) {
			if ferr != nil {
				return nil, ferr
			}
			return first, nil
		})
		m.err = err
		m.isNil = p == nil
		if p != nil {
			m.p = p
			m.dry = p.DryUp
		}
	}
	return m
}

type obs struct {
	Op   string `json:"op"`
	B    bool   `json:"b"`
	Item int    `json:"item"`
	Kind string `json:"kind"`
}

// step performs one call on the real paginator under a watchdog.
func step(m *made, op string) (o obs, blocked bool) {
	done := make(chan obs, 1)
	go func() {
		r := obs{Op: op}
		switch op {
		case "HasNext":
			r.B = m.p.HasNext()
		case "GetNext":
			it, err := m.p.GetNext()
			if err == nil {
				r.B = true
				if v, ok := it.(int); ok {
					r.Item = v
				} else {
					r.Item = -1
				}
			} else {
				r.Kind = hk.Kind(err)
			}
		case "Stop":
			m.p.Stop()()
			r.B = true
		case "Close":
			_ = m.p.Close()
			r.B = true
		case "Cancel":
			m.cancel()
			r.B = true
		case "DryUp":
			_ = m.dry()
			r.B = true
		case "Tick":
			time.Sleep(grace + grace/3)
			r.B = true
		}
		done <- r
	}()
	select {
	case r := <-done:
		return r, false
	case <-time.After(10 * time.Second):
		return obs{Op: op}, true
	}
}

func variants(stream bool) []string {
	if stream {
		return []string{"stream-static", "stream-dynamic"}
	}
	return []string{"static", "dynamic"}
}

// runScenario replays one behaviour on one variant and returns the verdict.
func runScenario(id int, s *Scenario, variant, failMode string) hk.Result {
	res := hk.Result{ID: id, Status: "ok", Variant: variant + "/" + failMode}
	fail := func(sig, detail string) hk.Result {
		res.Status, res.Sig, res.Detail, res.Scenario = "violation", sig, detail, s
		return res
	}
	var m made
	var haltedInFetch atomic.Bool
	stopped := false
	dry := false
	yielded := 0
	lastReach := time.Now()
	for i, c := range s.Calls {
		if c.Op == "New" {
			m = construct(s, variant, failMode)
			if m.haltHook != nil && m.p != nil {
				// halted from inside the fetch of page HaltFetch: Stop, Close or cancellation of the parent context in rotation,
				// directly or from another goroutine the fetch waits for
				how := (id + len(variant)) % 6
				mm := m
				*m.haltHook = func() {
					halt := func() {
						switch how % 3 {
						case 0:
							mm.p.Stop()()
						case 1:
							_ = mm.p.Close()
						default:
							mm.cancel()
						}
					}
					if how >= 3 {
						done := make(chan struct{})
						go func() { halt(); close(done) }()
						<-done
					} else {
						halt()
					}
					haltedInFetch.Store(true)
				}
			}
			lastReach = time.Now()
			if !c.B {
				if m.err == nil {
					if m.isNil {
						return fail("ctor-failure-nil-nil", fmt.Sprintf("%s: constructor failure (%s of the first page) returned (nil, nil)", variant, failMode))
					}
					return fail("ctor-failure-accepted", fmt.Sprintf("%s: constructor failure (%s of the first page) returned a paginator and no error", variant, failMode))
				}
				return res
			}
			if m.err != nil || m.isNil {
				return fail("ctor-unexpected-error", fmt.Sprintf("%s: constructor failed on a healthy first page: %v", variant, m.err))
			}
			continue
		}
		if m.p == nil {
			return fail("driver", "call before construction")
		}
		if s.Stream && dry && !c.Late && (c.Op == "HasNext" || c.Op == "GetNext") && time.Since(lastReach) > grace/2 && !stopped {
			// the host stalled for a good part of the grace period: the model's "not late" no longer describes reality
			res.Status, res.Detail = "skip", "overloaded: gap between calls exceeded half the grace period"
			return res
		}
		o, blocked := step(&m, c.Op)
		if blocked {
			return fail("call-blocked", fmt.Sprintf("%s: call %d (%s) did not return within 10s", variant, i, c.Op))
		}
		if haltedInFetch.Load() {
			stopped = true // the paginator was halted while this call was fetching a page
		}
		switch c.Op {
		case "Stop", "Close", "Cancel":
			stopped = true
		case "Tick":
		case "DryUp":
			dry = true
			lastReach = time.Now()
		case "HasNext":
			if o.B {
				lastReach = time.Now()
			}
			if c.Free {
				if o.B != c.B {
					return res // unconstrained step went the other way: the rest is not comparable
				}
				continue
			}
			if o.B != c.B {
				if stopped && o.B {
					return fail("hasnext-true-after-stop", fmt.Sprintf("%s: call %d HasNext=true after stop", variant, i))
				}
				if o.B {
					return fail("hasnext-phantom", fmt.Sprintf("%s: call %d HasNext=true but nothing obtainable remains", variant, i))
				}
				return fail("hasnext-false-items-remain", fmt.Sprintf("%s: call %d HasNext=false but items remain (yielded %d)", variant, i, yielded))
			}
		case "GetNext":
			if o.B && stopped {
				return fail("yield-after-stop", fmt.Sprintf("%s: call %d yielded item %d after stop", variant, i, o.Item))
			}
			if o.B && o.Item != yielded+1 {
				sig := "item-out-of-order"
				if o.Item > yielded+1 {
					sig = "item-skipped"
				} else if o.Item <= yielded && o.Item > 0 {
					sig = "item-duplicated"
				}
				return fail(sig, fmt.Sprintf("%s: call %d yielded %d, expected %d", variant, i, o.Item, yielded+1))
			}
			if o.B {
				yielded++
			}
			if c.Free {
				if o.B != c.B {
					return res
				}
				continue
			}
			if o.B != c.B {
				if o.B {
					return fail("getnext-phantom", fmt.Sprintf("%s: call %d yielded %d, model expects no item", variant, i, o.Item))
				}
				return fail("getnext-missed-item", fmt.Sprintf("%s: call %d returned error kind %q although item %d remains", variant, i, o.Kind, c.Item))
			}
			if !o.B && o.Kind != c.Kind && res.Status == "ok" {
				res.Status, res.Detail = "drift", fmt.Sprintf("call %d error kind %q, model %q", i, o.Kind, c.Kind)
			}
		}
	}
	return res
}

func replay(a *hk.Args) error {
	scs, err := hk.ReadNDJSON[Scenario](a.In)
	if err != nil {
		return err
	}
	w, err := hk.NewWriter(a.Out)
	if err != nil {
		return err
	}
	defer w.Close()
	type job struct {
		id       int
		s        *Scenario
		variant  string
		failMode string
	}
	jobs := make(chan job, 64)
	var wg sync.WaitGroup
	par := 16
	for k := 0; k < par; k++ {
		wg.Add(1)
		go func() {
			defer wg.Done()
			for j := range jobs {
				r := runScenario(j.id, j.s, j.variant, j.failMode)
				r.Nontriv = len(j.s.Calls) > 2
				w.Write(r)
			}
		}()
	}
	for i := range scs {
		s := &scs[i]
		for _, v := range variants(s.Stream) {
			modes := []string{"fetch"}
			// a page that is obtained but cannot be iterated: for streams only as a constructor failure
			// (a stream legitimately moves on to the future page behind an unreadable page)
			if s.FailAt == 1 || (s.FailAt > 0 && !s.Stream) {
				modes = append(modes, "iterator")
			}
			for _, fm := range modes {
				jobs <- job{i, s, v, fm}
			}
		}
	}
	close(jobs)
	wg.Wait()
	return nil
}

// ---------------------------------------------------------------------------------------------
// record: random collections and call mixes; events for PaginatorTrace.tla

type event struct {
	Op     string    `json:"op"`
	B      bool      `json:"b"`
	Item   int       `json:"item"`
	Kind   string    `json:"kind"`
	Pages  *[]int    `json:"pages,omitempty"`
	Links  *[]string `json:"links,omitempty"`
	Open   bool      `json:"open"`
	FailAt int       `json:"failAt"`
	Var    string    `json:"variant"`
	Slow   bool      `json:"slow"` // the host stalled: more than half the grace period since the stream last had something
}

func record(a *hk.Args) error {
	rng := rand.New(rand.NewSource(a.Seed))
	stream := a.Extra["stream"] == "true"
	w, err := hk.NewWriter(a.Out)
	if err != nil {
		return err
	}
	defer w.Close()
	n := a.N
	if n == 0 {
		n = 50
	}
	for t := 0; t < n; t++ {
		s := &Scenario{Stream: stream}
		np := 1 + rng.Intn(20)
		if rng.Intn(6) == 0 {
			np = 1 + rng.Intn(3)
		}
		for i := 0; i < np; i++ {
			k := rng.Intn(11)
			if rng.Intn(3) == 0 {
				k = 0
			}
			s.Pages = append(s.Pages, k)
		}
		s.Links = []string{}
		for i := 0; i+1 < np; i++ {
			if stream && rng.Intn(2) == 0 {
				s.Links = append(s.Links, "future")
			} else {
				s.Links = append(s.Links, "next")
			}
		}
		if stream {
			s.Open = rng.Intn(2) == 0
		}
		if rng.Intn(4) == 0 {
			s.FailAt = 1 + rng.Intn(np)
			if rng.Intn(3) != 0 && s.FailAt == 1 && np > 1 {
				s.FailAt = 2 + rng.Intn(np-1)
			}
		}
		vs := variants(stream)
		variant := vs[rng.Intn(len(vs))]
		failMode := []string{"fetch", "iterator"}[rng.Intn(2)]
		if stream && s.FailAt != 1 {
			failMode = "fetch"
		}
		w.Write(event{Op: "Config", Pages: &s.Pages, Links: &s.Links, Open: s.Open, FailAt: s.FailAt, Var: variant + "/" + failMode})
		m := construct(s, variant, failMode)
		w.Write(event{Op: "New", B: m.err == nil, Kind: ctorKind(m)})
		if m.err != nil || m.isNil {
			continue
		}
		total := 0
		for _, k := range s.Pages {
			total += k
		}
		budget := 2*total + 10 + rng.Intn(10)
		stopAt := -1
		if rng.Intn(3) == 0 {
			stopAt = rng.Intn(budget)
		}
		dry := false
		yielded := 0
		ended := false
		lastReach := time.Now()
		for c := 0; c < budget && !ended; c++ {
			op := "GetNext"
			r := rng.Intn(10)
			switch {
			case c == stopAt:
				op = []string{"Stop", "Close", "Cancel"}[rng.Intn(3)]
			case r < 4:
				op = "HasNext"
			}
			if stream && (op == "HasNext" || op == "GetNext") && !dry && rng.Intn(15) == 0 {
				op = "DryUp"
			}
			if stream && !dry && c == budget-3 {
				op = "DryUp"
			}
			if op == "DryUp" {
				dry = true
			}
			// never issue a call that blocks by design: an undried open-ended stream with nothing left
			if stream && s.Open && !dry && (op == "HasNext" || op == "GetNext") && yielded >= obtainableItems(s) && stopAt < 0 {
				op = "DryUp"
				dry = true
			}
			if stream && s.Open && !dry && stopAt >= 0 && c < stopAt && (op == "HasNext" || op == "GetNext") && yielded >= obtainableItems(s) {
				op = "DryUp"
				dry = true
			}
			slow := stream && dry && time.Since(lastReach) > grace/2
			o, blocked := step(&m, op)
			if (op == "HasNext" || op == "GetNext") && o.B {
				lastReach = time.Now()
			}
			if blocked {
				w.Write(event{Op: "Blocked:" + op})
				ended = true
				break
			}
			if op == "GetNext" && o.B {
				yielded++
			}
			w.Write(event{Op: o.Op, B: o.B, Item: o.Item, Kind: o.Kind, Slow: slow})
		}
		m.cancel()
	}
	return nil
}

func obtainableItems(s *Scenario) int {
	t := 0
	for i, k := range s.Pages {
		if s.FailAt > 0 && i+1 >= s.FailAt {
			break
		}
		t += k
	}
	return t
}

func ctorKind(m made) string {
	if m.err != nil {
		return "error"
	}
	if m.isNil {
		return "nilnil"
	}
	return ""
}
