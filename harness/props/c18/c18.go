// Package c18 binds specs/proc/OutputStream.tla to utils/subprocess: the harness binary re-executes itself as the child
// ("vh c18 child") which performs exactly the scripted write(2) calls on its standard output / error, pauses between the
// chunks so that they reach the parent in separate reads, and ends as scripted (exit code, signal, or hangs until
// killed). A recording logger collects every message in order; OutputStreamTrace.tla judges the recording.
package c18

import (
	"context"
	"encoding/json"
	"fmt"
	"math/rand"
	"os"
	"regexp"
	"strconv"
	"strings"
	"sync"
	"syscall"
	"time"

	"github.com/ARM-software/golang-utils/utils/commonerrors"
	"github.com/ARM-software/golang-utils/utils/subprocess"

	"verifharness/internal/hk"
)

func init() {
	hk.Register("c18", "replay", replay)
	hk.Register("c18", "fuzz", fuzz)
	hk.Register("c18", "child", child)
}

const (
	startMsg   = "C18-START-MESSAGE"
	successMsg = "C18-SUCCESS-MESSAGE"
	failureMsg = "C18-FAILURE-MESSAGE"
	unknownTok = 999999
)

// ---- the child -------------------------------------------------------------------------------------

type op struct {
	S     string `json:"s"`     // "o" | "e"
	D     string `json:"d"`     // bytes to write in one write(2)
	Pause int    `json:"pause"` // milliseconds to sleep afterwards
}

type script struct {
	Ops  []op   `json:"ops"`
	Exit string `json:"exit"` // zero | nonzero | signal | hang
	Code int    `json:"code"`
	Sig  int    `json:"sig"`
}

func child(a *hk.Args) error {
	b, err := os.ReadFile(a.In)
	if err != nil {
		return err
	}
	var sc script
	if err := json.Unmarshal(b, &sc); err != nil {
		return err
	}
	for _, o := range sc.Ops {
		fd := 1
		if o.S == "e" {
			fd = 2
		}
		data := []byte(o.D)
		for len(data) > 0 {
			n, err := syscall.Write(fd, data)
			if err != nil {
				if err == syscall.EINTR || err == syscall.EAGAIN {
					continue
				}
				os.Exit(97)
			}
			data = data[n:]
		}
		if o.Pause > 0 {
			time.Sleep(time.Duration(o.Pause) * time.Millisecond)
		}
	}
	switch sc.Exit {
	case "zero":
		os.Exit(0)
	case "nonzero":
		os.Exit(sc.Code)
	case "signal":
		_ = syscall.Kill(os.Getpid(), syscall.Signal(sc.Sig))
		time.Sleep(5 * time.Second)
		os.Exit(98)
	case "hang":
		time.Sleep(60 * time.Second)
		os.Exit(99)
	}
	return nil
}

// ---- tokens ------------------------------------------------------------------------------------------

func payload(id int) string {
	n := (id*7)%23 + 1
	b := make([]byte, n)
	for i := range b {
		b[i] = byte('a' + (id+i)%26)
	}
	return string(b)
}

func tokenText(id int, long map[int]int) string {
	p := payload(id)
	if n, ok := long[id]; ok {
		p = strings.Repeat(p, n/len(p)+1)[:n]
	}
	// every fourth token ends with a carriage return: at the end of a line it makes the line end with "\r" before its "\n" (a
	// child written for another platform) - the carriage return is part of the line
	if id%4 == 3 {
		return fmt.Sprintf("<t%d:%s>\r", id, p)
	}
	return fmt.Sprintf("<t%d:%s>", id, p)
}

var tokRe = regexp.MustCompile(`<t(\d+):([a-z]*)>\r?`)

// tokenise maps a logged message back to token numbers; anything that is not a whole known token is 999999.
func tokenise(msg string, long map[int]int) []int {
	out := []int{}
	rest := msg
	for rest != "" {
		loc := tokRe.FindStringSubmatchIndex(rest)
		if loc == nil || loc[0] != 0 {
			out = append(out, unknownTok)
			if loc == nil {
				return out
			}
			rest = rest[loc[0]:]
			continue
		}
		id, _ := strconv.Atoi(rest[loc[2]:loc[3]])
		if rest[loc[0]:loc[1]] != tokenText(id, long) {
			out = append(out, unknownTok)
		} else {
			out = append(out, id)
		}
		rest = rest[loc[1]:]
	}
	return out
}

// ---- recording logger ----------------------------------------------------------------------------------

type recorder struct {
	mu   sync.Mutex
	msgs [][2]string // stream, text
}

func (r *recorder) add(s string, v ...interface{}) {
	r.mu.Lock()
	r.msgs = append(r.msgs, [2]string{s, fmt.Sprint(v...)})
	r.mu.Unlock()
}
func (r *recorder) Close() error                 { return nil }
func (r *recorder) Check() error                 { return nil }
func (r *recorder) SetLogSource(string) error    { return nil }
func (r *recorder) SetLoggerSource(string) error { return nil }
func (r *recorder) Log(v ...interface{})         { r.add("o", v...) }
func (r *recorder) LogError(v ...interface{})    { r.add("e", v...) }
func (r *recorder) count() int                   { r.mu.Lock(); defer r.mu.Unlock(); return len(r.msgs) }

// ---- one execution --------------------------------------------------------------------------------------

type execEvent struct {
	Op           string  `json:"op"`
	ID           int     `json:"id"`
	O            []int   `json:"o"`
	E            []int   `json:"e"`
	Exit         string  `json:"exit"`
	Cancelled    bool    `json:"cancelled"`
	Log          [][]any `json:"log"`
	Result       string  `json:"result"`
	Kind         string  `json:"kind"`
	HasOutput    bool    `json:"hasOutput"`
	OutputO      [][]int `json:"outputO"`
	OutputE      [][]int `json:"outputE"`
	OutputResult string  `json:"outputResult"`
	Bytes        int     `json:"bytes"`
	Note         string  `json:"note,omitempty"`
}

func resultOf(err error) (string, string) {
	switch {
	case err == nil:
		return "nil", ""
	case commonerrors.Any(err, commonerrors.ErrCancelled, commonerrors.ErrTimeout):
		return "context", hk.Kind(err)
	default:
		k := hk.Kind(err)
		if k == "other" {
			k = "other:" + err.Error()
		}
		return "error", k
	}
}

func execute(id int, dir string, sc script, o, e []int, cancelled bool, long map[int]int, withOutput bool) (execEvent, error) {
	ev := execEvent{Op: "Exec", ID: id, O: o, E: e, Exit: sc.Exit, Cancelled: cancelled, Log: [][]any{}, OutputO: [][]int{}, OutputE: [][]int{}}
	if ev.O == nil {
		ev.O = []int{}
	}
	if ev.E == nil {
		ev.E = []int{}
	}
	if sc.Exit == "hang" {
		ev.Exit = "signal" // it ends killed
	}
	self, err := os.Executable()
	if err != nil {
		return ev, err
	}
	f, err := os.CreateTemp(dir, "c18-script-*.json")
	if err != nil {
		return ev, err
	}
	defer os.Remove(f.Name())
	b, _ := json.Marshal(sc)
	_, _ = f.Write(b)
	_ = f.Close()
	for _, x := range sc.Ops {
		ev.Bytes += len(x.D)
	}
	args := []string{"c18", "child", "--in", f.Name()}
	rec := &recorder{}
	ctx, cancel := context.WithCancel(context.Background())
	defer cancel()
	p, err := subprocess.New(ctx, rec, startMsg, successMsg, failureMsg, self, args...)
	if err != nil {
		return ev, err
	}
	if cancelled {
		// cancel once the child has written everything and the parent has had time to read it
		total := 0
		for _, x := range sc.Ops {
			total += x.Pause
		}
		go func() {
			time.Sleep(time.Duration(total+150) * time.Millisecond)
			cancel()
		}()
	}
	done := make(chan error, 1)
	go func() { done <- p.Execute() }()
	select {
	case err = <-done:
	case <-time.After(40 * time.Second):
		ev.Note = "Execute did not return within 40 s"
		cancel()
		err = <-done
	}
	ev.Result, ev.Kind = resultOf(err)
	// what the library logs about this run must be complete when Execute returns: anything that still arrives afterwards (the
	// monitoring goroutine of an interrupted run reporting a second end) is part of the recording
	if cancelled {
		time.Sleep(150 * time.Millisecond)
	} else {
		time.Sleep(20 * time.Millisecond)
	}
	rec.mu.Lock()
	for _, m := range rec.msgs {
		switch {
		case m[0] == "o" && m[1] == startMsg:
			ev.Log = append(ev.Log, []any{"start"})
		case m[0] == "o" && m[1] == successMsg:
			ev.Log = append(ev.Log, []any{"ok"})
		case m[0] == "e" && strings.HasPrefix(m[1], failureMsg):
			ev.Log = append(ev.Log, []any{"failed"})
		default: // everything else is what the child wrote
			ev.Log = append(ev.Log, []any{"line", m[0], tokenise(m[1], long)})
		}
	}
	rec.mu.Unlock()
	if withOutput && !cancelled {
		ev.HasOutput = true
		out, err := subprocess.Output(context.Background(), &recorder{}, self, args...)
		ev.OutputResult, _ = resultOf(err)
		for _, line := range strings.Split(out, "\n") {
			if line == "" {
				continue
			}
			toks := tokenise(line, long)
			// a line of Output belongs to the stream of its first token (odd text tokens go to "o", even to "e": see build)
			if len(toks) > 0 && streamOfToken(toks[0], o, e) == "e" {
				ev.OutputE = append(ev.OutputE, toks)
			} else {
				ev.OutputO = append(ev.OutputO, toks)
			}
		}
	}
	return ev, nil
}

func streamOfToken(t int, o, e []int) string {
	for _, x := range e {
		if x == t {
			return "e"
		}
	}
	return "o"
}

// ---- scenarios of the model ---------------------------------------------------------------------------

type scenario struct {
	O         []int  `json:"o"`
	E         []int  `json:"e"`
	ChunksO   []int  `json:"chunksO"`
	ChunksE   []int  `json:"chunksE"`
	Exit      string `json:"exit"`
	Cancelled bool   `json:"cancelled"`
}

func render(tokens []int, long map[int]int) string {
	var sb strings.Builder
	for _, t := range tokens {
		if t == 0 {
			sb.WriteByte('\n')
		} else {
			sb.WriteString(tokenText(t, long))
		}
	}
	return sb.String()
}

func build(sc scenario, rng *rand.Rand) script {
	var ops []op
	chunk := func(s string, toks []int, lens []int) []op {
		var out []op
		i := 0
		for _, n := range lens {
			out = append(out, op{S: s, D: render(toks[i:i+n], nil), Pause: 30})
			i += n
		}
		if i < len(toks) { // not read before the end in the model (cancelled runs): written in one go
			out = append(out, op{S: s, D: render(toks[i:], nil), Pause: 30})
		}
		return out
	}
	a, b := chunk("o", sc.O, sc.ChunksO), chunk("e", sc.E, sc.ChunksE)
	for len(a) > 0 || len(b) > 0 { // interleave the two streams
		if len(a) > 0 && (len(b) == 0 || rng.Intn(2) == 0) {
			ops, a = append(ops, a[0]), a[1:]
		} else {
			ops, b = append(ops, b[0]), b[1:]
		}
	}
	out := script{Ops: ops, Exit: sc.Exit}
	switch {
	case sc.Cancelled:
		out.Exit = "hang"
	case sc.Exit == "nonzero":
		out.Code = []int{1, 2, 3, 42, 126, 127, 128, 255}[rng.Intn(8)]
	case sc.Exit == "signal":
		out.Sig = []int{int(syscall.SIGKILL), int(syscall.SIGTERM), int(syscall.SIGHUP), int(syscall.SIGUSR1)}[rng.Intn(4)] // signals the Go runtime of the child does not turn into a crash dump
	}
	return out
}

func parallel(n, workers int, f func(i int) (execEvent, error), w *hk.Writer) error {
	type res struct {
		i   int
		ev  execEvent
		err error
	}
	jobs := make(chan int)
	out := make(chan res)
	var wg sync.WaitGroup
	for k := 0; k < workers; k++ {
		wg.Add(1)
		go func() {
			defer wg.Done()
			for i := range jobs {
				ev, err := f(i)
				out <- res{i, ev, err}
			}
		}()
	}
	go func() {
		for i := 0; i < n; i++ {
			jobs <- i
		}
		close(jobs)
		wg.Wait()
		close(out)
	}()
	evs := make([]execEvent, n)
	var first error
	for r := range out {
		if r.err != nil && first == nil {
			first = r.err
		}
		evs[r.i] = r.ev
	}
	if first != nil {
		return first
	}
	for _, e := range evs {
		w.Write(e)
	}
	return nil
}

func replay(a *hk.Args) error {
	scs, err := hk.ReadNDJSON[scenario](a.In)
	if err != nil {
		return err
	}
	w, err := hk.NewWriter(a.Out)
	if err != nil {
		return err
	}
	defer w.Close()
	seeds := make([]int64, len(scs))
	rng := rand.New(rand.NewSource(a.Seed))
	for i := range seeds {
		seeds[i] = rng.Int63()
	}
	return parallel(len(scs), 8, func(i int) (execEvent, error) {
		r := rand.New(rand.NewSource(seeds[i]))
		return execute(i+1, a.Dir, build(scs[i], r), scs[i].O, scs[i].E, scs[i].Cancelled, nil, true)
	}, w)
}

// fuzz: volumes up to 1 MB, lines up to 100 000 bytes, writes cut anywhere (also inside a token), every exit status.
func fuzz(a *hk.Args) error {
	w, err := hk.NewWriter(a.Out)
	if err != nil {
		return err
	}
	defer w.Close()
	n := a.N
	if n == 0 {
		n = 30
	}
	rng := rand.New(rand.NewSource(a.Seed))
	seeds := make([]int64, n)
	for i := range seeds {
		seeds[i] = rng.Int63()
	}
	return parallel(n, 6, func(i int) (execEvent, error) {
		r := rand.New(rand.NewSource(seeds[i]))
		long := map[int]int{}
		var o, e []int
		volume := []int{200, 5000, 70000, 300000, 1000000}[r.Intn(5)]
		if a.Tier != "thorough" && volume > 300000 {
			volume = 300000
		}
		next, size := 1, 0
		for size < volume {
			// a line of 1..4 tokens on one of the streams
			s := &o
			if r.Intn(3) == 0 {
				s = &e
			}
			for k := 1 + r.Intn(4); k > 0; k-- {
				l := 1 + r.Intn(60)
				switch r.Intn(30) {
				case 0:
					l = 30000 + r.Intn(70000)
				case 1, 2:
					l = 1000 + r.Intn(8000)
				}
				long[next] = l
				*s = append(*s, next)
				size += l + 8
				next++
			}
			if r.Intn(12) == 0 {
				*s = append(*s, 0) // an empty line now and then
			}
			*s = append(*s, 0)
		}
		if r.Intn(3) == 0 && len(o) > 0 { // last line without a newline
			o = o[:len(o)-1]
		}
		var ops []op
		cut := func(s string, data string) []op {
			var out []op
			for len(data) > 0 {
				n := 1 + r.Intn(200)
				switch r.Intn(6) {
				case 0:
					n = 1 + r.Intn(8)
				case 1:
					n = 4096 + r.Intn(70000)
				}
				if n > len(data) {
					n = len(data)
				}
				p := 0
				if r.Intn(25) == 0 {
					p = 1 + r.Intn(3)
				}
				out = append(out, op{S: s, D: data[:n], Pause: p})
				data = data[n:]
			}
			return out
		}
		x, y := cut("o", render(o, long)), cut("e", render(e, long))
		for len(x) > 0 || len(y) > 0 {
			if len(x) > 0 && (len(y) == 0 || r.Intn(2) == 0) {
				ops, x = append(ops, x[0]), x[1:]
			} else {
				ops, y = append(ops, y[0]), y[1:]
			}
		}
		sc := script{Ops: ops}
		switch r.Intn(4) {
		case 0, 1:
			sc.Exit = "zero"
		case 2:
			sc.Exit, sc.Code = "nonzero", 1+r.Intn(255)
		default:
			sc.Exit, sc.Sig = "signal", []int{int(syscall.SIGKILL), int(syscall.SIGTERM), int(syscall.SIGHUP)}[r.Intn(3)]
		}
		return execute(100000+i, a.Dir, sc, o, e, false, long, i%3 == 0)
	}, w)
}
