package c13

// Binding of specs/logs/LogComposite.tla: two composite loggers built from ONE list of initial members (a slice with
// spare capacity, spread into the constructor - what a caller holding a pool of loggers does), members appended to one
// of them later, messages logged through either; every sink is read back and compared by LogCompositeTrace.tla with
// what the model expects it to hold.

import (
	"fmt"
	"regexp"
	"strconv"

	"github.com/ARM-software/golang-utils/utils/logs"

	"verifharness/internal/hk"
)

func init() {
	hk.Register("c13", "composites", compositesReplay)
}

type compOp struct {
	Op string `json:"op"`
	C  int    `json:"c"`
	S  int    `json:"s"`
}

type compScenario struct {
	Ops      []compOp `json:"ops"`
	Expected [][]int  `json:"expected"`
}

type compEvent struct {
	Op           string   `json:"op"`
	ID           int      `json:"id"`
	Ctor         string   `json:"ctor"`
	Spare        int      `json:"spare"`
	Ops          []compOp `json:"ops"`
	Expected     [][]int  `json:"expected"`
	Got          [][]int  `json:"got"`
	Problem      string   `json:"problem"`
	CallerChange bool     `json:"callerSliceChanged"`
}

var compMsg = regexp.MustCompile(`msg-(\d+)-end`)

func compositesOne(id int, sc compScenario) (compEvent, error) {
	ev := compEvent{Op: "Composites", ID: id, Ops: sc.Ops, Expected: sc.Expected, Got: [][]int{}}
	ev.Ctor = []string{"combined", "multiple"}[id%2]
	ev.Spare = []int{4, 1, 0, 8}[(id/2)%4]
	nSinks := len(sc.Expected)
	sinks := make([]*logs.StringLoggers, nSinks)
	for i := range sinks {
		s, err := logs.NewPlainStringLogger()
		if err != nil {
			return ev, err
		}
		sinks[i] = s
	}
	// the caller's pool: the two initial members, room for more
	pool := make([]logs.Loggers, 0, 2+ev.Spare)
	pool = append(pool, sinks[0], sinks[1])
	full := pool[:cap(pool)]
	build := func() (logs.IMultipleLoggers, error) {
		if ev.Ctor == "combined" {
			return logs.NewCombinedLoggers(pool...)
		}
		return logs.NewMultipleLoggers("c13", pool...)
	}
	comp := make([]logs.IMultipleLoggers, 2)
	for i := range comp {
		c, err := build()
		if err != nil {
			return ev, err
		}
		comp[i] = c
	}
	n := 0
	for _, op := range sc.Ops {
		c := comp[op.C-1]
		switch op.Op {
		case "log":
			n++
			if n%2 == 0 {
				c.Log(fmt.Sprintf("msg-%d-end", n))
			} else {
				c.LogError(fmt.Sprintf("msg-%d-end", n))
			}
		case "append":
			// in turn: the Loggers entry point, the logr entry point with one logger, the logr entry point with a batch of two
			// (the second member of the batch is a sink of the harness's own, outside the model)
			var err error
			how := (id + op.S) % 3
			if ev.Ctor == "combined" {
				how = 0 // a combined logger has no logger source of its own to give to a logr logger: AppendLogger is refused there
			}
			switch how {
			case 0:
				err = c.Append(sinks[op.S-1])
			case 1:
				err = c.AppendLogger(logs.NewPlainLogrLoggerFromLoggers(sinks[op.S-1]))
			default:
				extra, xerr := logs.NewPlainStringLogger()
				if xerr != nil {
					return ev, xerr
				}
				err = c.AppendLogger(logs.NewPlainLogrLoggerFromLoggers(sinks[op.S-1]), logs.NewPlainLogrLoggerFromLoggers(extra))
			}
			if err != nil {
				ev.Problem = "Append: " + err.Error()
			}
		}
	}
	// what the caller handed over is the caller's: the slots beyond its length stay as they were (nil)
	for _, x := range full[2:] {
		if x != nil {
			ev.CallerChange = true
		}
	}
	if pool[0] != logs.Loggers(sinks[0]) || pool[1] != logs.Loggers(sinks[1]) {
		ev.CallerChange = true
	}
	for _, s := range sinks {
		got := []int{}
		for _, m := range compMsg.FindAllStringSubmatch(s.GetLogContent(), -1) {
			k, _ := strconv.Atoi(m[1])
			got = append(got, k)
		}
		ev.Got = append(ev.Got, got)
	}
	for i := range ev.Expected {
		if ev.Expected[i] == nil {
			ev.Expected[i] = []int{}
		}
	}
	return ev, nil
}

func compositesReplay(a *hk.Args) error {
	scs, err := hk.ReadNDJSON[compScenario](a.In)
	if err != nil {
		return err
	}
	w, err := hk.NewWriter(a.Out)
	if err != nil {
		return err
	}
	defer w.Close()
	for i, sc := range scs {
		ev, err := compositesOne(i+1, sc)
		if err != nil {
			return err
		}
		w.Write(ev)
	}
	return nil
}
