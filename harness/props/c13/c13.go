// Package c13 binds specs/logs/LogSink.tla to the logger implementations of utils/logs: for one logger kind per
// process (so that race-detector reports can be attributed), producers on many goroutines log tagged messages on both
// streams; after the join every sink is parsed back and the counts (delivered exactly once, missing, duplicated,
// corrupt lines, drops reported) are recorded for LogSinkTrace.tla. Built with -race by the checker.
package c13

import (
	"bytes"
	"fmt"
	"github.com/go-logr/logr"
	"hash/crc32"
	"io"
	"log"
	"math/rand"
	"os"
	"path/filepath"
	"regexp"
	"runtime"
	"strconv"
	"strings"
	"sync"
	"sync/atomic"
	"time"

	"github.com/go-logr/logr/funcr"
	"github.com/hashicorp/go-hclog"
	"github.com/sirupsen/logrus"
	"go.uber.org/zap"
	"go.uber.org/zap/zapcore"
	"golang.org/x/exp/slog"

	"github.com/ARM-software/golang-utils/utils/logs"

	"verifharness/internal/hk"
)

func init() {
	hk.Register("c13", "run", run)
	hk.Register("c13", "kinds", func(a *hk.Args) error {
		w, err := hk.NewWriter(a.Out)
		if err != nil {
			return err
		}
		defer w.Close()
		for _, k := range kinds() {
			w.Write(map[string]any{"kind": k.name, "class": k.class})
		}
		return nil
	})
}

// ---- sinks -----------------------------------------------------------------------------------------

// sink is a goroutine-safe writer which keeps every Write as one record (what a correct logger hands over in one piece).
type sink struct {
	mu      sync.Mutex
	buf     bytes.Buffer
	delay   time.Duration
	sources int
}

func (s *sink) Write(p []byte) (int, error) {
	if s.delay > 0 {
		time.Sleep(s.delay)
	}
	s.mu.Lock()
	defer s.mu.Unlock()
	s.buf.Write(p)
	if len(p) > 0 && p[len(p)-1] != '\n' {
		s.buf.WriteByte('\n')
	}
	return len(p), nil
}
func (s *sink) Close() error { return nil }
func (s *sink) SetSource(string) error {
	s.mu.Lock()
	s.sources++
	s.mu.Unlock()
	return nil
}
func (s *sink) String() string { s.mu.Lock(); defer s.mu.Unlock(); return s.buf.String() }
func (s *sink) Sync() error    { return nil }

// dropCounter is the logger given to the ring-buffered writers for their reports.
type dropCounter struct {
	mu    sync.Mutex
	total int
	calls int
	bad   int
}

var dropRe = regexp.MustCompile(`Logger dropped (\d+) messages`)

func (d *dropCounter) Close() error                 { return nil }
func (d *dropCounter) Check() error                 { return nil }
func (d *dropCounter) SetLogSource(string) error    { return nil }
func (d *dropCounter) SetLoggerSource(string) error { return nil }
func (d *dropCounter) Log(...interface{})           {}
func (d *dropCounter) LogError(v ...interface{}) {
	d.mu.Lock()
	defer d.mu.Unlock()
	d.calls++
	m := dropRe.FindStringSubmatch(fmt.Sprint(v...))
	if m == nil {
		d.bad++
		return
	}
	n, _ := strconv.Atoi(m[1])
	d.total += n
}

// ---- messages -------------------------------------------------------------------------------------

var markRe = regexp.MustCompile(`m\|\d+\|\d+\|[oe]\|`)
var msgRe = regexp.MustCompile(`m\|(\d+)\|(\d+)\|([oe])\|([a-zT% 0-9:=,._-]*)\|([0-9a-f]{8})\|`)

func message(p, seq int, stream string, rng *rand.Rand) string {
	n := 1 + rng.Intn(40)
	if rng.Intn(10) == 0 {
		n = 200 + rng.Intn(800)
	}
	b := make([]byte, n)
	// letters, and what a formatting layer on the way could take for a directive: percent signs (alone, doubled, before a verb
	// letter or a digit), digits, blanks, a colon, an equals sign - nothing an encoder of the sinks has to escape
	const alphabet = "abcdefghijklmnopqrstuvwxyzdsvqxT%%%% 0123456789:=,._-"
	for i := range b {
		b[i] = alphabet[rng.Intn(len(alphabet))]
	}
	if b[0] == ' ' {
		b[0] = 'a' // some sinks trim
	}
	if b[n-1] == ' ' {
		b[n-1] = 'z'
	}
	body := fmt.Sprintf("m|%d|%d|%s|%s", p, seq, stream, b)
	return fmt.Sprintf("%s|%08x|", body, crc32.ChecksumIEEE([]byte(body)))
}

type sinkResult struct {
	Name     string `json:"name"`
	Expected int    `json:"expected"` // messages this sink must hold
	Once     int    `json:"once"`     // expected messages found exactly once, intact
	Missing  int    `json:"missing"`  // expected messages not found
	Dup      int    `json:"dup"`      // expected messages found more than once
	Corrupt  int    `json:"corrupt"`  // lines holding a damaged message (bad checksum, truncated, two messages in one line)
	Unwanted int    `json:"unwanted"` // intact messages that must not be in this sink
	Lines    int    `json:"lines"`
}

// parse examines the content of one sink. want(p, seq, stream) says whether the message belongs there.
func parse(name, content string, sent map[string]bool, want func(p, seq int, stream string) bool, lenient bool) sinkResult {
	r := sinkResult{Name: name}
	found := map[string]int{}
	for _, line := range strings.Split(content, "\n") {
		if strings.TrimSpace(line) == "" {
			continue
		}
		r.Lines++
		ms := msgRe.FindAllStringSubmatch(line, -1)
		markers := len(markRe.FindAllString(line, -1))
		good := 0
		for _, m := range ms {
			body := fmt.Sprintf("m|%s|%s|%s|%s", m[1], m[2], m[3], m[4])
			if fmt.Sprintf("%08x", crc32.ChecksumIEEE([]byte(body))) != m[5] {
				continue
			}
			good++
			found[m[1]+"|"+m[2]+"|"+m[3]]++
		}
		if good > 1 || markers > good {
			r.Corrupt++
		}
	}
	for k := range sent {
		parts := strings.Split(k, "|")
		pi, _ := strconv.Atoi(parts[0])
		si, _ := strconv.Atoi(parts[1])
		if !want(pi, si, parts[2]) {
			if found[k] > 0 && !lenient {
				r.Unwanted++
			}
			continue
		}
		r.Expected++
		switch n := found[k]; {
		case n == 0:
			r.Missing++
		case n == 1:
			r.Once++
		default:
			r.Dup++
		}
	}
	for k := range found {
		if !sent[k] {
			r.Corrupt++ // an intact-looking message nobody sent
		}
	}
	return r
}

// ---- logger kinds ---------------------------------------------------------------------------------

type built struct {
	l       logs.Loggers
	collect func() []sinkSpec // after Close
	drops   *dropCounter
	extra   func(p, i int) // concurrent administrative call (source changes, appends) by producer p after its message i
	cleanup func()
}

type sinkSpec struct {
	name    string
	content string
	want    func(p, seq int, stream string) bool
	lenient bool // other messages may be in this sink too
}

type kind struct {
	name  string
	class string // lossless | ring | noop
	build func(dir string, rng *rand.Rand) (*built, error)
}

func both(int, int, string) bool      { return true }
func onlyErr(_, _ int, s string) bool { return s == "e" }
func onlyOut(_, _ int, s string) bool { return s == "o" }

func stringMember() (*logs.StringLoggers, error) { return logs.NewPlainStringLogger() }

func redirectStd() (restore func() (string, string), err error) {
	oldOut, oldErr := os.Stdout, os.Stderr
	ro, wo, err := os.Pipe()
	if err != nil {
		return nil, err
	}
	re, we, err := os.Pipe()
	if err != nil {
		return nil, err
	}
	os.Stdout, os.Stderr = wo, we
	var bo, be bytes.Buffer
	var wg sync.WaitGroup
	wg.Add(2)
	go func() { defer wg.Done(); _, _ = io.Copy(&bo, ro) }()
	go func() { defer wg.Done(); _, _ = io.Copy(&be, re) }()
	return func() (string, string) {
		os.Stdout, os.Stderr = oldOut, oldErr
		_ = wo.Close()
		_ = we.Close()
		wg.Wait()
		return bo.String(), be.String()
	}, nil
}

func kinds() []kind {
	fromSink := func(name string, mk func(s *sink) (logs.Loggers, error)) kind {
		return kind{name: name, class: "lossless", build: func(dir string, rng *rand.Rand) (*built, error) {
			s := &sink{}
			l, err := mk(s)
			if err != nil {
				return nil, err
			}
			return &built{l: l, collect: func() []sinkSpec { return []sinkSpec{{name, s.String(), both, false}} }}, nil
		}}
	}
	ring := func(name string, size int, poll time.Duration, delay time.Duration, json bool) kind {
		return kind{name: name, class: "ring", build: func(dir string, rng *rand.Rand) (*built, error) {
			so, se := &sink{delay: delay}, &sink{delay: delay}
			dc := &dropCounter{}
			var l logs.Loggers
			var err error
			if json {
				se = so
				l, err = logs.NewJSONLoggerForSlowWriter(so, size, poll, "c13", "source", dc)
			} else {
				l, err = logs.NewAsynchronousLoggers(so, se, size, poll, "c13", "source", dc)
			}
			if err != nil {
				return nil, err
			}
			return &built{l: l, drops: dc, collect: func() []sinkSpec {
				if json {
					return []sinkSpec{{name, so.String(), both, false}}
				}
				return []sinkSpec{{name + "/out", so.String(), onlyOut, false}, {name + "/err", se.String(), onlyErr, false}}
			}}, nil
		}}
	}
	return []kind{
		{name: "string", class: "lossless", build: func(dir string, rng *rand.Rand) (*built, error) {
			l, err := logs.NewStringLogger("c13")
			if err != nil {
				return nil, err
			}
			content := ""
			return &built{l: loggerWithPreClose{l, func() { content = l.GetLogContent() }}, collect: func() []sinkSpec { return []sinkSpec{{"string", content, both, false}} }}, nil
		}},
		{name: "plain-string", class: "lossless", build: func(dir string, rng *rand.Rand) (*built, error) {
			l, err := logs.NewPlainStringLogger()
			if err != nil {
				return nil, err
			}
			content := ""
			return &built{l: loggerWithPreClose{l, func() { content = l.GetLogContent() }}, collect: func() []sinkSpec { return []sinkSpec{{"plain-string", content, both, false}} }}, nil
		}},
		{name: "std", class: "lossless", build: func(dir string, rng *rand.Rand) (*built, error) {
			restore, err := redirectStd()
			if err != nil {
				return nil, err
			}
			l, err := logs.NewStdLogger("c13")
			if err != nil {
				restore()
				return nil, err
			}
			return &built{l: l, collect: func() []sinkSpec {
				o, e := restore()
				return []sinkSpec{{"stdout", o, onlyOut, false}, {"stderr", e, onlyErr, false}}
			}}, nil
		}},
		{name: "pipe", class: "lossless", build: func(dir string, rng *rand.Rand) (*built, error) {
			restore, err := redirectStd()
			if err != nil {
				return nil, err
			}
			l, err := logs.NewPipeLogger()
			if err != nil {
				restore()
				return nil, err
			}
			return &built{l: l, collect: func() []sinkSpec {
				o, e := restore()
				return []sinkSpec{{"stdout", o, onlyOut, false}, {"stderr", e, onlyErr, false}}
			}}, nil
		}},
		{name: "file-only", class: "lossless", build: func(dir string, rng *rand.Rand) (*built, error) {
			f := filepath.Join(dir, fmt.Sprintf("c13-%d.log", rng.Int63()))
			l, err := logs.NewFileOnlyLogger(f, "c13")
			if err != nil {
				return nil, err
			}
			return &built{l: l, collect: func() []sinkSpec {
				b, _ := os.ReadFile(f)
				return []sinkSpec{{"file", string(b), both, false}}
			}, cleanup: func() { _ = os.Remove(f) }}, nil
		}},
		// two file loggers of one process on one path (a component each): every record is appended, none overwrites another's
		{name: "file-two-loggers", class: "lossless", build: func(dir string, rng *rand.Rand) (*built, error) {
			f := filepath.Join(dir, fmt.Sprintf("c13-%d.log", rng.Int63()))
			a, err := logs.NewFileOnlyLogger(f, "c13-a")
			if err != nil {
				return nil, err
			}
			b, err := logs.NewFileOnlyLogger(f, "c13-b")
			if err != nil {
				return nil, err
			}
			return &built{l: &pairOfLoggers{a: a, b: b}, collect: func() []sinkSpec {
				c, _ := os.ReadFile(f)
				return []sinkSpec{{"file", string(c), both, false}}
			}, cleanup: func() { _ = os.Remove(f) }}, nil
		}},
		fromSink("json", func(s *sink) (logs.Loggers, error) { return logs.NewJSONLogger(s, "c13", "source") }),
		fromSink("logr-funcr", func(s *sink) (logs.Loggers, error) {
			return logs.NewLogrLogger(funcr.New(func(prefix, args string) { _, _ = s.Write([]byte(prefix + " " + args)) }, funcr.Options{}), "c13")
		}),
		fromSink("zap", func(s *sink) (logs.Loggers, error) {
			core := zapcore.NewCore(zapcore.NewJSONEncoder(zap.NewProductionEncoderConfig()), zapcore.Lock(s), zapcore.DebugLevel)
			return logs.NewZapLogger(zap.New(core), "c13")
		}),
		fromSink("logrus", func(s *sink) (logs.Loggers, error) {
			lg := logrus.New()
			lg.SetOutput(s)
			return logs.NewLogrusLogger(lg, "c13")
		}),
		fromSink("hclog", func(s *sink) (logs.Loggers, error) {
			return logs.NewHclogLogger(hclog.New(&hclog.LoggerOptions{Output: s, Level: hclog.Debug}), "c13")
		}),
		fromSink("slog", func(s *sink) (logs.Loggers, error) {
			return logs.NewSlogLogger(slog.New(slog.NewTextHandler(s, nil)), "c13")
		}),
		{name: "noop", class: "noop", build: func(dir string, rng *rand.Rand) (*built, error) {
			l, err := logs.NewNoopLogger("c13")
			if err != nil {
				return nil, err
			}
			return &built{l: l, collect: func() []sinkSpec { return nil }}, nil
		}},
		{name: "quiet", class: "lossless", build: func(dir string, rng *rand.Rand) (*built, error) {
			m, err := stringMember()
			if err != nil {
				return nil, err
			}
			l, err := logs.NewQuietLogger(m)
			if err != nil {
				return nil, err
			}
			content := ""
			return &built{l: loggerWithPreClose{l, func() { content = m.GetLogContent() }}, collect: func() []sinkSpec { return []sinkSpec{{"quiet", content, onlyErr, false}} }}, nil
		}},
		{name: "multiple", class: "lossless", build: func(dir string, rng *rand.Rand) (*built, error) { return composite(rng, true) }},
		{name: "combined", class: "lossless", build: func(dir string, rng *rand.Rand) (*built, error) { return composite(rng, false) }},
		{name: "multiple-writers", class: "lossless", build: func(dir string, rng *rand.Rand) (*built, error) {
			a, b, c := &sink{}, &sink{}, &sink{}
			w, err := logs.NewMultipleWritersWithSource(a, b)
			if err != nil {
				return nil, err
			}
			l, err := logs.NewJSONLogger(w, "c13", "source")
			if err != nil {
				return nil, err
			}
			added := false
			var mu sync.Mutex
			return &built{l: l, extra: func(_, i int) {
				// a writer added while messages flow: it gets what comes after, the others lose nothing
				mu.Lock()
				if !added && i > 3 {
					added = true
					_ = w.AddWriters(c)
				}
				mu.Unlock()
			}, collect: func() []sinkSpec {
				return []sinkSpec{{"writer-a", a.String(), both, false}, {"writer-b", b.String(), both, false}}
			}}, nil
		}},
		{name: "logr-from-loggers", class: "lossless", build: func(dir string, rng *rand.Rand) (*built, error) {
			m, err := stringMember()
			if err != nil {
				return nil, err
			}
			lr := logs.NewPlainLogrLoggerFromLoggers(m)
			l, err := logs.NewLogrLogger(lr, "c13")
			if err != nil {
				return nil, err
			}
			content := ""
			return &built{l: loggerWithPreClose{l, func() { content = m.GetLogContent() }}, collect: func() []sinkSpec { return []sinkSpec{{"logr-from-loggers", content, both, false}} }}, nil
		}},
		{name: "golang-std-from-loggers", class: "lossless", build: func(dir string, rng *rand.Rand) (*built, error) {
			m, err := stringMember()
			if err != nil {
				return nil, err
			}
			o, e := logs.NewGolangStdLoggerFromLoggers(m, false), logs.NewGolangStdLoggerFromLoggers(m, true)
			content := ""
			return &built{l: loggerWithPreClose{&stdPair{o, e, m}, func() { content = m.GetLogContent() }}, collect: func() []sinkSpec { return []sinkSpec{{"golang-std-from-loggers", content, both, false}} }}, nil
		}},
		{name: "writers-from-loggers", class: "lossless", build: func(dir string, rng *rand.Rand) (*built, error) {
			m, err := stringMember()
			if err != nil {
				return nil, err
			}
			iw, err := logs.NewInfoWriterFromLoggers(m)
			if err != nil {
				return nil, err
			}
			ew, err := logs.NewErrorWriterFromLoggers(m)
			if err != nil {
				return nil, err
			}
			g := &logs.GenericLoggers{Output: log.New(iw, "", 0), Error: log.New(ew, "", 0)}
			content := ""
			return &built{l: loggerWithPreClose{g, func() { content = m.GetLogContent() }}, collect: func() []sinkSpec { return []sinkSpec{{"writers-from-loggers", content, both, false}} }}, nil
		}},
		ring("async-ring-large", 4096, 0, 0, false),
		ring("async-ring-small-waiter", 4, 0, 200*time.Microsecond, false),
		ring("async-ring-small-poller", 8, time.Millisecond, 100*time.Microsecond, false),
		ring("json-ring-small", 4, 0, 200*time.Microsecond, true),
		ring("json-ring-one", 1, 0, 50*time.Microsecond, true),
		ring("async-ring-one", 1, 0, 50*time.Microsecond, false),
		ring("async-ring-two-poller", 2, 500*time.Microsecond, 50*time.Microsecond, false),
	}
}

type stdPair struct {
	o, e logs.StdLogger
	m    logs.Loggers
}

func (s *stdPair) Close() error                 { return s.m.Close() }
func (s *stdPair) Check() error                 { return nil }
func (s *stdPair) SetLogSource(string) error    { return nil }
func (s *stdPair) SetLoggerSource(string) error { return nil }
func (s *stdPair) Log(v ...interface{})         { _ = s.o.Output(2, fmt.Sprint(v...)) }
func (s *stdPair) LogError(v ...interface{})    { _ = s.e.Output(2, fmt.Sprint(v...)) }

// pairOfLoggers hands every other message to the second logger.
type pairOfLoggers struct {
	a, b logs.Loggers
	n    atomic.Int64
}

func (p *pairOfLoggers) pick() logs.Loggers {
	if p.n.Add(1)%2 == 0 {
		return p.a
	}
	return p.b
}
func (p *pairOfLoggers) Close() error {
	err := p.a.Close()
	if e := p.b.Close(); err == nil {
		err = e
	}
	return err
}
func (p *pairOfLoggers) Check() error { return p.a.Check() }
func (p *pairOfLoggers) SetLogSource(s string) error {
	_ = p.b.SetLogSource(s)
	return p.a.SetLogSource(s)
}
func (p *pairOfLoggers) SetLoggerSource(s string) error {
	_ = p.b.SetLoggerSource(s)
	return p.a.SetLoggerSource(s)
}
func (p *pairOfLoggers) Log(v ...interface{})      { p.pick().Log(v...) }
func (p *pairOfLoggers) LogError(v ...interface{}) { p.pick().LogError(v...) }

// loggerWithPreClose reads the sink before Close (string loggers reset their buffer when closed).
type loggerWithPreClose struct {
	logs.Loggers
	pre func()
}

func (l loggerWithPreClose) Close() error { l.pre(); return l.Loggers.Close() }

func composite(rng *rand.Rand, withSource bool) (*built, error) {
	n := 1 + rng.Intn(4)
	var members []*logs.StringLoggers
	var list []logs.Loggers
	for i := 0; i < n; i++ {
		m, err := stringMember()
		if err != nil {
			return nil, err
		}
		members = append(members, m)
		list = append(list, m)
	}
	// one member of the logr family (its own methods are not synchronised: the composite's exclusive lock is what keeps a
	// SetLogSource apart from the Log / LogError calls of other producers); what it writes is discarded
	if lm, lerr := logs.NewLogrLogger(logr.Discard(), "c13-logr-member"); lerr == nil {
		list = append(list, lm)
	} else {
		return nil, lerr
	}
	var l logs.IMultipleLoggers
	var err error
	if withSource {
		l, err = logs.NewMultipleLoggers("c13", list...)
	} else {
		l, err = logs.NewCombinedLoggers(list...)
	}
	if err != nil {
		return nil, err
	}
	// members appended while messages flow, by several producers at once: a member whose Append has returned gets
	// everything its appender logs afterwards
	const appenders = 8
	late := make([]*logs.StringLoggers, appenders)
	for i := range late {
		if late[i], err = stringMember(); err != nil {
			return nil, err
		}
	}
	var arrived atomic.Int32
	appendedAt := make([]int, appenders) // sequence number after which producer p appended late[p] (0 = never)
	var mu sync.Mutex
	contents := make([]string, n)
	lateContents := make([]string, appenders)
	return &built{l: loggerWithPreClose{l, func() {
		for i, m := range members {
			contents[i] = m.GetLogContent()
		}
		for i, m := range late {
			lateContents[i] = m.GetLogContent()
		}
	}}, extra: func(p, i int) {
		if p < appenders && i == 5 {
			// rendezvous (best effort, 3 ms): the appends of several producers overlap
			arrived.Add(1)
			for t := time.Now(); arrived.Load() < 2 && time.Since(t) < 3*time.Millisecond; {
				runtime.Gosched()
			}
			if err := l.Append(slowMember{late[p]}); err == nil {
				mu.Lock()
				appendedAt[p] = i
				mu.Unlock()
			}
		}
		_ = l.SetLogSource(fmt.Sprintf("source-%d", i%3))
	}, collect: func() []sinkSpec {
		var out []sinkSpec
		for i := range members {
			out = append(out, sinkSpec{fmt.Sprintf("member-%d", i), contents[i], both, false})
		}
		for q := range late {
			q := q
			if appendedAt[q] == 0 {
				continue
			}
			out = append(out, sinkSpec{fmt.Sprintf("appended-by-%d", q), lateContents[q], func(p, seq int, _ string) bool { return p == q && seq > appendedAt[q] }, true})
		}
		return out
	}}, nil
}

// slowMember takes its time to accept its logger source, as a member backed by a remote service would.
type slowMember struct{ *logs.StringLoggers }

func (s slowMember) SetLoggerSource(src string) error {
	time.Sleep(300 * time.Microsecond)
	return s.StringLoggers.SetLoggerSource(src)
}

// ---- one run --------------------------------------------------------------------------------------

type runEvent struct {
	Op        string       `json:"op"`
	Logger    string       `json:"logger"`
	Class     string       `json:"class"`
	Producers int          `json:"producers"`
	Sent      int          `json:"sent"`
	Admin     bool         `json:"admin"` // source changes / appends ran concurrently
	Sinks     []sinkResult `json:"sinks"`
	Drops     int          `json:"dropsReported"`
	DropCalls int          `json:"dropReports"`
	BadDrops  int          `json:"malformedDropReports"`
	CloseErr  string       `json:"closeErr"`
}

func oneRun(k kind, dir string, producers, per int, admin bool, seed int64) (runEvent, error) {
	ev := runEvent{Op: "Run", Logger: k.name, Class: k.class, Producers: producers, Admin: admin, Sinks: []sinkResult{}}
	rng := rand.New(rand.NewSource(seed))
	b, err := k.build(dir, rng)
	if err != nil {
		return ev, fmt.Errorf("building %s: %w", k.name, err)
	}
	if b.cleanup != nil {
		defer b.cleanup()
	}
	sent := map[string]bool{}
	var smu sync.Mutex
	var wg sync.WaitGroup
	start := make(chan struct{})
	for p := 0; p < producers; p++ {
		wg.Add(1)
		go func(p int, seed int64) {
			defer wg.Done()
			r := rand.New(rand.NewSource(seed))
			<-start
			for i := 0; i < per; i++ {
				stream := "o"
				if r.Intn(2) == 0 {
					stream = "e"
				}
				m := message(p, i, stream, r)
				smu.Lock()
				sent[fmt.Sprintf("%d|%d|%s", p, i, stream)] = true
				smu.Unlock()
				if stream == "o" {
					b.l.Log(m)
				} else {
					b.l.LogError(m)
				}
				if admin && b.extra != nil && i%5 == 0 {
					b.extra(p, i)
				}
				if k.class == "ring" && r.Intn(4) == 0 {
					time.Sleep(time.Duration(r.Intn(300)) * time.Microsecond)
				}
			}
		}(p, rng.Int63())
	}
	close(start)
	wg.Wait()
	if k.class == "ring" {
		// let the consumer drain what the ring still holds
		time.Sleep(150 * time.Millisecond)
	}
	if err := b.l.Close(); err != nil {
		ev.CloseErr = err.Error()
	}
	ev.Sent = len(sent)
	for _, s := range b.collect() {
		ev.Sinks = append(ev.Sinks, parse(s.name, s.content, sent, s.want, s.lenient))
	}
	if b.drops != nil {
		b.drops.mu.Lock()
		ev.Drops, ev.DropCalls, ev.BadDrops = b.drops.total, b.drops.calls, b.drops.bad
		b.drops.mu.Unlock()
	}
	return ev, nil
}

func run(a *hk.Args) error {
	w, err := hk.NewWriter(a.Out)
	if err != nil {
		return err
	}
	defer w.Close()
	want := a.Extra["logger"]
	rounds := a.N
	if rounds == 0 {
		rounds = 3
	}
	rng := rand.New(rand.NewSource(a.Seed))
	for _, k := range kinds() {
		if want != "" && k.name != want {
			continue
		}
		for r := 0; r < rounds; r++ {
			producers := []int{2, 4, 8, 16, 32}[rng.Intn(5)]
			per := 40 + rng.Intn(60)
			if a.Tier == "thorough" {
				per = 100 + rng.Intn(400)
			}
			ev, err := oneRun(k, a.Dir, producers, per, r%2 == 1, rng.Int63())
			if err != nil {
				return err
			}
			w.Write(ev)
		}
	}
	return nil
}
