package c01

import (
	"fmt"
	"math/rand"
	"os"
	"path/filepath"
	"strings"
	"time"

	"verifharness/internal/fsgate"
	"verifharness/internal/hk"
)

func init() {
	hk.Register("c01", "replay", replay)
	hk.Register("c01", "random", random)
}

type step struct {
	P string `json:"p"`
	A string `json:"a"`
}

// Scenario is a behaviour of LockFile.tla up to its first violation.
type Scenario struct {
	Procs          []string `json:"procs"`
	Override       []string `json:"override"`
	Lockers        []string `json:"lockers"`
	ImplicitParent bool     `json:"implicitParent"`
	Viol           []string `json:"viol"`
	Sched          []step   `json:"sched"`
}

const (
	apiWait = 400 * time.Millisecond
	hbWait  = 75 * time.Millisecond
)

type driver struct {
	w     *World
	drift []string
}

func (d *driver) note(format string, a ...any) {
	if len(d.drift) < 10 {
		d.drift = append(d.drift, fmt.Sprintf(format, a...))
	}
}

func (d *driver) settle(key string) *fsgate.Call {
	wait := apiWait
	if strings.HasSuffix(key, ".hb") {
		wait = hbWait
	}
	c, _ := d.w.Settle(key, d.w.Gate.FinishedCount(key), wait)
	return c
}

// parked returns the call key is parked at, waiting for its arrival if the API call is still running.
func (d *driver) parked(key string) *fsgate.Call {
	if c := d.w.Gate.Peek(key); c != nil {
		return c
	}
	name := strings.TrimSuffix(key, ".hb")
	if !strings.HasSuffix(key, ".hb") && d.w.Busy(name) == "" {
		return nil
	}
	wait := apiWait
	if strings.HasSuffix(key, ".hb") {
		wait = hbWait
	}
	c, _ := d.w.Gate.WaitParked(key, d.w.Gate.FinishedCount(key), wait)
	return c
}

func (d *driver) release(c *fsgate.Call) {
	fin := d.w.Gate.FinishedCount(c.Key)
	d.w.Gate.Release(c, fsgate.Proceed)
	wait := apiWait
	if strings.HasSuffix(c.Key, ".hb") {
		wait = hbWait
	}
	d.w.Gate.WaitParked(c.Key, fin, wait)
}

// advance releases the consecutive parked calls of key that satisfy pred.
func (d *driver) advance(key string, pred func(*fsgate.Call) bool) int {
	n := 0
	for i := 0; i < 200; i++ {
		c := d.parked(key)
		if c == nil || !pred(c) {
			return n
		}
		d.release(c)
		n++
	}
	return n
}

// expectMut skips reads until key is parked at the mutating call op(path) and releases it.
func (d *driver) expectMut(key, op, path string) bool {
	for i := 0; i < 200; i++ {
		c := d.parked(key)
		if c == nil {
			d.note("%s: not parked, expected %s %s", key, op, filepath.Base(path))
			return false
		}
		if c.Ev.Op == op && filepath.Clean(c.Ev.Path) == path {
			d.release(c)
			return true
		}
		if c.Ev.Mut {
			d.note("%s: parked at %s %s, expected %s %s", key, c.Ev.Op, filepath.Base(c.Ev.Path), op, filepath.Base(path))
			return false
		}
		d.release(c) // a read the model does not distinguish
	}
	return false
}

func phaseIs(ph string) func(*fsgate.Call) bool {
	return func(c *fsgate.Call) bool { return Phase(&c.Ev) == ph && !c.Ev.Mut }
}

// apply performs one step of a model schedule on the real objects.
func (d *driver) apply(s step, sc *Scenario) {
	w := d.w
	locker := false
	for _, l := range sc.Lockers {
		if l == s.P {
			locker = true
		}
	}
	switch s.A {
	case "StartAcquire":
		api := "TryLock"
		if locker {
			api = "Lock"
			for _, x := range sc.Sched {
				if x.A == "GiveUp" { // a caller that stops waiting: the blocking acquire with a (short) time limit
					api = "LockWithShortTimeout"
				}
			}
		}
		if err := w.StartAPI(s.P, api); err != nil {
			d.note("%v", err)
			return
		}
		d.parked(s.P)
	case "GiveUp":
		// the polling contender stops waiting: its time limit (20 ms) elapses - or, for a plain Lock, its context is cancelled -
		// and whatever it still does on its way out is let through
		if w.Busy(s.P) == "LockWithShortTimeout" {
			time.Sleep(30 * time.Millisecond)
		} else {
			w.GiveUp(s.P)
		}
		for i := 0; i < 200 && w.Busy(s.P) != ""; i++ {
			c := d.parked(s.P)
			if c == nil {
				break
			}
			d.release(c)
		}
	case "Mkdir":
		d.expectMut(s.P, "Mkdir", w.lockDir)
	case "Stale1":
		if d.advance(s.P, phaseIs("stale1")) == 0 {
			d.note("%s: no staleness reads where the model has Stale1", s.P)
		}
	case "Stale2":
		if d.advance(s.P, phaseIs("stale2")) == 0 {
			d.note("%s: no ReleaseIfStale reads where the model has Stale2", s.P)
		}
	case "Chtimes":
		d.expectMut(s.P, "Chtimes", w.lockDir)
		d.parked(s.P + ".hb") // the heartbeat writer starts and arrives at its first write
	case "BeginRelease":
		if err := w.StartAPI(s.P, "Unlock"); err != nil {
			d.note("%v", err)
			return
		}
		d.parked(s.P)
	case "UScan", "URecheck":
		d.advance(s.P, phaseIs("rm"))
	case "URmHb":
		d.expectMut(s.P, "Remove", w.hbFile)
	case "URmDir":
		c := d.parked(s.P)
		if c != nil && c.Ev.Op == "Remove" && filepath.Clean(c.Ev.Path) == w.lockDir {
			d.release(c)
		} // otherwise the removal was not attempted (the model's failing Remove): nothing to do
	case "UExists":
		d.advance(s.P, phaseIs("uexists"))
	case "HbOpen":
		d.expectMut(s.P+".hb", "OpenFile", w.hbFile)
	case "HbChtimes":
		d.expectMut(s.P+".hb", "Chtimes", w.hbFile)
	case "HbWake":
		d.parked(s.P + ".hb")
	case "Tick":
		w.Tick()
	case "Die":
		w.Die(s.P)
	default:
		d.note("unknown model action %s", s.A)
	}
}

type runInfo struct {
	ID      int      `json:"id"`
	Backend string   `json:"backend"`
	Expect  []string `json:"expect"`
	Drift   []string `json:"drift"`
	Kind    string   `json:"kind"`
	Steps   int      `json:"steps"`
}

func contains(xs []string, x string) bool {
	for _, y := range xs {
		if y == x {
			return true
		}
	}
	return false
}

// replay runs every scenario on the in-memory and the OS backend and writes the recorded traces
// (a.Out) and the per-trace expectations (a.Out + ".info").
func replay(a *hk.Args) error {
	scs, err := hk.ReadNDJSON[Scenario](a.In)
	if err != nil {
		return err
	}
	tw, err := hk.NewWriter(a.Out)
	if err != nil {
		return err
	}
	defer tw.Close()
	iw, err := hk.NewWriter(a.Out + ".info")
	if err != nil {
		return err
	}
	defer iw.Close()
	id := 0
	for i := range scs {
		sc := &scs[i]
		for _, backend := range []string{"mem", "os"} {
			if sc.ImplicitParent != (backend == "mem") && len(sc.Viol) == 0 {
				continue
			}
			id++
			ov := map[string]bool{}
			for _, o := range sc.Override {
				ov[o] = true
			}
			w, err := NewWorld(backend, sc.Procs, ov, a.Dir, id)
			if err != nil {
				return err
			}
			d := &driver{w: w}
			t0 := time.Now()
			for _, s := range sc.Sched {
				t1 := time.Now()
				d.apply(s, sc)
				if os.Getenv("VERIF_TIMING") != "" && time.Since(t1) > 50*time.Millisecond {
					fmt.Fprintf(os.Stderr, "slow step %s.%s %v\n", s.P, s.A, time.Since(t1))
				}
			}
			t2 := time.Now()
			if os.Getenv("VERIF_DEBUG") != "" {
				for _, e := range w.Gate.Log() {
					fmt.Fprintf(os.Stderr, "  %3d %-5s %-18s %-40s ok=%v n=%d %v\n", e.Seq, e.Owner, e.Op, e.Path, e.OK, e.N, e.Labels)
				}
			}
			w.Close()
			if os.Getenv("VERIF_TIMING") != "" {
				fmt.Fprintf(os.Stderr, "scenario %d: steps %v close %v\n", id, t2.Sub(t0), time.Since(t2))
			}
			for _, e := range w.Events() {
				tw.Write(e)
			}
			iw.Write(runInfo{ID: id, Backend: backend, Expect: sc.Viol, Drift: d.drift, Kind: "replay", Steps: len(sc.Sched)})
		}
	}
	tw.Write(TraceEvent{Op: "End"})
	return nil
}

// random drives 2..4 contenders along seeded random schedules at single-backend-call granularity.
func random(a *hk.Args) error {
	tw, err := hk.NewWriter(a.Out)
	if err != nil {
		return err
	}
	defer tw.Close()
	iw, err := hk.NewWriter(a.Out + ".info")
	if err != nil {
		return err
	}
	defer iw.Close()
	rng := rand.New(rand.NewSource(a.Seed))
	n := a.N
	if n == 0 {
		n = 40
	}
	names := []string{"A", "B", "C", "D"}
	for id := 1; id <= n; id++ {
		np := 2 + rng.Intn(3)
		procs := names[:np]
		ov := map[string]bool{}
		for _, p := range procs {
			ov[p] = rng.Intn(3) != 0
		}
		backend := []string{"mem", "os"}[rng.Intn(2)]
		// now and then the directory to lock does not exist yet
		w, err := NewWorldIn(backend, procs, ov, a.Dir, id, backend == "os" && rng.Intn(5) == 0)
		if err != nil {
			return err
		}
		d := &driver{w: w}
		steps := 40 + rng.Intn(120)
		// PCT-flavoured: one contender is favoured for a stretch, then priorities are redrawn
		fav := ""
		deaths := 0
		ticks := 0
		for s := 0; s < steps; s++ {
			if s%7 == 0 {
				fav = procs[rng.Intn(np)]
				if rng.Intn(3) == 0 {
					fav = ""
				}
			}
			// candidate moves
			type move struct {
				kind string
				key  string
			}
			// race-directed preemption: a contender that has listed the lock directory and is about to look at the heartbeat file it
			// found there is held back while the holder releases the lock (and possibly takes it again) - the window between the
			// two reads of one staleness decision
			if rng.Intn(3) == 0 {
				for _, p := range procs {
					c := w.Gate.Peek(p)
					if c == nil || w.Dead(p) || (c.Ev.Op != "Stat" && c.Ev.Op != "Lstat") || filepath.Clean(c.Ev.Path) != w.hbFile {
						continue
					}
					for _, q := range procs {
						if q == p || w.Dead(q) || !w.Holding(q) || w.Busy(q) != "" {
							continue
						}
						drain := func() {
							for i := 0; i < 300 && w.Busy(q) != ""; i++ {
								if pc := d.parked(q); pc != nil {
									d.release(pc)
								}
							}
						}
						if err := w.StartAPI(q, "Unlock"); err == nil {
							drain()
							if rng.Intn(2) == 0 {
								if err := w.StartAPI(q, "TryLock"); err == nil {
									drain()
								}
							}
						}
						break
					}
					break
				}
			}
			var moves []move
			for _, p := range procs {
				if w.Dead(p) {
					continue
				}
				if b := w.Busy(p); (b == "Lock" || b == "LockWithTimeout") && rng.Intn(12) == 0 {
					moves = append(moves, move{"giveup", p})
				}
				if w.Busy(p) == "" {
					moves = append(moves, move{"api", p})
				} else if w.Gate.Peek(p) != nil {
					moves = append(moves, move{"step", p})
					if p == fav {
						moves = append(moves, move{"step", p}, move{"step", p}, move{"step", p})
					}
				}
				if w.Gate.Peek(p+".hb") != nil {
					moves = append(moves, move{"step", p + ".hb"})
				}
			}
			if rng.Intn(25) == 0 && ticks < 3 && noLiveHeartbeat(w, procs) {
				moves = append(moves, move{"tick", ""})
			}
			if rng.Intn(60) == 0 && deaths < 1 {
				moves = append(moves, move{"die", procs[rng.Intn(np)]})
			}
			if len(moves) == 0 {
				// everybody is between calls: wait for an arrival
				time.Sleep(5 * time.Millisecond)
				continue
			}
			m := moves[rng.Intn(len(moves))]
			switch m.kind {
			case "api":
				api := ""
				if w.Holding(m.key) {
					if rng.Intn(4) != 0 {
						api = "Unlock"
					}
				} else {
					api = []string{"TryLock", "TryLock", "Lock", "LockWithTimeout", "ReleaseIfStale", "LockWithShortTimeout"}[rng.Intn(6)]
				}
				if api == "" {
					continue
				}
				if err := w.StartAPI(m.key, api); err == nil {
					d.parked(m.key)
				}
			case "step":
				if c := w.Gate.Peek(m.key); c != nil {
					d.release(c)
				}
			case "giveup":
				w.GiveUp(m.key)
			case "tick":
				w.Tick()
				ticks++
			case "die":
				if !w.Dead(m.key) && w.Busy(m.key) != "" {
					w.Die(m.key)
					deaths++
				}
			}
		}
		w.Close()
		for _, e := range w.Events() {
			tw.Write(e)
		}
		iw.Write(runInfo{ID: id, Backend: backend, Kind: "random", Steps: steps})
	}
	tw.Write(TraceEvent{Op: "End"})
	return nil
}

// noLiveHeartbeat: staleness may only be injected when no running heartbeat would have refreshed the lock.
func noLiveHeartbeat(w *World, procs []string) bool {
	for _, p := range procs {
		if w.Dead(p) {
			continue
		}
		if w.Holding(p) || w.Gate.Peek(p+".hb") != nil {
			return false
		}
	}
	return true
}
