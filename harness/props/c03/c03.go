// Package c03 binds specs/archive/ZipLimits.tla to UnzipWithContextAndLimits: real archives (nested,
// with lying headers, zip-named non-zips) are built for each scenario, extracted under the gate, and
// the tree left on disk plus the write high-water mark of every file are judged by ZipLimitsTrace.tla.
package c03

import (
	"archive/zip"
	"bytes"
	"compress/flate"
	"context"
	"fmt"
	"hash/crc32"
	"math/rand"
	"os"
	"path/filepath"
	"strings"
	"sync"
	"time"

	"github.com/spf13/afero"

	"github.com/ARM-software/golang-utils/utils/filesystem"

	"math"
	"verifharness/internal/fsgate"
	"verifharness/internal/hk"
)

func init() {
	hk.Register("c03", "replay", replay)
	hk.Register("c03", "bombs", bombs)
}

const big = 1000000

type entry struct {
	Kind     string `json:"kind"`
	Dirs     int    `json:"dirs"`
	Declared int    `json:"declared"`
	Actual   int    `json:"actual"`
	Inner    string `json:"inner"`
	Again    bool   `json:"again"`
}

type scenario struct {
	Archive     []entry `json:"archive"`
	MaxFile     int     `json:"maxFile"`
	MaxTotal    int     `json:"maxTotal"`
	MaxCount    int     `json:"maxCount"`
	MaxDepth    int     `json:"maxDepth"`
	Recursive   bool    `json:"recursive"`
	WouldExceed bool    `json:"wouldExceed"`
	ShortData   bool    `json:"shortData"`
}

var inner = map[string][]entry{
	"tiny": {{Kind: "file", Dirs: 0, Declared: 1, Actual: 1}},
	"two":  {{Kind: "file", Dirs: 0, Declared: 1, Actual: 1}, {Kind: "file", Dirs: 1, Declared: 2, Actual: 2}},
	"bomb": {{Kind: "file", Dirs: 0, Declared: 3, Actual: 3}, {Kind: "file", Dirs: 0, Declared: 3, Actual: 3}, {Kind: "file", Dirs: 0, Declared: 3, Actual: 3}},
	"deep": {{Kind: "file", Dirs: 2, Declared: 1, Actual: 1}},
}

func deflate(b []byte) []byte {
	var out bytes.Buffer
	w, _ := flate.NewWriter(&out, flate.BestCompression)
	_, _ = w.Write(b)
	_ = w.Close()
	return out.Bytes()
}

// addRaw writes an entry whose header declares `declared` bytes while the stream holds `data`.
func addRaw(w *zip.Writer, name string, data []byte, declared uint64) {
	comp := deflate(data)
	fh := &zip.FileHeader{Name: name, Method: zip.Deflate, CRC32: crc32.ChecksumIEEE(data), CompressedSize64: uint64(len(comp)), UncompressedSize64: declared}
	fh.Modified = time.Unix(1700000000, 0)
	rw, err := w.CreateRaw(fh)
	if err != nil {
		panic(err)
	}
	_, _ = rw.Write(comp)
}

// build returns the archive bytes and records, for every file a full recursive extraction would write, its declared size.
func build(entries []entry, scale int, prefix string, declaredBy map[string]int64, recursive bool, level int) []byte {
	var b bytes.Buffer
	w := zip.NewWriter(&b)
	for i, e := range entries {
		dir := ""
		for d := 0; d < e.Dirs; d++ {
			dir += fmt.Sprintf("p%d/", d)
		}
		switch e.Kind {
		case "file":
			name := fmt.Sprintf("%sf%d-%d.txt", dir, level, i)
			data := bytes.Repeat([]byte{byte('a' + i)}, e.Actual*scale)
			if e.Declared > big { // the model's Overflow: a declared size of 2^63 bytes or more
				addRaw(w, name, data, uint64(1)<<63+5)
				declaredBy[filepath.Join(prefix, filepath.FromSlash(name))] = math.MaxInt64
			} else {
				addRaw(w, name, data, uint64(e.Declared*scale))
				declaredBy[filepath.Join(prefix, filepath.FromSlash(name))] = int64(e.Declared * scale)
			}
		case "nestedbroken":
			// a real archive: one sound entry of three units, then an entry whose local header signature is damaged
			var ib bytes.Buffer
			iw := zip.NewWriter(&ib)
			addRaw(iw, "sound.txt", bytes.Repeat([]byte{'s'}, 3*scale), uint64(3*scale))
			addRaw(iw, "damaged.txt", bytes.Repeat([]byte{'d'}, scale), uint64(scale))
			_ = iw.Close()
			inner := ib.Bytes()
			if first := bytes.Index(inner, []byte("PK\x03\x04")); first >= 0 {
				if second := bytes.Index(inner[first+4:], []byte("PK\x03\x04")); second >= 0 {
					inner[first+4+second+2] ^= 0xff
				}
			}
			name := fmt.Sprintf("%sbroken%d-%d.zip", dir, level, i)
			addRaw(w, name, inner, uint64(len(inner)))
			declaredBy[filepath.Join(prefix, filepath.FromSlash(name))] = int64(len(inner))
			stem := strings.TrimSuffix(name, ".zip")
			declaredBy[filepath.Join(prefix, filepath.FromSlash(stem), "sound.txt")] = int64(3 * scale)
			declaredBy[filepath.Join(prefix, filepath.FromSlash(stem), "damaged.txt")] = int64(scale)
		case "repeat":
			// the same name twice: one unit first, then the entry of the model (three units) which replaces it
			name := fmt.Sprintf("%sr%d-%d.txt", dir, level, i)
			addRaw(w, name, bytes.Repeat([]byte{'r'}, scale), uint64(scale))
			data := bytes.Repeat([]byte{'R'}, e.Actual*scale)
			addRaw(w, name, data, uint64(e.Declared*scale))
			declaredBy[filepath.Join(prefix, filepath.FromSlash(name))] = int64(e.Declared * scale)
		case "dirchain":
			// explicit directory entries and nothing in them: q<i>-0/, q<i>-0/q<i>-1/, ...
			chain := ""
			for d := 0; d < e.Dirs; d++ {
				chain += fmt.Sprintf("q%d-%d/", i, d)
				_, _ = w.CreateHeader(&zip.FileHeader{Name: chain, Method: zip.Store, Modified: time.Unix(1700000000, 0)})
			}
		case "fakezip":
			name := fmt.Sprintf("%sfake%d.zip", dir, i)
			data := bytes.Repeat([]byte("not a zip "), e.Actual*scale/10)
			addRaw(w, name, data, uint64(len(data)))
			declaredBy[filepath.Join(prefix, filepath.FromSlash(name))] = int64(len(data))
		case "nested":
			stem := fmt.Sprintf("nest%d-%d", level, i)
			name := dir + stem + ".zip"
			in := append([]entry{}, inner[e.Inner]...)
			nestedPrefix := filepath.Join(prefix, filepath.FromSlash(dir), stem)
			var payload []byte
			if e.Again {
				// one more level: again.zip holding one file of one unit
				sub := build(in, scale, nestedPrefix, declaredBy, recursive, level+1)
				_ = sub
				var bb bytes.Buffer
				ww := zip.NewWriter(&bb)
				zr, _ := zip.NewReader(bytes.NewReader(sub), int64(len(sub)))
				for _, f := range zr.File {
					_ = ww.Copy(f)
				}
				againBytes := build([]entry{{Kind: "file", Dirs: 0, Declared: 1, Actual: 1}}, scale, filepath.Join(nestedPrefix, "again"), declaredBy, recursive, level+2)
				addRaw(ww, "again.zip", againBytes, uint64(len(againBytes)))
				declaredBy[filepath.Join(nestedPrefix, "again.zip")] = int64(len(againBytes))
				_ = ww.Close()
				payload = bb.Bytes()
			} else {
				payload = build(in, scale, nestedPrefix, declaredBy, recursive, level+1)
			}
			addRaw(w, name, payload, uint64(len(payload)))
			declaredBy[filepath.Join(prefix, filepath.FromSlash(name))] = int64(len(payload))
		}
	}
	_ = w.Close()
	return b.Bytes()
}

type disk struct {
	Count    int   `json:"count"`
	Total    int64 `json:"total"`
	MaxFile  int64 `json:"maxFile"`
	MaxDepth int   `json:"maxDepth"`
}

func measure(base afero.Fs, dest string) disk {
	var d disk
	_ = afero.Walk(base, dest, func(p string, info os.FileInfo, err error) error {
		if err != nil || info == nil {
			return nil
		}
		rel, _ := filepath.Rel(dest, p)
		if info.IsDir() {
			// a directory is an item of the tree too: it sits at the depth of its own path (never deeper than a file below it)
			if rel != "." {
				if n := strings.Count(filepath.ToSlash(rel), "/"); n > d.MaxDepth {
					d.MaxDepth = n
				}
			}
			return nil
		}
		d.Count++
		d.Total += info.Size()
		if info.Size() > d.MaxFile {
			d.MaxFile = info.Size()
		}
		if n := strings.Count(filepath.ToSlash(rel), "/"); n > d.MaxDepth {
			d.MaxDepth = n
		}
		return nil
	})
	return d
}

type write struct {
	High     int64 `json:"high"`
	Declared int64 `json:"declared"`
}

// huge stands for "no practical limit" and stays within TLC's 32-bit integers
const huge = 2000000000

func lim(v, scale int) int64 {
	if v >= big {
		return huge
	}
	return int64(v) * int64(scale)
}

func runOne(sc *scenario, backend string, scale int, scratch string, id int, zipBytes []byte, declaredBy map[string]int64, destOf func(root string) string) (map[string]any, error) {
	var base afero.Fs
	var root string
	fstype := filesystem.InMemoryFS
	if backend == "os" {
		d, err := os.MkdirTemp(scratch, "c03-")
		if err != nil {
			return nil, err
		}
		defer os.RemoveAll(d)
		base, root, fstype = filesystem.NewExtendedOsFs(), d, filesystem.StandardFS
	} else {
		base, root = afero.NewMemMapFs(), "/c03"
		_ = base.MkdirAll(root, 0o755)
	}
	dest := destOf(root)
	zipPath := filepath.Join(root, "in.zip")
	if err := afero.WriteFile(base, zipPath, zipBytes, 0o644); err != nil {
		return nil, err
	}
	gate := fsgate.NewGate(nil, "")
	var mu sync.Mutex
	cum := map[string]int64{}
	high := map[string]int64{}
	gate.OnEvent = func(g *fsgate.Event) {
		mu.Lock()
		defer mu.Unlock()
		switch g.Op {
		case "OpenFile", "Create":
			if g.Mut {
				cum[g.Path] = 0
			}
		case "File.Write":
			cum[g.Path] += int64(g.N)
			if cum[g.Path] > high[g.Path] {
				high[g.Path] = cum[g.Path]
			}
		}
	}
	fs := filesystem.NewVirtualFileSystem(fsgate.New(base, "op", gate), fstype, filesystem.IdentityPathConverterFunc)
	limits := filesystem.NewLimits(lim(sc.MaxFile, scale), uint64(lim(sc.MaxTotal, scale)), func() int64 {
		if sc.MaxCount >= big {
			return huge
		}
		return int64(sc.MaxCount)
	}(), int64(sc.MaxDepth), sc.Recursive)
	done := make(chan error, 1)
	go func() {
		_, err := fs.UnzipWithContextAndLimits(context.Background(), zipPath, dest, limits)
		done <- err
	}()
	res := "blocked"
	select {
	case err := <-done:
		res = hk.Kind(err)
	case <-time.After(30 * time.Second):
	}
	var writes []write
	mu.Lock()
	for p, h := range high {
		if !strings.HasPrefix(p, dest) {
			continue
		}
		rel, _ := filepath.Rel(dest, p)
		decl, ok := declaredBy[rel]
		if !ok {
			decl = -1
		}
		writes = append(writes, write{High: h, Declared: decl})
	}
	mu.Unlock()
	if writes == nil {
		writes = []write{}
	}
	return map[string]any{"ev": "Limits", "id": id, "backend": backend, "scale": scale, "result": res,
		"maxFile": lim(sc.MaxFile, scale), "maxTotal": lim(sc.MaxTotal, scale), "maxCount": limits.GetMaxFileCount(), "maxDepth": sc.MaxDepth, "recursive": sc.Recursive,
		"wouldExceed": sc.WouldExceed, "shortData": sc.ShortData, "disk": measure(base, dest), "writes": writes, "zipSize": len(zipBytes)}, nil
}

func replay(a *hk.Args) error {
	scs, err := hk.ReadNDJSON[scenario](a.In)
	if err != nil {
		return err
	}
	w, err := hk.NewWriter(a.Out)
	if err != nil {
		return err
	}
	defer w.Close()
	rng := rand.New(rand.NewSource(a.Seed))
	for i := range scs {
		sc := &scs[i]
		scale := 1000
		if rng.Intn(40) == 0 {
			scale = 1 << 20 // multi-megabyte contents
		}
		declared := map[string]int64{}
		zb := build(sc.Archive, scale, "", declared, sc.Recursive, 0)
		for _, backend := range []string{"mem", "os"} {
			if backend == "os" && a.Tier != "thorough" && rng.Intn(3) != 0 {
				continue
			}
			ev, err := runOne(sc, backend, scale, a.Dir, i+1, zb, declared, func(root string) string { return filepath.Join(root, "out") })
			if err != nil {
				return err
			}
			w.Write(ev)
		}
	}
	return nil
}

// bombs: seeded archives beyond the model: deep nesting (0..6), wide fan-out, high compression ratios, random limits.
func bombs(a *hk.Args) error {
	w, err := hk.NewWriter(a.Out)
	if err != nil {
		return err
	}
	defer w.Close()
	rng := rand.New(rand.NewSource(a.Seed))
	n := a.N
	if n == 0 {
		n = 60
	}
	for i := 0; i < n; i++ {
		depth := rng.Intn(7)
		fan := 1 + rng.Intn(4)
		fileSize := []int{0, 1, 100, 5000, 200000}[rng.Intn(5)]
		filesPer := 1 + rng.Intn(5)
		// build bottom-up; expected tree of a full recursive extraction: counts and sizes
		var mk func(level int) []byte
		var totalFiles, totalBytes int64
		var maxDepth int
		var count func(level, at int)
		count = func(level, at int) {
			totalFiles += int64(filesPer)
			totalBytes += int64(filesPer * fileSize)
			if at > maxDepth {
				maxDepth = at
			}
			if level < depth {
				for k := 0; k < fan; k++ {
					count(level+1, at+1)
				}
			}
		}
		count(0, 0)
		if totalFiles > 4000 {
			continue
		}
		mk = func(level int) []byte {
			var b bytes.Buffer
			zw := zip.NewWriter(&b)
			for f := 0; f < filesPer; f++ {
				addRaw(zw, fmt.Sprintf("f%d.bin", f), make([]byte, fileSize), uint64(fileSize))
			}
			if level < depth {
				for k := 0; k < fan; k++ {
					sub := mk(level + 1)
					addRaw(zw, fmt.Sprintf("n%d.zip", k), sub, uint64(len(sub)))
				}
			}
			_ = zw.Close()
			return b.Bytes()
		}
		zb := mk(0)
		recursive := rng.Intn(4) != 0
		sc := &scenario{Recursive: recursive}
		pick := func(exact int64) int64 {
			switch rng.Intn(5) {
			case 0:
				return exact
			case 1:
				return exact - 1
			case 2:
				return exact + 1
			case 3:
				return huge
			}
			return exact / 2
		}
		mf, mt, mc := pick(int64(fileSize)), pick(totalBytes), pick(totalFiles)
		md := []int{-1, maxDepth, maxDepth - 1, maxDepth + 1, 0}[rng.Intn(5)]
		if mf < 0 {
			mf = 0
		}
		if mt < 0 {
			mt = 0
		}
		if mc < 0 {
			mc = 0
		}
		if recursive {
			sc.WouldExceed = int64(fileSize) > mf || totalBytes > mt || totalFiles > mc || (md >= 0 && maxDepth > md)
		}
		backend := []string{"mem", "os"}[rng.Intn(2)]
		ev, err := runBomb(sc, backend, a.Dir, i+1, zb, mf, mt, mc, md)
		if err != nil {
			return err
		}
		ev["nesting"], ev["fan"] = depth, fan
		w.Write(ev)
	}
	return nil
}

func runBomb(sc *scenario, backend, scratch string, id int, zb []byte, mf, mt, mc int64, md int) (map[string]any, error) {
	s2 := *sc
	s2.MaxFile, s2.MaxTotal, s2.MaxCount, s2.MaxDepth = 0, 0, 0, md
	var base afero.Fs
	var root string
	fstype := filesystem.InMemoryFS
	if backend == "os" {
		d, err := os.MkdirTemp(scratch, "c03b-")
		if err != nil {
			return nil, err
		}
		defer os.RemoveAll(d)
		base, root, fstype = filesystem.NewExtendedOsFs(), d, filesystem.StandardFS
	} else {
		base, root = afero.NewMemMapFs(), "/c03"
		_ = base.MkdirAll(root, 0o755)
	}
	dest := filepath.Join(root, "out")
	zipPath := filepath.Join(root, "in.zip")
	if err := afero.WriteFile(base, zipPath, zb, 0o644); err != nil {
		return nil, err
	}
	gate := fsgate.NewGate(nil, "")
	var mu sync.Mutex
	cum := map[string]int64{}
	var worst int64
	gate.OnEvent = func(g *fsgate.Event) {
		mu.Lock()
		defer mu.Unlock()
		switch g.Op {
		case "OpenFile", "Create":
			if g.Mut {
				cum[g.Path] = 0
			}
		case "File.Write":
			cum[g.Path] += int64(g.N)
			if cum[g.Path] > worst && strings.HasPrefix(g.Path, dest) {
				worst = cum[g.Path]
			}
		}
	}
	fs := filesystem.NewVirtualFileSystem(fsgate.New(base, "op", gate), fstype, filesystem.IdentityPathConverterFunc)
	limits := filesystem.NewLimits(mf, uint64(mt), mc, int64(md), sc.Recursive)
	done := make(chan error, 1)
	go func() {
		_, err := fs.UnzipWithContextAndLimits(context.Background(), zipPath, dest, limits)
		done <- err
	}()
	res := "blocked"
	select {
	case err := <-done:
		res = hk.Kind(err)
	case <-time.After(60 * time.Second):
	}
	mu.Lock()
	writes := []write{{High: worst, Declared: -1}}
	mu.Unlock()
	return map[string]any{"ev": "Limits", "id": 1000000 + id, "backend": backend, "scale": 1, "result": res,
		"maxFile": mf, "maxTotal": mt, "maxCount": mc, "maxDepth": md, "recursive": sc.Recursive,
		"wouldExceed": sc.WouldExceed, "shortData": false, "disk": measure(base, dest), "writes": writes, "zipSize": len(zb)}, nil
}
