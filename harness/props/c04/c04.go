// Package c04 binds specs/fs/FsRemove.tla to the removal entry points of the filesystem package.
package c04

import (
	"context"
	"fmt"
	"math/rand"
	"os"
	"path/filepath"
	"strings"
	"sync"
	"sync/atomic"
	"time"

	"github.com/spf13/afero"

	"github.com/ARM-software/golang-utils/utils/filesystem"

	"syscall"
	"verifharness/internal/fsgate"
	"verifharness/internal/hk"
	"verifharness/internal/sandbox"
)

func init() {
	hk.Register("c04", "replay", replay)
	hk.Register("c04", "random", random)
}

// abstract name -> concrete name (no name is a substring of the sandbox path or of another name's pattern)
var namesPlain = map[string]string{"T": "T", "O": "O", "d": "zd", "f": "zf", "e": "ze", "sub": "zsub", "x": "zx", "l": "zl", "g": "g", "od": "od", "h": "h"}

// the spelling "blanks": directory names that begin or end with a blank (legal names; what designates them must not be "tidied")
var namesBlanks = map[string]string{"T": "T", "O": "O", "d": "zd ", "f": "zf", "e": " ze", "sub": " zsub ", "x": "zx", "l": "zl", "g": "g", "od": "od", "h": "h"}

// the spelling "dots": names that end with one or more dots (legal names too)
var namesDots = map[string]string{"T": "T", "O": "O", "d": "zd.", "f": "zf.", "e": "ze..", "sub": "zsub.", "x": "zx", "l": "zl.", "g": "g", "od": "od", "h": "h"}

var names = namesPlain

func conc(p []string) string {
	out := make([]string, len(p))
	for i, n := range p {
		out[i] = names[n]
	}
	return strings.Join(out, "/")
}

type scenario struct {
	Present   [][]string `json:"present"`
	LinkAt    []string   `json:"linkAt"`
	Target    string     `json:"target"`
	Op        string     `json:"op"`
	Pattern   string     `json:"pattern"`
	After     [][]string `json:"after"`
	Removed   [][]string `json:"removed"`
	Protected [][]string `json:"protected"`
	Fault     []string   `json:"fault"`    // a nested entry whose removal the backend refuses ([] = none)
	Spelling  string     `json:"spelling"` // plain | blanks
}

type event struct {
	Op             string   `json:"op"`
	Call           string   `json:"call"`
	Backend        string   `json:"backend"`
	Target         string   `json:"target"`
	Err            string   `json:"err"`
	Fault          string   `json:"fault"` // the nested entry whose removal was refused ("" = none)
	OutsideChanged []string `json:"outsideChanged"`
	Remaining      []string `json:"remaining"`
	After          []string `json:"after"`
	Protected      []string `json:"protected"`
	Pattern        string   `json:"pattern"`
	Note           string   `json:"note,omitempty"`
}

func isDirNode(p []string) bool {
	s := strings.Join(p, "/")
	return s == "T" || s == "T/d" || s == "T/e" || s == "T/d/sub"
}

func newFs(backend, scratch string) (base afero.Fs, root string, cleanup func(), err error) {
	if backend == "os" {
		dir, e := os.MkdirTemp(scratch, "c04-")
		if e != nil {
			return nil, "", nil, e
		}
		return filesystem.NewExtendedOsFs(), dir, func() { _ = os.RemoveAll(dir) }, nil
	}
	return afero.NewMemMapFs(), "/sbx", func() {}, nil
}

// failFs refuses (EACCES) to remove one path; everything else goes to the backend untouched.
type failFs struct {
	afero.Fs
	path string
	once atomic.Bool // refuse the very first removal, whatever it is of, once (a transient "permission denied")
	used atomic.Bool
}

func (f *failFs) refused(name string) bool {
	if f.once.Load() && f.used.CompareAndSwap(false, true) {
		return true
	}
	return f.path != "" && filepath.Clean(name) == f.path
}
func (f *failFs) Remove(name string) error {
	if f.refused(name) {
		return &os.PathError{Op: "remove", Path: name, Err: syscall.EACCES}
	}
	return f.Fs.Remove(name)
}
func (f *failFs) RemoveAll(name string) error {
	if f.refused(name) {
		return &os.PathError{Op: "removeall", Path: name, Err: syscall.EACCES}
	}
	return f.Fs.RemoveAll(name)
}
func (f *failFs) LstatIfPossible(name string) (os.FileInfo, bool, error) {
	if l, ok := f.Fs.(afero.Lstater); ok {
		return l.LstatIfPossible(name)
	}
	fi, err := f.Fs.Stat(name)
	return fi, false, err
}
func (f *failFs) ReadlinkIfPossible(name string) (string, error) {
	if l, ok := f.Fs.(afero.LinkReader); ok {
		return l.ReadlinkIfPossible(name)
	}
	return "", &os.PathError{Op: "readlink", Path: name, Err: afero.ErrNoReadlink}
}
func (f *failFs) SymlinkIfPossible(oldname, newname string) error {
	if l, ok := f.Fs.(afero.Linker); ok {
		return l.SymlinkIfPossible(oldname, newname)
	}
	return &os.LinkError{Op: "symlink", Old: oldname, New: newname, Err: afero.ErrNoSymlink}
}

func vfsOver(base afero.Fs, backend string, gate *fsgate.Gate) filesystem.FS {
	t := filesystem.InMemoryFS
	if backend == "os" {
		t = filesystem.StandardFS
	}
	return filesystem.NewVirtualFileSystem(fsgate.New(base, "op", gate), t, filesystem.IdentityPathConverterFunc)
}

// patternSet: the pattern of the scenario as the caller passes it.  Every other call passes it next to a second pattern that
// matches nothing (the meaning is the same), after OTHER pattern sets have been used in this process that read alike when their
// elements are strung together (blank- or comma-separated) but mean something else - a listing of the same directory, which
// changes nothing: what an earlier call compiled must not be what a later call uses.
var patternCalls atomic.Int64

func patternSet(fs filesystem.FS, tdir, pattern string) []string {
	if patternCalls.Add(1)%2 == 1 {
		return []string{pattern}
	}
	const never = "zz-never-a-name"
	for _, sep := range []string{" ", ",", ", "} {
		_, _ = fs.LsWithExclusionPatterns(tdir, pattern+sep+never)
	}
	return []string{pattern, never}
}

func runOp(fs filesystem.FS, op, tdir, link, pattern string) string {
	ctx := context.Background()
	ch := make(chan error, 1)
	go func() {
		switch op {
		case "Rm":
			ch <- fs.Rm(tdir)
		case "RmPrivileged":
			ch <- fs.RemoveWithPrivileges(ctx, tdir)
		case "RmLink":
			ch <- fs.Rm(link)
		case "RmLinkTrailing":
			ch <- fs.Rm(link + string(filepath.Separator))
		case "CleanDir":
			ch <- fs.CleanDir(tdir)
		case "GarbageCollect":
			time.Sleep(2 * time.Millisecond)
			ch <- fs.GarbageCollectWithContext(ctx, tdir, time.Nanosecond)
		case "GarbageCollectAged":
			ch <- fs.GarbageCollectWithContext(ctx, tdir, time.Hour)
		case "RmExcluding":
			ch <- fs.RemoveWithContextAndExclusionPatterns(ctx, tdir, patternSet(fs, tdir, pattern)...)
		case "CleanDirExcluding":
			ch <- fs.CleanDirWithContextAndExclusionPatterns(ctx, tdir, patternSet(fs, tdir, pattern)...)
		}
	}()
	select {
	case err := <-ch:
		if err == nil {
			return ""
		}
		k := hk.Kind(err)
		if k == "other" {
			k = "other:" + err.Error()
		}
		return k
	case <-time.After(20 * time.Second):
		return "blocked"
	}
}

func replayOne(sc *scenario, backend, scratch string) (event, error) {
	ev := event{Op: "Removal", Call: sc.Op, Backend: backend, Target: sc.Target, Pattern: sc.Pattern}
	names = namesPlain
	if sc.Spelling == "blanks" {
		names = namesBlanks
	}
	if sc.Spelling == "dots" {
		names = namesDots
	}
	base, root, cleanup, err := newFs(backend, scratch)
	if err != nil {
		return ev, err
	}
	defer cleanup()
	mk := func(rel string, dir bool) {
		p := filepath.Join(root, filepath.FromSlash(rel))
		if dir {
			_ = base.MkdirAll(p, 0o755)
		} else {
			_ = base.MkdirAll(filepath.Dir(p), 0o755)
			_ = afero.WriteFile(base, p, []byte("content of "+rel), 0o644)
		}
	}
	mk("T", true)
	for _, p := range sc.Present {
		mk(conc(p), isDirNode(p))
	}
	mk("O", true)
	mk("O/g", false)
	mk("O/od", true)
	mk("O/od/h", false)
	linkPath := filepath.Join(root, filepath.FromSlash(conc(sc.LinkAt)))
	if sc.Target != "none" {
		tgt := map[string]string{"file-inside": "T/zf", "dir-inside": "T/" + names["d"], "file-outside": "O/g", "dir-outside": "O/od", "ancestor": "T", "dangling": "nowhere"}[sc.Target]
		if err := os.Symlink(filepath.Join(root, filepath.FromSlash(tgt)), linkPath); err != nil {
			return ev, err
		}
	}
	before := sandbox.Take(base, root)
	if sc.Op == "GarbageCollectAged" {
		// after the snapshot (reading refreshes access times): every file and directory of the sandbox was last used two hours
		// ago; the link keeps its own, fresh, times
		old := time.Now().Add(-2 * time.Hour)
		for rel, e := range before {
			if e.Kind != "link" {
				_ = base.Chtimes(filepath.Join(root, filepath.FromSlash(rel)), old, old)
			}
		}
	}
	gate := fsgate.NewGate(nil, "")
	under := base
	var chowned []string
	var cmu sync.Mutex
	if sc.Op == "RmPrivileged" {
		ff := &failFs{Fs: base}
		ff.once.Store(true)
		under = ff
		// a change of ownership reaches what the path RESOLVES to: every one requested is noted with the place it lands on
		gate.OnEvent = func(g *fsgate.Event) {
			if g.Op != "Chown" && g.Op != "Lchown" {
				return
			}
			real := g.Path
			if g.Op == "Chown" && backend == "os" {
				if r, err := filepath.EvalSymlinks(g.Path); err == nil {
					real = r
				}
			}
			if rel, err := filepath.Rel(filepath.Join(root, "T"), real); err != nil || strings.HasPrefix(rel, "..") {
				cmu.Lock()
				chowned = append(chowned, "ownership of "+strings.TrimPrefix(real, root+string(filepath.Separator)))
				cmu.Unlock()
			}
		}
	}
	if len(sc.Fault) > 0 {
		under = &failFs{Fs: base, path: filepath.Join(root, filepath.FromSlash(conc(sc.Fault)))}
		ev.Fault = conc(sc.Fault)
	}
	fs := vfsOver(under, backend, gate)
	pattern := ""
	if sc.Pattern != "" {
		pattern = names[sc.Pattern]
	}
	ev.Err = runOp(fs, sc.Op, filepath.Join(root, "T"), linkPath, pattern)
	after := sandbox.Take(base, root)
	ev.OutsideChanged = sandbox.Diff(before, after, "O")
	if ev.OutsideChanged == nil {
		ev.OutsideChanged = []string{}
	}
	cmu.Lock()
	ev.OutsideChanged = append(ev.OutsideChanged, chowned...)
	cmu.Unlock()
	ev.Remaining = after.Paths("T")
	if ev.Remaining == nil {
		ev.Remaining = []string{}
	}
	ev.After, ev.Protected = []string{}, []string{}
	for _, p := range sc.After {
		ev.After = append(ev.After, conc(p))
	}
	for _, p := range sc.Protected {
		ev.Protected = append(ev.Protected, conc(p))
	}
	return ev, nil
}

func replay(a *hk.Args) error {
	scs, err := hk.ReadNDJSON[scenario](a.In)
	if err != nil {
		return err
	}
	w, err := hk.NewWriter(a.Out)
	if err != nil {
		return err
	}
	defer w.Close()
	for i := range scs {
		sc := &scs[i]
		ev, err := replayOne(sc, "os", a.Dir)
		if err != nil {
			return err
		}
		w.Write(ev)
		// the in-memory backend has no symbolic links (link-free subset) and no access times (nothing ever ages there)
		if sc.Target == "none" && sc.Op != "GarbageCollectAged" {
			ev, err = replayOne(sc, "mem", a.Dir)
			if err != nil {
				return err
			}
			w.Write(ev)
		}
	}
	return nil
}

// random: larger seeded trees (depth <= 6, read-only entries, several links of every target class) on the OS backend.
func random(a *hk.Args) error {
	w, err := hk.NewWriter(a.Out)
	if err != nil {
		return err
	}
	defer w.Close()
	rng := rand.New(rand.NewSource(a.Seed))
	n := a.N
	if n == 0 {
		n = 60
	}
	for t := 0; t < n; t++ {
		root, err := os.MkdirTemp(a.Dir, "c04r-")
		if err != nil {
			return err
		}
		base := filesystem.NewExtendedOsFs()
		tdir := filepath.Join(root, "T")
		_ = os.MkdirAll(filepath.Join(root, "O", "od", "deep"), 0o755)
		_ = os.WriteFile(filepath.Join(root, "O", "g"), []byte("outside file"), 0o644)
		_ = os.WriteFile(filepath.Join(root, "O", "od", "h"), []byte("outside nested"), 0o644)
		_ = os.WriteFile(filepath.Join(root, "O", "od", "deep", "k"), []byte("outside deep"), 0o444)
		_ = os.MkdirAll(tdir, 0o755)
		var dirs = []string{tdir}
		var files []string
		count := 5 + rng.Intn(40)
		for i := 0; i < count; i++ {
			parent := dirs[rng.Intn(len(dirs))]
			if strings.Count(strings.TrimPrefix(parent, tdir), "/") >= 6 {
				parent = tdir
			}
			name := fmt.Sprintf("n%d", i)
			p := filepath.Join(parent, name)
			switch rng.Intn(5) {
			case 0, 1:
				_ = os.Mkdir(p, 0o755)
				dirs = append(dirs, p)
			case 2, 3:
				mode := os.FileMode(0o644)
				if rng.Intn(5) == 0 {
					mode = 0o444
				}
				_ = os.WriteFile(p, []byte("f "+name), mode)
				files = append(files, p)
			default:
				var tgt string
				switch rng.Intn(7) {
				case 0:
					tgt = filepath.Join(root, "O", "g")
				case 1:
					tgt = filepath.Join(root, "O", "od")
				case 2:
					tgt = tdir
				case 3:
					tgt = filepath.Join(root, "nowhere")
				case 4:
					tgt = parent
				case 5:
					if len(files) > 0 {
						tgt = files[rng.Intn(len(files))]
					} else {
						tgt = filepath.Join(root, "O")
					}
				default:
					tgt = dirs[rng.Intn(len(dirs))]
				}
				_ = os.Symlink(tgt, p)
			}
		}
		op := []string{"Rm", "CleanDir", "GarbageCollect"}[rng.Intn(3)]
		before := sandbox.Take(base, root)
		gate := fsgate.NewGate(nil, "")
		fs := vfsOver(base, "os", gate)
		ev := event{Op: "Removal", Call: op, Backend: "os", Target: "random", Protected: []string{}, After: []string{}}
		ev.Err = runOp(fs, op, tdir, "", "")
		after := sandbox.Take(base, root)
		ev.OutsideChanged = sandbox.Diff(before, after, "O")
		if ev.OutsideChanged == nil {
			ev.OutsideChanged = []string{}
		}
		ev.Remaining = after.Paths("T")
		if ev.Remaining == nil {
			ev.Remaining = []string{}
		}
		if op != "Rm" {
			ev.After = []string{"T"}
		}
		w.Write(ev)
		// read-only files inside may block RemoveAll of the scratch copy: restore permissions
		_ = filepath.Walk(root, func(p string, info os.FileInfo, err error) error {
			if err == nil && info.Mode()&os.ModeSymlink == 0 {
				_ = os.Chmod(p, 0o755)
			}
			return nil
		})
		_ = os.RemoveAll(root)
	}
	return nil
}
