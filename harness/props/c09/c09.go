// Package c09 binds specs/io/{SafeIO,FsCancel}.tla to utils/safeio and to the context-accepting entry
// points of the filesystem package.
package c09

import (
	"bytes"
	"context"
	"errors"
	"fmt"
	"io"
	"math/rand"
	"os"
	"path/filepath"
	"sync"
	"sync/atomic"
	"time"

	"github.com/spf13/afero"

	"github.com/ARM-software/golang-utils/utils/filesystem"
	"github.com/ARM-software/golang-utils/utils/safeio"

	"verifharness/internal/fsgate"
	"verifharness/internal/hk"
	"verifharness/internal/sandbox"
)

func init() {
	hk.Register("c09", "io", ioReplay)
	hk.Register("c09", "cancel", cancelSweep)
}

var errScripted = errors.New("scripted reader failure")

type class struct {
	Op       string `json:"op"`
	L        int    `json:"L"`
	Param    int    `json:"param"`
	Chunking string `json:"chunking"`
	ErrAt    int    `json:"errAt"`
	Pre      bool   `json:"pre"`
	CancelAt int    `json:"cancelAt"`
}

type ioEvent struct {
	Ev             string `json:"ev"`
	Op             string `json:"op"`
	L              int    `json:"L"`
	Param          int    `json:"param"`
	ErrAt          int    `json:"errAt"`
	Pre            bool   `json:"pre"`
	CancelAt       int    `json:"cancelAt"`
	Delivered      int    `json:"delivered"`
	Prefix         bool   `json:"prefix"`
	Kind           string `json:"kind"`
	ReadsAfterDone int    `json:"readsAfterDone"`
	Chunking       string `json:"chunking"`
	Scale          int    `json:"scale"`
	Reads          int    `json:"reads"`
}

// scripted reader
type reader struct {
	data     []byte
	pos      int
	chunks   []int
	ci       int
	errAt    int
	ctx      context.Context
	cancel   context.CancelFunc
	cancelAt int
	reads    int
	after    int
}

func (r *reader) Read(p []byte) (int, error) {
	r.reads++
	if r.ctx.Err() != nil {
		r.after++
	}
	defer func() {
		if r.cancelAt > 0 && r.reads == r.cancelAt {
			r.cancel()
		}
	}()
	if r.errAt >= 0 && r.pos >= r.errAt {
		return 0, errScripted
	}
	if r.pos >= len(r.data) {
		return 0, io.EOF
	}
	n := len(r.data) - r.pos
	if r.ci < len(r.chunks) {
		n = r.chunks[r.ci]
		r.ci++
	}
	if n > len(r.data)-r.pos {
		n = len(r.data) - r.pos
	}
	if r.errAt >= 0 && r.pos+n > r.errAt {
		n = r.errAt - r.pos
	}
	if n > len(p) {
		n = len(p)
	}
	copy(p, r.data[r.pos:r.pos+n])
	r.pos += n
	return n, nil
}

type plainWriter struct{ b bytes.Buffer }

func (w *plainWriter) Write(p []byte) (int, error) { return w.b.Write(p) }

func source(n int) []byte {
	b := make([]byte, n)
	for i := range b {
		b[i] = byte(i*7 + i/251)
	}
	return b
}

func runIO(c class, scale int) ioEvent {
	ev := ioEvent{Ev: "io", Op: c.Op, L: c.L * scale, Param: c.Param, ErrAt: c.ErrAt, Pre: c.Pre, CancelAt: c.CancelAt, Chunking: c.Chunking, Scale: scale}
	if c.Param >= 0 {
		ev.Param = c.Param * scale
	}
	if c.ErrAt >= 0 {
		ev.ErrAt = c.ErrAt * scale
	}
	data := source(c.L * scale)
	ctx, cancel := cancellable(c.L + c.Param)
	defer cancel()
	if c.Pre {
		cancel()
	}
	var chunks []int
	switch c.Chunking {
	case "bytewise":
		for i := 0; i < c.L+2; i++ {
			chunks = append(chunks, scale)
		}
	case "zeros":
		for i := 0; i < c.L+2; i++ {
			chunks = append(chunks, 0, scale)
		}
	case "halves":
		for i := 0; i < 2*c.L+4; i++ {
			chunks = append(chunks, (scale+1)/2)
		}
	}
	r := &reader{data: data, chunks: chunks, errAt: ev.ErrAt, ctx: ctx, cancel: cancel, cancelAt: c.CancelAt}
	var src io.Reader = r
	if c.Chunking == "writerto" {
		src = bytes.NewReader(data) // has WriteTo: the fast paths of io.Copy
	}
	var got []byte
	var err error
	switch c.Op {
	case "ReadAtMost":
		got, err = safeio.ReadAtMost(ctx, src, int64(ev.Param), -1)
	case "ReadAll":
		got, err = safeio.ReadAll(ctx, src)
	case "CopyN":
		w := &plainWriter{}
		_, err = safeio.CopyNWithContext(ctx, src, w, int64(ev.Param))
		got = w.b.Bytes()
	case "CopyData":
		var w bytes.Buffer // has ReadFrom
		_, err = safeio.CopyDataWithContext(ctx, src, &w)
		got = w.Bytes()
	case "ReadFileWithLimits":
		fs := filesystem.NewInMemoryFileSystem()
		_ = fs.MkDir("/d")
		if len(data) > 0 {
			_ = fs.WriteFile("/d/f", data, 0o644)
		} else {
			f, _ := fs.CreateFile("/d/f")
			_ = f.Close()
		}
		got, err = fs.ReadFileWithContextAndLimits(ctx, "/d/f", filesystem.NewLimits(int64(ev.Param), uint64(ev.Param)*4+1000, 1000, 100, true))
	}
	ev.Delivered = len(got)
	ev.Prefix = len(got) <= len(data) && bytes.Equal(got, data[:len(got)])
	ev.Kind = hk.Kind(err)
	ev.ReadsAfterDone = r.after
	ev.Reads = r.reads
	return ev
}

func ioReplay(a *hk.Args) error {
	cs, err := hk.ReadNDJSON[class](a.In)
	if err != nil {
		return err
	}
	w, err := hk.NewWriter(a.Out)
	if err != nil {
		return err
	}
	defer w.Close()
	rng := rand.New(rand.NewSource(a.Seed))
	for _, c := range cs {
		w.Write(runIO(c, 1))
		if a.Tier == "thorough" || rng.Intn(3) == 0 {
			w.Write(runIO(c, 9001)) // L = 4 units crosses the 32 KiB copy buffer
		}
		if a.Tier == "thorough" && rng.Intn(8) == 0 {
			w.Write(runIO(c, 262144)) // up to 2^20 bytes
		}
	}
	return nil
}

// ---------------------------------------------------------------------------------------------

type cancelEvent struct {
	Ev             string `json:"ev"`
	Entry          string `json:"entry"`
	Backend        string `json:"backend"`
	Total          int    `json:"total"` // backend calls of the uncancelled run
	K              int    `json:"k"`
	Pre            bool   `json:"pre"`
	CallsAfter     int    `json:"callsAfter"`
	Mutated        bool   `json:"mutated"`
	Kind           string `json:"kind"`
	FinishedAnyway bool   `json:"finishedAnyway"`
	Blocked        bool   `json:"blocked"`
	Handles        int    `json:"handles"`
	Entries        int    `json:"entries"`
	Leaked         string `json:"leaked,omitempty"`
}

// cancellable: the flavours of a context that ends - cancelled plainly, with an explicit cause (the error of the context is the
// same: context.Canceled), as a child of one that is cancelled with a cause; or ended by its time limit (the error of the context
// is context.DeadlineExceeded: the 'timeout' kind), directly or as the child of one.
func cancellable(n int) (context.Context, context.CancelFunc) {
	switch ((n % ctxFlavours) + ctxFlavours) % ctxFlavours {
	case 1:
		ctx, cancel := context.WithCancelCause(context.Background())
		return ctx, func() { cancel(errors.New("the caller lost interest")) }
	case 2:
		parent, cancel := context.WithCancelCause(context.Background())
		ctx, stop := context.WithCancel(parent)
		return ctx, func() { cancel(errors.New("the caller lost interest")); stop() }
	case 3:
		c := newExpiring()
		return c, c.expire
	case 4:
		c := newExpiring()
		ctx, stop := context.WithCancel(c)
		return ctx, func() { c.expire(); <-ctx.Done(); _ = stop }
	}
	return context.WithCancel(context.Background())
}

const ctxFlavours = 5

// expiring is a context whose time limit is reached when the harness says so (a time limit cannot be scripted to the backend
// call with the standard contexts): Done is closed and Err is context.DeadlineExceeded from that instant on.
type expiring struct {
	context.Context
	done    chan struct{}
	once    sync.Once
	mu      sync.Mutex
	at      time.Time
	expired bool
}

func newExpiring() *expiring {
	return &expiring{Context: context.Background(), done: make(chan struct{}), at: time.Now().Add(time.Hour)}
}
func (c *expiring) Deadline() (time.Time, bool) { c.mu.Lock(); defer c.mu.Unlock(); return c.at, true }
func (c *expiring) Done() <-chan struct{}       { return c.done }
func (c *expiring) Err() error {
	c.mu.Lock()
	defer c.mu.Unlock()
	if c.expired {
		return context.DeadlineExceeded
	}
	return nil
}
func (c *expiring) expire() {
	c.once.Do(func() {
		c.mu.Lock()
		c.at, c.expired = time.Now(), true
		c.mu.Unlock()
		close(c.done)
	})
}

type env struct {
	base    afero.Fs
	root    string
	backend string
	cleanup func()
}

func newEnv(backend, scratch string, dirs, filesPer, empties int) (*env, error) {
	e := &env{backend: backend, cleanup: func() {}}
	if backend == "os" {
		d, err := os.MkdirTemp(scratch, "c09-")
		if err != nil {
			return nil, err
		}
		e.base, e.root, e.cleanup = filesystem.NewExtendedOsFs(), d, func() { _ = os.RemoveAll(d) }
	} else {
		e.base, e.root = afero.NewMemMapFs(), "/c09"
	}
	for d := 0; d < dirs; d++ {
		dir := filepath.Join(e.root, "tree", fmt.Sprintf("d%02d", d), fmt.Sprintf("s%d", d%3))
		_ = e.base.MkdirAll(dir, 0o755)
		for f := 0; f < filesPer; f++ {
			_ = afero.WriteFile(e.base, filepath.Join(dir, fmt.Sprintf("f%02d.txt", f)), bytes.Repeat([]byte{byte('a' + f%26)}, 100+f), 0o644)
		}
	}
	// a long run of entries that carry no file (in an archive: consecutive directory entries)
	for d := 0; d < empties; d++ {
		_ = e.base.MkdirAll(filepath.Join(e.root, "tree", "empties", fmt.Sprintf("e%03d", d)), 0o755)
	}
	_ = afero.WriteFile(e.base, filepath.Join(e.root, "big.bin"), source(3<<20), 0o644)
	return e, nil
}

type entryPoint struct {
	name string
	run  func(ctx context.Context, fs filesystem.FS, e *env) error
	prep func(fs filesystem.FS, e *env) error // run ungated / uncounted before
	// number of empty directories added to the tree
	empties int
}

func entryPoints() []entryPoint {
	tree := func(e *env) string { return filepath.Join(e.root, "tree") }
	return []entryPoint{
		{name: "Walk", run: func(ctx context.Context, fs filesystem.FS, e *env) error {
			return fs.WalkWithContext(ctx, tree(e), func(string, os.FileInfo, error) error { return nil })
		}},
		{name: "LsRecursive", run: func(ctx context.Context, fs filesystem.FS, e *env) error {
			_, err := fs.LsRecursive(ctx, tree(e), true)
			return err
		}},
		{name: "ListDirTree", run: func(ctx context.Context, fs filesystem.FS, e *env) error {
			var l []string
			return fs.ListDirTreeWithContext(ctx, tree(e), &l)
		}},
		{name: "SubDirectories", run: func(ctx context.Context, fs filesystem.FS, e *env) error {
			_, err := fs.SubDirectoriesWithContext(ctx, tree(e))
			return err
		}},
		{name: "Copy", run: func(ctx context.Context, fs filesystem.FS, e *env) error {
			return fs.CopyWithContext(ctx, tree(e), filepath.Join(e.root, "copy"))
		}},
		{name: "Move", run: func(ctx context.Context, fs filesystem.FS, e *env) error {
			return fs.MoveWithContext(ctx, tree(e), filepath.Join(e.root, "moved"))
		}},
		// a move onto a directory that exists already: the tree is merged into it entry by entry (so is a move the backend cannot do by renaming)
		{name: "Move/merge", prep: func(fs filesystem.FS, e *env) error {
			return fs.MkDir(filepath.Join(e.root, "merged", "already-there"))
		},
			run: func(ctx context.Context, fs filesystem.FS, e *env) error {
				return fs.MoveWithContext(ctx, tree(e), filepath.Join(e.root, "merged"))
			}},
		{name: "Remove", run: func(ctx context.Context, fs filesystem.FS, e *env) error { return fs.RemoveWithContext(ctx, tree(e)) }},
		{name: "RemoveWithPrivileges", run: func(ctx context.Context, fs filesystem.FS, e *env) error {
			return fs.RemoveWithPrivileges(ctx, tree(e))
		}},
		{name: "RemoveWithPrivileges/file", run: func(ctx context.Context, fs filesystem.FS, e *env) error {
			return fs.RemoveWithPrivileges(ctx, filepath.Join(e.root, "big.bin"))
		}},
		{name: "CleanDir", run: func(ctx context.Context, fs filesystem.FS, e *env) error { return fs.CleanDirWithContext(ctx, tree(e)) }},
		{name: "ChmodRecursively", run: func(ctx context.Context, fs filesystem.FS, e *env) error {
			return fs.ChmodRecursively(ctx, tree(e), 0o750)
		}},
		// the same tree operations on a subject that is a single file (FsCancel.tla with N = 1: the fast path of a recursive operation)
		{name: "ChmodRecursively/file", run: func(ctx context.Context, fs filesystem.FS, e *env) error {
			return fs.ChmodRecursively(ctx, filepath.Join(e.root, "big.bin"), 0o600)
		}},
		{name: "ChownRecursively/file", run: func(ctx context.Context, fs filesystem.FS, e *env) error {
			return fs.ChownRecursively(ctx, filepath.Join(e.root, "big.bin"), os.Getuid(), os.Getgid())
		}},
		{name: "ChownRecursively", run: func(ctx context.Context, fs filesystem.FS, e *env) error {
			return fs.ChownRecursively(ctx, tree(e), os.Getuid(), os.Getgid())
		}},
		{name: "Remove/file", run: func(ctx context.Context, fs filesystem.FS, e *env) error {
			return fs.RemoveWithContext(ctx, filepath.Join(e.root, "big.bin"))
		}},
		{name: "Copy/file", run: func(ctx context.Context, fs filesystem.FS, e *env) error {
			return fs.CopyWithContext(ctx, filepath.Join(e.root, "big.bin"), filepath.Join(e.root, "copied.bin"))
		}},
		{name: "Move/file", run: func(ctx context.Context, fs filesystem.FS, e *env) error {
			return fs.MoveWithContext(ctx, filepath.Join(e.root, "big.bin"), filepath.Join(e.root, "moved.bin"))
		}},
		{name: "Walk/file", run: func(ctx context.Context, fs filesystem.FS, e *env) error {
			return fs.WalkWithContext(ctx, filepath.Join(e.root, "big.bin"), func(string, os.FileInfo, error) error { return nil })
		}},
		{name: "GarbageCollect", run: func(ctx context.Context, fs filesystem.FS, e *env) error {
			return fs.GarbageCollectWithContext(ctx, tree(e), time.Nanosecond)
		}},
		{name: "Zip", run: func(ctx context.Context, fs filesystem.FS, e *env) error {
			return fs.ZipWithContext(ctx, tree(e), filepath.Join(e.root, "out.zip"))
		}},
		{name: "Unzip", empties: 200, prep: func(fs filesystem.FS, e *env) error { return fs.Zip(tree(e), filepath.Join(e.root, "in.zip")) },
			run: func(ctx context.Context, fs filesystem.FS, e *env) error {
				_, err := fs.UnzipWithContext(ctx, filepath.Join(e.root, "in.zip"), filepath.Join(e.root, "unzipped"))
				return err
			}},
		{name: "ReadFile", run: func(ctx context.Context, fs filesystem.FS, e *env) error {
			_, err := fs.ReadFileWithContext(ctx, filepath.Join(e.root, "big.bin"))
			return err
		}},
		{name: "WriteFile", run: func(ctx context.Context, fs filesystem.FS, e *env) error {
			return fs.WriteFileWithContext(ctx, filepath.Join(e.root, "written.bin"), source(3<<20), 0o644)
		}},
		{name: "FileHash", run: func(ctx context.Context, fs filesystem.FS, e *env) error {
			_, err := fs.FileHashWithContext(ctx, "SHA256", filepath.Join(e.root, "big.bin"))
			return err
		}},
		{name: "CopyToFile", run: func(ctx context.Context, fs filesystem.FS, e *env) error {
			return fs.CopyToFileWithContext(ctx, filepath.Join(e.root, "big.bin"), filepath.Join(e.root, "big.copy"))
		}},
	}
}

func vfs(e *env, g *fsgate.Fs) filesystem.FS {
	t := filesystem.InMemoryFS
	if e.backend == "os" {
		t = filesystem.StandardFS
	}
	if fr, ok := e.base.(filesystem.IForceRemover); ok {
		// the OS backend can remove with escalated permissions: the recording wrapper must not hide that from the library
		return filesystem.NewVirtualFileSystem(forcing{g, fr}, t, filesystem.IdentityPathConverterFunc)
	}
	return filesystem.NewVirtualFileSystem(g, t, filesystem.IdentityPathConverterFunc)
}

type forcing struct {
	*fsgate.Fs
	under filesystem.IForceRemover
}

func (f forcing) ForceRemoveIfPossible(path string) error { return f.under.ForceRemoveIfPossible(path) }

// oneCancel runs entry point ep cancelling the context right after its k-th backend call (k < 0: before the call).
func oneCancel(ep entryPoint, backend, scratch string, dirs, files, k int, flavour ...int) (cancelEvent, error) {
	ev := cancelEvent{Ev: "cancel", Entry: ep.name, Backend: backend, K: k, Pre: k < 0, Entries: dirs * files}
	e, err := newEnv(backend, scratch, dirs, files, ep.empties)
	if err != nil {
		return ev, err
	}
	defer e.cleanup()
	gate := fsgate.NewGate(nil, "")
	gfs := fsgate.New(e.base, "op", gate)
	fs := vfs(e, gfs)
	if ep.prep != nil {
		plain := vfs(e, fsgate.New(e.base, "prep", fsgate.NewGate(nil, "")))
		if err := ep.prep(plain, e); err != nil {
			return ev, err
		}
	}
	fl := k + dirs
	if len(flavour) > 0 {
		fl = flavour[0]
	}
	ctx, cancel := cancellable(fl)
	defer cancel()
	var count, after atomic.Int64
	var cancelled atomic.Bool
	gate.OnEvent = func(g *fsgate.Event) {
		n := count.Add(1)
		if cancelled.Load() {
			after.Add(1)
		}
		if k >= 0 && int(n) == k {
			cancel()
			cancelled.Store(true)
		}
	}
	if k < 0 {
		cancel()
		cancelled.Store(true)
	}
	before := sandbox.Take(e.base, e.root)
	done := make(chan error, 1)
	go func() { done <- ep.run(ctx, fs, e) }()
	select {
	case err := <-done:
		ev.Kind = hk.Kind(err)
		ev.FinishedAnyway = err == nil
	case <-time.After(30 * time.Second):
		ev.Blocked = true
	}
	// fan-out workers that are still running when the call returns close their handles when they end: wait for
	// the balance to settle (a handle that is still open after that is a leak)
	for i := 0; i < 1000 && gfs.OpenHandles() != 0; i++ {
		time.Sleep(2 * time.Millisecond)
	}
	time.Sleep(2 * time.Millisecond)
	ev.CallsAfter = int(after.Load())
	ev.Total = int(count.Load())
	ev.Handles = gfs.OpenHandles()
	if ev.Handles != 0 {
		open := map[string]int{}
		lastLabels := map[string]string{}
		for _, g := range gate.Log() {
			switch g.Op {
			case "Open", "OpenFile", "Create":
				if g.OK {
					open[g.Path]++
				}
			case "File.Close":
				if g.OK {
					open[g.Path]--
				}
			}
			lastLabels[g.Path] = g.Op
		}
		for p, n := range open {
			if n > 0 {
				ev.Leaked += fmt.Sprintf("%s(+%d,last %s) ", p, n, lastLabels[p])
			}
		}
		ev.Leaked += fmt.Sprint(gfs.OpenNames())
	}
	if k < 0 {
		ev.Mutated = len(sandbox.Diff(before, sandbox.Take(e.base, e.root), "")) > 0
	}
	return ev, nil
}

func cancelSweep(a *hk.Args) error {
	w, err := hk.NewWriter(a.Out)
	if err != nil {
		return err
	}
	defer w.Close()
	rng := rand.New(rand.NewSource(a.Seed))
	thorough := a.Tier == "thorough"
	for _, backend := range []string{"mem", "os"} {
		for _, ep := range entryPoints() {
			for _, size := range [][2]int{{10, 10}, {20, 20}} { // 100 and 400 entries: the bound must not grow with the work
				// uncancelled run: how many backend calls?
				dry, err := oneCancel(ep, backend, a.Dir, size[0], size[1], 1<<30)
				if err != nil {
					return err
				}
				total := dry.Total
				// a context that is done before the call: every flavour of "done"
				for fl := 0; fl < ctxFlavours; fl++ {
					pre, err := oneCancel(ep, backend, a.Dir, size[0], size[1], -1, fl)
					if err != nil {
						return err
					}
					pre.Total = total
					w.Write(pre)
				}
				positions := 6
				if thorough {
					positions = 60
				}
				if backend == "os" && !thorough {
					positions = 3
				}
				seen := map[int]bool{}
				for i := 0; i < positions && total > 0; i++ {
					k := 1 + rng.Intn(total)
					if i == 0 {
						k = 1
					}
					if i == 1 {
						k = total/2 + 1
					}
					if seen[k] {
						continue
					}
					seen[k] = true
					ev, err := oneCancel(ep, backend, a.Dir, size[0], size[1], k)
					if err != nil {
						return err
					}
					ev.Total = total
					w.Write(ev)
				}
				w.Flush()
			}
		}
	}
	return nil
}
