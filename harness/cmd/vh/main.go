// Command vh is the conformance harness binding the TLA+ specifications in /verif/specs to
// the real code of github.com/ARM-software/golang-utils (built from /repo's working tree).
package main

import (
	"verifharness/internal/hk"
	_ "verifharness/props/c01"
	_ "verifharness/props/c02"
	_ "verifharness/props/c03"
	_ "verifharness/props/c04"
	_ "verifharness/props/c05"
	_ "verifharness/props/c06"
	_ "verifharness/props/c07"
	_ "verifharness/props/c08"
	_ "verifharness/props/c09"
	_ "verifharness/props/c10"
	_ "verifharness/props/c11"
	_ "verifharness/props/c12"
	_ "verifharness/props/c13"
	_ "verifharness/props/c14"
	_ "verifharness/props/c15"
	_ "verifharness/props/c16"
	_ "verifharness/props/c17"
	_ "verifharness/props/c18"
	_ "verifharness/props/c19"
	_ "verifharness/props/c20"
)

func main() { hk.Main() }
